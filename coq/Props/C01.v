(* Props/C01.v — property C01: any-predecessor (Pregel) runs follow lock-step superstep semantics and
   terminate; a graph used as a node behaves like the same graph alone; a chain is sequential composition.
   Only statements, each closed by [exact]; all are about the definitions of Model/Graph.v and Model/Chain.v
   that Corr/C01.v evaluates (tree_run = run = run_nest = run_flat / iterate / step / calc_next ...).

   Vocabulary (Proofs/Pregel*.v):
     pregel_graph g        g is compiled in any-predecessor mode with the batch task manager
     receives n out t      t is a data successor of n or is chosen by one of n's branches for output [out]
     sent g outs t         the (sender, value) pairs routed to t by the completed tasks [outs] of one step
     collect l             a channel after the reports l (keyed by sender, ascending; a later report wins)
     reachable p g x s k ls   ls is the loop state of a fresh run of g on x after k continuing supersteps
     pregel_inv ls         channels all empty, nothing running, frontier without duplicates and without END *)
From Coq Require Import Permutation.
From Eino Require Import Base.Util Model.Graph Model.Chain Model.ChainSpec Model.ChainCompile Model.PregelOpts Model.PregelHyps Proofs.Graph
  Proofs.PregelBase Proofs.Pregel Proofs.PregelRun Proofs.PregelNest Proofs.PregelTop
  Proofs.PregelChainLower Proofs.PregelChain Proofs.PregelOrder Proofs.PregelChainCompile Proofs.PregelOpts Proofs.PregelHyps Proofs.PregelStream.
From Eino Require Model.ImpGenLib Model.CalcBranchSpec Model.ChainGenLib Model.ChainLowerSpec Model.ChainLowerInst Proofs.CalcBranchModel Proofs.ChainLowerModel Proofs.ChainLowerReject.
From Eino Require Model.ResolveGenLib Model.ResolveSpec Proofs.ResolveModel Model.NextSpec Proofs.C01NextModel.
Open Scope N_scope.

(* ---------- default step limit = number of nodes + 10 (graph.compile) ---------- *)
Theorem default_limit :
  forall g, g_max g = 0%nat -> max_steps g = (List.length (real_nodes g) + 10)%nat.
Proof. exact max_steps_default. Qed.
Print Assumptions default_limit.

(* ---------- pregel_routing: who receives a completed task's output ---------- *)
(* one completed task: exactly one write per data successor and per branch choice, carrying the output;
   channels are untouched (no skip bookkeeping in this mode); branches may only choose declared end nodes *)
Theorem pregel_routing :
  forall (V : Type) (ops : vops V) g n out cs cs' ws ds,
    g_mode g = Pregel ->
    resolve_one V ops g n out cs = Ok (cs', ws, ds) ->
    cs' = cs /\ branches_legal V ops n out /\
    (forall t s v, In (t, (s, v)) ws <->
                   (receives V ops n out t /\ s = n_key n /\ v = edge_value V ops n t out)).
Proof. exact resolve_one_routing. Qed.
Print Assumptions pregel_routing.

(* all completed tasks of a step: t is sent (s, v) iff task s completed with some output, t receives it,
   and v is that output; the channel of t then holds exactly one value per sender *)
Theorem pregel_routing_delivery :
  forall (V : Type) (ops : vops V) g outs t s v,
    data_branches g -> outs_legal V ops g outs -> NoDup (akeys outs) ->
    (In (s, v) (sent V ops g outs t) <->
     exists n out, In (s, out) outs /\ find_node g s = Some n /\ receives V ops n out t
                   /\ v = edge_value V ops n t out) /\
    (alookup s (collect (sent V ops g outs t)) = Some v <-> In (s, v) (sent V ops g outs t)).
Proof.
  exact (fun V ops g outs t s v Hdb Hl Hnd =>
           conj (in_sent_wf V ops g outs t s v Hdb Hl Hnd) (chan_holds_one_per_sender V ops g outs t s v Hnd)).
Qed.
Print Assumptions pregel_routing_delivery.

(* ---------- pregel_frontier ---------- *)
(* every reachable loop state satisfies the invariant, and has executed exactly k supersteps *)
Theorem pregel_reachable_invariant :
  forall V St ops exec sub sched p g x s k ls,
    pregel_graph g -> sub_fail_nonempty V St sub ->
    reachable V St ops exec sub sched p g x s k ls ->
    pregel_inv V St ls /\ ls_step V St ls = k.
Proof. exact reachable_inv. Qed.
Print Assumptions pregel_reachable_invariant.

(* the first frontier is what START routes the input to *)
Theorem pregel_frontier_init :
  forall V St ops p g x s cs ready,
    pregel_graph g ->
    calc_next V ops g (init_chans_v0 V g) [(kSTART, x)] = Ok (cs, ready) ->
    alookup kEND ready = None ->
    pregel_inv V St (init_state V St p cs ready s) /\
    (forall t, In t (akeys ready) <-> sent V ops g [(kSTART, x)] t <> []) /\
    (forall t v, In (t, v) ready ->
       exists m, get_merge V ops (collect (sent V ops g [(kSTART, x)] t)) = Ok m /\ v = pre_node V ops g t m).
Proof. exact pregel_init_frontier. Qed.
Print Assumptions pregel_frontier_init.

(* one superstep from any state satisfying the invariant (hence from every reachable state): all tasks of the
   frontier run and complete, the tasks of the next step are exactly the nodes that were sent at least one
   value, each once, each on the merge of exactly those values *)
Theorem pregel_frontier :
  forall V St ops exec sub sched p g (ls ls' : loopstate V St) results sublog s',
    pregel_graph g -> sub_fail_nonempty V St sub -> pregel_inv V St ls ->
    submit V St ops exec sub p g (ls_next V St ls) (ls_st V St ls) = (results, sublog, s') ->
    step V St ops exec sub sched p g ls = Continue ls' ->
    let outs := task_outputs V results in
    pregel_inv V St ls' /\
    ls_step V St ls' = S (ls_step V St ls) /\
    akeys outs = akeys (ls_next V St ls) /\
    ls_log V St ls' = ls_log V St ls ++ [step_entry V p (ls_next V St ls)] ++ sublog /\
    (forall t, In t (akeys (ls_next V St ls')) <-> sent V ops g outs t <> []) /\
    (forall t v, In (t, v) (ls_next V St ls') ->
       exists m, get_merge V ops (collect (sent V ops g outs t)) = Ok m /\ v = pre_node V ops g t m) /\
    outs_legal V ops g outs.
Proof. exact pregel_step_frontier. Qed.
Print Assumptions pregel_frontier.

(* ---------- pregel_consumed_once ---------- *)
Theorem pregel_channel_cleared_on_read :
  forall (V : Type) (ops : vops V) (c c' : chan V) ov,
    pregel_get V ops c = Ok (ov, c') ->
    c_vals V c' = [] /\
    match ov with
    | Some v => c_vals V c <> [] /\ get_merge V ops (c_vals V c) = Ok v
    | None => c_vals V c = []
    end.
Proof.
  exact (fun V ops c c' ov H =>
    conj (pregel_get_empties V ops c c' ov H)
         (match ov as o return pregel_get V ops c = Ok (o, c') -> match o with
                                | Some v => c_vals V c <> [] /\ get_merge V ops (c_vals V c) = Ok v
                                | None => c_vals V c = [] end with
          | Some v => fun H => pregel_get_some V ops c c' v H
          | None => fun H => proj1 (pregel_get_none V ops c c' H)
          end H)).
Qed.
Print Assumptions pregel_channel_cleared_on_read.

(* a value sent in step k is part of the input of exactly one task, of step k+1, and no channel keeps anything *)
Theorem pregel_consumed_once :
  forall V St ops exec sub sched p g (ls ls' : loopstate V St) results sublog s',
    pregel_graph g -> sub_fail_nonempty V St sub -> pregel_inv V St ls ->
    submit V St ops exec sub p g (ls_next V St ls) (ls_st V St ls) = (results, sublog, s') ->
    step V St ops exec sub sched p g ls = Continue ls' ->
    let outs := task_outputs V results in
    chans_empty V (ls_chans V St ls') /\
    forall t s v, In (s, v) (sent V ops g outs t) ->
      (exists x, In (t, x) (ls_next V St ls') /\ forall y, In (t, y) (ls_next V St ls') -> y = x) /\
      alookup s (collect (sent V ops g outs t)) = Some v.
Proof. exact pregel_step_consumed_once. Qed.
Print Assumptions pregel_consumed_once.

(* ---------- the superstep does not depend on the completion order of its tasks ---------- *)
(* calculateNextTasks gives the same channels and the same next frontier for every order of the completed tasks
   (Go collects them in completion order and iterates maps in random order; the model uses ascending keys) *)
Theorem pregel_order_independent :
  forall (V : Type) (ops : vops V) g (cs : chans V) outs outs',
    g_mode g = Pregel -> chans_empty V cs ->
    NoDup (akeys outs) -> outs_legal V ops g outs -> Permutation outs outs' ->
    calc_next V ops g cs outs = calc_next V ops g cs outs'.
Proof. exact calc_next_order_independent. Qed.
Print Assumptions pregel_order_independent.

(* ---------- pregel_end_first ---------- *)
Theorem pregel_end_first :
  forall V St ops exec sub sched p g x s v l s',
    pregel_graph g -> sub_fail_nonempty V St sub ->
    run_flat V St ops exec sub sched p g x s = (Done v l, s') ->
    (l = [run_marker V p] /\ s' = s /\ sent V ops g [(kSTART, x)] kEND <> [] /\
     exists m, get_merge V ops (collect (sent V ops g [(kSTART, x)] kEND)) = Ok m /\ v = pre_node V ops g kEND m)
    \/
    (exists n ls results sublog,
       reachable V St ops exec sub sched p g x s n ls /\
       submit V St ops exec sub p g (ls_next V St ls) (ls_st V St ls) = (results, sublog, s') /\
       sent V ops g (task_outputs V results) kEND <> [] /\
       (exists m, get_merge V ops (collect (sent V ops g (task_outputs V results) kEND)) = Ok m
                  /\ v = pre_node V ops g kEND m) /\
       l = ls_log V St ls ++ [step_entry V p (ls_next V St ls)] ++ sublog /\
       sent V ops g [(kSTART, x)] kEND = [] /\
       (forall m lsm rm sm stm, (m < n)%nat -> reachable V St ops exec sub sched p g x s m lsm ->
          submit V St ops exec sub p g (ls_next V St lsm) (ls_st V St lsm) = (rm, sm, stm) ->
          sent V ops g (task_outputs V rm) kEND = [])).
Proof. exact pregel_end_first_run. Qed.
Print Assumptions pregel_end_first.

(* ---------- pregel_bounded ---------- *)
(* every run of every Pregel graph (cyclic ones included) is: a failure to route the input, an immediate
   result, or k <= max_steps continuing supersteps followed by a step that finishes with a result, a node
   error, the max-steps error (exactly at step max_steps), "no tasks" or an engine error (illegal branch
   choice, unknown target, failed fan-in merge). The model's loop fuel is never exhausted. *)
Theorem pregel_bounded :
  forall V St ops exec sub sched p g x s,
    pregel_graph g -> sub_fail_nonempty V St sub ->
    run_shape V St ops exec sub sched p g x s (run_flat V St ops exec sub sched p g x s).
Proof. exact pregel_run_shape. Qed.
Print Assumptions pregel_bounded.

(* as observed: the execution log of a run of a Pregel graph, at any nesting depth in any forest, has at most
   max_steps supersteps of that graph instance (plus the run marker) *)
Theorem pregel_bounded_log :
  forall V St ops exec sched f F p g x s,
    pregel_graph g ->
    (own_entries V p (outcome_log V (fst (run_nest V St ops exec sched (S f) F p g x s))) <= S (max_steps g))%nat.
Proof. exact pregel_nest_log_bounded. Qed.
Print Assumptions pregel_bounded_log.

(* the bound is exact: a run that survives max_steps supersteps fails with the max-steps error right there,
   having logged exactly max_steps supersteps (the model's loop fuel IS the implementation's bound) *)
Theorem pregel_limit_exact :
  forall V St ops exec sched f F p g x s ls,
    pregel_graph g ->
    reachable V St ops exec (nest_sub V St ops exec sched f F) sched p g x s (max_steps g) ls ->
    run_nest V St ops exec sched (S f) F p g x s = (Fail [mkerr eMaxSteps] (ls_log V St ls), ls_st V St ls) /\
    own_entries V p (ls_log V St ls) = S (max_steps g).
Proof. exact pregel_nest_limit_exact. Qed.
Print Assumptions pregel_limit_exact.

Theorem pregel_bounded_nested :
  forall V St ops exec sched f F p g x s,
    pregel_graph g ->
    run_shape V St ops exec (nest_sub V St ops exec sched f F) sched p g x s
              (run_nest V St ops exec sched (S f) F p g x s).
Proof. exact pregel_nest_run_shape. Qed.
Print Assumptions pregel_bounded_nested.

(* the frontier and END theorems for a graph anywhere in a forest (sub-graph nodes run the nested engine):
   no hypothesis about sub-graphs is left *)
Theorem pregel_frontier_nested :
  forall V St ops exec sched f F p g (ls ls' : loopstate V St) results sublog s',
    pregel_graph g -> pregel_inv V St ls ->
    submit V St ops exec (nest_sub V St ops exec sched f F) p g (ls_next V St ls) (ls_st V St ls) = (results, sublog, s') ->
    step V St ops exec (nest_sub V St ops exec sched f F) sched p g ls = Continue ls' ->
    let outs := task_outputs V results in
    pregel_inv V St ls' /\
    ls_step V St ls' = S (ls_step V St ls) /\
    akeys outs = akeys (ls_next V St ls) /\
    ls_log V St ls' = ls_log V St ls ++ [step_entry V p (ls_next V St ls)] ++ sublog /\
    (forall t, In t (akeys (ls_next V St ls')) <-> sent V ops g outs t <> []) /\
    (forall t v, In (t, v) (ls_next V St ls') ->
       exists m, get_merge V ops (collect (sent V ops g outs t)) = Ok m /\ v = pre_node V ops g t m) /\
    outs_legal V ops g outs.
Proof. exact pregel_nest_frontier. Qed.
Print Assumptions pregel_frontier_nested.

Theorem pregel_end_first_nested :
  forall V St ops exec sched f F p g x s v l s',
    pregel_graph g ->
    run_nest V St ops exec sched (S f) F p g x s = (Done v l, s') ->
    (l = [run_marker V p] /\ s' = s /\ sent V ops g [(kSTART, x)] kEND <> [] /\
     exists m, get_merge V ops (collect (sent V ops g [(kSTART, x)] kEND)) = Ok m /\ v = pre_node V ops g kEND m)
    \/
    (exists n ls results sublog,
       reachable V St ops exec (nest_sub V St ops exec sched f F) sched p g x s n ls /\
       submit V St ops exec (nest_sub V St ops exec sched f F) p g (ls_next V St ls) (ls_st V St ls) = (results, sublog, s') /\
       sent V ops g (task_outputs V results) kEND <> [] /\
       (exists m, get_merge V ops (collect (sent V ops g (task_outputs V results) kEND)) = Ok m
                  /\ v = pre_node V ops g kEND m) /\
       l = ls_log V St ls ++ [step_entry V p (ls_next V St ls)] ++ sublog /\
       sent V ops g [(kSTART, x)] kEND = [] /\
       (forall m lsm rm sm stm, (m < n)%nat ->
          reachable V St ops exec (nest_sub V St ops exec sched f F) sched p g x s m lsm ->
          submit V St ops exec (nest_sub V St ops exec sched f F) p g (ls_next V St lsm) (ls_st V St lsm) = (rm, sm, stm) ->
          sent V ops g (task_outputs V rm) kEND = [])).
Proof. exact pregel_nest_end_first. Qed.
Print Assumptions pregel_end_first_nested.

(* ---------- the call option WithRuntimeMaxSteps (Model/PregelOpts.v; applied by Corr/C01.v) ---------- *)
(* called with the option n > 0 the graph shows at most n supersteps, whatever limit it was compiled with *)
Theorem runtime_limit_bounds_root :
  forall V St (ops : vops V) exec sched f F p g x s n,
    pregel_graph g -> (0 < n)%nat ->
    (own_entries V p (outcome_log V (fst (run_nest V St ops exec sched (S f) F p (rt_graph n g) x s))) <= S n)%nat.
Proof. exact runtime_limit_bounds_lemma. Qed.
Print Assumptions runtime_limit_bounds_root.

(* the option reaches the called graph only: every nested graph of the forest keeps its own limit; and without
   the option nothing changes *)
Theorem runtime_limit_root_only :
  forall n ds,
    (forall i, nth_error (lower_forest (with_rtmax n ds)) (S i) = nth_error (lower_forest ds) (S i)) /\
    with_rtmax 0 ds = ds.
Proof. exact (fun n ds => conj (lower_with_rtmax_tail n ds) (with_rtmax_zero ds)). Qed.
Print Assumptions runtime_limit_root_only.

(* ---------- subgraph_is_function ---------- *)
(* a graph run at a node path is the same graph run alone at the root (its lambdas being those found at that
   path); only the recorded paths differ, by the prefix. Every mode, every nesting depth. *)
Theorem subgraph_run_is_run_alone :
  forall V St ops exec sched f F p0 g x s,
    run_nest V St ops exec sched f F p0 g x s =
    reloc V St p0 (run_nest V St ops (exec_at V St exec p0) sched f F [] g x s).
Proof. exact run_nest_at_path. Qed.
Print Assumptions subgraph_run_is_run_alone.

(* a sub-graph node is the function [run sub]: its output is the sub-graph's result (under the node's output
   key), its failure the sub-graph's failure prefixed by the node key *)
Theorem subgraph_is_function :
  forall V St ops exec sched f F p n i g' v s,
    n_kind n = KSub i -> nth_error F i = Some g' ->
    run_task V St ops exec (nest_sub V St ops exec sched f F) p n v s =
    match run_nest V St ops (exec_at V St exec (p ++ [n_key n])) sched f F [] g' v s with
    | (Done r l, s') => (TOk (wrap_out V ops n r), reloc_log V (p ++ [n_key n]) l, s')
    | (Fail es l, s') => (TErr (map (err_prefix (n_key n)) es), reloc_log V (p ++ [n_key n]) l, s')
    end.
Proof. exact subgraph_node_is_run. Qed.
Print Assumptions subgraph_is_function.

(* nesting fuel is immaterial for forests whose sub-graph nodes refer to larger indices *)
Theorem subgraph_fuel_independent :
  forall V St ops exec sched F,
    well_nested F ->
    forall f1 f2 j g p x s,
      nth_error F j = Some g ->
      (List.length F - j <= f1)%nat -> (List.length F - j <= f2)%nat ->
      run_nest V St ops exec sched f1 F p g x s = run_nest V St ops exec sched f2 F p g x s.
Proof. exact run_nest_fuel_indep. Qed.
Print Assumptions subgraph_fuel_independent.

(* ---------- chain_lowering_correct ---------- *)
(* a well-formed chain (non-empty; distinct node keys other than START/END; a Parallel / Branch stage is
   non-empty and follows START or a single node — everything else is rejected by Chain.compile) lowers to an
   any-predecessor graph whose run IS the sequential meaning [eval_chain] (Model/ChainSpec.v): same result,
   same failures, same execution log, same final state; node, parallel and branch stages *)
Theorem chain_lowering_correct :
  forall V St (ops : vops V) exec sub sched sts max,
    sub_fail_nonempty V St sub -> chain_wf sts ->
    exists g, chain_lower sts max = Some g /\ pregel_graph g /\
      forall p x s, run_flat V St ops exec sub sched p g x s = eval_chain V St ops exec sub p sts max x s.
Proof. exact chain_lowering_correct_lemma. Qed.
Print Assumptions chain_lowering_correct.

(* [chain_compiles] (Model/ChainCompile.v) is the decidable acceptance rule of Chain.Compile that Corr/C01.v
   compares with what Compile did on every case (malformed chains included): at least one stage, a Parallel
   with >= 2 nodes and distinct output keys, a Branch with >= 2 nodes, Parallel / Branch only after START or a
   single node, distinct node keys. An accepted chain satisfies the hypothesis of chain_lowering_correct *)
Theorem chain_compiles_wf : forall sts, chain_compiles sts = true -> chain_wf sts.
Proof. exact chain_compiles_wf_lemma. Qed.
Print Assumptions chain_compiles_wf.

(* hence: every chain Compile accepts runs as the sequential meaning (decidable hypothesis only) *)
Theorem chain_lowering_correct_dec :
  forall V St (ops : vops V) exec sub sched sts max,
    sub_fail_nonempty V St sub -> chain_compiles sts = true ->
    exists g, chain_lower sts max = Some g /\ pregel_graph g /\
      forall p x s, run_flat V St ops exec sub sched p g x s = eval_chain V St ops exec sub p sts max x s.
Proof. exact chain_lowering_correct_dec_lemma. Qed.
Print Assumptions chain_lowering_correct_dec.

(* the Parallel stages of an accepted chain have >= 2 nodes with pairwise distinct output keys: the premise of
   parallel_merged_by_key ("parallel stages merged by key") *)
Theorem chain_compiles_parallel_keys : forall sts ns,
  chain_compiles sts = true -> In (SPar ns) sts ->
  exists ks, par_outkeys ns = Some ks /\ NoDup ks /\ (2 <= List.length ns)%nat.
Proof. exact chain_compiles_par_keys. Qed.
Print Assumptions chain_compiles_parallel_keys.

(* the imperative lowering (append node, AddEdge/AddBranch from the previous nodes, END edges) builds the
   layered graph in which every node of a stage points to the next stage *)
Theorem chain_lower_is_layered :
  forall sts max, chain_wf sts -> chain_lower sts max = Some (chain_graph sts max).
Proof. exact chain_lower_graph. Qed.
Print Assumptions chain_lower_is_layered.

(* the meaning is function composition: a node stage applies its node to the value and hands the output to
   the rest of the chain; a failing node fails the chain *)
Theorem chain_is_composition :
  forall V St (ops : vops V) exec sub p n rest b k v s lg o l s',
    run_task V St ops exec sub p (node_of n) v s = (TOk o, l, s') ->
    eval_stages V St ops exec sub p (SNode n :: rest) (S b) [(k, v)] s lg =
    eval_stages V St ops exec sub p rest b [(sn_key n, o)] s' (lg ++ [step_entry V p [(sn_key n, v)]] ++ l).
Proof. exact eval_node_stage_ok. Qed.
Print Assumptions chain_is_composition.

Theorem chain_node_failure :
  forall V St (ops : vops V) exec sub p n rest b k v s lg e es l s',
    run_task V St ops exec sub p (node_of n) v s = (TErr (e :: es), l, s') ->
    eval_stages V St ops exec sub p (SNode n :: rest) (S b) [(k, v)] s lg =
    (Fail (e :: es) (lg ++ [step_entry V p [(sn_key n, v)]] ++ l), s').
Proof. exact eval_node_stage_fail. Qed.
Print Assumptions chain_node_failure.

(* "parallel stages merged by key", for the harness values: the fan-in of the maps {k_i : v_i} with pairwise
   distinct keys is the map of all (k_i, v_i) in key order; a key occurring twice is the duplicated-key error *)
Theorem parallel_merged_by_key :
  forall (xs : list (key * (N * value))),
    NoDup (map (fun x => fst (snd x)) xs) ->
    tree_merge (map (fun x => (fst x, VMap [snd x])) xs) = Ok (VMap (collect (map snd xs))).
Proof. exact tree_merge_by_key. Qed.
Print Assumptions parallel_merged_by_key.

Theorem parallel_duplicate_key :
  forall (xs ys : list (key * (N * value))) s1 s2 k v1 v2,
    NoDup (map (fun x => fst (snd x)) xs) -> ~ In k (map (fun x => fst (snd x)) xs) ->
    tree_merge (map (fun x => (fst x, VMap [snd x])) (xs ++ (s1, (k, v1)) :: (s2, (k, v2)) :: ys)) = Err eDupKey.
Proof. exact tree_merge_dup_key. Qed.
Print Assumptions parallel_duplicate_key.

(* ---------- what the correspondence evaluates ---------- *)
(* the model side of Corr/C01.v is the nested engine on the root graph: an instance of run_nest / run_flat,
   the functions all theorems above are about *)
Theorem corr_model_is_engine :
  forall fails g F x,
    tree_run fails (g :: F) x =
    fst (run_nest value unit tree_ops (tree_exec fails) sched_first (S (List.length (g :: F))) (g :: F) [] g x tt).
Proof. exact tree_run_is_run_nest. Qed.
Print Assumptions corr_model_is_engine.

(* for a case whose root is a well-formed chain, the two things Corr/C01.v compares the observation with (the
   engine model on the lowered forest, and eval_chain with the nested engine for sub-graph nodes) are equal *)
Theorem corr_chain_ties_agree :
  forall fails sts max ds x,
    chain_wf sts ->
    let F := lower_forest (GChain sts max :: ds) in
    tree_run fails F x =
    fst (eval_chain value unit tree_ops (tree_exec fails)
                    (nest_sub value unit tree_ops (tree_exec fails) sched_first (List.length F) F)
                    [] sts max x tt).
Proof. exact chain_case_run_is_eval. Qed.
Print Assumptions corr_chain_ties_agree.

(* ---------- the stream form of a run (Proofs/PregelStream.v) ---------- *)
(* The engine is parametric in what flows and in the operations on it. For two instances related by an
   abstraction function phi (V1 = what flows in stream mode, V2 = the values, phi = concatenation) such that sizes
   (what conditions read), output-key wrapping, the field-mapping normalisation and the node bodies commute with
   phi, and such that a fan-in that succeeds on the values succeeds on the streams with the corresponding result
   (a failing value fan-in has a class in merr; a stream fan-in may succeed where the value fan-in fails:
   duplicated keys, F-C04): for EVERY forest of any-predecessor graphs, every nesting, every input and state,
   either the value run fails with a fan-in error (somewhere, possibly next to other failures) or the stream run
   IS the value run — result under phi, same failures, same execution log (inputs under phi), same final state.
   The chunk-level laws themselves (concatenation vs merge / copy / key wrappers of eino's streams) are C04's
   theorems concat_merge, concat_copy, concat_withKey; Corr/C01.v compares the Stream / Transform entries with
   the value model under exactly this carve-out ([stream_incomparable] = [diverged] with merr = dup / type). *)
Theorem stream_form_agrees :
  forall (V1 V2 St : Type) (ops1 : vops V1) (ops2 : vops V2) (phi : V1 -> V2) (merr : N -> bool),
    (forall a, v_size ops1 a = v_size ops2 (phi a)) ->
    (forall k a, phi (v_wrap ops1 k a) = v_wrap ops2 k (phi a)) ->
    (forall a, phi (v_norm ops1 a) = v_norm ops2 (phi a)) ->
    phi (v_zero ops1) = v_zero ops2 ->
    (forall l : list (key * V1),
       match v_merge ops2 (amap phi l) with
       | Ok b => exists a, v_merge ops1 l = Ok a /\ phi a = b
       | Err e => merr e = true
       | Panic => False
       end) ->
    forall (exec1 : St -> path -> V1 -> res V1 * St) (exec2 : St -> path -> V2 -> res V2 * St) sched,
      (forall s p a, exec2 s p (phi a) = (rvmap V1 V2 phi (fst (exec1 s p a)), snd (exec1 s p a))) ->
      forall fuel F, (forall g, In g F -> pregel_graph g) ->
      forall p g a s, pregel_graph g ->
        let r2 := run_nest V2 St ops2 exec2 sched fuel F p g (phi a) s in
        let r1 := run_nest V1 St ops1 exec1 sched fuel F p g a s in
        diverged V2 merr (fst r2) \/ (omap V1 V2 phi (fst r1) = fst r2 /\ snd r1 = snd r2).
Proof. exact run_nest_stream_sim. Qed.
Print Assumptions stream_form_agrees.

(* an instance (the hypotheses are satisfiable, with the harness lambdas): the engine whose fan-in does NOT check
   for duplicated keys (a later sender overwrites, non-maps are ignored — what distinguishes a stream fan-in at
   the level of the engine) runs every forest of any-predecessor graphs exactly as the checked engine that
   Corr/C01.v evaluates, unless the checked run fails at a fan-in *)
Theorem unchecked_fanin_engine_agrees :
  forall fails fuel F p g x,
    (forall g', In g' F -> pregel_graph g') -> pregel_graph g ->
    let r2 := run_nest value unit tree_ops (tree_exec fails) sched_first fuel F p g x tt in
    let r1 := run_nest value unit lenient_ops (tree_exec fails) sched_first fuel F p g x tt in
    diverged value tree_merr (fst r2) \/ (omap value value (fun v => v) (fst r1) = fst r2 /\ snd r1 = snd r2).
Proof. exact lenient_engine_agrees. Qed.
Print Assumptions unchecked_fanin_engine_agrees.

(* the hypotheses of the theorems above in decidable form ([hyps_ok], Model/PregelHyps.v), which Corr/C01.v
   evaluates on the lowered forest of every compared case: they imply the propositional ones *)
Theorem corr_hypotheses_hold :
  forall F, hyps_ok F = true ->
    well_nested F /\
    forall g, In g F -> is_pregel_mode g = true -> pregel_graph g /\ unique_keys g /\ data_branches g.
Proof. exact hyps_ok_sound. Qed.
Print Assumptions corr_hypotheses_hold.

(* ================= non-vacuity ================= *)
(* a cyclic graph: START -> 2 -> 3, 3 branches back to 2 or to END depending on the size of its output *)
Definition ex_node (k : key) (ds : list key) (bs : list branch) : node :=
  {| n_key := k; n_kind := KLambda; n_outkey := None; n_dsucc := ds; n_csucc := ds; n_dmap := []; n_branches := bs |}.
Definition ex_cycle (max : nat) : graph :=
  {| g_nodes := [ex_node kSTART [2] []; ex_node 2 [3] [];
                 ex_node 3 [] [{| b_ends := [2; kEND]; b_nodata := false; b_table := [[2]; [kEND]; [2]] |}]];
     g_mode := Pregel; g_eager := false; g_max := max |}.

Example ex_pregel_graph : pregel_graph (ex_cycle 0) /\ data_branches (ex_cycle 0).
Proof.
  split; [split; reflexivity|]. intros n b Hn Hb. simpl in Hn.
  destruct Hn as [<-|[<-|[<-|[]]]]; simpl in Hb; try contradiction. destruct Hb as [<-|[]]. reflexivity.
Qed.

Example ex_hyps_ok : hyps_ok [ex_cycle 0] = true.
Proof. vm_compute. reflexivity. Qed.

(* the loop is taken twice, then END: 6 supersteps *)
Example ex_cycle_done :
  exists v l, tree_run [] [ex_cycle 0] (VAtom 1) = Done v l /\ own_entries value [] l = 7%nat.
Proof. eexists. eexists. split; vm_compute; reflexivity. Qed.

(* with a limit of 3 the same run fails with the max-steps error after exactly 3 supersteps *)
Example ex_cycle_limit :
  exists l, tree_run [] [ex_cycle 3] (VAtom 1) = Fail [mkerr eMaxSteps] l /\ own_entries value [] l = 4%nat.
Proof. eexists. split; vm_compute; reflexivity. Qed.

(* compiled without a limit (default 12) but called with WithRuntimeMaxSteps 3: max-steps after exactly 3 *)
Example ex_cycle_runtime_limit :
  exists l, tree_run [] (lower_forest (with_rtmax 3 [GGraph (ex_cycle 0)])) (VAtom 1) = Fail [mkerr eMaxSteps] l
            /\ own_entries value [] l = 4%nat.
Proof. eexists. split; vm_compute; reflexivity. Qed.

(* both disjuncts of stream_form_agrees occur: the cyclic graph runs alike with the unchecked fan-in; a fan-in
   of two pass-through nodes carrying the same key diverges (checked: duplicated key, unchecked: a result) *)
Definition ex_dup : graph :=
  {| g_nodes := [ex_node kSTART [2; 3] [];
                 {| n_key := 2; n_kind := KPass; n_outkey := None; n_dsucc := [kEND]; n_csucc := [kEND]; n_dmap := []; n_branches := [] |};
                 {| n_key := 3; n_kind := KPass; n_outkey := None; n_dsucc := [kEND]; n_csucc := [kEND]; n_dmap := []; n_branches := [] |}];
     g_mode := Pregel; g_eager := false; g_max := 0 |}.
Example ex_stream_both_cases :
  (fst (run_nest value unit lenient_ops (tree_exec []) sched_first 2 [ex_cycle 0] [] (ex_cycle 0) (VAtom 1) tt)
   = tree_run [] [ex_cycle 0] (VAtom 1)) /\
  diverged value tree_merr (tree_run [] [ex_dup] (VMap [(900, VAtom 1)])) /\
  (exists v l, fst (run_nest value unit lenient_ops (tree_exec []) sched_first 2 [ex_dup] [] ex_dup (VMap [(900, VAtom 1)]) tt) = Done v l).
Proof.
  split; [vm_compute; reflexivity|]. split; [vm_compute; reflexivity|].
  eexists. eexists. vm_compute. reflexivity.
Qed.

(* a reachable state and a continuing step exist (hypotheses of pregel_frontier / pregel_consumed_once) *)
Example ex_reachable_continue :
  exists ls ls', reachable value unit tree_ops (tree_exec []) (fun _ _ _ s => (Fail [mkerr eUnknownNode] [], s))
                   sched_first [] (ex_cycle 0) (VAtom 1) tt 1 ls /\
    step value unit tree_ops (tree_exec []) (fun _ _ _ s => (Fail [mkerr eUnknownNode] [], s)) sched_first
         [] (ex_cycle 0) ls = Continue ls'.
Proof.
  eexists. eexists. split.
  - eexists. eexists. split; [vm_compute; reflexivity|]. split; [vm_compute; reflexivity|].
    econstructor; [vm_compute; reflexivity|constructor].
  - vm_compute. reflexivity.
Qed.

(* a chain: node 2, then parallel {3 -> "a"(10), 4 -> "b"(11)}, then node 5, then a branch over {6, 7}, then node 8 *)
Definition ex_sn (k : key) (ok : option N) : snode := {| sn_key := k; sn_kind := KLambda; sn_outkey := ok |}.
Definition ex_chain : list stage :=
  [SNode (ex_sn 2 None); SPar [ex_sn 3 (Some 10); ex_sn 4 (Some 11)]; SNode (ex_sn 5 None);
   SBranch [ex_sn 6 None; ex_sn 7 None] [[6]; [7]; [6; 7]]; SNode (ex_sn 8 None)].

Example ex_chain_wf : chain_wf ex_chain.
Proof.
  split; [discriminate|]. split; [|reflexivity].
  repeat (constructor; [simpl; intros H; repeat (destruct H as [H|H]; [discriminate|]); exact H|]). constructor.
Qed.

(* the example chain is accepted by the decidable rule; one broken rule each is rejected *)
Example ex_chain_compiles :
  chain_compiles ex_chain = true /\
  chain_compiles [] = false /\
  chain_compiles [SPar [ex_sn 3 (Some 10)]] = false /\
  chain_compiles [SPar [ex_sn 3 (Some 10); ex_sn 4 (Some 10)]] = false /\
  chain_compiles [SBranch [ex_sn 6 None] [[6]]] = false /\
  chain_compiles [SPar [ex_sn 3 (Some 10); ex_sn 4 (Some 11)]; SBranch [ex_sn 6 None; ex_sn 7 None] [[6]]] = false /\
  chain_compiles [SNode (ex_sn 2 None); SNode (ex_sn 2 None)] = false.
Proof. repeat split; vm_compute; reflexivity. Qed.

(* it lowers, and the run of the lowered graph (what Corr/C01.v evaluates for a chain case) is the meaning *)
Example ex_chain_runs :
  exists g, chain_lower ex_chain 0 = Some g /\
    tree_run [] [g] (VAtom 1) =
    fst (eval_chain value unit tree_ops (tree_exec []) (fun _ _ _ s => (Fail [mkerr eUnknownNode] [], s))
                    [] ex_chain 0 (VAtom 1) tt) /\
    is_ok (match tree_run [] [g] (VAtom 1) with Done v _ => Ok v | Fail _ _ => Err 0 end) = true /\
    own_entries value [] (outcome_log value (tree_run [] [g] (VAtom 1))) = 6%nat.
Proof.
  eexists. split; [vm_compute; reflexivity|]. split; [vm_compute; reflexivity|].
  split; vm_compute; reflexivity.
Qed.

(* hypotheses of pregel_order_independent: two completed tasks of the cyclic graph, in both orders *)
Example ex_order_hyps :
  let outs := [(2, VMap [(2, VAtom 1)]); (3, VMap [(3, VAtom 1)])] in
  NoDup (akeys outs) /\ outs_legal value tree_ops (ex_cycle 0) outs /\ Permutation outs (rev outs) /\
  chans_empty value (init_chans_v0 value (ex_cycle 0)) /\
  is_ok (calc_next value tree_ops (ex_cycle 0) (init_chans_v0 value (ex_cycle 0)) outs) = true.
Proof.
  cbv zeta. split; [repeat constructor; simpl; intuition discriminate|].
  split.
  - constructor; [|constructor; [|constructor]].
    + eexists. split; [reflexivity|]. intros b [].
    + eexists. split; [reflexivity|]. intros b [<-|[]]. vm_compute. intros x [<-|[]]; simpl; auto.
  - split; [apply Permutation_rev|]. split; [|vm_compute; reflexivity].
    repeat constructor.
Qed.

(* hypothesis of pregel_limit_exact: with limit 3 the cyclic graph has a state reachable in 3 supersteps *)
Example ex_limit_reachable :
  exists ls, reachable value unit tree_ops (tree_exec []) (nest_sub value unit tree_ops (tree_exec []) sched_first 1 [ex_cycle 3])
                       sched_first [] (ex_cycle 3) (VAtom 1) tt (max_steps (ex_cycle 3)) ls.
Proof.
  eexists. eexists. eexists. split; [vm_compute; reflexivity|]. split; [vm_compute; reflexivity|].
  change (max_steps (ex_cycle 3)) with 3%nat.
  econstructor; [vm_compute; reflexivity|]. econstructor; [vm_compute; reflexivity|].
  econstructor; [vm_compute; reflexivity|]. constructor.
Qed.

(* ---------- the code of runner.calculateBranch and of the chain lowering, as functions (round 4) ----------
   Model/CalcBranchSpec.v and Model/ChainLowerSpec.v state compose/graph_run.go:calculateBranch and the lowering
   methods of compose/chain.go as functions of their arguments and of the untranslated code they call; tools/go2v
   regenerates both from the source on every run and Proofs/GenAgreeCalcBranch.v / GenAgreeChainLower.v (proof
   obligations of this property, props/C01.json gen_files) prove the regenerated functions equal to them. The
   theorems below tie them to the engine model. *)

(* calculateBranch on a node of the model, every branch reading the node's output, in any-predecessor mode: it
   is eval_branches followed by report_branch (the first two steps of resolve_one), for every graph, node, output *)
Theorem calculate_branch_code_is_engine :
  forall (V : Type) (ops : vops V) ec g n out isStream cs,
    g_mode g = Pregel ->
    Model.CalcBranchSpec.calculate_branch V branch (chans V) (v_zero ops) ec b_ends (Proofs.CalcBranchModel.no_pre_handler V) (Proofs.CalcBranchModel.model_invoke V ops) (Proofs.CalcBranchModel.model_invoke V ops)
      (fun cs k sk => report_branch V g k sk cs)
      (n_key n) (n_branches n) (n_csucc n) (repeat out (List.length (n_branches n))) isStream cs
    = do ss <- eval_branches V ops n out;
      do cs' <- report_branch V g (n_key n) (snd ss) cs;
      Ok (fst ss, cs').
Proof. exact Proofs.CalcBranchModel.spec_calculate_branch_pregel. Qed.
Print Assumptions calculate_branch_code_is_engine.

(* in every mode: the selected nodes are eval_branches', and the list handed to reportBranch is duplicate-free
   with exactly the elements of eval_branches' skipped list (Go collects it by ranging over a map) *)
Theorem calculate_branch_code_skips_exactly :
  forall (V : Type) (ops : vops V) n out sel sk,
    eval_branches V ops n out = Ok (sel, sk) ->
    sel = Proofs.CalcBranchModel.all_selected V ops (n_branches n) out
    /\ NoDup (Proofs.CalcBranchModel.spec_skipped V ops n out) /\ NoDup sk
    /\ (forall k, In k (Proofs.CalcBranchModel.spec_skipped V ops n out) <-> In k sk).
Proof. exact Proofs.CalcBranchModel.spec_skipped_is_model. Qed.
Print Assumptions calculate_branch_code_skips_exactly.

(* NewChain, the Append* calls of the stages and addEndIfNeeded, run on the model's node lists, build for every
   chain that chain_compiles accepts exactly the graph chain_lower that chain_lowering_correct is about *)
Theorem chain_lowering_code_builds_chain_lower :
  forall auto_key k_empty sts max,
    chain_compiles sts = true ->
    ~ In k_empty (chain_all_keys sts) ->
    Model.ChainLowerInst.li_compile auto_key k_empty sts max = chain_lower sts max.
Proof. exact Proofs.ChainLowerModel.li_compile_is_chain_lower. Qed.
Print Assumptions chain_lowering_code_builds_chain_lower.

(* and it reports an error for every chain chain_compiles rejects: the acceptance rule that the correspondence
   compares with Chain.Compile is the rule the lowering code implements *)
Theorem chain_lowering_code_decides :
  forall auto_key k_empty sts max,
    ~ In k_empty (chain_all_keys sts) ->
    Model.ChainLowerInst.li_compile auto_key k_empty sts max = if chain_compiles sts then chain_lower sts max else None.
Proof. exact Proofs.ChainLowerReject.li_compile_decides. Qed.
Print Assumptions chain_lowering_code_decides.

(* non-vacuity of the rejecting direction: a Parallel of one node, a Branch after a Parallel, a key used twice *)
Example ex_chain_code_rejects :
  let n k := {| sn_key := k; sn_kind := KLambda; sn_outkey := None |} in
  let o k ok := {| sn_key := k; sn_kind := KLambda; sn_outkey := Some ok |} in
  forallb (fun sts => negb (chain_compiles sts)
                      && match Model.ChainLowerInst.li_compile (fun _ _ => 999) 998 sts 0 with None => true | Some _ => false end)
    [ [];
      [SPar [o 2 20]];
      [SPar [o 2 20; o 3 30]; SBranch [n 4; n 5] [[4]]];
      [SNode (n 2); SNode (n 2)];
      [SPar [o 2 20; o 3 20]];
      [SNode (n 1)] ] = true.
Proof. vm_compute. reflexivity. Qed.

(* non-vacuity: the chain code on a 4-stage chain (node, parallel, node, branch) *)
Example ex_chain_code_lowers :
  let sts := [ SNode {| sn_key := 2; sn_kind := KLambda; sn_outkey := None |};
               SPar [ {| sn_key := 3; sn_kind := KLambda; sn_outkey := Some 30 |}; {| sn_key := 4; sn_kind := KPass; sn_outkey := Some 40 |} ];
               SNode {| sn_key := 5; sn_kind := KLambda; sn_outkey := None |};
               SBranch [ {| sn_key := 6; sn_kind := KLambda; sn_outkey := None |}; {| sn_key := 7; sn_kind := KLambda; sn_outkey := None |} ] [[6]; [6; 7]] ] in
  chain_compiles sts = true /\ ~ In 998 (chain_all_keys sts)
  /\ Model.ChainLowerInst.li_compile (fun _ _ => 999) 998 sts 0 = chain_lower sts 0
  /\ Model.ChainGenLib.is_some (chain_lower sts 0) = true.
Proof. cbv zeta. split; [vm_compute; reflexivity|]. split; [vm_compute; intuition discriminate|]. split; vm_compute; reflexivity. Qed.

(* non-vacuity: calculateBranch's specification on a node with two branches and a direct control successor *)
Example ex_calculate_branch_code :
  let n := {| n_key := 2; n_kind := KLambda; n_outkey := None; n_dsucc := [6]; n_csucc := [6]; n_dmap := [];
              n_branches := [ {| b_ends := [3;4;5]; b_nodata := false; b_table := [[3;4]] |};
                              {| b_ends := [4;6]; b_nodata := false; b_table := [[4]] |} ] |} in
  eval_branches value tree_ops n (VAtom 7) = Ok ([3;4;4], [5])
  /\ Proofs.CalcBranchModel.spec_skipped value tree_ops n (VAtom 7) = [5].
Proof. split; vm_compute; reflexivity. Qed.

(* ---------- the code of runner.resolveCompletedTasks and uniqueKeys, as functions (round 5) ----------
   Model/ResolveSpec.v states compose/graph_run.go:resolveCompletedTasks as a function of the completed tasks and of
   the code it calls (copyItem, calculateBranch); tools/go2v (extractor "resolvetasks") regenerates it from the source
   on every run and Proofs/GenAgreeC01Resolve.v (proof obligation of this property) proves the regenerated function equal
   to it (gen_resolveCompletedTasks_agrees) and, composed with the regenerated calculateBranch, equal to the right-hand
   side below (gen_resolve_is_resolve_all).
   For the completed tasks of a superstep of an any-predecessor graph (each given by its node and its output): the Go
   function fails exactly when [resolve_all] of the engine model does, leaves the channels as it does, and the two
   maps it returns are the model's writes (target, (sender, value)) and dependencies (target, sender) grouped by
   target through the insertions the Go code performs. Hence every receiver (the selected nodes and the plain
   successors, once each) is handed exactly the task's output: the copy counts, slice bounds and indices of the Go
   code never read beyond the copies (the model would show the zero value), whatever the numbers of successors,
   branches and selected nodes. copyItem v n = max(1, n) copies of v ([copies]) is what the regenerated copyItem does
   where no value is a stream reader (gen_copyItem_agrees); field mappings do not exist in any-predecessor graphs
   (n_dmap = []). *)
Theorem resolve_code_is_engine :
  forall (V : Type) (ops : vops V) ec g (tasks : list (node * V)) isStream cs,
    g_mode g = Pregel ->
    (forall t, In t tasks -> n_dmap (fst t) = [] /\ find_node g (n_key (fst t)) = Some (fst t)) ->
    Proofs.ResolveModel.spec_on_nodes V ops ec g tasks isStream cs
    = do r <- resolve_all V ops g (map (fun t => (n_key (fst t), snd t)) tasks) cs;
      let '(cs', ws, ds) := r in
      Ok (Proofs.ResolveModel.wmap_of V ws, Proofs.ResolveModel.dmap_of ds, cs').
Proof. exact Proofs.ResolveModel.spec_resolve_is_resolve_all. Qed.
Print Assumptions resolve_code_is_engine.

(* uniqueKeys: writing one value under the receivers made unique is writing it under the receivers as they come
   (a successor selected by several branches, or by a branch and a plain edge, is written once, the same value) *)
Theorem unique_receivers_write_once :
  forall (V : Type) (d : V) (s : key) (v : V) (l : list key) (w : Model.ResolveGenLib.wmap V),
    fold_left (fun w t => Model.ResolveSpec.wm_put t s v w) (Model.ResolveSpec.unique_keys l) w
    = fold_left (fun w t => Model.ResolveSpec.wm_put t s v w) l w.
Proof. exact (fun V d s v l w => Proofs.ResolveModel.put_unique_keys V d s v l w). Qed.
Print Assumptions unique_receivers_write_once.

(* non-vacuity: a node with plain successors 3 and 5 and a branch over {3,4} selecting both: receivers 3, 4, 5 get
   the output once each under the sender's key; dependencies: the control successor 3 and the selected 3, 4 *)
Example ex_resolve_code :
  let n := {| n_key := 2; n_kind := KLambda; n_outkey := None; n_dsucc := [3; 5]; n_csucc := [3]; n_dmap := [];
              n_branches := [ {| b_ends := [3;4]; b_nodata := false; b_table := [[3;4]] |} ] |} in
  let g := {| g_nodes := [n]; g_mode := Pregel; g_eager := false; g_max := 0 |} in
  g_mode g = Pregel /\ n_dmap n = [] /\ find_node g 2 = Some n
  /\ Proofs.ResolveModel.spec_on_nodes value tree_ops (fun _ => 0) g [(n, VAtom 7)] false []
     = Ok ([(3, [(2, VAtom 7)]); (4, [(2, VAtom 7)]); (5, [(2, VAtom 7)])], [(3, [2; 2]); (4, [2])], []).
Proof. cbv zeta. repeat split; vm_compute; reflexivity. Qed.

(* ---------- the code of runner.calculateNextTasks and createTasks, as functions (round 5) ----------
   Model/NextSpec.v states them as functions of the completed tasks and of the code they call; tools/go2v (extractor
   "nexttasks") regenerates them from the source on every run and Proofs/GenAgreeC01Next.v (proof obligation of this
   property) proves the regenerated functions equal to them and, over the regenerated resolveCompletedTasks, copyItem and
   calculateBranch, equal to the right-hand side below (next_is_calc_next).
   With cm.updateAndGet doing on the grouped maps what update_chans + get_all do on the lists these tasks give rise to
   (hypothesis uag_is_model: graph_manager.go is not translated; the channel operations it calls are tied by the chancode
   extractor; satisfiable for every run, see ex_next_tasks_ready and ex_gen_next of Proofs/GenAgreeC01Next.v, which
   evaluates the un-grouping instance),
   calculateNextTasks IS calc_next followed by the END test of step: "the run returns the merged value delivered to
   END in the first step in which END receives one" - when END is among the ready nodes the result is the value END's
   channel handed out and NO task is created for the other ready nodes; otherwise the next tasks are made from the
   ready nodes, one each, on the value its channel handed out (next_tasks_are_ready). *)
Theorem next_tasks_code_is_engine :
  forall (V : Type) (ops : vops V) ec g zero_node subscribe uag (tasks : list (node * V)) isStream cs,
    g_mode g = Pregel ->
    (forall t, In t tasks -> n_dmap (fst t) = [] /\ find_node g (n_key (fst t)) = Some (fst t)) ->
    Proofs.C01NextModel.uag_is_model V ops g uag tasks cs ->
    Proofs.C01NextModel.spec_next_on_nodes V ops ec g zero_node subscribe uag tasks isStream cs
    = do r <- calc_next V ops g cs (map (fun t => (n_key (fst t), snd t)) tasks);
      let '(cs', ready) := r in
      match alookup kEND ready with
      | Some v => Ok ([], v, true, cs')
      | None => do ts <- Model.NextSpec.create_tasks V (key * V) node zero_node ec subscribe (fun k _ v => (k, v)) ready;
                Ok (ts, v_zero ops, false, cs')
      end.
Proof. exact Proofs.C01NextModel.spec_next_is_calc_next. Qed.
Print Assumptions next_tasks_code_is_engine.

Theorem next_tasks_are_the_ready_nodes :
  forall (V : Type) ec zero_node (subscribe : list (key * node)) (ready : list (key * V)),
    forallb (fun kv => Model.ResolveGenLib.am_has (fst kv) subscribe) ready = true ->
    Model.NextSpec.create_tasks V (key * V) node zero_node ec subscribe (fun k _ v => (k, v)) ready = Ok ready.
Proof. exact (fun V ec z sub ready => Proofs.C01NextModel.next_tasks_are_ready V ec z sub ready). Qed.
Print Assumptions next_tasks_are_the_ready_nodes.

(* non-vacuity: the hypothesis uag_is_model holds for the function that answers with the model's right-hand side on
   the lists of the run (any tasks, any channels); a ready node with / without a chanCall *)
Example ex_uag_is_model :
  forall (V : Type) (ops : vops V) g tasks cs,
    exists uag, Proofs.C01NextModel.uag_is_model V ops g uag tasks cs.
Proof.
  intros V ops g tasks cs.
  destruct (resolve_all V ops g (map (fun t => (n_key (fst t), snd t)) tasks) cs) as [[[cs1 ws] ds]|e0|] eqn:E.
  - exists (fun _ _ _ => do cs2 <- update_chans V g ws ds cs1; do r <- get_all V ops g cs2; Ok (snd r, fst r)).
    intros cs1' ws' ds' H. rewrite E in H. inversion H; subst. reflexivity.
  - exists (fun _ _ _ => Err e0). intros cs1' ws' ds' H. rewrite E in H. discriminate H.
  - exists (fun _ _ _ => Panic). intros cs1' ws' ds' H. rewrite E in H. discriminate H.
Qed.

Example ex_next_tasks_ready :
  Model.NextSpec.create_tasks value (key * value) node
    {| n_key := 0; n_kind := KLambda; n_outkey := None; n_dsucc := []; n_csucc := []; n_dmap := []; n_branches := [] |}
    (fun _ => 0) [(3, {| n_key := 3; n_kind := KLambda; n_outkey := None; n_dsucc := []; n_csucc := []; n_dmap := []; n_branches := [] |})]
    (fun k _ v => (k, v)) [(3, VAtom 7)] = Ok [(3, VAtom 7)]
  /\ Model.NextSpec.create_tasks value (key * value) node
    {| n_key := 0; n_kind := KLambda; n_outkey := None; n_dsucc := []; n_csucc := []; n_dmap := []; n_branches := [] |}
    (fun _ => 0) [] (fun k _ v => (k, v)) [(3, VAtom 7)] = Err 0.
Proof. split; vm_compute; reflexivity. Qed.
