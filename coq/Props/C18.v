(* Props/C18.v — property C18: the ReAct agent alternates model and tools faithfully and stops.
   Statements only; proofs in Proofs/React.v; model in Model/React.v.

   Reading guide.  [tn] is the tools node (any function from the calls of an assistant message to
   tool messages or an error; Model/Tools.v's in the correspondence), [rd] / [rd_nonempty] the
   return-directly set, [modifier] the message modifier, [checker] the StreamToolCallChecker,
   [script] the model's behaviour (its k-th reply, whole and as stream chunks, or a failure).
   [react_spec] is the property text as a loop; [agent_run] is the superstep-level model of the
   graph NewAgent builds.  [step_exact checker md s] = in mode [md] the consumer of the model's
   output receives the scripted reply and the checker reports "tool calls" iff it has some. *)
From Eino Require Import Base.Util Model.Tools Model.React Proofs.React.
Local Open Scope string_scope.

(* the graph-level loop IS the specification, for every script, tools node, return-directly
   set, modifier and step limit — in any mode in which the checker is exact *)
Theorem react_refines_spec :
  forall tn rd rd_nonempty modifier checker md script max_steps input,
    Forall (step_exact checker md) script ->
    agent_run tn rd rd_nonempty modifier checker md max_steps script input
    = react_spec tn rd rd_nonempty modifier script max_steps input.
Proof. exact agent_refines_spec. Qed.
Print Assumptions react_refines_spec.

(* Generate needs no hypothesis beyond the checker being exact on a whole message ... *)
Theorem react_generate_refines_spec :
  forall tn rd rd_nonempty modifier checker script max_steps input,
    (forall content calls, checker [whole_chunk content calls] = nonempty calls) ->
    agent_run tn rd rd_nonempty modifier checker Generate max_steps script input
    = react_spec tn rd rd_nonempty modifier script max_steps input.
Proof. exact generate_refines_spec. Qed.
Print Assumptions react_generate_refines_spec.

(* ... which both real checkers are *)
Theorem real_checkers_exact_on_whole :
  forall content calls,
    default_checker [whole_chunk content calls] = nonempty calls
    /\ exact_checker [whole_chunk content calls] = nonempty calls.
Proof. exact (fun content calls => conj (default_checker_whole content calls) (exact_checker_whole content calls)). Qed.
Print Assumptions real_checkers_exact_on_whole.

(* the k-th model call sees (the modifier applied to) the original messages followed by every
   earlier assistant message and the tool results for its calls, in order *)
Theorem kth_model_input :
  forall tn rd rd_nonempty modifier checker md script max_steps input k h,
    Forall (step_exact checker md) script ->
    nth_error (t_inputs (agent_run tn rd rd_nonempty modifier checker md max_steps script input)) k = Some h ->
    exists h', history tn script k input = Some h' /\ h = modifier h'.
Proof. exact agent_kth_input. Qed.
Print Assumptions kth_model_input.

(* the answer is the first assistant message without tool calls, or the result of the first
   call to a return-directly tool ([answers] is that predicate) ... *)
Theorem returns_first_plain_or_direct :
  forall tn rd rd_nonempty modifier checker md script max_steps input m,
    Forall (step_exact checker md) script ->
    t_out (agent_run tn rd rd_nonempty modifier checker md max_steps script input) = Final m ->
    answers tn rd rd_nonempty script m.
Proof. exact agent_final_is_answer. Qed.
Print Assumptions returns_first_plain_or_direct.

(* ... and it is returned whenever the step limit allows the steps it needs *)
Theorem returns_answer_within_limit :
  forall tn rd rd_nonempty modifier checker md script max_steps input m,
    Forall (step_exact checker md) script ->
    answers tn rd rd_nonempty script m -> steps_needed rd rd_nonempty script <= max_steps ->
    t_out (agent_run tn rd rd_nonempty modifier checker md max_steps script input) = Final m.
Proof. exact agent_answer_is_final. Qed.
Print Assumptions returns_answer_within_limit.

(* never more node executions (model calls + tool rounds + direct return) than the limit, and a
   model that keeps calling tools is stopped with the step-limit error *)
Theorem steps_within_limit :
  forall tn rd rd_nonempty modifier checker md script max_steps input,
    Forall (step_exact checker md) script ->
    executions (agent_run tn rd rd_nonempty modifier checker md max_steps script input) <= max_steps.
Proof. exact agent_steps_bounded. Qed.
Print Assumptions steps_within_limit.

Theorem stops_with_step_limit :
  forall tn rd rd_nonempty modifier checker md script max_steps input,
    Forall (step_exact checker md) script ->
    Forall (looping tn rd rd_nonempty) script -> max_steps <= 2 * List.length script ->
    t_out (agent_run tn rd rd_nonempty modifier checker md max_steps script input) = Failed EStepLimit.
Proof. exact agent_step_limit_stops. Qed.
Print Assumptions stops_with_step_limit.

(* Generate and Stream agree — whole trace: model inputs, tool rounds, outcome — for every
   chunking of the replies, GIVEN a checker that is exact on those chunkings (checker_exact) *)
Theorem generate_stream_agree :
  forall tn rd rd_nonempty modifier checker script max_steps input,
    (forall content calls, checker [whole_chunk content calls] = nonempty calls) ->
    Forall chunking_valid script ->
    Forall (checker_exact checker) script ->
    agent_run tn rd rd_nonempty modifier checker Stream max_steps script input
    = agent_run tn rd rd_nonempty modifier checker Generate max_steps script input.
Proof. exact generate_stream_agree_gen. Qed.
Print Assumptions generate_stream_agree.

(* a checker that reads the whole stream satisfies checker_exact on every chunking *)
Theorem generate_stream_agree_with_exact_checker :
  forall tn rd rd_nonempty modifier script max_steps input,
    Forall chunking_valid script ->
    agent_run tn rd rd_nonempty modifier exact_checker Stream max_steps script input
    = agent_run tn rd rd_nonempty modifier exact_checker Generate max_steps script input.
Proof. exact generate_stream_agree_exact_checker. Qed.
Print Assumptions generate_stream_agree_with_exact_checker.

(* KNOWN FINDING F-C18: the default first-chunk checker is not exact.  Witness: the model streams
   "Let me check. " and then the tool call; the chunks do concatenate to the scripted message,
   Generate runs the tool and answers "The answer is 42", Stream returns the tool-calling
   message and runs no tool; with the exact checker the two runs coincide. *)
Theorem default_checker_refuted :
  Forall chunking_valid w_script
  /\ t_out (w_run default_checker Generate) = Final (assistant "The answer is 42" [])
  /\ t_out (w_run default_checker Stream) = Final (assistant "Let me check. " [w_call])
  /\ t_rounds (w_run default_checker Generate) = [[w_call]]
  /\ t_rounds (w_run default_checker Stream) = []
  /\ w_run exact_checker Stream = w_run exact_checker Generate.
Proof. exact witness_refutes_default. Qed.
Print Assumptions default_checker_refuted.

(* ---- non-vacuity ----------------------------------------------------------------------- *)
Definition ex_tn (calls : list call) : res (list tmsg) :=
  Ok (map (fun c => (c_name c ++ "(" ++ c_args c ++ ")", c_id c)) calls).
Definition ex_rd (n : string) : bool := String.eqb n "final".
Definition ex_script : list step :=
  [ SMsg "" [mkCall "a0" "search" "x"; mkCall "a1" "calc" "y"]
         [ mkChunk "" []; mkChunk "" [mkFrag 0 "a0" "search" ""; mkFrag 1 "a1" "calc" "y"];
           mkChunk "" [mkFrag 0 "" "" "x"] ];
    SMsg "thinking" [mkCall "b0" "search" "z"; mkCall "b1" "final" "w"]
         [ mkChunk "think" [mkFrag 0 "b0" "search" "z"]; mkChunk "ing" [mkFrag 1 "b1" "final" "w"] ];
    SMsg "unreachable" [] [mkChunk "unreachable" []] ].
Definition ex_input : list msg := [mkMsg RUser "q" [] ""].

(* the hypotheses of the theorems hold for this script with the default checker (tool calls are
   in the first non-empty chunk) in both modes ... *)
Example step_exact_nonvacuous :
  Forall (step_exact default_checker Stream) ex_script /\ Forall (step_exact default_checker Generate) ex_script
  /\ Forall chunking_valid ex_script /\ Forall (checker_exact default_checker) ex_script.
Proof. vm_compute. repeat split; repeat constructor. Qed.
(* ... the run is two rounds ending in a return-directly result, identically in both modes *)
Example run_nonvacuous :
  let t := agent_run ex_tn ex_rd true (fun h => h) default_checker Stream 13 ex_script ex_input in
  t_out t = Final (mkMsg RTool "final(w)" [] "b1")
  /\ List.length (t_inputs t) = 2%nat /\ List.length (t_rounds t) = 2%nat
  /\ t = agent_run ex_tn ex_rd true (fun h => h) default_checker Generate 13 ex_script ex_input
  /\ nth_error (t_inputs t) 1
     = Some [mkMsg RUser "q" [] ""; assistant "" [mkCall "a0" "search" "x"; mkCall "a1" "calc" "y"];
             mkMsg RTool "search(x)" [] "a0"; mkMsg RTool "calc(y)" [] "a1"].
Proof. vm_compute. repeat split; reflexivity. Qed.
(* ... and with one step less the direct-return node cannot run *)
Example step_limit_nonvacuous :
  t_out (agent_run ex_tn ex_rd true (fun h => h) default_checker Generate 4 ex_script ex_input) = Failed EStepLimit
  /\ t_out (agent_run ex_tn ex_rd true (fun h => h) default_checker Generate 5 ex_script ex_input)
     = Final (mkMsg RTool "final(w)" [] "b1").
Proof. vm_compute. split; reflexivity. Qed.
Example looping_nonvacuous :
  Forall (looping ex_tn ex_rd false) (firstn 2 ex_script)
  /\ t_out (agent_run ex_tn ex_rd false (fun h => h) exact_checker Stream 4 (firstn 2 ex_script) ex_input) = Failed EStepLimit.
Proof. vm_compute. split; [repeat constructor; try discriminate; eexists; reflexivity | reflexivity]. Qed.
