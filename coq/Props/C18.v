(* Props/C18.v — property C18: the ReAct agent alternates model and tools faithfully and stops.
   Statements only; proofs in Proofs/React.v; model in Model/React.v.

   Reading guide.  [tn] / [tns] are the tools node's Invoke and Stream (any functions from the calls of
   an assistant message to tool messages resp. to call ids + merged sparse frames, or an error;
   Model/Tools.v's in the correspondence), [rd] / [rd_nonempty] the
   return-directly set, [modifier] the message modifier, [checker] the StreamToolCallChecker,
   [script] the model's behaviour (its k-th reply, whole and as stream chunks, or a failure).
   [react_spec] is the property text as a loop; [agent_run] is the superstep-level model of the
   graph NewAgent builds.  [reply_exact .. checker md s] = in mode [md] the consumer of the model's
   output receives the scripted reply and the checker reports "tool calls" iff it has some
   ([step_exact]), and - Stream mode - the consumers of the tools node's output stream obtain what
   Invoke returns ([tools_exact]: the position-wise concatenation of the frames for the chat node,
   the frame-by-frame filter of direct_return; property C17, theorem tools_node_streams_exactly). *)
From Coq Require Import Permutation.
From Eino Require Import Base.Util Model.Tools Model.Graph Model.React Model.ReactGraph Model.ReactHeap Model.Host Proofs.Tools Proofs.React Proofs.ReactExt Proofs.ReactStream Proofs.ReactGraph Proofs.ReactHeap Proofs.Host.
Local Open Scope nat_scope.
Local Open Scope string_scope.

(* the graph-level loop IS the specification, for every script, tools node, return-directly
   set, modifier and step limit — in any mode in which the checker is exact *)
Theorem react_refines_spec :
  forall tn tns rd rd_nonempty modifier visible checker md script max_steps input,
    Forall (reply_exact tn tns rd rd_nonempty checker md) script ->
    agent_run tn tns rd rd_nonempty modifier visible checker md max_steps script input
    = react_spec tn rd rd_nonempty modifier visible script max_steps input.
Proof. exact agent_refines_spec. Qed.
Print Assumptions react_refines_spec.

(* ... and [agent_run] is not an ad-hoc reading of the graph: compose's run loop as modelled by the
   shared engine model (Model/Graph.v: Pregel channels, calculateNextTasks, branch evaluation,
   the step counter and ErrExceedMaxSteps, default limit = number of nodes + 10) executed on the
   graph NewAgent builds (Model/ReactGraph.v: START -> chat, the stream branch chat -> {tools,
   END}, tools -> chat or the branch tools -> {chat, direct_return}, direct_return -> END, node
   bodies with their state pre-handlers) yields exactly [agent_run] with the effective step
   limit — for every script, tools node, return-directly set, modifier, checker, mode, MaxStep *)
Theorem react_graph_run_is_agent_run :
  forall tn tns rd rd_nonempty modifier visible checker md max_step script input,
    engine_trace tn tns rd rd_nonempty modifier visible checker md max_step script input
    = Some (agent_run tn tns rd rd_nonempty modifier visible checker md
                      (effective_max_steps max_step rd_nonempty) script input).
Proof. exact engine_refines_agent. Qed.
Print Assumptions react_graph_run_is_agent_run.

(* hence the engine's run of the ReAct graph is the specification (DESIGN: react_graph_refines_spec) *)
Theorem react_graph_refines_spec :
  forall tn tns rd rd_nonempty modifier visible checker md max_step script input,
    Forall (reply_exact tn tns rd rd_nonempty checker md) script ->
    engine_trace tn tns rd rd_nonempty modifier visible checker md max_step script input
    = Some (react_spec tn rd rd_nonempty modifier visible script
                       (effective_max_steps max_step rd_nonempty) input).
Proof.
  exact (fun tn tns rd rdn modifier visible checker md max_step script input H =>
           eq_trans (engine_refines_agent tn tns rd rdn modifier visible checker md max_step script input)
                    (f_equal Some (agent_refines_spec tn tns rd rdn modifier visible checker md script
                                                      (effective_max_steps max_step rdn) input H))).
Qed.
Print Assumptions react_graph_refines_spec.

(* strict alternation at the level of the engine's supersteps: every superstep executes exactly
   one node, the first one chat; after chat only tools (or the end of the run), after tools only
   chat or - with a return-directly set - direct_return, after which the run ends.  [chain_ok k ks]:
   ks starts with k and every node is followed by one that [follows] it *)
Theorem supersteps_alternate :
  forall tn tns rd rd_nonempty modifier visible checker md max_step script input,
  exists ks,
    engine_supersteps tn tns rd rd_nonempty modifier visible checker md max_step script input
    = [] :: map (fun k => [k]) ks
    /\ chain_ok rd_nonempty kChat ks.
Proof. exact engine_supersteps_alternate. Qed.
Print Assumptions supersteps_alternate.

(* Generate needs no hypothesis beyond the checker being exact on a whole message ... *)
Theorem react_generate_refines_spec :
  forall tn tns rd rd_nonempty modifier visible checker script max_steps input,
    (forall content calls, checker [whole_chunk content calls] = nonempty calls) ->
    agent_run tn tns rd rd_nonempty modifier visible checker Generate max_steps script input
    = react_spec tn rd rd_nonempty modifier visible script max_steps input.
Proof. exact generate_refines_spec. Qed.
Print Assumptions react_generate_refines_spec.

(* ... which both real checkers are *)
Theorem real_checkers_exact_on_whole :
  forall content calls,
    default_checker [whole_chunk content calls] = nonempty calls
    /\ exact_checker [whole_chunk content calls] = nonempty calls.
Proof. exact (fun content calls => conj (default_checker_whole content calls) (exact_checker_whole content calls)). Qed.
Print Assumptions real_checkers_exact_on_whole.

(* the k-th model call sees (the modifier applied to) the original messages followed by every
   earlier assistant message and the tool results for its calls, in order *)
Theorem kth_model_input :
  forall tn tns rd rd_nonempty modifier visible checker md script max_steps input k h,
    Forall (reply_exact tn tns rd rd_nonempty checker md) script ->
    nth_error (t_inputs (agent_run tn tns rd rd_nonempty modifier visible checker md max_steps script input)) k = Some h ->
    exists h', history tn script k input = Some h' /\ h = modifier h'.
Proof. exact agent_kth_input. Qed.
Print Assumptions kth_model_input.

(* ... where [history] is, explicitly: the original messages, then for each of the first k replies
   the reply itself followed by the tool messages the tools node returned for its calls *)
Theorem history_is_rounds_in_order :
  forall tn script k hist h,
    history tn script k hist = Some h ->
    exists rounds,
      List.length rounds = k
      /\ Forall2 (fun s rs => match s with SMsg _ calls _ => tn calls = Ok rs | SFail => False end)
                 (firstn k script) rounds
      /\ h = (hist ++ flat_map (fun p => round_msgs (fst p) (snd p)) (combine (firstn k script) rounds))%list.
Proof. exact history_shape. Qed.
Print Assumptions history_is_rounds_in_order.

(* ... and the tool messages of a round answer that round's calls one by one, in call order
   (tool role, the i-th message carries the i-th call's id), for a tools node that answers in
   call order [tn_in_order] — which compose.ToolsNode does for every completion order of the
   concurrently running tools (property C17; proved here for the model of it that the
   correspondence check runs, Model/Tools.v tools_invoke inside a graph) *)
Theorem tool_results_in_call_order :
  forall tn calls results,
    tn_in_order tn -> tn calls = Ok results ->
    map m_tcid (map tool_msg results) = map c_id calls
    /\ Forall (fun m => m_role m = RTool /\ m_calls m = []) (map tool_msg results).
Proof. exact round_results_in_call_order. Qed.
Print Assumptions tool_results_in_call_order.

Theorem tools_node_answers_in_call_order :
  forall kind_of inv str handler pi_of,
    tn_in_order (fun calls => in_graph (tools_invoke kind_of inv str handler (pi_of calls) true calls)).
Proof. exact in_graph_tools_in_order. Qed.
Print Assumptions tools_node_answers_in_call_order.

(* strict alternation: the k-th tool round runs exactly the (non-empty) calls of the model's k-th
   reply, and there is never a round without a model call before it nor two model calls without
   a round between them *)
Theorem kth_round_runs_kth_reply :
  forall tn tns rd rd_nonempty modifier visible checker md script max_steps input k cs,
    Forall (reply_exact tn tns rd rd_nonempty checker md) script ->
    nth_error (t_rounds (agent_run tn tns rd rd_nonempty modifier visible checker md max_steps script input)) k = Some cs ->
    cs <> [] /\ exists content chunks, nth_error script k = Some (SMsg content cs chunks).
Proof. exact agent_kth_round. Qed.
Print Assumptions kth_round_runs_kth_reply.

Theorem model_and_tools_alternate :
  forall tn tns rd rd_nonempty modifier visible checker md script max_steps input,
    Forall (reply_exact tn tns rd rd_nonempty checker md) script ->
    let t := agent_run tn tns rd rd_nonempty modifier visible checker md max_steps script input in
    List.length (t_rounds t) <= List.length (t_inputs t) <= S (List.length (t_rounds t)).
Proof. exact agent_alternation. Qed.
Print Assumptions model_and_tools_alternate.

(* what react.WithMessageFuture hands out (flow/agent/react/option.go) is the growing history:
   every model input is the modifier applied to the original messages followed by a prefix of the
   handed-out messages, and a plain answer is the last message handed out *)
Theorem message_future_is_history :
  forall tn tns rd rd_nonempty modifier visible checker md script max_steps input k h,
    Forall (reply_exact tn tns rd rd_nonempty checker md) script ->
    (forall c, visible c = true) -> tn_in_order tn ->
    nth_error (t_inputs (agent_run tn tns rd rd_nonempty modifier visible checker md max_steps script input)) k = Some h ->
    exists n, h = modifier (input ++ firstn n (t_emits (agent_run tn tns rd rd_nonempty modifier visible checker md max_steps script input)))%list.
Proof. exact agent_emits_are_history. Qed.
Print Assumptions message_future_is_history.

Theorem message_future_ends_with_plain_answer :
  forall tn tns rd rd_nonempty modifier visible checker md script max_steps input m,
    Forall (reply_exact tn tns rd rd_nonempty checker md) script ->
    t_out (agent_run tn tns rd rd_nonempty modifier visible checker md max_steps script input) = Final m ->
    m_role m = RAssistant ->
    exists pre, t_emits (agent_run tn tns rd rd_nonempty modifier visible checker md max_steps script input) = (pre ++ [m])%list.
Proof. exact agent_emits_end_with_plain_answer. Qed.
Print Assumptions message_future_ends_with_plain_answer.

(* ... and the future ends closed exactly when the run returns an answer, with an error item when it
   fails ([future_closed] also covers the one case outside the refinement's domain, evaluated by the
   correspondence: a Stream run that returned direct_return's stream ends its future closed although
   its caller then meets the failure of a tool stream, [ELate]) *)
Theorem message_future_closed_iff_run_returns :
  forall tn tns rd rd_nonempty modifier visible checker md script max_steps input,
    Forall (reply_exact tn tns rd rd_nonempty checker md) script ->
    future_closed (agent_run tn tns rd rd_nonempty modifier visible checker md max_steps script input) = true
    <-> exists m, t_out (agent_run tn tns rd rd_nonempty modifier visible checker md max_steps script input) = Final m.
Proof. exact agent_future_closed_iff_final. Qed.
Print Assumptions message_future_closed_iff_run_returns.

(* the answer is the first assistant message without tool calls, or the result of the first
   call to a return-directly tool ([answers] is that predicate) ... *)
Theorem returns_first_plain_or_direct :
  forall tn tns rd rd_nonempty modifier visible checker md script max_steps input m,
    Forall (reply_exact tn tns rd rd_nonempty checker md) script ->
    t_out (agent_run tn tns rd rd_nonempty modifier visible checker md max_steps script input) = Final m ->
    answers tn rd rd_nonempty script m.
Proof. exact agent_final_is_answer. Qed.
Print Assumptions returns_first_plain_or_direct.

(* ... and it is returned whenever the step limit allows the steps it needs *)
Theorem returns_answer_within_limit :
  forall tn tns rd rd_nonempty modifier visible checker md script max_steps input m,
    Forall (reply_exact tn tns rd rd_nonempty checker md) script ->
    answers tn rd rd_nonempty script m -> steps_needed rd rd_nonempty script <= max_steps ->
    t_out (agent_run tn tns rd rd_nonempty modifier visible checker md max_steps script input) = Final m.
Proof. exact agent_answer_is_final. Qed.
Print Assumptions returns_answer_within_limit.

(* never more node executions (model calls + tool rounds + direct return) than the limit, and a
   model that keeps calling tools is stopped with the step-limit error *)
Theorem steps_within_limit :
  forall tn tns rd rd_nonempty modifier visible checker md script max_steps input,
    Forall (reply_exact tn tns rd rd_nonempty checker md) script ->
    executions (agent_run tn tns rd rd_nonempty modifier visible checker md max_steps script input) <= max_steps.
Proof. exact agent_steps_bounded. Qed.
Print Assumptions steps_within_limit.

Theorem stops_with_step_limit :
  forall tn tns rd rd_nonempty modifier visible checker md script max_steps input,
    Forall (reply_exact tn tns rd rd_nonempty checker md) script ->
    Forall (looping tn rd rd_nonempty) script -> max_steps <= 2 * List.length script ->
    t_out (agent_run tn tns rd rd_nonempty modifier visible checker md max_steps script input) = Failed EStepLimit.
Proof. exact agent_step_limit_stops. Qed.
Print Assumptions stops_with_step_limit.

(* Generate and Stream agree — whole trace: model inputs, tool rounds, outcome — for every
   chunking of the replies, GIVEN a checker that is exact on those chunkings (checker_exact) *)
Theorem generate_stream_agree :
  forall tn tns rd rd_nonempty modifier visible checker script max_steps input,
    (forall content calls, checker [whole_chunk content calls] = nonempty calls) ->
    Forall chunking_valid script ->
    Forall (checker_exact checker) script ->
    Forall (tools_stream_exact tn tns rd rd_nonempty) script ->
    agent_run tn tns rd rd_nonempty modifier visible checker Stream max_steps script input
    = agent_run tn tns rd rd_nonempty modifier visible checker Generate max_steps script input.
Proof. exact generate_stream_agree_gen. Qed.
Print Assumptions generate_stream_agree.

(* a checker that reads the whole stream satisfies checker_exact on every chunking *)
Theorem generate_stream_agree_with_exact_checker :
  forall tn tns rd rd_nonempty modifier visible script max_steps input,
    Forall chunking_valid script ->
    Forall (tools_stream_exact tn tns rd rd_nonempty) script ->
    agent_run tn tns rd rd_nonempty modifier visible exact_checker Stream max_steps script input
    = agent_run tn tns rd rd_nonempty modifier visible exact_checker Generate max_steps script input.
Proof. exact generate_stream_agree_exact_checker. Qed.
Print Assumptions generate_stream_agree_with_exact_checker.

(* the default first-chunk checker is exact on a reply exactly when no chunk with non-empty content
   (and no tool-call fragment) comes before the first chunk carrying a tool-call fragment ... *)
Theorem default_checker_exact_iff_tool_calls_first :
  forall chunks content calls,
    concat_chunks chunks = Some (content, calls) ->
    (default_checker chunks = nonempty calls <-> content_before_toolcall chunks = false).
Proof. exact default_checker_exact_iff. Qed.
Print Assumptions default_checker_exact_iff_tool_calls_first.

(* ... so with the DEFAULT checker Generate and Stream agree on every script outside the known
   finding: [tool_calls_first] is the named hypothesis that carves F-C18 out (its negation is the
   structural part of the finding's signature; the correspondence check compares the harness's
   classification of every scripted reply with [content_before_toolcall]) *)
Theorem generate_stream_agree_with_default_checker :
  forall tn tns rd rd_nonempty modifier visible script max_steps input,
    Forall chunking_valid script ->
    Forall tool_calls_first script ->
    Forall (tools_stream_exact tn tns rd rd_nonempty) script ->
    agent_run tn tns rd rd_nonempty modifier visible default_checker Stream max_steps script input
    = agent_run tn tns rd rd_nonempty modifier visible default_checker Generate max_steps script input.
Proof. exact generate_stream_agree_default. Qed.
Print Assumptions generate_stream_agree_with_default_checker.

(* ---- the tools node in Stream mode, and the return-directly branch ------------------------- *)
(* [tools_exact] follows from ONE fact about the tools node's stream: its frames concatenate,
   position by position, to the Invoke answer.  Then the chat node receives that answer and
   direct_return's frame-by-frame filter yields the tool message at the filtered position, for
   every position (no assumption on the tool-call ids: they may be empty or repeat) *)
Theorem frames_concatenating_to_invoke_answer_are_exact :
  forall ids em results,
    concat_pos ids em = Ok (map Some results) ->
    tout_results (TFrames ids em None) = Ok results
    /\ forall i, tout_direct i (TFrames ids em None) = Ok (nth_error results i).
Proof. exact frames_exact. Qed.
Print Assumptions frames_concatenating_to_invoke_answer_are_exact.

(* ... and compose.ToolsNode - Model/Tools.v's tools_invoke / tools_stream_open / merge_run, the
   definitions the correspondence check evaluates - has that property for every completion order
   of the tools ([pi_of], [pi_of']) and every complete interleaving of their streams
   ([sched_of]), whenever every call of the round is answered by a stream of at least one chunk
   (any of them empty) without error item that concatenates to the invoked answer (from property
   C17: stream_concat, invoke_spec) *)
Theorem tools_node_streams_exactly :
  forall kind_of inv str handler pi_of pi_of' sched_of rd rd_nonempty calls css,
    calls <> [] ->
    Permutation (pi_of calls) (seq 0 (List.length calls)) ->
    Permutation (pi_of' calls) (seq 0 (List.length calls)) ->
    Forall2 (fun c cs => s_answer kind_of inv str handler c = Ok (SOk cs None) /\ cs <> []) calls css ->
    Forall2 (fun c cs => answer kind_of inv str handler c = Ok (Tools.TOk (concat_strings cs))) calls css ->
    (forall srcs, tails_none srcs -> drained (merge_rest (sched_of srcs) srcs) = true) ->
    tools_exact (node_tn kind_of inv str handler pi_of) (node_tns kind_of inv str handler pi_of' sched_of)
                rd rd_nonempty Stream calls
    /\ node_tn kind_of inv str handler pi_of calls = Ok (combine (map concat_strings css) (map c_id calls)).
Proof. exact tools_node_stream_exact. Qed.
Print Assumptions tools_node_streams_exactly.

(* ... including the failing rounds: for tools whose two forms behave alike as they are called
   ([tools_alike]: a stream of at least one chunk without error item concatenating to the invoked
   answer, or the same error, or a panic, in both forms - whatever the kind of the tool, with or
   without an unknown-tools handler) EVERY round is exact: the calls all answer, or the two forms of
   the node fail alike (the first failing call decides; an unknown tool name stops both) *)
Theorem tools_node_is_exact_for_tools_behaving_alike :
  forall kind_of inv str handler pi_of pi_of' sched_of rd rd_nonempty calls,
    calls <> [] ->
    Permutation (pi_of calls) (seq 0 (List.length calls)) ->
    Permutation (pi_of' calls) (seq 0 (List.length calls)) ->
    tools_alike inv str ->
    (forall srcs, tails_none srcs -> drained (merge_rest (sched_of srcs) srcs) = true) ->
    tools_exact (node_tn kind_of inv str handler pi_of) (node_tns kind_of inv str handler pi_of' sched_of)
                rd rd_nonempty Stream calls.
Proof.
  exact (fun kind_of inv str handler pi_of pi_of' sched_of rd rd_nonempty calls Hne P P' Ha Hs =>
           tools_node_exact_on_consistent_tools kind_of inv str handler pi_of pi_of' sched_of rd rd_nonempty calls Hne P P'
             (proj2 (Forall_forall _ _) (fun c _ => alike_calls_consistent kind_of inv str handler c Ha)) Hs).
Qed.
Print Assumptions tools_node_is_exact_for_tools_behaving_alike.

(* hence, for such tools, Generate and Stream of the whole agent agree for every script, with a
   checker reading the whole stream - no hypothesis left about the tools node *)
Theorem generate_stream_agree_for_tools_behaving_alike :
  forall kind_of inv str handler pi_of pi_of' rd rd_nonempty modifier visible script max_steps input,
    (forall calls, Permutation (pi_of calls) (seq 0 (List.length calls))) ->
    (forall calls, Permutation (pi_of' calls) (seq 0 (List.length calls))) ->
    tools_alike inv str ->
    Forall chunking_valid script ->
    agent_run (node_tn kind_of inv str handler pi_of) (node_tns kind_of inv str handler pi_of' seq_sched)
              rd rd_nonempty modifier visible exact_checker Stream max_steps script input
    = agent_run (node_tn kind_of inv str handler pi_of) (node_tns kind_of inv str handler pi_of' seq_sched)
                rd rd_nonempty modifier visible exact_checker Generate max_steps script input.
Proof. exact generate_stream_agree_alike. Qed.
Print Assumptions generate_stream_agree_for_tools_behaving_alike.

(* ... and with the DEFAULT first-chunk checker for every script outside the known finding F-C18 *)
Theorem generate_stream_agree_with_default_checker_for_tools_behaving_alike :
  forall kind_of inv str handler pi_of pi_of' rd rd_nonempty modifier visible script max_steps input,
    (forall calls, Permutation (pi_of calls) (seq 0 (List.length calls))) ->
    (forall calls, Permutation (pi_of' calls) (seq 0 (List.length calls))) ->
    tools_alike inv str ->
    Forall chunking_valid script ->
    Forall tool_calls_first script ->
    agent_run (node_tn kind_of inv str handler pi_of) (node_tns kind_of inv str handler pi_of' seq_sched)
              rd rd_nonempty modifier visible default_checker Stream max_steps script input
    = agent_run (node_tn kind_of inv str handler pi_of) (node_tns kind_of inv str handler pi_of' seq_sched)
                rd rd_nonempty modifier visible default_checker Generate max_steps script input.
Proof. exact generate_stream_agree_default_alike. Qed.
Print Assumptions generate_stream_agree_with_default_checker_for_tools_behaving_alike.

(* the interleaving the correspondence check uses is complete *)
Theorem canonical_interleaving_is_complete :
  forall srcs, tails_none srcs -> drained (merge_rest (seq_sched srcs) srcs) = true.
Proof. exact seq_sched_drains. Qed.
Print Assumptions canonical_interleaving_is_complete.

(* the tools of one round finish in any order: model inputs, tool rounds, handed-out messages and
   outcome of the whole run do not depend on it, in either mode *)
Theorem tool_completion_order_is_irrelevant :
  forall kind_of inv str handler pi1 pi1' pi2 pi2' sched_of rd rd_nonempty modifier visible checker md max_steps script input,
    (forall calls, Permutation (pi1 calls) (seq 0 (List.length calls))) ->
    (forall calls, Permutation (pi1' calls) (seq 0 (List.length calls))) ->
    (forall calls, Permutation (pi2 calls) (seq 0 (List.length calls))) ->
    (forall calls, Permutation (pi2' calls) (seq 0 (List.length calls))) ->
    agent_run (node_tn kind_of inv str handler pi1) (node_tns kind_of inv str handler pi1' sched_of)
              rd rd_nonempty modifier visible checker md max_steps script input
    = agent_run (node_tn kind_of inv str handler pi2) (node_tns kind_of inv str handler pi2' sched_of)
                rd rd_nonempty modifier visible checker md max_steps script input.
Proof. exact completion_order_irrelevant. Qed.
Print Assumptions tool_completion_order_is_irrelevant.

(* the return-directly position is that of the FIRST call to a return-directly tool *)
Theorem return_directly_position_is_first_rd_call :
  forall rd calls i,
    rd_call_index rd calls = Some i <->
    exists c, nth_error calls i = Some c /\ rd (c_name c) = true
              /\ forall j c', j < i -> nth_error calls j = Some c' -> rd (c_name c') = false.
Proof. exact rd_call_index_first. Qed.
Print Assumptions return_directly_position_is_first_rd_call.

(* FIXED FINDING F-C18b (fix a2b0142): before, the return-directly call was identified by its
   tool-call id.  Witness: an assistant message calling search and then the return-directly tool
   calc.  Both calls carrying the id "x": Invoke answered with search's result (a tool that is not
   return-directly), Stream with the two results run together; no ids: no direct return at all.
   The code as it is now (position) answers calc's result in both modes in both cases. *)
Theorem return_directly_by_id_refuted :
  direct_answer_v0 v0_rd (v0_calls "x") (v0_whole "x") = Some (Some ("search(a)", "x"))
  /\ direct_answer_v0 v0_rd (v0_calls "x") (v0_frames "x") = Some (Some ("search(calc(a)b)", "x"))
  /\ direct_answer_v0 v0_rd (v0_calls "") (v0_whole "") = None
  /\ direct_answer v0_rd (v0_calls "x") (v0_whole "x") = Some (Some ("calc(b)", "x"))
  /\ direct_answer v0_rd (v0_calls "x") (v0_frames "x") = Some (Some ("calc(b)", "x"))
  /\ direct_answer v0_rd (v0_calls "") (v0_whole "") = Some (Some ("calc(b)", ""))
  /\ direct_answer v0_rd (v0_calls "") (v0_frames "") = Some (Some ("calc(b)", "")).
Proof. exact return_directly_by_id_wrong. Qed.
Print Assumptions return_directly_by_id_refuted.

(* ---- the history as the Go slice it is (Model/ReactHeap.v) ----------------------------------- *)
(* state.Messages over a heap of backing arrays, Go's append with an arbitrary growth policy, the
   two state pre-handlers, the copy handed to a MessageModifier.  For every policy, MaxStep (the
   initial capacity), modifier (any function: it may write whatever it likes into the slice it is
   given) and every sequence of pre-handler executions:
   the state's history reads exactly the messages appended so far, in order ... *)
Theorem history_slice_is_what_was_appended :
  forall pol modifier max_step ops,
    ReactHeap.read (h_heap (hrun pol modifier max_step ops)) (h_msgs (hrun pol modifier max_step ops)) = appended ops.
Proof. exact history_is_what_was_appended. Qed.
Print Assumptions history_slice_is_what_was_appended.

(* ... and every slice that was handed to the model - the state's own slice, sharing its backing
   array, when there is no modifier - reads in the final heap what it read when it was handed
   over: histories handed to the model are never modified afterwards *)
Theorem histories_handed_to_the_model_are_never_modified :
  forall pol modifier max_step ops,
    Forall (fun p => ReactHeap.read (h_heap (hrun pol modifier max_step ops)) (fst p) = snd p)
           (h_handed (hrun pol modifier max_step ops)).
Proof. exact handed_never_modified. Qed.
Print Assumptions histories_handed_to_the_model_are_never_modified.

Theorem handed_histories_intact :
  forall pol modifier max_step ops, handed_intact (hrun pol modifier max_step ops) = true.
Proof. exact handed_intact_true. Qed.
Print Assumptions handed_histories_intact.

(* without a modifier the k-th model call is handed the history as it stands after the k-th
   execution of the chat node's pre-handler *)
Theorem without_modifier_the_model_is_handed_the_history :
  forall pol max_step ops,
    map snd (h_handed (hrun pol None max_step ops)) = seen_by_model [] ops.
Proof. exact handed_without_modifier. Qed.
Print Assumptions without_modifier_the_model_is_handed_the_history.

(* KNOWN FINDING F-C18: the default first-chunk checker is not exact.  Witness: the model streams
   "Let me check. " and then the tool call; the chunks do concatenate to the scripted message,
   Generate runs the tool and answers "The answer is 42", Stream returns the tool-calling
   message and runs no tool; with the exact checker the two runs coincide. *)
Theorem default_checker_refuted :
  Forall chunking_valid w_script
  /\ t_out (w_run default_checker Generate) = Final (assistant "The answer is 42" [])
  /\ t_out (w_run default_checker Stream) = Final (assistant "Let me check. " [w_call])
  /\ t_rounds (w_run default_checker Generate) = [[w_call]]
  /\ t_rounds (w_run default_checker Stream) = []
  /\ w_run exact_checker Stream = w_run exact_checker Generate.
Proof. exact witness_refutes_default. Qed.
Print Assumptions default_checker_refuted.

(* ---- stretch: the host multi-agent (flow/agent/multiagent/host), same mechanism without a loop ---- *)
(* the graph is the specification whenever the checker is exact on the emitted chunks ... *)
Theorem host_refines_spec :
  forall answer prompt specs checker md reply input,
    step_exact checker md reply ->
    host_run answer prompt specs checker md reply input = host_spec answer prompt specs reply input.
Proof. exact host_refines. Qed.
Print Assumptions host_refines_spec.

(* ... Generate and Stream agree under checker_exact; with the default checker whenever the reply
   does not stream content before its tool call *)
Theorem host_generate_stream_agree :
  forall answer prompt specs checker reply input,
    (forall content calls, checker [whole_chunk content calls] = nonempty calls) ->
    chunking_valid reply -> checker_exact checker reply ->
    host_run answer prompt specs checker Stream reply input
    = host_run answer prompt specs checker Generate reply input.
Proof. exact Proofs.Host.host_generate_stream_agree. Qed.
Print Assumptions host_generate_stream_agree.

Theorem host_generate_stream_agree_with_default_checker :
  forall answer prompt specs reply input,
    chunking_valid reply -> tool_calls_first reply ->
    host_run answer prompt specs default_checker Stream reply input
    = host_run answer prompt specs default_checker Generate reply input.
Proof. exact host_generate_stream_agree_default. Qed.
Print Assumptions host_generate_stream_agree_with_default_checker.

(* the specification: a reply without tool call is the answer; a reply with exactly one tool call
   naming a specialist hands the ORIGINAL messages (behind the specialist's own system prompt, if
   any) to that specialist, reports the hand-off, and returns the specialist's result; several
   tool calls or an unknown name are errors and nobody runs *)
Theorem host_direct_answer :
  forall answer prompt specs content chunks input,
    host_spec answer prompt specs (SMsg content [] chunks) input
    = mkHTrace (host_input prompt input) None [] (HFinal (assistant content [])).
Proof. exact host_answers_directly. Qed.
Print Assumptions host_direct_answer.

Theorem host_hand_off :
  forall answer prompt specs content c chunks input s,
    find_spec (c_name c) specs = Some s ->
    let t := host_spec answer prompt specs (SMsg content [c] chunks) input in
    ht_handoff t = Some (hs_name s, spec_input s input)
    /\ ht_events t = [(c_name c, c_args c)]
    /\ (forall m, answer (hs_name s) (spec_input s input) = Ok m -> ht_out t = HFinal m)
    /\ exists pre, spec_input s input = (pre ++ input)%list /\ List.length pre <= 1.
Proof. exact host_hands_off. Qed.
Print Assumptions host_hand_off.

Theorem host_rejects_other_replies :
  forall answer prompt specs content calls chunks input,
    (2 <= List.length calls \/ exists c, calls = [c] /\ find_spec (c_name c) specs = None) ->
    exists e, ht_out (host_spec answer prompt specs (SMsg content calls chunks) input) = HFailed e
              /\ ht_handoff (host_spec answer prompt specs (SMsg content calls chunks) input) = None.
Proof. exact host_rejects. Qed.
Print Assumptions host_rejects_other_replies.

(* ---- non-vacuity ----------------------------------------------------------------------- *)
Definition ex_tn (calls : list call) : res (list tmsg) :=
  Ok (map (fun c => (c_name c ++ "(" ++ c_args c ++ ")", c_id c)) calls).
(* the same tools streamed: two frames per call (the name, then the parenthesised arguments - an
   empty frame content when a piece is empty), the calls' streams interleaved round-robin *)
Definition ex_tns (calls : list call) : res (list string * list emitted * option N) :=
  let idx := combine (seq 0 (List.length calls)) calls in
  let names := map (fun p => (fst p, c_name (snd p))) idx in
  let args := map (fun p => (fst p, ("(" ++ c_args (snd p) ++ ")")%string)) idx in
  Ok (map c_id calls, (names ++ args)%list, None).
Definition ex_rd (n : string) : bool := String.eqb n "final".
Definition ex_script : list step :=
  [ SMsg "" [mkCall "a0" "search" "x"; mkCall "a1" "calc" "y"]
         [ mkChunk "" []; mkChunk "" [mkFrag 0 "a0" "search" ""; mkFrag 1 "a1" "calc" "y"];
           mkChunk "" [mkFrag 0 "" "" "x"] ];
    SMsg "thinking" [mkCall "b0" "search" "z"; mkCall "b1" "final" "w"]
         [ mkChunk "think" [mkFrag 0 "b0" "search" "z"]; mkChunk "ing" [mkFrag 1 "b1" "final" "w"] ];
    SMsg "unreachable" [] [mkChunk "unreachable" []] ].
Definition ex_input : list msg := [mkMsg RUser "q" [] ""].

(* the hypotheses of the theorems hold for this script with the default checker (tool calls are
   in the first non-empty chunk) in both modes ... *)
Example step_exact_nonvacuous :
  Forall (step_exact default_checker Stream) ex_script /\ Forall (step_exact default_checker Generate) ex_script
  /\ Forall chunking_valid ex_script /\ Forall (checker_exact default_checker) ex_script
  /\ Forall tool_calls_first ex_script /\ ~ Forall tool_calls_first w_script.
Proof.
  vm_compute. repeat split; repeat constructor.
  intro H. inversion H as [|? ? H1 _]. discriminate H1.
Qed.
(* ... and so does the tools part: the streamed tools of the example are exact on every round *)
Example reply_exact_nonvacuous :
  Forall (reply_exact ex_tn ex_tns ex_rd true default_checker Stream) ex_script
  /\ Forall (reply_exact ex_tn ex_tns ex_rd true default_checker Generate) ex_script
  /\ Forall (tools_stream_exact ex_tn ex_tns ex_rd true) ex_script.
Proof.
  assert (T : Forall (tools_stream_exact ex_tn ex_tns ex_rd true) ex_script).
  { unfold ex_script. apply Forall_cons; [|apply Forall_cons; [|apply Forall_cons; [|apply Forall_nil]]];
      [| |intro H; contradiction H; reflexivity];
      (intros _; unfold tools_exact; cbn [ex_tn]; eexists; eexists; split; [reflexivity|];
       match goal with
       | |- tout_results (TFrames ?ids ?em None) = Ok ?rs /\ _ =>
           destruct (frames_exact ids em rs ltac:(vm_compute; reflexivity)) as [A B]; split; [exact A|intros i _; apply B]
       end). }
  destruct step_exact_nonvacuous as [S1 [S2 _]].
  assert (C : forall md, Forall (step_exact default_checker md) ex_script ->
                         Forall (fun s => match s with
                                          | SMsg _ calls _ => calls <> [] -> tools_exact ex_tn ex_tns ex_rd true md calls
                                          | SFail => True
                                          end) ex_script ->
                         Forall (reply_exact ex_tn ex_tns ex_rd true default_checker md) ex_script).
  { intros md A B. apply Forall_forall. intros s Hs.
    split; [exact (proj1 (Forall_forall _ _) A s Hs)|exact (proj1 (Forall_forall _ _) B s Hs)]. }
  split; [apply C; [exact S1|exact T]|split; [apply C; [exact S2|]|exact T]].
  apply Forall_forall. intros s _. destruct s; simpl; auto.
Qed.
(* ... the run is two rounds ending in a return-directly result, identically in both modes *)
Example run_nonvacuous :
  let t := agent_run ex_tn ex_tns ex_rd true (fun h => h) (fun _ => true) default_checker Stream 13 ex_script ex_input in
  t_out t = Final (mkMsg RTool "final(w)" [] "b1")
  /\ List.length (t_inputs t) = 2%nat /\ List.length (t_rounds t) = 2%nat
  /\ t = agent_run ex_tn ex_tns ex_rd true (fun h => h) (fun _ => true) default_checker Generate 13 ex_script ex_input
  /\ nth_error (t_inputs t) 1
     = Some [mkMsg RUser "q" [] ""; assistant "" [mkCall "a0" "search" "x"; mkCall "a1" "calc" "y"];
             mkMsg RTool "search(x)" [] "a0"; mkMsg RTool "calc(y)" [] "a1"].
Proof. vm_compute. repeat split; reflexivity. Qed.
(* ... and with one step less the direct-return node cannot run *)
Example step_limit_nonvacuous :
  t_out (agent_run ex_tn ex_tns ex_rd true (fun h => h) (fun _ => true) default_checker Generate 4 ex_script ex_input) = Failed EStepLimit
  /\ t_out (agent_run ex_tn ex_tns ex_rd true (fun h => h) (fun _ => true) default_checker Generate 5 ex_script ex_input)
     = Final (mkMsg RTool "final(w)" [] "b1").
Proof. vm_compute. split; reflexivity. Qed.
Example looping_nonvacuous :
  Forall (looping ex_tn ex_rd false) (firstn 2 ex_script)
  /\ t_out (agent_run ex_tn ex_tns ex_rd false (fun h => h) (fun _ => true) exact_checker Stream 4 (firstn 2 ex_script) ex_input) = Failed EStepLimit.
Proof. vm_compute. split; [repeat constructor; try discriminate; eexists; reflexivity | reflexivity]. Qed.
(* streams are lazy: a tool whose stream fails AFTER it was opened (outside [tools_exact]) lets the
   tools node return; the failure reaches the agent in the next superstep (the chat node's
   pre-processing concatenates the stream) or its caller (return-directly).  So a Stream run at its
   step limit ends with the step-limit error where Generate ends with the tool's error; with one
   more step both end with the tool's error *)
Example late_stream_failure_is_met_one_node_later :
  let c := mkCall "a0" "search" "x" in
  let script := [SMsg "" [c] [whole_chunk "" [c]]] in
  let tn := fun _ : list call => @Err (list tmsg) 100%N in
  let tns := fun calls : list call => Ok (map c_id calls, [(0, "par")]%nat, Some 100%N) in
  let run := fun md n => t_out (agent_run tn tns ex_rd false (fun h => h) (fun _ => true) exact_checker md n script ex_input) in
  run Generate 2 = Failed (ETools 100) /\ run Stream 2 = Failed EStepLimit
  /\ run Generate 3 = Failed (ETools 100) /\ run Stream 3 = Failed (ETools 100).
Proof. vm_compute. repeat split; reflexivity. Qed.
(* ... and behind direct_return the failure is met by the caller, after the run (and its message
   future) have ended normally *)
Example late_stream_failure_behind_direct_return :
  let c := mkCall "a0" "final" "x" in
  let script := [SMsg "" [c] [whole_chunk "" [c]]] in
  let tn := fun _ : list call => @Err (list tmsg) 100%N in
  let tns := fun calls : list call => Ok (map c_id calls, [(0, "par")]%nat, Some 100%N) in
  let run := fun md => agent_run tn tns ex_rd true (fun h => h) (fun _ => true) exact_checker md 13 script ex_input in
  t_out (run Generate) = Failed (ETools 100) /\ future_closed (run Generate) = false
  /\ t_out (run Stream) = Failed (ELate 100) /\ future_closed (run Stream) = true.
Proof. vm_compute. repeat split; reflexivity. Qed.
(* the slice model on a run of two rounds, no modifier, MaxStep 5 (capacity 6) and a doubling
   growth policy: the first two histories handed to the model share the state's first backing
   array (array 0: the later appends to it happened in place, behind the handed slices), the
   last append had to move the history to a new array - and every handed slice is intact *)
Example heap_nonvacuous :
  let ops := [HChat [1; 2]; HTools 3; HChat [4]; HTools 5; HChat [6; 7]]%N in
  let st := hrun (fun c _ _ => 2 * c) None 5 ops in
  map (fun p => sl_arr (fst p)) (h_handed st) = [0; 0; 1]
  /\ map snd (h_handed st) = [[1; 2]; [1; 2; 3; 4]; [1; 2; 3; 4; 5; 6; 7]]%N
  /\ List.length (h_heap st) = 2
  /\ nth 0 (h_heap st) [] = [1; 2; 3; 4; 5; 0]%N
  /\ handed_intact st = true.
Proof. vm_compute. repeat split; reflexivity. Qed.
(* tools behaving alike exist: a tool streaming its name, an empty chunk and its arguments (returning
   their concatenation when invoked), failing in both forms on the argument string "fail" *)
Example tools_alike_nonvacuous :
  tools_alike (fun name args => if String.eqb args "fail" then Tools.TErr 7 else Tools.TOk (concat_strings [name; ""; args]))
              (fun name args => if String.eqb args "fail" then SErr 7 else SOk [name; ""; args] None).
Proof. intros name args. destruct (String.eqb args "fail"); simpl; auto. split; [discriminate|reflexivity]. Qed.
(* a malformed model stream (two names for the tool call at index 0: the chunks do not concatenate,
   outside [chunking_valid]): Generate is not concerned; in Stream mode the chat node has returned the
   stream, the branch routes it - to the tools node, whose pre-processing fails in the next superstep
   (or the step limit strikes first), or to END: the caller fails reading what the run returned *)
Example malformed_model_stream_fails_where_it_is_read :
  let c := mkCall "a0" "search" "x" in
  let bad := [mkChunk "" [mkFrag 0 "a0" "search" "x"]; mkChunk "" [mkFrag 0 "" "other" ""]] in
  let script := [SMsg "" [c] bad; SMsg "done" [] [mkChunk "done" []]] in
  let run := fun checker md n => agent_run ex_tn ex_tns ex_rd false (fun h => h) (fun _ => true) checker md n script ex_input in
  concat_chunks bad = None
  /\ t_out (run exact_checker Generate 12) = Final (assistant "done" [])
  /\ t_out (run exact_checker Stream 12) = Failed EConcat /\ t_rounds (run exact_checker Stream 12) = []
  /\ t_out (run exact_checker Stream 1) = Failed EStepLimit
  /\ t_out (run (fun _ => false) Stream 12) = Failed (ELate E_CONCAT)
  /\ future_closed (run (fun _ => false) Stream 12) = true.
Proof. vm_compute. repeat split; reflexivity. Qed.
(* the tools node of the examples answers in call order; the future's messages of the example run *)
Example tn_in_order_nonvacuous : tn_in_order ex_tn.
Proof. intros calls results H. inversion H. rewrite map_map. reflexivity. Qed.
Example future_nonvacuous :
  let t := agent_run ex_tn ex_tns ex_rd true (fun h => h) (fun _ => true) default_checker Stream 13 ex_script ex_input in
  List.length (t_emits t) = 6%nat
  /\ nth_error (t_inputs t) 1 = Some (ex_input ++ firstn 3 (t_emits t))%list
  /\ nth_error (t_rounds t) 1 = Some [mkCall "b0" "search" "z"; mkCall "b1" "final" "w"].
Proof. vm_compute. repeat split; reflexivity. Qed.
(* the engine's supersteps on the example: one node per superstep, chat/tools alternating, then direct_return *)
Example engine_supersteps_nonvacuous :
  engine_supersteps ex_tn ex_tns ex_rd true (fun h => h) (fun _ => true) default_checker Stream 0 ex_script ex_input
  = [[]; [kChat]; [kTools]; [kChat]; [kTools]; [kDirect]]
  /\ engine_trace ex_tn ex_tns ex_rd true (fun h => h) (fun _ => true) default_checker Stream 4 ex_script ex_input
     = Some (agent_run ex_tn ex_tns ex_rd true (fun h => h) (fun _ => true) default_checker Stream 4 ex_script ex_input)
  /\ option_map t_out (engine_trace ex_tn ex_tns ex_rd true (fun h => h) (fun _ => true) default_checker Stream 4 ex_script ex_input)
     = Some (Failed EStepLimit).
Proof. vm_compute. repeat split; reflexivity. Qed.
Example host_nonvacuous :
  let specs := [mkHSpec "coder" (Some "You are the coder."); mkHSpec "writer" None] in
  let answer := fun (n : string) (i : list msg) => Ok (assistant (n ++ " done") []) in
  let reply := SMsg "" [mkCall "h0" "coder" "{}"] [mkChunk "" []; mkChunk "" [mkFrag 0 "h0" "coder" "{}"]] in
  step_exact default_checker Stream reply /\ find_spec "coder" specs = Some (mkHSpec "coder" (Some "You are the coder."))
  /\ host_run answer "" specs default_checker Stream reply ex_input
     = mkHTrace (mkMsg RSystem default_host_prompt [] "" :: ex_input)
                (Some ("coder", mkMsg RSystem "You are the coder." [] "" :: ex_input))
                [("coder", "{}")] (HFinal (assistant "coder done" [])).
Proof. vm_compute. repeat split; reflexivity. Qed.
