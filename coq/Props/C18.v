(* Props/C18.v — placeholder while the theorems are being written (see Proofs/React.v). *)
From Eino Require Import Base.Util Model.Tools Model.React.
