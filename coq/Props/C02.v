(* Props/C02.v — property C02 (placeholder while the theorems are being added). *)
From Eino Require Import Base.Util Model.Graph Proofs.Graph.
Open Scope N_scope.
Example c02_placeholder : kEND = 1. Proof. reflexivity. Qed.
