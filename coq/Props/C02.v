(* Props/C02.v — property C02: all-predecessor (DAG) graphs and Workflows — every node runs at most once,
   exactly when triggered; skip propagation; input = merge of the routed data predecessors.
   Only statements: each theorem is proved in Proofs/Dag*.v about the definitions of Model/Graph.v that
   Corr/C02.v evaluates (dag_report_values / dag_report_deps / dag_report_skip / dag_get, run_flat / run). *)
From Eino Require Import Base.Util Model.Graph Proofs.DagChan Proofs.DagInv Proofs.DagLoop Proofs.DagExamples.
Open Scope N_scope.

(* ================= channel level (compose/dag.go) ================= *)

(* get: ready <-> not skipped /\ no control predecessor waiting /\ every data predecessor reported (a skip
   report sets the data flag too). Ready: the merge of the stored values (or the merge error) and the reset
   channel; not ready: nothing, channel unchanged. *)
Theorem dag_get_ready_iff : forall V (ops : vops V) (c : chan V),
  chan_ok V c ->
  (ready_cond V c <-> dag_get V ops c = (do v <- get_merge V ops (c_vals V c); Ok (Some v, dag_reset V c)))
  /\ (~ ready_cond V c <-> dag_get V ops c = Ok (None, c)).
Proof. exact DagChan.dag_get_ready_iff. Qed.
Print Assumptions dag_get_ready_iff.

(* a successful get resets the channel: every control predecessor waits again, every data flag is cleared,
   no value is kept; key sets and the skipped flag are unchanged *)
Theorem dag_get_resets : forall V (ops : vops V) (c : chan V) v c',
  dag_get V ops c = Ok (Some v, c') ->
  (forall p d, ctrl_st V c' p = Some d -> d = Waiting)
  /\ (forall p b, data_st V c' p = Some b -> b = false)
  /\ c_vals V c' = []
  /\ c_skipped V c' = c_skipped V c
  /\ akeys (c_ctrl V c') = akeys (c_ctrl V c) /\ akeys (c_data V c') = akeys (c_data V c).
Proof. exact DagChan.dag_get_resets. Qed.
Print Assumptions dag_get_resets.

(* ... and therefore is not ready again until every predecessor reports again *)
Theorem dag_get_not_ready_again : forall V (c : chan V),
  chan_ok V c -> (c_ctrl V c <> [] \/ c_data V c <> []) -> dag_ready V (dag_reset V c) = false.
Proof. exact DagChan.dag_reset_not_ready. Qed.
Print Assumptions dag_get_not_ready_again.

(* reportSkip: returns true, and marks the channel skipped, iff EVERY control predecessor is now skipped;
   exactly the named predecessors change (control: skipped, data: reported), values are kept *)
Theorem dag_skip_iff_all_skipped : forall V (c : chan V) ks c' b,
  chan_ok V c ->
  dag_report_skip V c ks = (c', b) ->
  c_skipped V c' = b
  /\ (b = true <-> forall p d, ctrl_st V c' p = Some d -> d = Skipped)
  /\ (forall p, ctrl_st V c' p = if memb p ks then option_map (fun _ => Skipped) (ctrl_st V c p) else ctrl_st V c p)
  /\ (forall p, data_st V c' p = if memb p ks then option_map (fun _ => true) (data_st V c p) else data_st V c p)
  /\ c_vals V c' = c_vals V c.
Proof. exact DagChan.dag_skip_iff_all_skipped. Qed.
Print Assumptions dag_skip_iff_all_skipped.

Example chan_ok_nonvacuous : chan_ok value (chan_init value ex_dag 5) /\ ready_cond value
  (dag_report_deps value (dag_report_values value (chan_init value ex_dag 5) [(3, VNil); (4, VNil)]) [3; 4]).
Proof.
  split; [apply chan_init_ok|]. apply dag_ready_iff; [|reflexivity].
  apply dag_report_deps_ok, dag_report_values_ok, chan_init_ok.
Qed.

(* ================= graph level ================= *)

(* At most once. For EVERY graph in all-predecessor mode (no well-formedness or acyclicity assumption),
   every input, every behaviour of the lambdas (exec), every branch table, every behaviour of nested graphs,
   batch and eager mode and every completion schedule (sched), at every nesting depth: the node paths in
   the execution log of that graph instance are pairwise distinct. *)
Theorem dag_at_most_once : forall V St (ops : vops V) exec sched F fuel p g x s,
  g_mode g = Dag ->
  NoDup (executed_paths p (outcome_log V (fst (run_nest V St ops exec sched fuel F p g x s)))).
Proof. exact dag_at_most_once_nest. Qed.
Print Assumptions dag_at_most_once.

Theorem dag_at_most_once_root : forall V St (ops : vops V) exec sched g F x s,
  g_mode g = Dag ->
  NoDup (executed_paths [] (outcome_log V (fst (run V St ops exec sched (g :: F) x s)))).
Proof. exact dag_at_most_once_run. Qed.
Print Assumptions dag_at_most_once_root.

(* the same with the nested graphs abstracted to an arbitrary oracle that logs under its own path *)
Theorem dag_at_most_once_any_sub : forall V St (ops : vops V) g exec sub sched p x s,
  g_mode g = Dag ->
  (forall i k v s', Forall (fun e : logentry V => fst e <> p) (outcome_log V (fst (sub i (p ++ [k]) v s')))) ->
  NoDup (executed_paths p (outcome_log V (fst (run_flat V St ops exec sub sched p g x s)))).
Proof. exact dag_at_most_once_flat. Qed.
Print Assumptions dag_at_most_once_any_sub.

(* non-vacuity: a DAG whose run executes five of its six nodes (one branch target is skipped, the skip
   does not reach the join node 5 because its other predecessor ran) *)
Example at_most_once_nonvacuous :
  g_mode ex_dag = Dag
  /\ executed_paths [] (outcome_log value (tree_run [] [ex_dag] ex_input_c)) = [[2]; [4]; [5]; [6]; [7]]
  /\ executed_paths [] (outcome_log value (tree_run [] [ex_dag] ex_input_b)) = [[2]; [3]; [5]; [7]].
Proof. vm_compute. auto. Qed.
