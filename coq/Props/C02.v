(* Props/C02.v — property C02: all-predecessor (DAG) graphs and Workflows — every node runs at most once,
   exactly when triggered; skip propagation; input = merge of the routed data predecessors.
   Only statements: each theorem is proved in Proofs/Dag*.v about the definitions of Model/Graph.v that
   Corr/C02.v evaluates (dag_report_values / dag_report_deps / dag_report_skip / dag_get, run_flat / run). *)
From Eino Require Import Base.Util Model.Graph Model.DagValidate Model.DagSpec Proofs.DagChan Proofs.DagInv Proofs.DagLoop Proofs.DagTrig Proofs.DagVals Proofs.DagSkip Proofs.DagTrigLoop Proofs.DagDen Proofs.DagDenFun Proofs.DagProgress Proofs.DagValidate Proofs.DagFuel Proofs.DagLegacy Proofs.DagExamples.
Open Scope N_scope.

(* ================= channel level (compose/dag.go) ================= *)

(* get: ready <-> not skipped /\ no control predecessor waiting /\ every data predecessor reported (a skip
   report sets the data flag too). Ready: the merge of the stored values (or the merge error) and the reset
   channel; not ready: nothing, channel unchanged. *)
Theorem dag_get_ready_iff : forall V (ops : vops V) (c : chan V),
  chan_ok V c ->
  (ready_cond V c <-> dag_get V ops c = (do v <- get_merge V ops (c_vals V c); Ok (Some v, dag_reset V c)))
  /\ (~ ready_cond V c <-> dag_get V ops c = Ok (None, c)).
Proof. exact DagChan.dag_get_ready_iff. Qed.
Print Assumptions dag_get_ready_iff.

(* a successful get resets the channel: every control predecessor waits again, every data flag is cleared,
   no value is kept; key sets and the skipped flag are unchanged *)
Theorem dag_get_resets : forall V (ops : vops V) (c : chan V) v c',
  dag_get V ops c = Ok (Some v, c') ->
  (forall p d, ctrl_st V c' p = Some d -> d = Waiting)
  /\ (forall p b, data_st V c' p = Some b -> b = false)
  /\ c_vals V c' = []
  /\ c_skipped V c' = c_skipped V c
  /\ akeys (c_ctrl V c') = akeys (c_ctrl V c) /\ akeys (c_data V c') = akeys (c_data V c).
Proof. exact DagChan.dag_get_resets. Qed.
Print Assumptions dag_get_resets.

(* ... and therefore is not ready again until every predecessor reports again *)
Theorem dag_get_not_ready_again : forall V (c : chan V),
  chan_ok V c -> (c_ctrl V c <> [] \/ c_data V c <> []) -> dag_ready V (dag_reset V c) = false.
Proof. exact DagChan.dag_reset_not_ready. Qed.
Print Assumptions dag_get_not_ready_again.

(* reportSkip: returns true, and marks the channel skipped, iff EVERY control predecessor is now skipped;
   exactly the named predecessors change (control: skipped, data: reported), values are kept *)
Theorem dag_skip_iff_all_skipped : forall V (c : chan V) ks c' b,
  chan_ok V c ->
  dag_report_skip V c ks = (c', b) ->
  c_skipped V c' = b
  /\ (b = true <-> forall p d, ctrl_st V c' p = Some d -> d = Skipped)
  /\ (forall p, ctrl_st V c' p = if memb p ks then option_map (fun _ => Skipped) (ctrl_st V c p) else ctrl_st V c p)
  /\ (forall p, data_st V c' p = if memb p ks then option_map (fun _ => true) (data_st V c p) else data_st V c p)
  /\ c_vals V c' = c_vals V c.
Proof. exact DagChan.dag_skip_iff_all_skipped. Qed.
Print Assumptions dag_skip_iff_all_skipped.

Example chan_ok_nonvacuous : chan_ok value (chan_init value ex_dag 5) /\ ready_cond value
  (dag_report_deps value (dag_report_values value (chan_init value ex_dag 5) [(3, VNil); (4, VNil)]) [3; 4]).
Proof.
  split; [apply chan_init_ok|]. apply dag_ready_iff; [|reflexivity].
  apply dag_report_deps_ok, dag_report_values_ok, chan_init_ok.
Qed.

(* ================= graph level ================= *)

(* At most once. For EVERY graph in all-predecessor mode (no well-formedness or acyclicity assumption),
   every input, every behaviour of the lambdas (exec), every branch table, every behaviour of nested graphs,
   batch and eager mode and every completion schedule (sched), at every nesting depth: the node paths in
   the execution log of that graph instance are pairwise distinct. *)
Theorem dag_at_most_once : forall V St (ops : vops V) exec sched F fuel p g x s,
  g_mode g = Dag ->
  NoDup (executed_paths p (outcome_log V (fst (run_nest V St ops exec sched fuel F p g x s)))).
Proof. exact dag_at_most_once_nest. Qed.
Print Assumptions dag_at_most_once.

Theorem dag_at_most_once_root : forall V St (ops : vops V) exec sched g F x s,
  g_mode g = Dag ->
  NoDup (executed_paths [] (outcome_log V (fst (run V St ops exec sched (g :: F) x s)))).
Proof. exact dag_at_most_once_run. Qed.
Print Assumptions dag_at_most_once_root.

(* the same with the nested graphs abstracted to an arbitrary oracle that logs under its own path *)
Theorem dag_at_most_once_any_sub : forall V St (ops : vops V) g exec sub sched p x s,
  g_mode g = Dag ->
  (forall i k v s', Forall (fun e : logentry V => fst e <> p) (outcome_log V (fst (sub i (p ++ [k]) v s')))) ->
  NoDup (executed_paths p (outcome_log V (fst (run_flat V St ops exec sub sched p g x s)))).
Proof. exact dag_at_most_once_flat. Qed.
Print Assumptions dag_at_most_once_any_sub.

(* non-vacuity: a DAG whose run executes five of its six nodes (one branch target is skipped, the skip
   does not reach the join node 5 because its other predecessor ran) *)
Example at_most_once_nonvacuous :
  g_mode ex_dag = Dag
  /\ executed_paths [] (outcome_log value (tree_run [] [ex_dag] ex_input_c)) = [[2]; [4]; [5]; [6]; [7]]
  /\ executed_paths [] (outcome_log value (tree_run [] [ex_dag] ex_input_b)) = [[2]; [3]; [5]; [7]].
Proof. vm_compute. auto. Qed.

(* ---------------------------------------------------------------------------------------------------
   Exactly when triggered; skip propagation.  Vocabulary (Proofs/DagTrigLoop.v, Proofs/DagTrig.v):
     reach .. x s0 ls Rv   ls is a state of the loop of runner.run (run_flat / iterate of Model/Graph.v) started
                           on input x, reached by iterating the model's own [step]; Rv is the record of the tasks
                           resolved so far with their outputs ((START, x) first). Every outcome of run_flat is
                           produced by such a state (dag_outcome_from_reachable_state).
     executed ls t         (p ++ [t]) occurs in the execution log of the instance;  scheduled ls t: t is one of the
                           tasks the next iteration submits.
     triggered ls Rv t     t's channel is not skipped and EVERY control and data predecessor of t has been
                           resolved or is skipped.
     routed_c Rv q t       q was resolved with an output for which it routes control to t: t is a direct
                           control successor of q or was selected by one of q's branches.
   All statements hold for batch and eager (Workflow) mode, every schedule, every behaviour of node bodies,
   branch tables and nested graphs; the assumptions on the graph are that node keys are distinct and
   api_built g: a control edge parallel to a data-carrying branch end is a data edge too (true of everything
   the public API builds: Graph.AddEdge is always data + control, Workflow branches carry no data). *)

Theorem dag_runs_iff_triggered : forall V St (ops : vops V) g,
  g_mode g = Dag -> NoDup (map n_key (g_nodes g)) -> api_built g ->
  forall exec sub sched p,
  (forall i k v s, Forall (fun e : logentry V => fst e <> p) (outcome_log V (fst (sub i (p ++ [k]) v s)))) ->
  forall x s0 ls Rv t,
  reach V St ops g exec sub sched p x s0 ls Rv ->
  (executed V St p ls t \/ scheduled V St ls t <-> triggered V St g ls Rv t).
Proof. exact runs_iff_triggered. Qed.
Print Assumptions dag_runs_iff_triggered.

(* ... and then at least one control predecessor actually routed to it *)
Theorem dag_routed_when_run : forall V St (ops : vops V) g,
  g_mode g = Dag -> NoDup (map n_key (g_nodes g)) -> api_built g ->
  forall exec sub sched p,
  (forall i k v s, Forall (fun e : logentry V => fst e <> p) (outcome_log V (fst (sub i (p ++ [k]) v s)))) ->
  forall x s0 ls Rv t,
  reach V St ops g exec sub sched p x s0 ls Rv ->
  executed V St p ls t \/ scheduled V St ls t -> cpreds g t <> [] ->
  exists q, In q (cpreds g t) /\ routed_c V ops g Rv q t.
Proof. exact routed_when_run. Qed.
Print Assumptions dag_routed_when_run.

(* otherwise it is skipped: all control predecessors finished or skipped and none routed to it *)
Theorem dag_skipped_when_none_routed : forall V St (ops : vops V) g,
  g_mode g = Dag -> NoDup (map n_key (g_nodes g)) -> api_built g ->
  forall exec sub sched p,
  (forall i k v s, Forall (fun e : logentry V => fst e <> p) (outcome_log V (fst (sub i (p ++ [k]) v s)))) ->
  forall x s0 ls Rv t c,
  reach V St ops g exec sub sched p x s0 ls Rv ->
  alookup t (ls_chans V St ls) = Some c -> cpreds g t <> [] ->
  (forall q, In q (cpreds g t) -> resolved V Rv q \/ skipped V (ls_chans V St ls) q) ->
  (forall q, In q (cpreds g t) -> ~ routed_c V ops g Rv q t) ->
  c_skipped V c = true.
Proof. exact skipped_when_none_routed. Qed.
Print Assumptions dag_skipped_when_none_routed.

(* ... and only then (with /repo 665541a a direct control successor is never reported as skipped): once all
   control predecessors are finished or skipped, the node is skipped EXACTLY WHEN none of them routed to it *)
Theorem dag_skipped_iff_none_routed : forall V St (ops : vops V) g,
  g_mode g = Dag -> NoDup (map n_key (g_nodes g)) -> api_built g ->
  forall exec sub sched p,
  (forall i k v s, Forall (fun e : logentry V => fst e <> p) (outcome_log V (fst (sub i (p ++ [k]) v s)))) ->
  forall x s0 ls Rv t c,
  reach V St ops g exec sub sched p x s0 ls Rv ->
  alookup t (ls_chans V St ls) = Some c -> cpreds g t <> [] ->
  (forall q, In q (cpreds g t) -> resolved V Rv q \/ skipped V (ls_chans V St ls) q) ->
  (c_skipped V c = true <-> forall q, In q (cpreds g t) -> ~ routed_c V ops g Rv q t).
Proof. exact skipped_iff_none_routed. Qed.
Print Assumptions dag_skipped_iff_none_routed.

(* soundness of a skip at any time: a skipped node was routed to by none of its control predecessors *)
Theorem dag_skipped_none_routed : forall V St (ops : vops V) g,
  g_mode g = Dag -> NoDup (map n_key (g_nodes g)) -> api_built g ->
  forall exec sub sched p,
  (forall i k v s, Forall (fun e : logentry V => fst e <> p) (outcome_log V (fst (sub i (p ++ [k]) v s)))) ->
  forall x s0 ls Rv t c,
  reach V St ops g exec sub sched p x s0 ls Rv ->
  alookup t (ls_chans V St ls) = Some c -> c_skipped V c = true -> cpreds g t <> [] ->
  forall q, In q (cpreds g t) -> ~ routed_c V ops g Rv q t.
Proof. exact skipped_none_routed. Qed.
Print Assumptions dag_skipped_none_routed.

(* a skipped node without control predecessors (only data-only inputs) has no predecessor at all or a skipped
   data predecessor *)
Theorem dag_skipped_data_only : forall V St (ops : vops V) g,
  g_mode g = Dag -> NoDup (map n_key (g_nodes g)) -> api_built g ->
  forall exec sub sched p,
  (forall i k v s, Forall (fun e : logentry V => fst e <> p) (outcome_log V (fst (sub i (p ++ [k]) v s)))) ->
  forall x s0 ls Rv t c,
  reach V St ops g exec sub sched p x s0 ls Rv ->
  alookup t (ls_chans V St ls) = Some c -> c_skipped V c = true -> cpreds g t = [] ->
  dpreds g t = [] \/ exists q, In q (dpreds g t) /\ skipped V (ls_chans V St ls) q.
Proof. exact skipped_data_only. Qed.
Print Assumptions dag_skipped_data_only.

(* the skip propagates to the successors: all control predecessors skipped => skipped *)
Theorem dag_skip_propagates : forall V St (ops : vops V) g,
  g_mode g = Dag -> NoDup (map n_key (g_nodes g)) -> api_built g ->
  forall exec sub sched p,
  (forall i k v s, Forall (fun e : logentry V => fst e <> p) (outcome_log V (fst (sub i (p ++ [k]) v s)))) ->
  forall x s0 ls Rv t c,
  reach V St ops g exec sub sched p x s0 ls Rv ->
  alookup t (ls_chans V St ls) = Some c -> cpreds g t <> [] ->
  (forall q, In q (cpreds g t) -> skipped V (ls_chans V St ls) q) ->
  c_skipped V c = true.
Proof. exact skip_propagates. Qed.
Print Assumptions dag_skip_propagates.

Theorem dag_skipped_never_runs : forall V St (ops : vops V) g,
  g_mode g = Dag -> NoDup (map n_key (g_nodes g)) -> api_built g ->
  forall exec sub sched p,
  (forall i k v s, Forall (fun e : logentry V => fst e <> p) (outcome_log V (fst (sub i (p ++ [k]) v s)))) ->
  forall x s0 ls Rv t,
  reach V St ops g exec sub sched p x s0 ls Rv ->
  skipped V (ls_chans V St ls) t -> ~ (executed V St p ls t \/ scheduled V St ls t).
Proof. exact skipped_never_runs. Qed.
Print Assumptions dag_skipped_never_runs.

(* F-C02 (fixed in /repo 91b08ee): a node that no edge or branch leads to is skipped from the start *)
Theorem dag_orphan_skipped : forall V St (ops : vops V) g,
  g_mode g = Dag -> NoDup (map n_key (g_nodes g)) -> api_built g ->
  forall exec sub sched p,
  (forall i k v s, Forall (fun e : logentry V => fst e <> p) (outcome_log V (fst (sub i (p ++ [k]) v s)))) ->
  forall x s0 ls Rv t c,
  reach V St ops g exec sub sched p x s0 ls Rv ->
  alookup t (ls_chans V St ls) = Some c -> t <> kEND ->
  cpreds g t = [] -> dpreds g t = [] -> c_skipped V c = true.
Proof. exact orphan_skipped. Qed.
Print Assumptions dag_orphan_skipped.

(* the reachable states are the states of the real loop: every outcome of run_flat that comes out of the loop
   is the Finish of a reachable state (or the model's loop fuel ran out in a reachable state) *)
Theorem dag_outcome_from_reachable_state : forall V St (ops : vops V) g exec sub sched p x s cs0 cs1 ready o s',
  init_chans V g = Ok cs0 -> calc_next V ops g cs0 [(kSTART, x)] = Ok (cs1, ready) -> alookup kEND ready = None ->
  run_flat V St ops exec sub sched p g x s = (o, s') ->
  exists ls Rv, reach V St ops g exec sub sched p x s ls Rv
    /\ (step V St ops exec sub sched p g ls = Finish o s' \/ (o = Fail [mkerr eLoopFuel] (ls_log V St ls) /\ s' = ls_st V St ls)).
Proof. exact run_flat_reach. Qed.
Print Assumptions dag_outcome_from_reachable_state.

(* non-vacuity: the state of ex_dag on ex_input_c after two iterations: a (2) and c (4) executed, d (5) and
   e (6) scheduled, b (3) skipped; d is triggered although its predecessor b is skipped *)
Definition ex_nosub : nat -> path -> value -> unit -> outcome value * unit := fun _ _ _ s => (Fail [] [], s).
Example reach_nonvacuous :
  exists ls Rv, reach value unit tree_ops ex_dag (tree_exec []) ex_nosub sched_first [] ex_input_c tt ls Rv
    /\ executed value unit [] ls 2 /\ executed value unit [] ls 4
    /\ scheduled value unit ls 5 /\ scheduled value unit ls 6
    /\ skipped value (ls_chans value unit ls) 3
    /\ triggered value unit ex_dag ls Rv 5
    /\ akeys Rv = [kSTART; 2; 4]
    /\ NoDup (map n_key (g_nodes ex_dag)) /\ api_built ex_dag.
Proof.
  eexists _, _. split.
  - eapply reach_step; [eapply reach_step; [eapply reach_init|]|]; vm_compute; reflexivity.
  - split; [vm_compute; tauto|]. split; [vm_compute; tauto|]. split; [vm_compute; tauto|]. split; [vm_compute; tauto|].
    split; [eexists; split; vm_compute; reflexivity|].
    split.
    + eexists. split; [vm_compute; reflexivity|]. split; [reflexivity|].
      intros q [Hq|Hq]; vm_compute in Hq.
      * destruct Hq as [<-|[<-|[]]]; [right; eexists; split; vm_compute; reflexivity|left; vm_compute; tauto].
      * destruct Hq as [<-|[<-|[]]]; [right; eexists; split; vm_compute; reflexivity|left; vm_compute; tauto].
    + split; [vm_compute; reflexivity|]. split; [vm_compute; repeat constructor; simpl; intuition discriminate|].
      intros n t Hn Hc _. simpl in Hn.
      repeat (destruct Hn as [<-|Hn]; [exact Hc|]). destruct Hn.
Qed.

(* ---------------------------------------------------------------------------------------------------
   The input of a node is the merge of exactly the routed data predecessors; the result is END's input.
   Vocabulary (Proofs/DagVals.v):
     val_spec Rv t p v     p is a declared data predecessor of t, was resolved with an output out for which it
                           routes data to t (data edge, or selected by one of its branches), and v is that
                           output as it travels over the edge p -> t (ToField mapping applied: edge_value)
     input_spec Rv t w     w = pre_node t (merge of vals) where vals is the key-sorted list holding exactly the
                           pairs (p, v) with val_spec Rv t p v; get_merge: no value -> the zero value, one value
                           -> itself, several -> mergeValues; pre_node: the field-mapping converter of t *)
Theorem dag_input_is_merge_of_routed : forall V St (ops : vops V) g,
  g_mode g = Dag -> NoDup (map n_key (g_nodes g)) -> api_built g ->
  forall exec sub sched p,
  (forall i k v s, Forall (fun e : logentry V => fst e <> p) (outcome_log V (fst (sub i (p ++ [k]) v s)))) ->
  forall x s0 ls Rv t w,
  reach V St ops g exec sub sched p x s0 ls Rv ->
  alookup t (ls_next V St ls) = Some w -> input_spec V ops g Rv t w.
Proof. exact scheduled_input. Qed.
Print Assumptions dag_input_is_merge_of_routed.

(* the same for every execution recorded in the log, with respect to the tasks resolved when it was scheduled *)
Theorem dag_executed_input_is_merge_of_routed : forall V St (ops : vops V) g,
  g_mode g = Dag -> NoDup (map n_key (g_nodes g)) -> api_built g ->
  forall exec sub sched p,
  (forall i k v s, Forall (fun e : logentry V => fst e <> p) (outcome_log V (fst (sub i (p ++ [k]) v s)))) ->
  forall x s0 ls Rv,
  reach V St ops g exec sub sched p x s0 ls Rv ->
  forall t w, In (p ++ [t], w) (own_events V p (ls_log V St ls)) ->
  exists Rv' more, Rv = Rv' ++ more /\ input_spec V ops g Rv' t w.
Proof. exact executed_input. Qed.
Print Assumptions dag_executed_input_is_merge_of_routed.

(* the value assembled for END is the result of the run *)
Theorem dag_result_is_end_merge : forall V St (ops : vops V) g,
  g_mode g = Dag -> NoDup (map n_key (g_nodes g)) -> api_built g ->
  forall exec sub sched p,
  (forall i k v s, Forall (fun e : logentry V => fst e <> p) (outcome_log V (fst (sub i (p ++ [k]) v s)))) ->
  forall x s0 ls Rv v lg s',
  reach V St ops g exec sub sched p x s0 ls Rv ->
  step V St ops exec sub sched p g ls = Finish (Done v lg) s' ->
  input_spec V ops g (Rv ++ step_outputs V St ops g exec sub sched p ls) kEND v.
Proof. exact done_result. Qed.
Print Assumptions dag_result_is_end_merge.

(* non-vacuity: in the state of reach_nonvacuous node 5 is scheduled with the output of 4 alone (3 is skipped),
   and two iterations later the run is Done with the output of 7 *)
Example input_nonvacuous :
  exists ls Rv, reach value unit tree_ops ex_dag (tree_exec []) ex_nosub sched_first [] ex_input_c tt ls Rv
    /\ alookup 5 (ls_next value unit ls) = Some (VMap [(4, VMap [(2, ex_input_c)])])
    /\ In ([] ++ [4], VMap [(2, ex_input_c)]) (own_events value [] (ls_log value unit ls)).
Proof.
  eexists _, _. split.
  - eapply reach_step; [eapply reach_step; [eapply reach_init|]|]; vm_compute; reflexivity.
  - split; [vm_compute; reflexivity|vm_compute; tauto].
Qed.

Example result_nonvacuous :
  exists ls Rv v lg, reach value unit tree_ops ex_dag (tree_exec []) ex_nosub sched_first [] ex_input_c tt ls Rv
    /\ step value unit tree_ops (tree_exec []) ex_nosub sched_first [] ex_dag ls = Finish (Done v lg) tt
    /\ v = VMap [(7, VMap [(5, VMap [(4, VMap [(2, ex_input_c)])]); (6, VMap [(4, VMap [(2, ex_input_c)])])])].
Proof.
  eexists _, _, _, _. split.
  - eapply reach_step; [eapply reach_step; [eapply reach_step; [eapply reach_init|]|]|]; vm_compute; reflexivity.
  - split; vm_compute; reflexivity.
Qed.

(* ---------------------------------------------------------------------------------------------------
   Denotation and schedule independence (Proofs/DagDen.v).
   DF cs Rv: the table "who was resolved with which output (Rv), who is skipped (cs)" satisfies the local rules
   of the property read as a definition by recursion on a topological order:
     START is resolved with the input x; a resolved node k had every predecessor resolved or skipped, a control
     predecessor that routed to it (without control predecessors: no skipped data predecessor), received the
     merge of the outputs of the data predecessors that routed to it (EF / input_spec) and produced nout k of
     that input; a skipped node with control predecessors has each of them skipped or resolved with the node in
     its skipped list; a skipped node without control predecessors has no predecessor or a skipped data one.
   nout n v is what executing node n on input v yields: the theorems assume the node bodies and nested graphs
   are functions of their input (run_task ... = nout n v for every state); rank is a topological rank of ALL
   dependencies (control and data; rank_ok is a checkable sufficient condition). *)

(* every state the loop reaches carries a table satisfying these rules ... *)
Theorem dag_run_satisfies_den : forall V St (ops : vops V) g,
  g_mode g = Dag -> NoDup (map n_key (g_nodes g)) -> api_built g ->
  forall (nout : node -> V -> tres V) x exec sub sched p,
  (forall i k v s, Forall (fun e : logentry V => fst e <> p) (outcome_log V (fst (sub i (p ++ [k]) v s)))) ->
  (forall n v s, fst (fst (run_task V St ops exec sub p n v s)) = nout n v) ->
  forall s0 ls Rv,
  reach V St ops g exec sub sched p x s0 ls Rv -> DF V ops g nout x (ls_chans V St ls) Rv.
Proof. exact reach_DF. Qed.
Print Assumptions dag_run_satisfies_den.

(* ... and the rules determine the table: two tables agree wherever they overlap (dag_result_is_den: the
   denotation is a function, by induction along the topological rank) *)
Theorem dag_den_unique : forall V (ops : vops V) g (nout : node -> V -> tres V) x (rank : key -> nat),
  (forall t q, gpred g t q -> (rank q < rank t)%nat) ->
  forall csA csB RvA RvB,
  DF V ops g nout x csA RvA -> DF V ops g nout x csB RvB ->
  forall k, agree V csA csB RvA RvB k.
Proof. exact den_deterministic. Qed.
Print Assumptions dag_den_unique.

(* dag_eager_schedule_independent: two runs under ANY two schedules (batch or eager, any completion order,
   different state types): a node resolved in both produced the same output, none is resolved in one and
   skipped in the other ... *)
Theorem dag_schedule_independent : forall V (ops : vops V) g,
  g_mode g = Dag -> NoDup (map n_key (g_nodes g)) -> api_built g ->
  forall (nout : node -> V -> tres V) x (rank : key -> nat),
  (forall t q, gpred g t q -> (rank q < rank t)%nat) ->
  forall p StA StB execA subA schedA execB subB schedB,
  (forall i k v s, Forall (fun e : logentry V => fst e <> p) (outcome_log V (fst (subA i (p ++ [k]) v s)))) ->
  (forall i k v s, Forall (fun e : logentry V => fst e <> p) (outcome_log V (fst (subB i (p ++ [k]) v s)))) ->
  (forall n v s, fst (fst (run_task V StA ops execA subA p n v s)) = nout n v) ->
  (forall n v s, fst (fst (run_task V StB ops execB subB p n v s)) = nout n v) ->
  forall sA sB lsA RvA lsB RvB,
  reach V StA ops g execA subA schedA p x sA lsA RvA ->
  reach V StB ops g execB subB schedB p x sB lsB RvB ->
  forall k, (forall oA oB, In (k, oA) RvA -> In (k, oB) RvB -> oA = oB)
            /\ (In k (akeys RvA) -> ~ skipped V (ls_chans V StB lsB) k)
            /\ (In k (akeys RvB) -> ~ skipped V (ls_chans V StA lsA) k).
Proof. exact reach_agree. Qed.
Print Assumptions dag_schedule_independent.

(* ... and if both runs finish, they return the same result *)
Theorem dag_result_schedule_independent : forall V (ops : vops V) g,
  g_mode g = Dag -> NoDup (map n_key (g_nodes g)) -> api_built g ->
  forall (nout : node -> V -> tres V) x (rank : key -> nat),
  (forall t q, gpred g t q -> (rank q < rank t)%nat) ->
  forall p StA StB execA subA schedA execB subB schedB,
  (forall i k v s, Forall (fun e : logentry V => fst e <> p) (outcome_log V (fst (subA i (p ++ [k]) v s)))) ->
  (forall i k v s, Forall (fun e : logentry V => fst e <> p) (outcome_log V (fst (subB i (p ++ [k]) v s)))) ->
  (forall n v s, fst (fst (run_task V StA ops execA subA p n v s)) = nout n v) ->
  (forall n v s, fst (fst (run_task V StB ops execB subB p n v s)) = nout n v) ->
  forall sA sB lsA RvA lsB RvB vA lgA sA' vB lgB sB',
  (exists q, gpred g kEND q) ->
  reach V StA ops g execA subA schedA p x sA lsA RvA ->
  step V StA ops execA subA schedA p g lsA = Finish (Done vA lgA) sA' ->
  reach V StB ops g execB subB schedB p x sB lsB RvB ->
  step V StB ops execB subB schedB p g lsB = Finish (Done vB lgB) sB' ->
  vA = vB.
Proof. exact done_agree. Qed.
Print Assumptions dag_result_schedule_independent.

(* non-vacuity: the Workflow ex_wf under "first running task completes first" and "last completes first":
   the hypotheses hold (pure nodes, rank, END has a predecessor) and both runs finish *)
Definition ex_nout (n : node) (v : value) : tres value :=
  fst (fst (run_task value unit tree_ops (tree_exec []) ex_nosub [] n v tt)).
Example schedule_independent_nonvacuous :
  (forall n v s, fst (fst (run_task value unit tree_ops (tree_exec []) ex_nosub [] n v s)) = ex_nout n v)
  /\ (forall t q, gpred ex_wf t q -> (ex_rank q < ex_rank t)%nat)
  /\ (exists q, gpred ex_wf kEND q)
  /\ (exists lsA RvA vA lgA, reach value unit tree_ops ex_wf (tree_exec []) ex_nosub sched_first [] ex_input_c tt lsA RvA
        /\ step value unit tree_ops (tree_exec []) ex_nosub sched_first [] ex_wf lsA = Finish (Done vA lgA) tt)
  /\ (exists lsB RvB vB lgB, reach value unit tree_ops ex_wf (tree_exec []) ex_nosub sched_lastE [] ex_input_c tt lsB RvB
        /\ step value unit tree_ops (tree_exec []) ex_nosub sched_lastE [] ex_wf lsB = Finish (Done vB lgB) tt
        /\ akeys RvB = [kSTART; 2; 4; 6; 5]).
Proof.
  split; [intros n v []; reflexivity|]. split; [apply rank_ok_sound; vm_compute; reflexivity|].
  split; [exists 7; left; vm_compute; tauto|]. split.
  - eexists _, _, _, _. split.
    + eapply reach_step; [eapply reach_step; [eapply reach_step; [eapply reach_step; [eapply reach_init|]|]|]|]; vm_compute; reflexivity.
    + vm_compute. reflexivity.
  - eexists _, _, _, _. split; [|split].
    + eapply reach_step; [eapply reach_step; [eapply reach_step; [eapply reach_step; [eapply reach_init|]|]|]|]; vm_compute; reflexivity.
    + vm_compute. reflexivity.
    + vm_compute. reflexivity.
Qed.

(* ---------------------------------------------------------------------------------------------------
   The denotation as an EXECUTABLE function (Model/DagSpec.v, Proofs/DagDenFun.v; evaluated by Corr/C02.v on the
   cases of the harness and compared with the implementation directly).
     den_run ord       evaluates every node once, in the topological order ord (topo_ok: checkable; for the graphs
                       of the harness node_order g = ascending keys), by the rules of the property text: a node
                       runs iff a control predecessor that ran routed to it (a node with data-only inputs
                       exclusively: iff all its data predecessors ran), on the merge of the outputs of the data
                       predecessors that ran and routed data to it; otherwise it is skipped. Table entries:
                       DRan out | DSkip | DFail es (the body fails on that input) | DStuck (behind a failure).
     den_trig T t      TRun w (t runs on input w) | TSkip | TStuck;   den_result ord = the value assembled for END.
   The theorems below are about runner.run as a whole (run_flat), for batch and eager mode and EVERY schedule;
   nout n v is what executing node n on v yields (node bodies / nested graphs that are functions of their input). *)

(* dag_result_is_den: a run that finishes returns the value of the denotation *)
Theorem dag_result_is_den : forall V St (ops : vops V) g,
  g_mode g = Dag -> NoDup (map n_key (g_nodes g)) -> api_built g ->
  forall (nout : node -> V -> tres V) x exec sub sched p,
  (forall i k v s, Forall (fun e : logentry V => fst e <> p) (outcome_log V (fst (sub i (p ++ [k]) v s)))) ->
  (forall n v s, fst (fst (run_task V St ops exec sub p n v s)) = nout n v) ->
  forall s v lg s' ord,
  (exists q, gpred g kEND q) -> topo_ok g ord = true ->
  run_flat V St ops exec sub sched p g x s = (Done v lg, s') ->
  den_result V ops g nout x ord = Some v.
Proof. exact run_flat_done_den. Qed.
Print Assumptions dag_result_is_den.

(* whatever the outcome of the run (finished or failed): every execution in the log of the instance is of a
   node the denotation triggers, on the input the denotation assembles for it *)
Theorem dag_executed_is_den : forall V St (ops : vops V) g,
  g_mode g = Dag -> NoDup (map n_key (g_nodes g)) -> api_built g ->
  forall (nout : node -> V -> tres V) x exec sub sched p,
  (forall i k v s, Forall (fun e : logentry V => fst e <> p) (outcome_log V (fst (sub i (p ++ [k]) v s)))) ->
  (forall n v s, fst (fst (run_task V St ops exec sub p n v s)) = nout n v) ->
  forall s o s' ord t w,
  topo_from g [kSTART] ord = true -> In t ord ->
  run_flat V St ops exec sub sched p g x s = (o, s') ->
  In (p ++ [t], w) (own_events V p (outcome_log V o)) ->
  den_trig V ops g (den_run V ops g nout x ord) t = TRun w.
Proof. exact run_flat_executed_den. Qed.
Print Assumptions dag_executed_is_den.

(* FAILING RUNS, every schedule: a node failure the run reports (an error with a node path; the engine's own
   errors carry none) is a failure of the denotation: that node is triggered by den and its body fails, with
   that error, on the input den assembles for it *)
Theorem dag_failure_is_den : forall V St (ops : vops V) g,
  g_mode g = Dag -> NoDup (map n_key (g_nodes g)) -> api_built g ->
  forall (nout : node -> V -> tres V) x exec sub sched p,
  (forall i k v s, Forall (fun e : logentry V => fst e <> p) (outcome_log V (fst (sub i (p ++ [k]) v s)))) ->
  (forall n v s, fst (fst (run_task V St ops exec sub p n v s)) = nout n v) ->
  forall s es lg s' ord,
  topo_from g [kSTART] ord = true ->
  (forall k n, find_node g k = Some n -> k <> kSTART -> In k ord) ->
  run_flat V St ops exec sub sched p g x s = (Fail es lg, s') ->
  forall e, In e es -> e_path e <> [] ->
  exists k esk, stat V (den_run V ops g nout x ord) k = DFail esk /\ In e esk.
Proof. exact run_flat_fail_den. Qed.
Print Assumptions dag_failure_is_den.

(* in every state the loop reaches: resolved => den gives that output; skipped => den skips (hence a node den
   skips is never executed, and a node den runs is never skipped) *)
Theorem dag_resolved_is_den : forall V St (ops : vops V) g,
  g_mode g = Dag -> NoDup (map n_key (g_nodes g)) -> api_built g ->
  forall (nout : node -> V -> tres V) x exec sub sched p,
  (forall i k v s, Forall (fun e : logentry V => fst e <> p) (outcome_log V (fst (sub i (p ++ [k]) v s)))) ->
  (forall n v s, fst (fst (run_task V St ops exec sub p n v s)) = nout n v) ->
  forall s0 ls Rv ord k out,
  reach V St ops g exec sub sched p x s0 ls Rv -> topo_from g [kSTART] ord = true -> In k (kSTART :: ord) ->
  In (k, out) Rv -> stat V (den_run V ops g nout x ord) k = DRan out.
Proof. exact reach_den_resolved. Qed.
Print Assumptions dag_resolved_is_den.

Theorem dag_skipped_is_den : forall V St (ops : vops V) g,
  g_mode g = Dag -> NoDup (map n_key (g_nodes g)) -> api_built g ->
  forall (nout : node -> V -> tres V) x exec sub sched p,
  (forall i k v s, Forall (fun e : logentry V => fst e <> p) (outcome_log V (fst (sub i (p ++ [k]) v s)))) ->
  (forall n v s, fst (fst (run_task V St ops exec sub p n v s)) = nout n v) ->
  forall s0 ls Rv ord k,
  reach V St ops g exec sub sched p x s0 ls Rv -> topo_from g [kSTART] ord = true -> In k ord ->
  skipped V (ls_chans V St ls) k -> stat V (den_run V ops g nout x ord) k = DSkip.
Proof. exact reach_den_skipped. Qed.
Print Assumptions dag_skipped_is_den.

(* non-vacuity: ex_dag / ex_wf in key order; the runs of the Examples above finish with den's result, node 3 is
   skipped and node 5 runs on the output of 4 alone; with a failing node 6 the run fails and den says DFail *)
Example den_nonvacuous :
  topo_ok ex_dag (node_order ex_dag) = true
  /\ (forall k n, find_node ex_dag k = Some n -> k <> kSTART -> In k (node_order ex_dag))
  /\ (exists q, gpred ex_dag kEND q)
  /\ den_result value tree_ops ex_dag ex_nout ex_input_c (node_order ex_dag)
     = Some (VMap [(7, VMap [(5, VMap [(4, VMap [(2, ex_input_c)])]); (6, VMap [(4, VMap [(2, ex_input_c)])])])])
  /\ fst (run_flat value unit tree_ops (tree_exec []) ex_nosub sched_first [] ex_dag ex_input_c tt)
     = Done (VMap [(7, VMap [(5, VMap [(4, VMap [(2, ex_input_c)])]); (6, VMap [(4, VMap [(2, ex_input_c)])])])])
            (outcome_log value (fst (run_flat value unit tree_ops (tree_exec []) ex_nosub sched_first [] ex_dag ex_input_c tt)))
  /\ stat value (den_run value tree_ops ex_dag ex_nout ex_input_c (node_order ex_dag)) 3 = DSkip
  /\ den_trig value tree_ops ex_dag (den_run value tree_ops ex_dag ex_nout ex_input_c (node_order ex_dag)) 5
     = TRun (VMap [(4, VMap [(2, ex_input_c)])])
  /\ (let nf := fun n v => fst (fst (run_task value unit tree_ops (tree_exec [([6], 1, 0, 7)]) ex_nosub [] n v tt)) in
      stat value (den_run value tree_ops ex_wf nf ex_input_c (node_order ex_wf)) 6 = DFail [ {| e_class := eNode 7; e_path := [6] |} ]
      /\ exists lg, fst (run_flat value unit tree_ops (tree_exec [([6], 1, 0, 7)]) ex_nosub sched_lastE [] ex_wf ex_input_c tt)
                    = Fail [ {| e_class := eNode 7; e_path := [6] |} ] lg).
Proof.
  split; [vm_compute; reflexivity|]. split.
  { intros k n Hf Hne. unfold find_node in Hf. apply find_some in Hf. destruct Hf as [Hin Hk]. apply N.eqb_eq in Hk. subst k.
    simpl in Hin. repeat (destruct Hin as [<-|Hin]; [first [now elim Hne|vm_compute; tauto]|]). destruct Hin. }
  split; [exists 7; left; vm_compute; tauto|].
  split; [vm_compute; reflexivity|]. split; [vm_compute; reflexivity|]. split; [vm_compute; reflexivity|].
  split; [vm_compute; reflexivity|]. split; [vm_compute; reflexivity|]. eexists. vm_compute. reflexivity.
Qed.

(* ---------------------------------------------------------------------------------------------------
   PROGRESS (Proofs/DagProgress.v): a run does not stall. For graphs whose control and data dependencies have a
   topological order (rank), with END not a node key and node bodies / nested graphs that are functions of their
   input and report an error when they fail (nout n v <> TErr []): in every state the loop reaches, under every
   schedule, there is a task to submit or to collect, and runner.run never returns "no tasks to execute" — so
   (with dag_fuel_never_exhausted, dag_result_is_den, dag_failure_is_den) a run ends with den's result, with a
   failure den computes, or with one of the engine's own errors (merge failure, END skipped, foreign branch end).
   Proof: in a state with nothing to submit or collect every executed node is resolved; a channel of minimal rank
   that is neither handed out nor skipped has all predecessors resolved or skipped, so it is triggered, so
   (dag_runs_iff_triggered) it was handed out after all; hence END is handed out or skipped — but END is never
   executed in a state the loop continues from, and never skipped (a skipped channel belongs to a real node:
   reportBranch fails with "unknown node: end" first). *)
Theorem dag_never_out_of_tasks : forall V St (ops : vops V) g,
  g_mode g = Dag -> NoDup (map n_key (g_nodes g)) -> api_built g -> find_node g kEND = None ->
  forall rank : key -> nat, (forall t q, gpred g t q -> (rank q < rank t)%nat) ->
  forall nout : node -> V -> tres V, (forall n v, nout n v <> TErr []) ->
  forall x exec sub sched p,
  (forall i k v s, Forall (fun e : logentry V => fst e <> p) (outcome_log V (fst (sub i (p ++ [k]) v s)))) ->
  (forall n v s, fst (fst (run_task V St ops exec sub p n v s)) = nout n v) ->
  forall s0 ls Rv,
  reach V St ops g exec sub sched p x s0 ls Rv -> ls_next V St ls <> [] \/ ls_running V St ls <> [].
Proof. exact reach_not_stalled. Qed.
Print Assumptions dag_never_out_of_tasks.

Theorem dag_run_never_no_tasks : forall V St (ops : vops V) g,
  g_mode g = Dag -> NoDup (map n_key (g_nodes g)) -> api_built g -> find_node g kEND = None ->
  forall rank : key -> nat, (forall t q, gpred g t q -> (rank q < rank t)%nat) ->
  (forall vals, v_merge ops vals <> Err eNoTasks) ->
  forall nout : node -> V -> tres V, (forall n v, nout n v <> TErr []) ->
  forall x exec sub sched p,
  (forall i k v s, Forall (fun e : logentry V => fst e <> p) (outcome_log V (fst (sub i (p ++ [k]) v s)))) ->
  (forall n v s, fst (fst (run_task V St ops exec sub p n v s)) = nout n v) ->
  forall s lg s',
  run_flat V St ops exec sub sched p g x s <> (Fail [mkerr eNoTasks] lg, s').
Proof. exact run_flat_never_no_tasks. Qed.
Print Assumptions dag_run_never_no_tasks.

(* its hypothesis on the fan-in holds for the value type of the harness *)
Theorem tree_merge_never_no_tasks : forall vals, v_merge tree_ops vals <> Err eNoTasks.
Proof. exact tree_merge_not_notasks. Qed.
Print Assumptions tree_merge_never_no_tasks.

(* non-vacuity: the hypotheses hold for ex_dag with pure harness lambdas (a nested graph that fails reports an error) *)
Definition ex_sub1 : nat -> path -> value -> unit -> outcome value * unit := fun _ _ _ s => (Fail [mkerr eUnknownNode] [], s).
Definition ex_nout1 (n : node) (v : value) : tres value :=
  fst (fst (run_task value unit tree_ops (tree_exec []) ex_sub1 [] n v tt)).
Example progress_nonvacuous :
  find_node ex_dag kEND = None
  /\ (forall t q, gpred ex_dag t q -> (ex_rank q < ex_rank t)%nat)
  /\ (forall n v, ex_nout1 n v <> TErr [])
  /\ (forall n v s, fst (fst (run_task value unit tree_ops (tree_exec []) ex_sub1 [] n v s)) = ex_nout1 n v)
  /\ (forall i k v s, Forall (fun e : logentry value => fst e <> []) (outcome_log value (fst (ex_sub1 i ([] ++ [k]) v s)))).
Proof.
  split; [vm_compute; reflexivity|]. split; [apply rank_ok_sound; vm_compute; reflexivity|]. split.
  - intros n v. unfold ex_nout1, run_task. destruct (n_kind n); simpl; discriminate.
  - split; [intros n v []; reflexivity|]. intros i k v s. constructor.
Qed.

(* ---------------------------------------------------------------------------------------------------
   The fuel of the model never runs out. The Go code has no bound on the `for step` loop in DAG mode nor on the
   work list of reportBranch; the model gives them |nodes|+2 and |nodes|+1 units of fuel and reports
   exhaustion as the distinguished error eLoopFuel. That error is never the outcome of a run (so the
   second alternative of dag_outcome_from_reachable_state never happens, and the model cuts no behaviour). *)
Theorem dag_fuel_never_exhausted : forall V St (ops : vops V) exec sched F fuel p g x s,
  g_mode g = Dag -> (forall vals, v_merge ops vals <> Err eLoopFuel) ->
  forall l, fst (run_nest V St ops exec sched (S fuel) F p g x s) <> Fail [mkerr eLoopFuel] l.
Proof. exact dag_fuel_nest. Qed.
Print Assumptions dag_fuel_never_exhausted.

(* its hypothesis holds for the value type of the harness *)
Theorem tree_merge_class : forall vals, v_merge tree_ops vals <> Err eLoopFuel.
Proof. exact tree_merge_not_fuel. Qed.
Print Assumptions tree_merge_class.

(* ---------------------------------------------------------------------------------------------------
   Cycle rejection (compose/graph.go validateDAG, modelled in Model/DagValidate.v and tied to Compile by
   Corr/C02.v: every forest that compiled is accepted by validate_dag, every forest that Compile rejected
   with "DAG invalid ... has loop" is rejected by it). *)
Theorem validateDAG_sound : forall g,
  validate_dag g = true ->
  exists rank : key -> nat,
    forall n m, In n (real_nodes g) -> In m (real_nodes g) -> is_cpred n (n_key m) = true ->
                (rank (n_key n) < rank (n_key m))%nat.
Proof. exact validate_dag_sound. Qed.
Print Assumptions validateDAG_sound.

(* ... and exactly those: validate_dag decides acyclicity of the control dependencies *)
Theorem validateDAG_iff_acyclic : forall g,
  validate_dag g = true <->
  exists rank : key -> nat,
    forall n m, In n (real_nodes g) -> In m (real_nodes g) -> is_cpred n (n_key m) = true ->
                (rank (n_key n) < rank (n_key m))%nat.
Proof. exact validate_dag_iff. Qed.
Print Assumptions validateDAG_iff_acyclic.

Example validateDAG_nonvacuous :
  validate_dag ex_dag = true /\ validate_dag (skip_chain 12) = true
  /\ validate_dag {| g_nodes := [mk_node kSTART [2] [2] []; mk_node 2 [3] [3] []; mk_node 3 [2; kEND] [2; kEND] []];
                     g_mode := Dag; g_eager := false; g_max := 0 |} = false.
Proof. vm_compute. auto. Qed.

(* ---------------------------------------------------------------------------------------------------
   Findings, repaired in /repo; the pre-repair definitions are kept with machine-checked witnesses. *)

(* F-C02 (91b08ee): without the up-front skip of unreachable nodes the orphan node 9 of ex_orphan is
   executed in every superstep (twice in this run); with it, not at all *)
Theorem orphan_v0_refuted :
  ~ NoDup (executed_paths [] (outcome_log value (fst (run_flat_v0 tree_ops (tree_exec []) ex_nosub sched_first [] ex_orphan ex_input_b tt))))
  /\ executed_paths [] (outcome_log value (fst (run_flat value unit tree_ops (tree_exec []) ex_nosub sched_first [] ex_orphan ex_input_b tt)))
     = [[2]; [3]].
Proof.
  split; [|vm_compute; reflexivity].
  vm_compute. intros H. inversion H as [|? ? _ H2]; subst. inversion H2 as [|? ? Hn _]; subst. apply Hn. simpl. tauto.
Qed.
Print Assumptions orphan_v0_refuted.

(* F-C02b (fa983c2): the old work list of reportBranch re-queued a skipped node for every report: 2^12 - 1
   entries for a chain of 12 skipped nodes (13 suffice), and no end at all on a data-only cycle *)
Theorem skip_worklist_v0_refuted :
  option_map snd (report_branch_v0 value (skip_chain 12) (100 * 1000)%nat 2 [3] (init_chans_v0 value (skip_chain 12))) = Some 4095%nat
  /\ is_ok (report_branch value (skip_chain 12) 2 [3] (init_chans_v0 value (skip_chain 12))) = true
  /\ report_branch_v0 value data_cycle (20 * 1000)%nat 2 [4] (init_chans_v0 value data_cycle) = None
  /\ is_ok (report_branch value data_cycle 2 [4] (init_chans_v0 value data_cycle)) = true.
Proof. vm_compute. auto. Qed.
Print Assumptions skip_worklist_v0_refuted.
