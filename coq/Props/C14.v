(* Props/C14.v — property C14: chunk concatenation is total, deterministic and
   independent of chunk boundaries. Only statements, each closed by [exact]. *)
From Eino Require Import Base.Util Model.Concat Proofs.Concat.

(* Totality: for every statically typed chunk list (no nil item at top level; nil values
   may sit under any map key at any depth) the concatenation is a value or an ordinary
   error, never a panic.  Determinism is by construction: [concat_stream] is a function
   of the chunk list and does not see Go's map iteration order. *)
Theorem concat_total :
  forall vs : list cval, (forall v, In v vs -> is_nil v = false) -> concat_stream vs <> Panic.
Proof. exact concat_stream_total. Qed.
Print Assumptions concat_total.

Example concat_total_nonvacuous :
  concat_stream [CMap [("k"%string, CNil)]; CMap [("k"%string, CStr "a")]; CMap [("j"%string, CNil)]]
  = Ok (CMap [("k"%string, CStr "a"); ("j"%string, CNil)]).
Proof. vm_compute. reflexivity. Qed.
