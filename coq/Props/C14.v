(* Props/C14.v — property C14: chunk concatenation is total, deterministic and
   independent of chunk boundaries. Only statements, each closed by [exact]. *)
From Eino Require Import Base.Util Model.Concat Model.ConcatMsg Model.ConcatOrder Model.ConcatV0 Model.ConcatUser Model.ConcatMsgMap.
From Eino Require Import Proofs.Concat Proofs.ConcatRechunk Proofs.ConcatMsg Proofs.ConcatMsgList.
From Eino Require Import Proofs.ConcatOrder Proofs.ConcatOrderMsg Proofs.ConcatMsgSpec Proofs.ConcatUser.
From Eino Require Import Proofs.ConcatKeyed Proofs.ConcatMsgMap.
From Eino Require Import Proofs.ConcatSuffix Proofs.ConcatSuffixMsg Proofs.ConcatSuffixMap Proofs.ConcatAny Proofs.ConcatSplit.
From Eino Require Import Model.ConcatStream Proofs.ConcatStream.
From Eino Require Import Model.ConcatDeep Proofs.ConcatKinds Proofs.ConcatDeep Proofs.ConcatDeepEmbed.
From Eino Require Import Model.ConcatDeepOrder Proofs.ConcatDeepOrder Model.ConcatOrderList Proofs.ConcatOrderList.
From Coq Require Import Sorting.Sorted Sorting.Permutation.

(* Every theorem quantifies over the registry [U] of concat functions registered by the
   application and assumes only that these functions themselves are total and invariant
   under re-chunking ([L : UserLaw], Proofs/Concat.v).  The Examples are evaluated with the
   registry of the harness (Model/ConcatUser.v), which satisfies the laws: *)
#[local] Existing Instance harness_user.
Theorem harness_registry_lawful : @UserLaw harness_user.
Proof. exact harness_user_law. Qed.
Print Assumptions harness_registry_lawful.
(* ... and so does the empty registry. *)
Theorem empty_registry_lawful : @UserLaw no_user.
Proof. exact no_user_law. Qed.

(* ------------------------------------------------------------------ generic values *)

(* Totality: for every statically typed chunk list (no nil item at top level; nil values
   may sit under any map key at any depth) the concatenation is a value or an ordinary
   error, never a panic.  Determinism is by construction: [concat_stream] is a function
   of the chunk list and does not see Go's map iteration order. *)
Theorem concat_total :
  forall (U : UserFn) (L : UserLaw) (vs : list cval),
    (forall v, In v vs -> is_nil v = false) -> concat_stream vs <> Panic.
Proof. exact @concat_stream_total. Qed.
Print Assumptions concat_total.

Example concat_total_nonvacuous :
  concat_stream [CMap 0 [("k"%string, CNil)]; CMap 0 [("k"%string, CStr "a")]; CMap 0 [("j"%string, CNil)]]
  = Ok (CMap 0 [("k"%string, CStr "a"); ("j"%string, CNil)]).
Proof. vm_compute. reflexivity. Qed.

(* Finding F-C14 (repaired in /repo by commit 8acc627): before the repair the Extra maps
   [{"k": nil}] (one chunk is enough) made concatMaps panic; the repaired function returns
   the key with a nil value. *)
Theorem concat_panics_refuted :
  concat_maps_top_v0 [[("k"%string, CNil)]] = Panic /\
  concat_maps_top_v0 [[("k"%string, CStr "a")]; [("k"%string, CNil)]] = Err E_TYPE /\
  concat_maps_top [[("k"%string, CNil)]] = Ok [("k"%string, CNil)] /\
  concat_maps_top [[("k"%string, CStr "a")]; [("k"%string, CNil)]] = Ok [("k"%string, CStr "a")].
Proof. repeat split; vm_compute; reflexivity. Qed.

(* Finding F-C14b (repaired in /repo by commit 509de21): a concat function registered for an
   interface chunk type (tag 9 of the harness registry: sum of the non-nil chunks, the nil value
   = payload 0 when every chunk is nil) may answer with the nil value of that type; before the
   repair ConcatItems panicked on it, the repaired function returns it. *)
Theorem concat_iface_nil_panics_refuted :
  concat_stream_iface_v0 [COther 9 0; COther 9 0] = Panic /\
  concat_stream [COther 9 0; COther 9 0] = Ok (COther 9 0) /\
  concat_stream_iface_v0 [COther 9 0; COther 9 3] = concat_stream [COther 9 0; COther 9 3].
Proof. repeat split; vm_compute; reflexivity. Qed.

(* Re-chunking: for a statically typed chunk stream (all chunks of dynamic type [t]),
   concatenating a non-empty prefix first and then the rest gives exactly the same value
   (first-appearance key order included) as concatenating everything at once, or both
   fail; if the prefix alone fails, the whole fails. No side ever panics. *)
Theorem concat_rechunk :
  forall (U : UserFn) (L : UserLaw) (t : cty) (xs ys : list cval),
    xs <> [] -> (forall v, In v (xs ++ ys) -> dyn_ty v = Some t) ->
    match concat_stream xs with
    | Ok c =>
        match concat_stream (c :: ys), concat_stream (xs ++ ys) with
        | Ok a, Ok b => a = b
        | Err _, Err _ => True
        | _, _ => False
        end
    | Err _ => exists e, concat_stream (xs ++ ys) = Err e
    | Panic => False
    end.
Proof. exact @concat_stream_rechunk. Qed.
Print Assumptions concat_rechunk.

Example concat_rechunk_nonvacuous_ok :
  let xs := [CMap 0 [("k"%string, CStr "a"); ("n"%string, CMap 0 [("x"%string, CNum 0 1)])];
             CMap 0 [("k"%string, CNil); ("n"%string, CMap 0 [("x"%string, CNum 0 2); ("y"%string, COther 0 0)])]] in
  let ys := [CMap 0 [("n"%string, CMap 0 [("y"%string, COther 0 7)]); ("k"%string, CStr "b")]] in
  exists c, concat_stream xs = Ok c /\
    concat_stream (c :: ys) = concat_stream (xs ++ ys) /\
    concat_stream (xs ++ ys) =
      Ok (CMap 0 [("k"%string, CStr "ab"); ("n"%string, CMap 0 [("x"%string, CNum 0 2); ("y"%string, COther 0 7)])]).
Proof. eexists. split; [vm_compute; reflexivity|]. split; vm_compute; reflexivity. Qed.

Example concat_rechunk_nonvacuous_err :
  let xs := [CMap 0 [("k"%string, COther 0 1)]; CMap 0 [("j"%string, CStr "s")]] in
  let ys := [CMap 0 [("k"%string, COther 0 2)]] in
  exists c, concat_stream xs = Ok c /\ concat_stream (c :: ys) = Err E_MULTI /\ concat_stream (xs ++ ys) = Err E_MULTI.
Proof. eexists. split; [vm_compute; reflexivity|]. split; vm_compute; reflexivity. Qed.

(* Registered custom chunk types (compose.RegisterStreamChunkConcatFunc): the registered
   function is applied to the chunk list as it is (at top level and under map keys, never
   to a single chunk), so the theorems above hold for them exactly when the registered
   function itself is total and invariant under re-chunking ([UserLaw]).  The two
   functions the harness registers are (harness_registry_lawful); a registered function that
   counts its chunks is not, and re-chunking changes the result: the hypothesis is needed. *)
Example registered_types_nonvacuous :
  concat_stream [COther 6 1; COther 6 2; COther 6 4] = Ok (COther 6 7) /\
  concat_stream [COther 7 1; COther 7 2] = Ok (COther 7 3) /\
  concat_stream [COther 7 3; COther 7 2; COther 7 1] = Err E_USER /\
  concat_stream [COther 7 9] = Ok (COther 7 9) /\
  concat_stream [CMap 0 [("a"%string, COther 6 1); ("l"%string, COther 7 4)]; CMap 0 [("a"%string, COther 6 5); ("l"%string, CNil)];
                 CMap 0 [("l"%string, COther 7 1)]]
    = Ok (CMap 0 [("a"%string, COther 6 6); ("l"%string, COther 7 5)]) /\
  concat_stream [CMap 0 [("l"%string, COther 7 4)]; CMap 0 [("l"%string, COther 7 4)]] = Err E_USER.
Proof. repeat split; vm_compute; reflexivity. Qed.

Theorem registered_law_needed_refuted :
  let xs := [COther 6 0; COther 6 0] in
  let ys := [COther 6 0] in
  (forall v, In v (xs ++ ys) -> dyn_ty v = Some (TOther 6)) /\
  @concat_stream count_user xs = Ok (COther 6 2) /\
  @concat_stream count_user (COther 6 2 :: ys) = Ok (COther 6 2) /\
  @concat_stream count_user (xs ++ ys) = Ok (COther 6 3).
Proof.
  split; [|repeat split; vm_compute; reflexivity].
  intros v H. cbn in H. destruct H as [<-|[<-|[<-|[]]]]; reflexivity.
Qed.

(* Streams of an interface type (a node whose output type is [any]; /repo commit c44e450):
   the chunks — of any dynamic type, nil included — are concatenated by their common dynamic
   type, like the values under one key of a map chunk.  Total, re-chunking invariant for
   every non-empty prefix, independent of the map iteration order. *)
Theorem any_stream_total :
  forall (U : UserFn) (L : UserLaw) (vs : list cval), concat_stream_any vs <> Panic.
Proof. exact @concat_stream_any_no_panic. Qed.
Print Assumptions any_stream_total.

Theorem any_stream_rechunk :
  forall (U : UserFn) (L : UserLaw) (xs ys : list cval),
    xs <> [] ->
    match concat_stream_any xs with
    | Ok c =>
        match concat_stream_any (c :: ys), concat_stream_any (xs ++ ys) with
        | Ok a, Ok b => a = b
        | Err _, Err _ => True
        | _, _ => False
        end
    | Err _ => exists e, concat_stream_any (xs ++ ys) = Err e
    | Panic => False
    end.
Proof. exact @concat_stream_any_rechunk. Qed.
Print Assumptions any_stream_rechunk.

Theorem any_stream_deterministic :
  forall (U : UserFn) (L : UserLaw) (s : sched) (vs vs' : list cval),
    sched_ok s -> Forall2 ceq vs vs' ->
    match concat_stream_any_o s vs, concat_stream_any vs' with
    | Ok a, Ok b => ceq a b
    | Err _, Err _ => True
    | Panic, Panic => True
    | _, _ => False
    end.
Proof. exact @concat_stream_any_order. Qed.
Print Assumptions any_stream_deterministic.

Example any_stream_nonvacuous :
  concat_stream_any [CNil; CStr "a"; CNil; CStr "b"] = Ok (CStr "ab") /\
  concat_stream_any [CNil; CNil] = Ok CNil /\
  concat_stream_any [CStr "a"; CNum 0 1] = Err E_TYPE /\
  concat_stream_any [COther 4 0; COther 4 0; CNil] = Ok (COther 4 0) /\
  concat_stream_any [CMap 0 [("k"%string, CStr "x")]; CNil; CMap 0 [("k"%string, CStr "y")]] = Ok (CMap 0 [("k"%string, CStr "xy")]) /\
  exists c, concat_stream_any [CNil; CStr "a"] = Ok c /\ concat_stream_any [c; CNum 0 1] = Err E_TYPE /\
            concat_stream_any [CNil; CStr "a"; CNum 0 1] = Err E_TYPE.
Proof. repeat split; try (vm_compute; reflexivity). eexists. repeat split; vm_compute; reflexivity. Qed.

(* The same for concatMaps on any number of maps (the Extra maps of chat messages: no
   single-chunk shortcut, even the empty prefix is allowed). *)
Theorem concat_maps_rechunk :
  forall (U : UserFn) (L : UserLaw) (xs ys : list (list (string * cval))),
    match concat_maps_top xs with
    | Ok c =>
        match concat_maps_top (c :: ys), concat_maps_top (xs ++ ys) with
        | Ok a, Ok b => a = b
        | Ok _, _ => False
        | _, Ok _ => False
        | _, _ => True
        end
    | _ => is_ok (concat_maps_top (xs ++ ys)) = false
    end.
Proof. exact @Proofs.ConcatRechunk.concat_maps_rechunk. Qed.
Print Assumptions concat_maps_rechunk.

(* ------------------------------------------------------------------ chat messages *)

(* ConcatMessages, ConcatMessageStream / concatStreamReader[*Message] and
   concatStreamReader[[]*Message] never panic, whatever the chunks (nil chunks, nil maps,
   nil values under Extra keys, negative numbers, conflicting fields, ...). *)
Theorem msg_concat_total :
  forall (U : UserFn) (L : UserLaw),
  (forall l, concat_msgs l <> Panic) /\ (forall l, msg_stream l <> Panic) /\ (forall l, msglist_stream l <> Panic).
Proof. intros U L. exact (conj concat_msgs_no_panic (conj msg_stream_no_panic msglist_stream_no_panic)). Qed.
Print Assumptions msg_concat_total.

(* Re-chunking for schema.ConcatMessages itself: for EVERY prefix [xs] (also a single
   chunk, which ConcatMessages normalises, and the empty one) *)
Theorem msg_concat_rechunk :
  forall (U : UserFn) (L : UserLaw) (xs ys : list (option msg)),
    match concat_msgs xs with
    | Ok c =>
        match concat_msgs (Some c :: ys), concat_msgs (xs ++ ys) with
        | Ok a, Ok b => a = b
        | Err _, Err _ => True
        | _, _ => False
        end
    | Err _ => exists e, concat_msgs (xs ++ ys) = Err e
    | Panic => False
    end.
Proof. exact @msgs_rechunk_strict. Qed.
Print Assumptions msg_concat_rechunk.

(* ... and for the stream-level entry points, which return a single chunk unmerged. *)
Theorem msg_stream_rechunk :
  forall (U : UserFn) (L : UserLaw) (xs ys : list (option msg)),
    xs <> [] ->
    match msg_stream xs with
    | Ok c =>
        match msg_stream (c :: ys), msg_stream (xs ++ ys) with
        | Ok a, Ok b => a = b
        | Err _, Err _ => True
        | _, _ => False
        end
    | Err _ => exists e, msg_stream (xs ++ ys) = Err e
    | Panic => False
    end.
Proof. exact @Proofs.ConcatMsg.msg_stream_rechunk. Qed.
Print Assumptions msg_stream_rechunk.

(* ------------------------------------------------------------------ message lists *)

(* concatStreamReader[[]*Message] (position-wise concatenation of message lists, nil
   entries skipped, lists of different length rejected): any non-empty prefix. *)
Theorem msglist_rechunk :
  forall (U : UserFn) (L : UserLaw) (xs ys : list (list (option msg))),
    xs <> [] ->
    match msglist_stream xs with
    | Ok c =>
        match msglist_stream (c :: ys), msglist_stream (xs ++ ys) with
        | Ok a, Ok b => a = b
        | Err _, Err _ => True
        | _, _ => False
        end
    | Err _ => exists e, msglist_stream (xs ++ ys) = Err e
    | Panic => False
    end.
Proof. exact @Proofs.ConcatMsgList.msglist_stream_rechunk. Qed.
Print Assumptions msglist_rechunk.

(* ... and for concatMessageArray itself, the function the registry calls (it has no
   single-chunk shortcut; on one list it returns that list). *)
Theorem msg_arrays_rechunk :
  forall (U : UserFn) (L : UserLaw) (xs ys : list (list (option msg))),
    xs <> [] ->
    match concat_msg_arrays xs with
    | Ok c =>
        match concat_msg_arrays (c :: ys), concat_msg_arrays (xs ++ ys) with
        | Ok a, Ok b => a = b
        | Ok _, _ => False
        | _, Ok _ => False
        | _, _ => True
        end
    | _ => is_ok (concat_msg_arrays (xs ++ ys)) = false
    end.
Proof. exact @Proofs.ConcatMsgList.msg_arrays_rechunk. Qed.
Print Assumptions msg_arrays_rechunk.

(* ------------------------------------------------------------------ maps of messages *)

(* Map chunks whose values may be messages: a map[string]any holding *Message values (the
   fan-in of message streams) next to ordinary values and nil values, or a
   map[string]*Message with possibly nil pointers, through concatStreamReader: per key, a
   single value is kept as it is, several messages go to ConcatMessages, a message next to
   anything else is a type error. *)
Theorem msgmap_total :
  forall (U : UserFn) (L : UserLaw) (l : list (list (string * mval))), mmap_stream l <> Panic.
Proof. exact @mmap_stream_no_panic. Qed.
Print Assumptions msgmap_total.

Theorem msgmap_rechunk :
  forall (U : UserFn) (L : UserLaw) (xs ys : list (list (string * mval))),
    xs <> [] ->
    match mmap_stream xs with
    | Ok c =>
        match mmap_stream (c :: ys), mmap_stream (xs ++ ys) with
        | Ok a, Ok b => a = b
        | Err _, Err _ => True
        | _, _ => False
        end
    | Err _ => exists e, mmap_stream (xs ++ ys) = Err e
    | Panic => False
    end.
Proof. exact @Proofs.ConcatMsgMap.mmap_stream_rechunk. Qed.
Print Assumptions msgmap_rechunk.

(* The lifting behind it, for any value type: when the concatenation of the values found
   under one key satisfies the re-chunking law, so does the key-wise concatenation of map
   chunks (first-appearance key order included). *)
Theorem keyed_lifting :
  forall (A : Type) (kc : list A -> res A),
    (forall vs rest,
       match kc vs with
       | Ok v => match kc (v :: rest), kc (vs ++ rest) with
                 | Ok a, Ok b => a = b | Ok _, _ => False | _, Ok _ => False | _, _ => True end
       | _ => is_ok (kc (vs ++ rest)) = false
       end) ->
    forall xs ys : list (list (string * A)),
      match kstep kc xs with
      | Ok c => match kstep kc (c :: ys), kstep kc (xs ++ ys) with
                | Ok a, Ok b => a = b | Ok _, _ => False | _, Ok _ => False | _, _ => True end
      | _ => is_ok (kstep kc (xs ++ ys)) = false
      end.
Proof. exact @kstep_rechunk. Qed.
Print Assumptions keyed_lifting.

(* Interleaving: the key-wise concatenation depends on the chunk list only through the
   sequence of values found under each key.  Two chunk lists carrying the same values per
   key — two interleavings of the streams a fan-in merges, or the same data cut into other
   chunks — give maps that agree on every key (and fail together). *)
Theorem interleaving_independent :
  forall (A : Type) (kc : list A -> res A) (ms ms' : list (list (string * A))),
    (forall k, gvals_at k ms = gvals_at k ms') ->
    match kstep kc ms, kstep kc ms' with
    | Ok a, Ok b => forall k, alist_get k a = alist_get k b
    | Ok _, _ => False
    | _, Ok _ => False
    | _, _ => True
    end.
Proof. exact @kstep_interleaving. Qed.
Print Assumptions interleaving_independent.

(* ... and on nothing else: visiting the keys in any order (Go's map iteration) gives the same map *)
Theorem keyed_order_independent :
  forall (A : Type) (kc : list A -> res A) (ord : list string -> list string) (ms : list (list (string * A))),
    (forall l, Permutation (ord l) l) ->
    match kstep_o kc ord ms, kstep kc ms with
    | Ok a, Ok b => forall k, alist_get k a = alist_get k b
    | Ok _, _ => False
    | _, Ok _ => False
    | _, _ => True
    end.
Proof. exact @kstep_order. Qed.
Print Assumptions keyed_order_independent.

(* both concatMaps models are instances of that pass *)
Theorem maps_are_keyed :
  forall (U : UserFn),
    (forall ms, concat_maps_top ms = kstep (concat_key concat_maps_top) ms) /\
    (forall ms, concat_mmaps ms = kstep concat_mkey ms).
Proof. intros U. split; [exact concat_maps_top_is_kstep|reflexivity]. Qed.

Definition ex_tc (i : option Z) (id args : string) (e : N) : toolcall := mkTC i id "" "" args e.
Definition ex_m1 : msg :=
  mkMsg "assistant" "" "" "Hel" [] [ex_tc (Some 1%Z) "c1" "{""a" 7; ex_tc None "n" "x" 0; ex_tc (Some 0%Z) "" "q" 0]
        (Some (mkMeta "" (Some (mkUsage (-5) 3 2)) (Some ["t1"%string]))) [("k"%string, CStr "a"); ("z"%string, CNil)].
Definition ex_m2 : msg :=
  mkMsg "" "" "" "lo " [] [ex_tc (Some 1%Z) "" """:1" 9; ex_tc (Some 0%Z) "c0" "r" 3]
        (Some (mkMeta "stop" (Some (mkUsage 4 1 9)) None)) [("k"%string, CStr "b")].
Definition ex_m3 : msg :=
  mkMsg "assistant" "" "" "W" ["p"%string] [ex_tc (Some 1%Z) "c1" "}" 0] None [("z"%string, CNum 0 4)].

Example msg_rechunk_nonvacuous :
  exists c, concat_msgs [Some ex_m1; Some ex_m2] = Ok c /\
    concat_msgs [Some c; Some ex_m3] = concat_msgs [Some ex_m1; Some ex_m2; Some ex_m3] /\
    concat_msgs [Some ex_m1; Some ex_m2; Some ex_m3] =
      Ok (mkMsg "assistant" "" "" "Hello W" ["p"%string]
            [ex_tc None "n" "x" 0; ex_tc (Some 0%Z) "c0" "qr" 0; ex_tc (Some 1%Z) "c1" "{""a"":1}" 7]
            (Some (mkMeta "stop" (Some (mkUsage 4 3 9)) (Some ["t1"%string])))
            [("k"%string, CStr "ab"); ("z"%string, CNum 0 4)]).
Proof. eexists. split; [vm_compute; reflexivity|]. split; vm_compute; reflexivity. Qed.

Example msg_rechunk_nonvacuous_err :
  exists c, concat_msgs [Some ex_m1; Some ex_m2] = Ok c /\
    concat_msgs [Some c; Some (mkMsg "user" "" "" "" [] [] None [])] = Err E_CONFLICT /\
    concat_msgs [Some ex_m1; Some ex_m2; Some (mkMsg "user" "" "" "" [] [] None [])] = Err E_CONFLICT.
Proof. eexists. split; [vm_compute; reflexivity|]. split; vm_compute; reflexivity. Qed.

Example msglist_rechunk_nonvacuous :
  let xs := [[Some ex_m1; None; Some ex_m3]; [Some ex_m2; None; None]] in
  let ys := [[Some ex_m3; Some ex_m1; None]] in
  exists c, msglist_stream xs = Ok c /\ nth_error c 1 = Some None /\ nth_error c 2 = Some (Some ex_m3) /\
    exists r, msglist_stream (c :: ys) = Ok r /\ msglist_stream (xs ++ ys) = Ok r /\
      nth_error r 1 = Some (Some ex_m1) /\ nth_error r 2 = Some (Some ex_m3).
Proof. eexists. split; [vm_compute; reflexivity|]. split; [reflexivity|]. split; [reflexivity|].
  eexists. split; [vm_compute; reflexivity|]. split; [vm_compute; reflexivity|]. split; reflexivity. Qed.

Example msglist_rechunk_nonvacuous_err :
  exists c, msglist_stream [[Some ex_m1]; [Some ex_m2]] = Ok c /\
    msglist_stream [c; [Some ex_m3; None]] = Err E_LEN /\
    msglist_stream [[Some ex_m1]; [Some ex_m2]; [Some ex_m3; None]] = Err E_LEN.
Proof. eexists. split; [vm_compute; reflexivity|]. split; vm_compute; reflexivity. Qed.

Example msgmap_rechunk_nonvacuous :
  let xs := [[("a"%string, MVMsg ex_m1); ("s"%string, MVVal (CStr "x")); ("n"%string, MVVal CNil)];
             [("a"%string, MVMsg ex_m2); ("p"%string, MVPtrNil)]] in
  let ys := [[("s"%string, MVVal (CStr "y")); ("a"%string, MVMsg ex_m3); ("n"%string, MVMsg ex_m3)]] in
  exists c, mmap_stream xs = Ok c /\ alist_get "p"%string c = Some MVPtrNil /\ alist_get "n"%string c = Some (MVVal CNil) /\
    exists r, mmap_stream (c :: ys) = Ok r /\ mmap_stream (xs ++ ys) = Ok r /\
      alist_get "s"%string r = Some (MVVal (CStr "xy")) /\ alist_get "n"%string r = Some (MVMsg ex_m3) /\
      exists m, alist_get "a"%string r = Some (MVMsg m) /\ concat_msgs [Some ex_m1; Some ex_m2; Some ex_m3] = Ok m.
Proof.
  eexists. split; [vm_compute; reflexivity|]. split; [reflexivity|]. split; [reflexivity|].
  eexists. split; [vm_compute; reflexivity|]. split; [vm_compute; reflexivity|]. split; [reflexivity|]. split; [reflexivity|].
  eexists. split; [reflexivity|]. vm_compute. reflexivity.
Qed.

Example msgmap_rechunk_nonvacuous_err :
  mmap_stream [[("a"%string, MVMsg ex_m1)]; [("a"%string, MVVal (CStr "x"))]] = Err E_TYPE /\
  mmap_stream [[("a"%string, MVMsg ex_m1)]; [("a"%string, MVPtrNil)]] = Err E_NILMSG /\
  exists c, mmap_stream [[("a"%string, MVMsg ex_m1)]; [("a"%string, MVMsg ex_m2)]] = Ok c /\
    mmap_stream [c; [("a"%string, MVPtrNil)]] = Err E_NILMSG /\
    mmap_stream [[("a"%string, MVMsg ex_m1)]; [("a"%string, MVMsg ex_m2)]; [("a"%string, MVPtrNil)]] = Err E_NILMSG.
Proof.
  split; [vm_compute; reflexivity|]. split; [vm_compute; reflexivity|].
  eexists. split; [vm_compute; reflexivity|]. split; vm_compute; reflexivity.
Qed.

Example interleaving_nonvacuous :
  let a1 := [("a"%string, MVMsg ex_m1)] in let a2 := [("a"%string, MVMsg ex_m2)] in
  let b1 := [("b"%string, MVVal (CStr "x"))] in let b2 := [("b"%string, MVVal (CStr "y"))] in
  (forall k, gvals_at k [a1; b1; a2; b2] = gvals_at k [b1; b2; a1; a2]) /\
  exists r r', concat_mmaps [a1; b1; a2; b2] = Ok r /\ concat_mmaps [b1; b2; a1; a2] = Ok r' /\
    map fst r = ["a"%string; "b"%string] /\ map fst r' = ["b"%string; "a"%string] /\
    alist_get "b"%string r = Some (MVVal (CStr "xy")) /\ alist_get "b"%string r' = Some (MVVal (CStr "xy")).
Proof.
  split.
  - intros k. unfold gvals_at. cbn. destruct (String.eqb k "a") eqn:Ea, (String.eqb k "b") eqn:Eb; try reflexivity.
    apply String.eqb_eq in Ea, Eb. congruence.
  - eexists. eexists. split; [vm_compute; reflexivity|]. split; [vm_compute; reflexivity|]. repeat split.
Qed.

(* Order: the content is the arrival-order concatenation; tool calls without index come
   first in arrival order; then exactly one call per distinct index, ascending, whose
   arguments are the arrival-order concatenation of the fragments carrying that index. *)
Theorem order_kept :
  forall (U : UserFn) (l : list (option msg)) (r : msg),
    concat_msgs l = Ok r ->
    exists ms, all_some l = Some ms /\
      m_content r = concat_strings (map m_content ms) /\
      let cs := flat_map m_tcs ms in
      exists il merged,
        m_tcs r = filter is_nil_idx cs ++ merged /\
        map tc_idx merged = map Some il /\
        StronglySorted Z.lt il /\
        (forall i, In i il <-> exists c, In c cs /\ tc_idx c = Some i) /\
        Forall2 (fun i m => tc_args m = concat_strings (map tc_args (filter (has_idx i) cs))) il merged.
Proof. exact @order_kept_proof. Qed.
Print Assumptions order_kept.

(* ------------------------------------------------------------------ what every field becomes *)

(* ConcatMessages, field by field: role / name / tool-call id are the one non-empty value
   all chunks agree on ([pick_characterised] below); content is joined in arrival order;
   multi-content is the last non-empty one; the response meta is absent iff no chunk has
   one, else it carries the last non-empty finish reason, the component-wise maximum of 0
   and the chunks' token usages (absent iff no chunk has a usage), all log-prob lists
   appended in arrival order (absent iff no chunk has one); tool calls go through
   concatToolCalls (order_kept); the Extra maps are merged key by key: every key of any
   chunk appears once and holds the concatenation of the values found under it, in arrival
   order. *)
Theorem fields_merged :
  forall (U : UserFn) (l : list (option msg)) (r : msg),
    concat_msgs l = Ok r ->
    exists ms, all_some l = Some ms /\
      pick (map m_role ms) = Ok (m_role r) /\
      pick (map m_name ms) = Ok (m_name r) /\
      pick (map m_tcid ms) = Ok (m_tcid r) /\
      m_content r = concat_strings (map m_content ms) /\
      m_multi r = fold_left (fun acc x => match x with [] => acc | _ => x end) (map m_multi ms) [] /\
      m_meta r = meta_closed (map m_meta ms) /\
      concat_toolcalls (flat_map m_tcs ms) = Ok (m_tcs r) /\
      let ex := filter nonempty_map (map m_extra ms) in
      map fst (m_extra r) = keys_of ex /\
      forall k, In k (keys_of ex) ->
        exists v, concat_key concat_maps_top (vals_at k ex) = Ok v /\ alist_get k (m_extra r) = Some v.
Proof. exact @fields_spec. Qed.
Print Assumptions fields_merged.

(* "first non-empty value wins, a different non-empty value is an error", exactly *)
Theorem pick_characterised :
  forall (l : list string) (r : string),
    pick l = Ok r <-> (forall s, In s l -> s = EmptyString \/ s = r) /\ (r = EmptyString \/ In r l).
Proof. exact pick_spec. Qed.
Print Assumptions pick_characterised.

(* the merged usage, component by component *)
Theorem usage_is_max :
  forall us : list usage,
    umax_all us = mkUsage (fold_left Z.max (map u_prompt us) 0%Z)
                          (fold_left Z.max (map u_compl us) 0%Z)
                          (fold_left Z.max (map u_total us) 0%Z) /\
    (forall l acc z, (z = acc \/ In z l) -> (z <= fold_left Z.max l acc)%Z) /\
    (forall l acc, fold_left Z.max l acc = acc \/ In (fold_left Z.max l acc) l).
Proof. intros us. exact (conj (umax_all_components us) (conj fold_max_ge fold_max_in)). Qed.
Print Assumptions usage_is_max.

Example fields_merged_nonvacuous :
  meta_closed [m_meta ex_m1; m_meta ex_m2; m_meta ex_m3] = Some (mkMeta "stop" (Some (mkUsage 4 3 9)) (Some ["t1"%string])) /\
  meta_closed [None; None] = None /\
  meta_closed [Some (mkMeta "" None None); None] = Some (mkMeta "" None None) /\
  meta_closed [Some (mkMeta "a" (Some (mkUsage (-5) (-1) (-2))) (Some [])); Some (mkMeta "" None (Some ["x"%string; "y"%string]))]
    = Some (mkMeta "a" (Some (mkUsage 0 0 0)) (Some ["x"%string; "y"%string])).
Proof. repeat split; vm_compute; reflexivity. Qed.

(* ------------------------------------------------------------------ determinism *)

(* Go iterates over maps in an arbitrary order that may change from call to call.
   [concat_stream_o s] is concatStreamReader/ConcatItems with the key loop of every
   (nested) concatMaps call visiting the keys in the order the schedule [s] dictates
   (Model/ConcatOrder.v); [ceq] relates two renderings of the same Go value (association
   lists that agree as lookup functions, at every depth).  Whatever the schedule and
   whatever the rendering of the chunks, the result is the Go value computed by
   [concat_stream] (the function the correspondence check evaluates), or both fail (the
   error reported may belong to another key), or both panic (never, by concat_total). *)
Theorem concat_deterministic :
  forall (U : UserFn) (L : UserLaw) (s : sched) (vs vs' : list cval),
    sched_ok s -> Forall2 ceq vs vs' ->
    match concat_stream_o s vs, concat_stream vs' with
    | Ok a, Ok b => ceq a b
    | Err _, Err _ => True
    | Panic, Panic => True
    | _, _ => False
    end.
Proof. exact @concat_stream_order. Qed.
Print Assumptions concat_deterministic.

(* [ceq] is an equivalence relation (so "the same Go value" is meaningful) *)
Theorem ceq_equivalence :
  (forall v, ceq v v) /\ (forall a b, ceq a b -> ceq b a) /\ (forall a b c, ceq a b -> ceq b c -> ceq a c).
Proof. exact (conj ceq_refl (conj ceq_sym (fun a b c H1 H2 => ceq_trans a b H1 c H2))). Qed.
Print Assumptions ceq_equivalence.

(* the same for concatMaps on any number of maps (the Extra maps of chat messages) *)
Theorem concat_maps_deterministic :
  forall (U : UserFn) (L : UserLaw) (s : sched) (xs xs' : list (list (string * cval))),
    sched_ok s -> Forall2 meq xs xs' ->
    match concat_maps_top_o s xs, concat_maps_top xs' with
    | Ok a, Ok b => meq a b
    | Err _, Err _ => True
    | _, _ => False
    end.
Proof.
  intros U L s xs xs' Hs H. pose proof (concat_maps_order s xs xs' Hs H) as R.
  pose proof (concat_maps_top_no_panic xs') as P.
  destruct (concat_maps_top_o s xs), (concat_maps_top xs'); cbn in R; try contradiction; auto.
Qed.
Print Assumptions concat_maps_deterministic.

(* [rev_sched n] (Model/ConcatOrder.v) reverses the key order at every nesting level down to depth n *)
Lemma rev_sched_ok n : sched_ok (rev_sched n).
Proof.
  induction n as [|n IH]; cbn; constructor; [|intros _; exact IH].
  intros l. apply Permutation_sym, Permutation_rev.
Qed.

Example concat_deterministic_nonvacuous :
  let vs := [CMap 0 [("a"%string, CStr "x"); ("n"%string, CMap 0 [("p"%string, CNum 0 1); ("q"%string, CNil)])];
             CMap 0 [("n"%string, CMap 0 [("q"%string, COther 0 3)]); ("b"%string, CNum 0 2); ("a"%string, CStr "y")]] in
  let vs' := [CMap 0 [("n"%string, CMap 0 [("q"%string, CNil); ("p"%string, CNum 0 1)]); ("a"%string, CStr "x")];
              CMap 0 [("a"%string, CStr "y"); ("b"%string, CNum 0 2); ("n"%string, CMap 0 [("q"%string, COther 0 3)])]] in
  sched_ok (rev_sched 2) /\ Forall2 ceq vs vs' /\
  concat_stream_o (rev_sched 2) vs =
    Ok (CMap 0 [("b"%string, CNum 0 2); ("n"%string, CMap 0 [("q"%string, COther 0 3); ("p"%string, CNum 0 1)]); ("a"%string, CStr "xy")]) /\
  concat_stream vs' =
    Ok (CMap 0 [("n"%string, CMap 0 [("q"%string, COther 0 3); ("p"%string, CNum 0 1)]); ("a"%string, CStr "xy"); ("b"%string, CNum 0 2)]).
Proof.
  split; [apply rev_sched_ok|]. split.
  - constructor; [|constructor; [|constructor]]; apply (ceqb_sound 3); vm_compute; reflexivity.
  - split; vm_compute; reflexivity.
Qed.

(* the error that is reported does depend on the order (only its presence does not) *)
Example concat_deterministic_error_differs :
  let vs := [CMap 0 [("a"%string, CStr "x"); ("b"%string, COther 0 1)];
             CMap 0 [("a"%string, CNum 0 1); ("b"%string, COther 0 2)]] in
  concat_stream vs = Err E_TYPE /\ concat_stream_o (rev_sched 1) vs = Err E_MULTI.
Proof. split; vm_compute; reflexivity. Qed.

(* Tool calls: concatToolCalls collects the fragments in a Go map keyed by index, visits
   it in an arbitrary order [p] and then sorts stably (nil index first, then ascending):
   the result is the one of [concat_toolcalls], whatever the order. *)
Theorem toolcalls_deterministic :
  forall (p : list Z) (cs : list toolcall),
    Permutation p (idxs_of cs) ->
    match concat_toolcalls_o p cs, concat_toolcalls cs with
    | Ok a, Ok b => a = b
    | Err _, Err _ => True
    | _, _ => False
    end.
Proof.
  intros p cs HP. pose proof (toolcalls_order p cs HP) as R.
  pose proof (concat_toolcalls_no_panic cs) as P.
  destruct (concat_toolcalls_o p cs), (concat_toolcalls cs); cbn in R; try contradiction; auto.
Qed.
Print Assumptions toolcalls_deterministic.

(* ConcatMessages with both sources of arbitrary order, on any rendering of the chunks *)
Theorem msg_concat_deterministic :
  forall (U : UserFn) (L : UserLaw) (po : list Z -> list Z) (s : sched) (l l' : list (option msg)),
    (forall x, Permutation (po x) x) -> sched_ok s -> Forall2 omsg_same l l' ->
    match concat_msgs_o po s l, concat_msgs l' with
    | Ok a, Ok b => msg_same a b
    | Err _, Err _ => True
    | _, _ => False
    end.
Proof.
  intros U L po s l l' Hpo Hs H. pose proof (concat_msgs_order po s l l' Hpo Hs H) as R.
  pose proof (concat_msgs_no_panic l') as P.
  destruct (concat_msgs_o po s l), (concat_msgs l'); cbn in R; try contradiction; auto.
Qed.
Print Assumptions msg_concat_deterministic.

Example msg_concat_deterministic_nonvacuous :
  (forall x : list Z, Permutation (rev x) x) /\
  concat_toolcalls_o (rev (idxs_of (m_tcs ex_m1 ++ m_tcs ex_m2 ++ m_tcs ex_m3))) (m_tcs ex_m1 ++ m_tcs ex_m2 ++ m_tcs ex_m3)
    = concat_toolcalls (m_tcs ex_m1 ++ m_tcs ex_m2 ++ m_tcs ex_m3) /\
  rev (idxs_of (m_tcs ex_m1 ++ m_tcs ex_m2 ++ m_tcs ex_m3)) = [1%Z; 0%Z] /\
  exists r, concat_msgs_o (@rev Z) (rev_sched 2) [Some ex_m1; Some ex_m2; Some ex_m3] = Ok r /\
    m_tcs r = [ex_tc None "n" "x" 0; ex_tc (Some 0%Z) "c0" "qr" 0; ex_tc (Some 1%Z) "c1" "{""a"":1}" 7] /\
    m_extra r = [("z"%string, CNum 0 4); ("k"%string, CStr "ab")].
Proof.
  split; [intros x; apply Permutation_sym, Permutation_rev|].
  split; [vm_compute; reflexivity|]. split; [vm_compute; reflexivity|].
  eexists. split; [vm_compute; reflexivity|]. split; reflexivity.
Qed.

(* ------------------------------------------------------------------ any way of splitting *)

(* Beyond "a prefix first, then the rest": cut the chunk list into consecutive non-empty
   groups in ANY way, concatenate every group, then concatenate the results: the value is the
   one of concatenating everything at once, and it fails in the same cases (a group that
   fails alone makes the whole fail).  This is what happens when nested graphs, branches or
   tool nodes concatenate their part of a stream before an outer node concatenates again.
   It needs, besides the prefix law, the mirror-image suffix law F (xs ++ [F! ys]) ~ F (xs ++ ys)
   (Proofs/ConcatSuffix*.v); registered functions must satisfy that one too ([UserLawS]). *)
Theorem harness_registry_lawful_s : @UserLawS harness_user.
Proof. exact harness_user_law_s. Qed.

Theorem concat_split_any :
  forall (U : UserFn) (L : UserLaw) (LS : UserLawS) (t : cty) (groups : list (list cval)) (cs : list cval),
    Forall2 (fun g c => g <> [] /\ concat_stream g = Ok c) groups cs ->
    Forall (fun v => dyn_ty v = Some t) (List.concat groups) ->
    match concat_stream cs, concat_stream (List.concat groups) with
    | Ok a, Ok b => a = b
    | Ok _, _ => False
    | _, Ok _ => False
    | _, _ => True
    end.
Proof. exact @concat_stream_split. Qed.
Print Assumptions concat_split_any.

Theorem concat_split_fails :
  forall (U : UserFn) (L : UserLaw) (LS : UserLawS) (t : cty) (gs1 : list (list cval)) (g : list cval) (gs2 : list (list cval)),
    g <> [] -> is_ok (concat_stream g) = false ->
    Forall (fun v => dyn_ty v = Some t) (List.concat (gs1 ++ g :: gs2)) ->
    is_ok (concat_stream (List.concat (gs1 ++ g :: gs2))) = false.
Proof. exact @concat_stream_split_fails. Qed.
Print Assumptions concat_split_fails.

(* a single segment anywhere in the list *)
Theorem concat_segment :
  forall (U : UserFn) (L : UserLaw) (LS : UserLawS) (t : cty) (pre seg post : list cval),
    seg <> [] -> Forall (fun v => dyn_ty v = Some t) (pre ++ seg ++ post) ->
    match concat_stream seg with
    | Ok c =>
        match concat_stream (pre ++ c :: post), concat_stream (pre ++ seg ++ post) with
        | Ok a, Ok b => a = b
        | Ok _, _ => False
        | _, Ok _ => False
        | _, _ => True
        end
    | _ => is_ok (concat_stream (pre ++ seg ++ post)) = false
    end.
Proof. exact @concat_stream_segment. Qed.
Print Assumptions concat_segment.

(* the same for messages, message lists and maps of messages through the stream entry points *)
Theorem msg_split_any :
  forall (U : UserFn) (L : UserLaw) (LS : UserLawS),
    (forall groups cs, Forall2 (fun g c => g <> [] /\ msg_stream g = Ok c) groups cs ->
       match msg_stream cs, msg_stream (List.concat groups) with
       | Ok a, Ok b => a = b | Ok _, _ => False | _, Ok _ => False | _, _ => True end) /\
    (forall groups cs, Forall2 (fun g c => g <> [] /\ msglist_stream g = Ok c) groups cs ->
       match msglist_stream cs, msglist_stream (List.concat groups) with
       | Ok a, Ok b => a = b | Ok _, _ => False | _, Ok _ => False | _, _ => True end) /\
    (forall groups cs, Forall2 (fun g c => g <> [] /\ mmap_stream g = Ok c) groups cs ->
       match mmap_stream cs, mmap_stream (List.concat groups) with
       | Ok a, Ok b => a = b | Ok _, _ => False | _, Ok _ => False | _, _ => True end) /\
    (forall groups cs, Forall2 (fun g c => g <> [] /\ concat_stream_any g = Ok c) groups cs ->
       match concat_stream_any cs, concat_stream_any (List.concat groups) with
       | Ok a, Ok b => a = b | Ok _, _ => False | _, Ok _ => False | _, _ => True end).
Proof.
  intros U L LS. split; [exact msg_stream_split|]. split; [exact msglist_stream_split|].
  split; [exact mmap_stream_split|exact any_stream_split].
Qed.
Print Assumptions msg_split_any.

Theorem msg_segment :
  forall (U : UserFn) (L : UserLaw) (LS : UserLawS) (pre seg post : list (option msg)),
    seg <> [] ->
    match msg_stream seg with
    | Ok c =>
        match msg_stream (pre ++ c :: post), msg_stream (pre ++ seg ++ post) with
        | Ok a, Ok b => a = b
        | Ok _, _ => False
        | _, Ok _ => False
        | _, _ => True
        end
    | _ => is_ok (msg_stream (pre ++ seg ++ post)) = false
    end.
Proof. exact @msg_stream_segment. Qed.
Print Assumptions msg_segment.

(* the suffix law itself, for ConcatMessages (every suffix, also the empty one) *)
Theorem msg_concat_suffix :
  forall (U : UserFn) (L : UserLaw) (LS : UserLawS) (xs ys : list (option msg)),
    match concat_msgs ys with
    | Ok c =>
        match concat_msgs (xs ++ [Some c]), concat_msgs (xs ++ ys) with
        | Ok a, Ok b => a = b
        | Ok _, _ => False
        | _, Ok _ => False
        | _, _ => True
        end
    | _ => is_ok (concat_msgs (xs ++ ys)) = false
    end.
Proof. exact @msgs_suffix. Qed.
Print Assumptions msg_concat_suffix.

Example split_any_nonvacuous :
  let g1 := [Some ex_m1] in let g2 := [Some ex_m2; Some ex_m3] in let g3 := [Some ex_m3; Some ex_m1; Some ex_m2] in
  exists c2 c3, msg_stream g1 = Ok (Some ex_m1) /\ msg_stream g2 = Ok c2 /\ msg_stream g3 = Ok c3 /\
    exists r, msg_stream [Some ex_m1; c2; c3] = Ok r /\ msg_stream (g1 ++ g2 ++ g3) = Ok r /\ c2 <> Some ex_m2.
Proof.
  eexists. eexists. split; [reflexivity|]. split; [vm_compute; reflexivity|]. split; [vm_compute; reflexivity|].
  eexists. split; [vm_compute; reflexivity|]. split; [vm_compute; reflexivity|]. discriminate.
Qed.

Example split_any_generic_nonvacuous :
  let m k v := CMap 0 [(k, v)] in
  let g1 := [m "a"%string (CStr "x"); m "l"%string (COther 7 2)] in
  let g2 := [m "a"%string (CStr "y")] in
  let g3 := [m "l"%string (COther 7 1); m "a"%string (CStr "z"); m "l"%string (COther 7 2)] in
  exists c1 c3, concat_stream g1 = Ok c1 /\ concat_stream g3 = Ok c3 /\
    concat_stream [c1; m "a"%string (CStr "y"); c3] = concat_stream (g1 ++ g2 ++ g3) /\
    concat_stream (g1 ++ g2 ++ g3) = Ok (CMap 0 [("a"%string, CStr "xyz"); ("l"%string, COther 7 5)]).
Proof.
  eexists. eexists. split; [vm_compute; reflexivity|]. split; [vm_compute; reflexivity|].
  split; vm_compute; reflexivity.
Qed.

(* ------------------------------------------------------------------ the reader in front: read errors *)

(* Every stream-level entry point first drains its reader (concatStreamReader,
   ConcatMessageStream): [stream_entry F items] is the entry point with concatenation [F] on
   what the reader delivers, an item being a chunk or a read error (Model/ConcatStream.v).
   A read error anywhere makes the call return that error, whatever the chunks are; without
   one the entry point is the concatenation of the chunks. *)
Theorem stream_read_error :
  forall (A : Type) (F : list A -> res A) (l : list (sitem A)), In SErr l -> stream_entry F l = Err E_READ.
Proof. exact @stream_entry_error. Qed.
Print Assumptions stream_read_error.

Theorem stream_without_read_error :
  forall (A : Type) (F : list A -> res A) (vs : list A), stream_entry F (map SVal vs) = F vs.
Proof. exact @stream_entry_vals. Qed.

Theorem stream_items_total :
  forall (U : UserFn) (L : UserLaw),
    (forall l, stream_entry msg_stream l <> Panic) /\ (forall l, stream_entry msglist_stream l <> Panic) /\
    (forall l, stream_entry mmap_stream l <> Panic) /\ (forall l, stream_entry concat_stream_any l <> Panic) /\
    (forall l, (forall v, In v (svals l) -> is_nil v = false) -> stream_entry concat_stream l <> Panic).
Proof.
  intros U L. repeat split; intros l.
  - apply stream_entry_no_panic, msg_stream_no_panic.
  - apply stream_entry_no_panic, msglist_stream_no_panic.
  - apply stream_entry_no_panic, mmap_stream_no_panic.
  - apply stream_entry_no_panic, concat_stream_any_no_panic.
  - intros H. unfold stream_entry. destruct (drain l) as [vs|] eqn:E; [|discriminate].
    apply concat_stream_total. rewrite <- (drain_svals l vs E). exact H.
Qed.
Print Assumptions stream_items_total.

(* Re-chunking with read errors in the picture: concatenate the items of ANY segment first
   (that fails when the segment holds a read error), put the result back as one chunk, run
   the entry point again: same value as on the original items, or both fail. *)
Theorem stream_items_segment :
  forall (U : UserFn) (L : UserLaw) (LS : UserLawS),
    (forall pre seg post, seg <> [] ->
       match stream_entry msg_stream seg with
       | Ok c => match stream_entry msg_stream (pre ++ SVal c :: post), stream_entry msg_stream (pre ++ seg ++ post) with
                 | Ok a, Ok b => a = b | Ok _, _ => False | _, Ok _ => False | _, _ => True end
       | _ => is_ok (stream_entry msg_stream (pre ++ seg ++ post)) = false
       end) /\
    (forall pre seg post, seg <> [] ->
       match stream_entry msglist_stream seg with
       | Ok c => match stream_entry msglist_stream (pre ++ SVal c :: post), stream_entry msglist_stream (pre ++ seg ++ post) with
                 | Ok a, Ok b => a = b | Ok _, _ => False | _, Ok _ => False | _, _ => True end
       | _ => is_ok (stream_entry msglist_stream (pre ++ seg ++ post)) = false
       end) /\
    (forall pre seg post, seg <> [] ->
       match stream_entry mmap_stream seg with
       | Ok c => match stream_entry mmap_stream (pre ++ SVal c :: post), stream_entry mmap_stream (pre ++ seg ++ post) with
                 | Ok a, Ok b => a = b | Ok _, _ => False | _, Ok _ => False | _, _ => True end
       | _ => is_ok (stream_entry mmap_stream (pre ++ seg ++ post)) = false
       end) /\
    (forall pre seg post, seg <> [] ->
       match stream_entry concat_stream_any seg with
       | Ok c => match stream_entry concat_stream_any (pre ++ SVal c :: post), stream_entry concat_stream_any (pre ++ seg ++ post) with
                 | Ok a, Ok b => a = b | Ok _, _ => False | _, Ok _ => False | _, _ => True end
       | _ => is_ok (stream_entry concat_stream_any (pre ++ seg ++ post)) = false
       end) /\
    (forall t pre seg post, seg <> [] -> Forall (fun v => dyn_ty v = Some t) (svals (pre ++ seg ++ post)) ->
       match stream_entry concat_stream seg with
       | Ok c => match stream_entry concat_stream (pre ++ SVal c :: post), stream_entry concat_stream (pre ++ seg ++ post) with
                 | Ok a, Ok b => a = b | Ok _, _ => False | _, Ok _ => False | _, _ => True end
       | _ => is_ok (stream_entry concat_stream (pre ++ seg ++ post)) = false
       end).
Proof.
  intros U L LS. split; [exact msg_items_segment|]. split; [exact msglist_items_segment|].
  split; [exact mmap_items_segment|]. split; [exact any_items_segment|exact gen_items_segment].
Qed.
Print Assumptions stream_items_segment.

Example stream_items_nonvacuous :
  stream_entry msg_stream [SVal (Some ex_m1); SErr; SVal (Some ex_m2)] = Err E_READ /\
  stream_entry msg_stream [SErr] = Err E_READ /\
  stream_entry msg_stream [SVal (Some ex_m1)] = Ok (Some ex_m1) /\
  (exists c, stream_entry msg_stream [SVal (Some ex_m2); SVal (Some ex_m3)] = Ok c /\
     stream_entry msg_stream [SVal (Some ex_m1); SVal c; SErr] = Err E_READ /\
     stream_entry msg_stream [SVal (Some ex_m1); SVal c] = stream_entry msg_stream [SVal (Some ex_m1); SVal (Some ex_m2); SVal (Some ex_m3)]) /\
  stream_entry concat_stream [SVal (CStr "a"); SVal (CStr "b")] = Ok (CStr "ab") /\
  stream_entry concat_stream [SVal (CStr "a"); SVal (CStr "b"); SErr] = Err E_READ.
Proof.
  split; [reflexivity|]. split; [reflexivity|]. split; [reflexivity|]. split.
  - eexists. split; [vm_compute; reflexivity|]. split; vm_compute; reflexivity.
  - split; vm_compute; reflexivity.
Qed.

(* A function registered for an interface type (the harness registers one for its type Num,
   tag 9 of the registry instance): ConcatItems hands the chunks to it whatever their dynamic
   types are (and does not fall back to concatenation by dynamic type). *)
Example registered_interface_type_nonvacuous :
  concat_stream [COther 9 1; COther 9 0; COther 9 4] = Ok (COther 9 5) /\
  concat_stream [COther 9 0; COther 9 0] = Ok (COther 9 0) /\
  concat_stream [COther 9 3] = Ok (COther 9 3).
Proof. repeat split; vm_compute; reflexivity. Qed.

(* ------------------------------------------------------------------ maps of these, at any depth *)

(* map[string]any chunks whose values, at ANY nesting depth, are messages (or typed nil
   message pointers), message lists, ordinary values, nil interfaces or again maps of these
   (Model/ConcatDeep.v; the one-level model of Model/ConcatMsgMap.v is the special case
   without nested maps and lists): concatStreamReader never panics -- in the model running
   out of fuel is the panic outcome, so this also says that the fuel supplied (the nesting
   depth) is enough -- ... *)
Theorem deep_total :
  forall (U : UserFn) (L : UserLaw) (l : list (list (string * dval))), dmap_stream l <> Panic.
Proof. exact @dmap_stream_no_panic. Qed.
Print Assumptions deep_total.

(* ... more fuel never changes a result ... *)
Theorem deep_fuel_irrelevant :
  forall (U : UserFn) (f f' : nat) (ms : list (list (string * dval))),
    mdepth ms <= f -> mdepth ms <= f' -> deep_maps (S f) ms = deep_maps (S f') ms.
Proof. exact @deep_maps_fuel. Qed.
Print Assumptions deep_fuel_irrelevant.

(* ... every non-empty prefix may be concatenated first ... *)
Theorem deep_rechunk :
  forall (U : UserFn) (L : UserLaw) (xs ys : list (list (string * dval))),
    xs <> [] ->
    match dmap_stream xs with
    | Ok c =>
        match dmap_stream (c :: ys), dmap_stream (xs ++ ys) with
        | Ok a, Ok b => a = b
        | Err _, Err _ => True
        | _, _ => False
        end
    | Err _ => exists e, dmap_stream (xs ++ ys) = Err e
    | Panic => False
    end.
Proof. exact @dmap_stream_rechunk. Qed.
Print Assumptions deep_rechunk.

(* ... and so may any segment, and the groups of any way of cutting the chunk list. *)
Theorem deep_segment :
  forall (U : UserFn) (L : UserLaw) (LS : UserLawS) (pre seg post : list (list (string * dval))),
    seg <> [] ->
    match dmap_stream seg with
    | Ok c =>
        match dmap_stream (pre ++ c :: post), dmap_stream (pre ++ seg ++ post) with
        | Ok a, Ok b => a = b
        | Ok _, _ => False
        | _, Ok _ => False
        | _, _ => True
        end
    | _ => is_ok (dmap_stream (pre ++ seg ++ post)) = false
    end.
Proof. exact @dmap_stream_segment. Qed.
Print Assumptions deep_segment.

Theorem deep_split_any :
  forall (U : UserFn) (L : UserLaw) (LS : UserLawS) (groups : list (list (list (string * dval)))) (cs : list (list (string * dval))),
    Forall2 (fun g c => g <> [] /\ dmap_stream g = Ok c) groups cs ->
    match dmap_stream cs, dmap_stream (List.concat groups) with
    | Ok a, Ok b => a = b
    | Ok _, _ => False
    | _, Ok _ => False
    | _, _ => True
    end.
Proof. exact @dmap_stream_split. Qed.
Print Assumptions deep_split_any.

(* The step behind it, for any value type: one key of concatMaps = drop the nil values, require
   one kind (toSliceValue), concatenate with that kind's function.  When every kind's function
   satisfies the prefix law on homogeneous lists and answers with a non-nil value of its own
   kind, the key satisfies the prefix law for ALL value lists (mixed kinds and nil values
   included: it fails in the same cases). *)
Theorem one_kind_per_key_lifting :
  forall (A K : Type) (isnil : A -> bool) (nilv : A) (kind : A -> K) (keqb : K -> K -> bool)
         (kc : K -> list A -> res A),
    (forall a b, keqb a b = true <-> a = b) -> isnil nilv = true ->
    (forall k l v, l <> [] -> allk isnil kind k l -> kc k l = Ok v -> isnil v = false /\ kind v = k) ->
    (forall k xs rest, xs <> [] -> allk isnil kind k xs -> allk isnil kind k rest ->
       match kc k xs with
       | Ok v => match kc k (v :: rest), kc k (xs ++ rest) with
                 | Ok a, Ok b => a = b | Ok _, _ => False | _, Ok _ => False | _, _ => True end
       | _ => is_ok (kc k (xs ++ rest)) = false
       end) ->
    forall vs rest,
      match gkey isnil nilv kind keqb kc vs with
      | Ok v => match gkey isnil nilv kind keqb kc (v :: rest), gkey isnil nilv kind keqb kc (vs ++ rest) with
                | Ok a, Ok b => a = b | Ok _, _ => False | _, Ok _ => False | _, _ => True end
      | _ => is_ok (gkey isnil nilv kind keqb kc (vs ++ rest)) = false
      end.
Proof. exact @gkey_prefix. Qed.
Print Assumptions one_kind_per_key_lifting.

Definition ex_inner1 : list (string * dval) :=
  [("m"%string, DMsg ex_m1); ("l"%string, DList [Some ex_m1; None]); ("s"%string, DVal (CStr "x")); ("z"%string, DVal CNil)].
Definition ex_inner2 : list (string * dval) :=
  [("m"%string, DMsg ex_m2); ("l"%string, DList [Some ex_m2; Some ex_m3]); ("s"%string, DVal (CStr "y"))].
Definition ex_inner3 : list (string * dval) :=
  [("l"%string, DList [None; Some ex_m1]); ("m"%string, DMsg ex_m3); ("z"%string, DPtrNil)].

Example deep_nonvacuous :
  let c1 := [("in"%string, DMap [("deeper"%string, DMap ex_inner1)]); ("top"%string, DMsg ex_m1)] in
  let c2 := [("in"%string, DMap [("deeper"%string, DMap ex_inner2)]); ("top"%string, DMsg ex_m2)] in
  let c3 := [("top"%string, DMsg ex_m3); ("in"%string, DMap [("deeper"%string, DMap ex_inner3); ("n"%string, DVal (CNum 0 1))])] in
  exists c r m ml0 ml1,
    dmap_stream [c1; c2] = Ok c /\ dmap_stream [c; c3] = Ok r /\ dmap_stream [c1; c2; c3] = Ok r /\
    concat_msgs [Some ex_m1; Some ex_m2; Some ex_m3] = Ok m /\
    concat_msgs [Some ex_m1; Some ex_m2] = Ok ml0 /\
    concat_msgs [Some ex_m3; Some ex_m1] = Ok ml1 /\
    r = [("in"%string, DMap [("deeper"%string,
               DMap [("m"%string, DMsg m); ("l"%string, DList [Some ml0; Some ml1]); ("s"%string, DVal (CStr "xy")); ("z"%string, DPtrNil)]);
                              ("n"%string, DVal (CNum 0 1))]);
         ("top"%string, DMsg m)].
Proof.
  eexists. eexists. eexists. eexists. eexists.
  split; [vm_compute; reflexivity|]. split; [vm_compute; reflexivity|]. split; [vm_compute; reflexivity|].
  split; [vm_compute; reflexivity|]. split; [vm_compute; reflexivity|]. split; [vm_compute; reflexivity|]. vm_compute. reflexivity.
Qed.

Example deep_nonvacuous_err :
  let c1 := [("in"%string, DMap [("k"%string, DMsg ex_m1)])] in
  let c2 := [("in"%string, DMap [("k"%string, DList [Some ex_m2])])] in
  let c3 := [("in"%string, DMap [("k"%string, DMap [])])] in
  dmap_stream [c1; c2] = Err E_TYPE /\ dmap_stream [c1; c3] = Err E_TYPE /\ dmap_stream [c2; c3] = Err E_TYPE /\
  dmap_stream [[("in"%string, DMap [("k"%string, DList [Some ex_m1])])]; [("in"%string, DMap [("k"%string, DList [])])]] = Err E_LEN /\
  exists c, dmap_stream [c1; c1] = Ok c /\ dmap_stream [c; c2] = Err E_TYPE /\ dmap_stream [c1; c1; c2] = Err E_TYPE.
Proof.
  split; [vm_compute; reflexivity|]. split; [vm_compute; reflexivity|]. split; [vm_compute; reflexivity|].
  split; [vm_compute; reflexivity|].
  eexists. split; [vm_compute; reflexivity|]. split; vm_compute; reflexivity.
Qed.

(* The one-level model (msgmap_total, msgmap_rechunk above) is the restriction of the nested
   one: on chunks without nested maps and message lists the two compute the same (the
   correspondence check evaluates both on every such case). *)
Theorem deep_extends_msgmap :
  forall (U : UserFn) (l : list (list (string * mval))),
    dmap_stream (map d_of_mmap l) = res_map d_of_mmap (mmap_stream l).
Proof. exact @dmap_stream_embed. Qed.
Print Assumptions deep_extends_msgmap.

(* Determinism of the nested model under Go's map iteration: [dmap_stream_o s] is the entry
   point with every concatMaps call of the call tree (one per nested map key) visiting its keys
   in the order the schedule [s] dictates; [dmeq] = equal as lookup functions at every depth.
   Whatever the schedule, the result is the Go value [dmap_stream] computes, or both are errors.
   (The concatenations below the map structure -- ConcatMessages with its Extra maps, the
   ordinary values -- are covered by msg_concat_deterministic / concat_deterministic.) *)
Theorem deep_deterministic :
  forall (U : UserFn) (L : UserLaw) (s : sched) (l : list (list (string * dval))),
    sched_ok s ->
    match dmap_stream_o s l, dmap_stream l with
    | Ok a, Ok b => dmeq a b
    | Err _, Err _ => True
    | _, _ => False
    end.
Proof.
  intros U L s l Hs. pose proof (dmap_stream_order s l Hs) as R. pose proof (dmap_stream_no_panic l) as P.
  unfold rrel in R. destruct (dmap_stream_o s l), (dmap_stream l); try contradiction; auto.
Qed.
Print Assumptions deep_deterministic.

Example deep_deterministic_nonvacuous :
  let c1 := [("a"%string, DMsg ex_m1); ("in"%string, DMap [("x"%string, DMsg ex_m1); ("y"%string, DVal (CStr "s"))])] in
  let c2 := [("in"%string, DMap [("y"%string, DVal (CStr "t")); ("x"%string, DMsg ex_m2)]); ("a"%string, DMsg ex_m2)] in
  sched_ok (rev_sched 3) /\
  exists m, concat_msgs [Some ex_m1; Some ex_m2] = Ok m /\
    dmap_stream [c1; c2] = Ok [("a"%string, DMsg m); ("in"%string, DMap [("x"%string, DMsg m); ("y"%string, DVal (CStr "st"))])] /\
    dmap_stream_o (rev_sched 3) [c1; c2] = Ok [("in"%string, DMap [("y"%string, DVal (CStr "st")); ("x"%string, DMsg m)]); ("a"%string, DMsg m)].
Proof.
  split; [apply rev_sched_ok|]. eexists. split; [vm_compute; reflexivity|]. split; vm_compute; reflexivity.
Qed.

(* Message lists: concatMessageArray / concatStreamReader[[]*Message] with both sources of
   arbitrary order inside every position's ConcatMessages call, on any rendering of the
   chunks' Extra maps: the same list of Go values, or both are errors. *)
Theorem msglist_deterministic :
  forall (U : UserFn) (L : UserLaw) (po : list Z -> list Z) (s : sched) (l l' : list (list (option msg))),
    (forall x, Permutation (po x) x) -> sched_ok s -> Forall2 (Forall2 omsg_same) l l' ->
    match msglist_stream_o po s l, msglist_stream l' with
    | Ok a, Ok b => Forall2 omsg_same a b
    | Err _, Err _ => True
    | _, _ => False
    end.
Proof.
  intros U L po s l l' Hpo Hs H. pose proof (msglist_stream_order po s l l' Hpo Hs H) as R.
  pose proof (msglist_stream_no_panic l') as P.
  unfold rrel in R. destruct (msglist_stream_o po s l), (msglist_stream l'); try contradiction; auto.
Qed.
Print Assumptions msglist_deterministic.

Example msglist_deterministic_nonvacuous :
  exists r r', msglist_stream_o (@rev Z) (rev_sched 2) [[Some ex_m1; None]; [Some ex_m2; Some ex_m3]; [Some ex_m3; None]] = Ok r /\
    msglist_stream [[Some ex_m1; None]; [Some ex_m2; Some ex_m3]; [Some ex_m3; None]] = Ok r' /\
    Forall2 omsg_same r r' /\ r <> r'.
Proof.
  eexists. eexists. split; [vm_compute; reflexivity|]. split; [vm_compute; reflexivity|]. split.
  - constructor; [|constructor; [|constructor]].
    + cbn. repeat split. apply (ceqb_sound 3). vm_compute. reflexivity.
    + cbn. apply msg_same_refl.
  - discriminate.
Qed.

(* ------------------------------------------------------------------ the code, statement by statement *)

(* Model/ConcatCodeRef.v is the statement-by-statement translation of internal/concat.go
   (toSliceValue, concatSliceValue, concatMaps, concatInterfaces: loops as folds that stop at a
   return, every reflect operation with its panics) and of the comparator / sort call of
   concatToolCalls; Proofs/GenAgreeConcatCode.v proves on every run that the translation
   regenerated from the current sources is this one.  The theorems below say that this code IS
   the model the theorems above are about — for every argument, panics included. *)
From Eino Require Import Model.ConcatGenLib Model.ConcatCodeRef Proofs.ConcatCodeRef.

(* toSliceValue: the slice of the values, typed by the dynamic type of the first, or the type
   error iff some later value has another dynamic type (a nil interface included); it panics
   exactly on an empty list and on a nil first value (F-C14: concatMaps no longer calls it so). *)
Theorem code_toSliceValue :
  forall vs : list cval,
    gen_toSliceValue vs =
    match vs with
    | [] => Panic
    | v0 :: rest =>
        match dyn_ty v0 with
        | None => Panic
        | Some t => if same_types t rest then Ok (t, vs) else Err E_TYPE
        end
    end.
Proof. exact ref_toSliceValue. Qed.
Print Assumptions code_toSliceValue.

(* concatSliceValue on a slice of a non-map element type is [concat_typed]: the single element;
   else the registered function; else all zero / the one non-zero / the error *)
Theorem code_concatSliceValue :
  forall (U : UserFn) (f : list (list (string * cval)) -> res (list (string * cval))) (t : cty) (vs : list cval),
    not_map_ty t ->
    gen_concatSliceValue (t, vs) = res_map Some (concat_typed f t vs).
Proof. exact @ref_concatSliceValue. Qed.
Print Assumptions code_concatSliceValue.

Example code_concatSliceValue_nonvacuous :
  not_map_ty (TNum 0) /\
  gen_concatSliceValue (TNum 0, [CNum 0 7; CNum 0 0]) = Ok (Some (CNum 0 0)) /\
  gen_concatSliceValue (TOther 1, [COther 1 0; COther 1 4; COther 1 0]) = Ok (Some (COther 1 4)) /\
  gen_concatSliceValue (TOther 1, [COther 1 2; COther 1 4]) = Err E_MULTI.
Proof. repeat split; vm_compute; reflexivity. Qed.

(* concatMaps, one level: whatever the recursive call computes (as long as it is the model's
   recursive call on slices of maps), the two loops of the function compute [concat_maps_step]:
   values collected per key in chunk order, nil values dropped, one dynamic type per key,
   maps to the recursive call, everything else to concatSliceValue, keys in first-appearance order *)
Theorem code_concatMaps_step :
  forall (U : UserFn) (self : sval -> res (option cval)) (f : list (list (string * cval)) -> res (list (string * cval))),
    (forall mt ms, self (TMap mt, map (CMap mt) ms) = res_map (fun r => Some (CMap mt r)) (f ms)) ->
    forall (mt : N) (l : list (list (string * cval))),
      gen_concatMaps self (TMap mt, map (CMap mt) l) = res_map (fun r => Some (CMap mt r)) (concat_maps_step f l).
Proof. exact @ref_concatMaps. Qed.
Print Assumptions code_concatMaps_step.

(* ... and with the recursion unrolled [fuel] times it is [concat_maps fuel] (the hypothesis of
   code_concatMaps_step is satisfied by the function itself: non-vacuity) *)
Theorem code_concatMaps :
  forall (U : UserFn) (fuel : nat) (mt : N) (l : list (list (string * cval))),
    gen_maps_fuel fuel (TMap mt, map (CMap mt) l) = res_map (fun r => Some (CMap mt r)) (concat_maps fuel l).
Proof. exact @ref_concat_maps. Qed.
Print Assumptions code_concatMaps.

(* the recursion of the code is bounded by the nesting depth of the chunks: unrolled more often
   than the chunks are deep, the code computes concat_maps_top (the function of every theorem
   above that speaks about map chunks and Extra maps) *)
Theorem code_concatMaps_top :
  forall (U : UserFn) (fuel : nat) (mt : N) (l : list (list (string * cval))),
    dmaps l < fuel ->
    gen_maps_fuel fuel (TMap mt, map (CMap mt) l) = res_map (fun r => Some (CMap mt r)) (concat_maps_top l).
Proof. exact @ref_concat_maps_top. Qed.
Print Assumptions code_concatMaps_top.

Example code_concatMaps_nonvacuous :
  gen_maps_fuel 3 (TMap 0, [CMap 0 [("k"%string, CNil); ("m"%string, CMap 1 [("a"%string, CStr "x")])];
                            CMap 0 [("m"%string, CMap 1 [("a"%string, CStr "y")]); ("k"%string, CStr "s")]])
  = Ok (Some (CMap 0 [("k"%string, CStr "s"); ("m"%string, CMap 1 [("a"%string, CStr "xy")])])).
Proof. vm_compute. reflexivity. Qed.

(* concatInterfaces (chunks of an interface type): one key of concatMaps applied to the chunks
   themselves; all chunks nil = the invalid Value (ConcatItems then returns the zero value) *)
Theorem code_concatInterfaces :
  forall (U : UserFn) (cm : sval -> res (option cval)) (f : list (list (string * cval)) -> res (list (string * cval))),
    (forall mt ms, cm (TMap mt, map (CMap mt) ms) = res_map (fun r => Some (CMap mt r)) (f ms)) ->
    forall (t : cty) (vs : list cval),
      gen_concatInterfaces cm (t, vs) =
      match filter (fun v => negb (is_nil v)) vs with
      | [] => Ok None
      | _ => res_map Some (concat_key f vs)
      end.
Proof. exact @ref_concatInterfaces. Qed.
Print Assumptions code_concatInterfaces.

(* concatToolCalls orders the merged calls with the STABLE sort and the comparator [tc_less]
   (which never dereferences a nil index): the premises of toolcalls_deterministic / order_kept *)
Theorem code_toolcall_order :
  gen_tc_sort_stable = true /\
  forall a b : toolcall, gen_tc_less (tc_idx a) (tc_idx b) = Some (tc_less a b).
Proof. exact (conj ref_tc_sort_stable ref_tc_less). Qed.
Print Assumptions code_toolcall_order.

(* the stream entry points compose.concatStreamReader[T] and schema.ConcatMessageStream, statement by
   statement (the drain loop with break / return, the empty and the single-chunk case, the call of the
   concatenation function [ci]): they are [stream_entry] of "empty = error, one chunk = itself,
   else ci" — for every chunk type, every concatenation function and everything a reader can deliver *)
Theorem code_stream_entry_points :
  forall (X : Type) (zero : X) (ci : list X -> res X) (s : list (sitem X)),
    let F := fun vs => match vs with [] => Err E_EMPTY | [v] => Ok v | _ => ci vs end in
    gen_concatStreamReader X zero ci s = stream_entry F s /\
    gen_ConcatMessageStream X zero ci s = stream_entry F s.
Proof. intros X zero ci s. split; [exact (ref_concatStreamReader X zero ci s) | exact (ref_ConcatMessageStream X zero ci s)]. Qed.
Print Assumptions code_stream_entry_points.

(* instances: the entry points the theorems stream_* / msg_stream_* above are about *)
Theorem code_stream_entry_instances :
  forall (U : UserFn),
    (forall s, gen_concatStreamReader cval CNil concat_items s = stream_entry concat_stream s) /\
    (forall s, gen_concatStreamReader cval CNil concat_items_any s = stream_entry concat_stream_any s) /\
    (forall s, gen_ConcatMessageStream (option msg) None (fun l => res_map Some (concat_msgs l)) s = stream_entry msg_stream s) /\
    (forall s, gen_concatStreamReader (option msg) None (fun l => res_map Some (concat_msgs l)) s = stream_entry msg_stream s).
Proof.
  intros U. repeat split; intros s;
    [ rewrite (ref_concatStreamReader cval CNil) | rewrite (ref_concatStreamReader cval CNil)
    | rewrite (ref_ConcatMessageStream (option msg) None) | rewrite (ref_concatStreamReader (option msg) None) ];
    unfold stream_entry; destruct (drain s) as [[|v [|w r]]|]; reflexivity.
Qed.
Print Assumptions code_stream_entry_instances.

Example code_stream_entry_nonvacuous :
  gen_concatStreamReader cval CNil concat_items [SVal (CStr "a"); SVal (CStr "b")] = Ok (CStr "ab") /\
  gen_concatStreamReader cval CNil concat_items [SVal (CStr "a"); SErr; SVal (CStr "b")] = Err E_READ /\
  gen_concatStreamReader cval CNil concat_items [] = Err E_EMPTY /\
  gen_ConcatMessageStream (option msg) None (fun l => res_map Some (concat_msgs l)) [SVal None] = Ok None.
Proof. repeat split; vm_compute; reflexivity. Qed.

(* schema.concatToolCalls, statement by statement (Model/ConcatCodeRef.v gen_concatToolCalls: the grouping
   loop over the fragments with the positions collected per index in a map, the loop over that map in
   Go's arbitrary order [ord], the first fragment as the base of the merged call, id / type / name by
   "first non-empty, a later different one is an error", arguments joined, stable sort): for every
   order it is [concat_toolcalls_o] of that order, and hence — for EVERY order Go may choose — the
   function [concat_toolcalls] of order_kept / fields_merged / msg_concat_rechunk, or both are errors. *)
From Eino Require Import Proofs.ConcatCodeTC.

Theorem code_concatToolCalls :
  forall (ord : list (Z * list nat) -> list (Z * list nat)) (cs : list toolcall),
    (forall m, Permutation (ord m) m) ->
    gen_concatToolCalls ord cs = concat_toolcalls_o (map fst (ord (snd (groups cs)))) cs /\
    Permutation (map fst (ord (snd (groups cs)))) (idxs_of cs) /\
    match gen_concatToolCalls ord cs, concat_toolcalls cs with
    | Ok a, Ok b => a = b
    | Err _, Err _ => True
    | _, _ => False
    end.
Proof.
  intros ord cs H. split; [exact (ref_concatToolCalls ord cs H)|]. split; [exact (groups_keys_perm ord cs H)|exact (ref_concatToolCalls_model ord cs H)].
Qed.
Print Assumptions code_concatToolCalls.

Example code_concatToolCalls_nonvacuous :
  let f := fun i id a => mkTC i id EmptyString EmptyString a 0%N in
  let cs := [f (Some 1%Z) "c1"%string "{"%string; f None "n"%string "x"%string; f (Some 0%Z) EmptyString "a"%string;
             f (Some 1%Z) EmptyString "}"%string; f (Some 0%Z) "c0"%string "b"%string] in
  (forall m, Permutation (@rev (Z * list nat) m) m) /\
  gen_concatToolCalls (@rev _) cs = Ok [f None "n"%string "x"%string; f (Some 0%Z) "c0"%string "ab"%string; f (Some 1%Z) "c1"%string "{}"%string] /\
  gen_concatToolCalls (fun m => m) cs = gen_concatToolCalls (@rev _) cs /\
  gen_concatToolCalls (fun m => m) [f (Some 0%Z) "a"%string EmptyString; f (Some 0%Z) "b"%string EmptyString] = Err E_CONFLICT.
Proof.
  split; [intros m; apply Permutation_sym, Permutation_rev|]. repeat split; vm_compute; reflexivity.
Qed.

(* schema.concatMessageArray (the concat function registered for []*Message), statement by statement: for
   every chunk type with a nil test it is the position-wise concatenation (every list as long as the first,
   else the error; position i = the non-nil entries at i in arrival order: none = nil, one = itself, several =
   the concatenation function); it panics exactly on an empty list of lists (the registry never calls it so);
   for messages it is [concat_msg_arrays], the function of msg_arrays_rechunk / msglist_rechunk *)
From Eino Require Import Proofs.ConcatCodeArr.

Theorem code_concatMessageArray :
  (forall (X : Type) (zero : X) (ci : list X -> res X) (is_nil_x : X -> bool) (mas : list (list X)),
     gen_concatMessageArray X zero ci is_nil_x mas = spec_array X zero ci is_nil_x mas) /\
  (forall (U : UserFn) (mas : list (list (option msg))),
     gen_concatMessageArray (option msg) None omsg_concat omsg_is_nil mas = concat_msg_arrays mas).
Proof. split; [exact ref_concatMessageArray|exact @ref_concatMessageArray_msgs]. Qed.
Print Assumptions code_concatMessageArray.

Example code_concatMessageArray_nonvacuous :
  gen_concatMessageArray (option msg) None omsg_concat omsg_is_nil [[Some ex_m1; None]; [None; None]] = Ok [Some ex_m1; None] /\
  gen_concatMessageArray (option msg) None omsg_concat omsg_is_nil [[Some ex_m1]; [None; None]] = Err E_LEN /\
  gen_concatMessageArray (option msg) None omsg_concat omsg_is_nil [] = Panic.
Proof. repeat split; vm_compute; reflexivity. Qed.

(* "a deterministic function OF THE CHUNK SEQUENCE": the models are pure functions of the chunk list and of the
   registry of concatenation functions, a fixed parameter.  The Go code is pictured faithfully by that only if it
   keeps no state between calls.  The table of every use of a package-level variable by the concatenation code
   (Model/ConcatState.v; regenerated from internal/concat.go, compose/stream_concat.go and schema/message.go on
   every run, gen_state_effects_agree) says so: the only row that can change a variable (assignment, address
   taken, method called on it) is the registration function writing the registry; and the one variable whose
   value a reader hands out whole (an error value) is mutated by nothing.  A finite table: case analysis.
   The implementation side of the same clause is the harness's concurrent oracle (harness/cmd/c14/conc.go): a
   chunk list gives, while concatenations of other types run on other goroutines, what it gives alone. *)
From Eino Require Import Model.ConcatState Proofs.ConcatState.

Theorem code_keeps_no_state :
  (forall f v fn e, In (f, v, fn, e) state_effects -> mutating e = true ->
     f = "internal/concat.go"%string /\ v = "concatFuncs"%string /\
     fn = "RegisterStreamChunkConcatFunc"%string /\ e = EWrite) /\
  (forall f v, In (f, v) (state_leaks state_effects) ->
     forall fn e, In (f, v, fn, e) state_effects -> mutating e = false) /\
  state_mutations state_effects =
    [("internal/concat.go"%string, "concatFuncs"%string, "RegisterStreamChunkConcatFunc"%string)].
Proof. exact (conj only_registration_mutates (conj leaked_never_mutated state_mutations_closed_form)). Qed.
Print Assumptions code_keeps_no_state.

Example code_keeps_no_state_nonvacuous :
  In ("internal/concat.go"%string, "concatFuncs"%string, "RegisterStreamChunkConcatFunc"%string, EWrite) state_effects /\
  mutating EWrite = true /\
  In ("compose/stream_concat.go"%string, "emptyStreamConcatErr"%string) (state_leaks state_effects) /\
  (* a memoising lookup would be a second mutating row: the first clause fails on such a table *)
  state_mutations (("internal/concat.go"%string, "lastConcatType"%string, "GetConcatFunc"%string, EWrite) :: state_effects)
    <> state_mutations state_effects.
Proof. repeat split; try (vm_compute; tauto). vm_compute. discriminate. Qed.
