(* Props/C14.v — property C14: chunk concatenation is total, deterministic and
   independent of chunk boundaries. Only statements, each closed by [exact]. *)
From Eino Require Import Base.Util Model.Concat Model.ConcatMsg.
From Eino Require Import Proofs.Concat Proofs.ConcatRechunk Proofs.ConcatMsg.
From Coq Require Import Sorting.Sorted.

(* ------------------------------------------------------------------ generic values *)

(* Totality: for every statically typed chunk list (no nil item at top level; nil values
   may sit under any map key at any depth) the concatenation is a value or an ordinary
   error, never a panic.  Determinism is by construction: [concat_stream] is a function
   of the chunk list and does not see Go's map iteration order. *)
Theorem concat_total :
  forall vs : list cval, (forall v, In v vs -> is_nil v = false) -> concat_stream vs <> Panic.
Proof. exact concat_stream_total. Qed.
Print Assumptions concat_total.

Example concat_total_nonvacuous :
  concat_stream [CMap 0 [("k"%string, CNil)]; CMap 0 [("k"%string, CStr "a")]; CMap 0 [("j"%string, CNil)]]
  = Ok (CMap 0 [("k"%string, CStr "a"); ("j"%string, CNil)]).
Proof. vm_compute. reflexivity. Qed.

(* Re-chunking: for a statically typed chunk stream (all chunks of dynamic type [t]),
   concatenating a non-empty prefix first and then the rest gives exactly the same value
   (first-appearance key order included) as concatenating everything at once, or both
   fail; if the prefix alone fails, the whole fails. No side ever panics. *)
Theorem concat_rechunk :
  forall (t : cty) (xs ys : list cval),
    xs <> [] -> (forall v, In v (xs ++ ys) -> dyn_ty v = Some t) ->
    match concat_stream xs with
    | Ok c =>
        match concat_stream (c :: ys), concat_stream (xs ++ ys) with
        | Ok a, Ok b => a = b
        | Err _, Err _ => True
        | _, _ => False
        end
    | Err _ => exists e, concat_stream (xs ++ ys) = Err e
    | Panic => False
    end.
Proof. exact concat_stream_rechunk. Qed.
Print Assumptions concat_rechunk.

Example concat_rechunk_nonvacuous_ok :
  let xs := [CMap 0 [("k"%string, CStr "a"); ("n"%string, CMap 0 [("x"%string, CNum 0 1)])];
             CMap 0 [("k"%string, CNil); ("n"%string, CMap 0 [("x"%string, CNum 0 2); ("y"%string, COther 0 0)])]] in
  let ys := [CMap 0 [("n"%string, CMap 0 [("y"%string, COther 0 7)]); ("k"%string, CStr "b")]] in
  exists c, concat_stream xs = Ok c /\
    concat_stream (c :: ys) = concat_stream (xs ++ ys) /\
    concat_stream (xs ++ ys) =
      Ok (CMap 0 [("k"%string, CStr "ab"); ("n"%string, CMap 0 [("x"%string, CNum 0 2); ("y"%string, COther 0 7)])]).
Proof. eexists. split; [vm_compute; reflexivity|]. split; vm_compute; reflexivity. Qed.

Example concat_rechunk_nonvacuous_err :
  let xs := [CMap 0 [("k"%string, COther 0 1)]; CMap 0 [("j"%string, CStr "s")]] in
  let ys := [CMap 0 [("k"%string, COther 0 2)]] in
  exists c, concat_stream xs = Ok c /\ concat_stream (c :: ys) = Err E_MULTI /\ concat_stream (xs ++ ys) = Err E_MULTI.
Proof. eexists. split; [vm_compute; reflexivity|]. split; vm_compute; reflexivity. Qed.

(* The same for concatMaps on any number of maps (the Extra maps of chat messages: no
   single-chunk shortcut, even the empty prefix is allowed). *)
Theorem concat_maps_rechunk :
  forall xs ys : list (list (string * cval)),
    match concat_maps_top xs with
    | Ok c =>
        match concat_maps_top (c :: ys), concat_maps_top (xs ++ ys) with
        | Ok a, Ok b => a = b
        | Ok _, _ => False
        | _, Ok _ => False
        | _, _ => True
        end
    | _ => is_ok (concat_maps_top (xs ++ ys)) = false
    end.
Proof. exact Proofs.ConcatRechunk.concat_maps_rechunk. Qed.
Print Assumptions concat_maps_rechunk.

(* ------------------------------------------------------------------ chat messages *)

(* ConcatMessages, ConcatMessageStream / concatStreamReader[*Message] and
   concatStreamReader[[]*Message] never panic, whatever the chunks (nil chunks, nil maps,
   nil values under Extra keys, negative numbers, conflicting fields, ...). *)
Theorem msg_concat_total :
  (forall l, concat_msgs l <> Panic) /\ (forall l, msg_stream l <> Panic) /\ (forall l, msglist_stream l <> Panic).
Proof. exact (conj concat_msgs_no_panic (conj msg_stream_no_panic msglist_stream_no_panic)). Qed.
Print Assumptions msg_concat_total.

(* Re-chunking for schema.ConcatMessages itself: for EVERY prefix [xs] (also a single
   chunk, which ConcatMessages normalises, and the empty one) *)
Theorem msg_concat_rechunk :
  forall xs ys : list (option msg),
    match concat_msgs xs with
    | Ok c =>
        match concat_msgs (Some c :: ys), concat_msgs (xs ++ ys) with
        | Ok a, Ok b => a = b
        | Err _, Err _ => True
        | _, _ => False
        end
    | Err _ => exists e, concat_msgs (xs ++ ys) = Err e
    | Panic => False
    end.
Proof. exact msgs_rechunk_strict. Qed.
Print Assumptions msg_concat_rechunk.

(* ... and for the stream-level entry points, which return a single chunk unmerged. *)
Theorem msg_stream_rechunk :
  forall xs ys : list (option msg),
    xs <> [] ->
    match msg_stream xs with
    | Ok c =>
        match msg_stream (c :: ys), msg_stream (xs ++ ys) with
        | Ok a, Ok b => a = b
        | Err _, Err _ => True
        | _, _ => False
        end
    | Err _ => exists e, msg_stream (xs ++ ys) = Err e
    | Panic => False
    end.
Proof. exact Proofs.ConcatMsg.msg_stream_rechunk. Qed.
Print Assumptions msg_stream_rechunk.

Definition ex_tc (i : option Z) (id args : string) (e : N) : toolcall := mkTC i id "" "" args e.
Definition ex_m1 : msg :=
  mkMsg "assistant" "" "" "Hel" [] [ex_tc (Some 1%Z) "c1" "{""a" 7; ex_tc None "n" "x" 0; ex_tc (Some 0%Z) "" "q" 0]
        (Some (mkMeta "" (Some (mkUsage (-5) 3 2)) (Some ["t1"%string]))) [("k"%string, CStr "a"); ("z"%string, CNil)].
Definition ex_m2 : msg :=
  mkMsg "" "" "" "lo " [] [ex_tc (Some 1%Z) "" """:1" 9; ex_tc (Some 0%Z) "c0" "r" 3]
        (Some (mkMeta "stop" (Some (mkUsage 4 1 9)) None)) [("k"%string, CStr "b")].
Definition ex_m3 : msg :=
  mkMsg "assistant" "" "" "W" ["p"%string] [ex_tc (Some 1%Z) "c1" "}" 0] None [("z"%string, CNum 0 4)].

Example msg_rechunk_nonvacuous :
  exists c, concat_msgs [Some ex_m1; Some ex_m2] = Ok c /\
    concat_msgs [Some c; Some ex_m3] = concat_msgs [Some ex_m1; Some ex_m2; Some ex_m3] /\
    concat_msgs [Some ex_m1; Some ex_m2; Some ex_m3] =
      Ok (mkMsg "assistant" "" "" "Hello W" ["p"%string]
            [ex_tc None "n" "x" 0; ex_tc (Some 0%Z) "c0" "qr" 0; ex_tc (Some 1%Z) "c1" "{""a"":1}" 7]
            (Some (mkMeta "stop" (Some (mkUsage 4 3 9)) (Some ["t1"%string])))
            [("k"%string, CStr "ab"); ("z"%string, CNum 0 4)]).
Proof. eexists. split; [vm_compute; reflexivity|]. split; vm_compute; reflexivity. Qed.

Example msg_rechunk_nonvacuous_err :
  exists c, concat_msgs [Some ex_m1; Some ex_m2] = Ok c /\
    concat_msgs [Some c; Some (mkMsg "user" "" "" "" [] [] None [])] = Err E_CONFLICT /\
    concat_msgs [Some ex_m1; Some ex_m2; Some (mkMsg "user" "" "" "" [] [] None [])] = Err E_CONFLICT.
Proof. eexists. split; [vm_compute; reflexivity|]. split; vm_compute; reflexivity. Qed.

(* Order: the content is the arrival-order concatenation; tool calls without index come
   first in arrival order; then exactly one call per distinct index, ascending, whose
   arguments are the arrival-order concatenation of the fragments carrying that index. *)
Theorem order_kept :
  forall (l : list (option msg)) (r : msg),
    concat_msgs l = Ok r ->
    exists ms, all_some l = Some ms /\
      m_content r = concat_strings (map m_content ms) /\
      let cs := flat_map m_tcs ms in
      exists il merged,
        m_tcs r = filter is_nil_idx cs ++ merged /\
        map tc_idx merged = map Some il /\
        StronglySorted Z.lt il /\
        (forall i, In i il <-> exists c, In c cs /\ tc_idx c = Some i) /\
        Forall2 (fun i m => tc_args m = concat_strings (map tc_args (filter (has_idx i) cs))) il merged.
Proof. exact order_kept_proof. Qed.
Print Assumptions order_kept.
