(* Props/C19.v — property C19: a finished streaming run leaves no blocked producer or goroutine
   behind.  What is PROVED here is the accounting of stream handles in the model
   Model/StreamAcct.v of runner.resolveCompletedTasks + channelManager.updateValues
   (every copy made of a task's output has exactly one consumer).  That no goroutine stays
   blocked is OBSERVED by the harness (harness/cmd/c19), not proved.
   Only statements, each closed by [exact]. *)
From Eino Require Import Base.Util Model.StreamAcct Proofs.StreamAcct Model.StreamRun Proofs.StreamRun Model.StreamRunV0 Proofs.StreamRunV0 Model.StreamResume Proofs.StreamResume Proofs.StreamWeave Proofs.StreamWeaveRun.
From Coq Require Import Permutation.
Open Scope N_scope.

(* Core (DESIGN §11).  For every completed task — any successor list, any list of branches
   (with or without data flow), any outcome of every branch condition: selecting nothing,
   several nodes, a node that is also a direct successor, a node selected by two branches —
   resolveCompletedTasks does not panic and the number of live stream handles derived from
   the task's output equals the number of branch evaluations plus channel writes plus
   explicit closes; there is one branch evaluation per branch and one channel write or
   close per distinct generated successor. *)
Theorem copies_eq_consumers : forall t : task,
  exists a, account_task t = Ok a /\
    a_handles a = (a_branch_evals a + a_chan_writes a + a_closes a)%nat /\
    a_branch_evals a = List.length (t_branches t) /\
    (a_chan_writes a + a_update_closes a)%nat = List.length (next_keys t) /\
    a_closes a = (a_resolve_closes a + a_update_closes a)%nat.
Proof. exact copies_eq_consumers_l. Qed.
Print Assumptions copies_eq_consumers.

(* The same at the level of handles and for an arbitrary store: after the step the multiset of
   live handles is the old one without the task's output, plus the handles given to the branch
   conditions, to the successors' channels, and to close() — each exactly once (no handle is
   lost, none is handed out twice), and the store stays duplicate-free. *)
Theorem every_copy_has_one_consumer : forall t out s,
  store_ok s -> In out (s_open s) ->
  exists r, resolve_task t out s = Ok r /\
    let u := update_values t (r_writes r) in
    NoDup (s_open (r_store r)) /\
    Permutation (s_open (r_store r))
                (remove_one out (s_open s) ++
                 r_branch_in r ++ map snd (u_chan u) ++ (u_closed u ++ r_closed r)) /\
    map fst (r_writes r) = next_keys t /\
    List.length (r_branch_in r) = List.length (t_branches t).
Proof. exact every_copy_has_one_consumer_l. Qed.
Print Assumptions every_copy_has_one_consumer.

(* Every generated successor (selected by a branch or a direct data edge) gets exactly one value. *)
Theorem successors_receive_once : forall t out s r,
  store_ok s -> In out (s_open s) -> resolve_task t out s = Ok r ->
  NoDup (map fst (r_writes r)) /\
  (forall k, In k (map fst (r_writes r)) <-> In k (selected t) \/ In k (t_write_to t)).
Proof. exact successors_once_l. Qed.
Print Assumptions successors_receive_once.

(* Callback handlers (internal/callbacks.OnWithStreamHandle): for every number of handlers the stream
   is copied handlers+1 times (not at all without handlers); each handler is handed exactly one copy,
   one copy continues, nothing else changes in the store. *)
Theorem callback_copies_have_one_consumer : forall n h s next given s',
  store_ok s -> In h (s_open s) -> on_with_stream_handle n h s = (next, given, s') ->
  store_ok s' /\
  Permutation (s_open s') (remove_one h (s_open s) ++ given ++ [next]) /\
  List.length given = n.
Proof. exact on_with_stream_handle_spec. Qed.
Print Assumptions callback_copies_have_one_consumer.

(* F-C19: the statement is false for the code before the repair b7635b4 ([resolve_task_v0]).
   Witness 1: a node with an edge to END and a multi-branch that selects nothing — 3 copies,
   1 branch evaluation, 1 channel write, nobody closes the third.
   Witness 2: an edge and a branch to the same node — the map write overwrites one copy. *)
Theorem copies_eq_consumers_v0_refuted :
  ~ (forall t a, account_task_v0 t = Ok a ->
       a_handles a = (a_branch_evals a + a_chan_writes a + a_closes a)%nat).
Proof. exact v0_refuted_l. Qed.
Print Assumptions copies_eq_consumers_v0_refuted.

Theorem copies_eq_consumers_v0_refuted_same_target :
  ~ (forall t a, account_task_v0 t = Ok a ->
       a_handles a = (a_branch_evals a + a_chan_writes a + a_closes a)%nat).
Proof. exact v0_twice_refuted_l. Qed.
Print Assumptions copies_eq_consumers_v0_refuted_same_target.

(* ------------------------------------------------------------------ the run level (stretch, DESIGN §11)
   Model/StreamRun.v: the streaming run loop of runner.run without interrupts — resolveCompletedTasks
   with the skip cascade of reportBranch / dagChannel.reportSkip, updateValues, updateDependencies,
   getFromReadyChannels with mergeValues, the END test — over a linear handle store.  A run is
   driven by a schedule (the batches of completed tasks with the outcome of their branches); the
   theorems quantify over EVERY graph, EVERY schedule and EVERY branch outcome. *)

(* open_empty_at_end, all-predecessor mode (AllPredecessor graphs and Workflows, eager or not):
   for every graph whose node keys are distinct, in which END is not a task and every channel has a
   control predecessor or no predecessor at all ([covered]: initChannelManager skips the latter),
   every schedule and every branch outcome: if the run ends Done and every node ran or was
   skipped, then nothing else was scheduled together with END and the only live stream handle is the
   output handed to the caller — every copy, every value written to a channel, every merge input
   was consumed by a node, a branch condition, mergeValues or an explicit close, exactly once
   (a double use makes [run] fail with E_DOUBLE_USE, so [run = Ok] excludes it). *)
Theorem open_empty_at_end_dag : forall g sched out dropped st,
  g_dag g = true -> NoDup (all_keys g) -> ~ In kEND (all_keys g) -> covered g = true ->
  run g sched = Ok (Done out dropped st) ->
  all_finished g st = true ->
  s_open (rs_store st) = [out] /\ dropped = [].
Proof. exact open_empty_at_end_dag_s. Qed.
Print Assumptions open_empty_at_end_dag.

(* The same without any hypothesis on the final state, for the graphs in which every node reaches
   END along control edges / branches ([all_reach], decidable; acyclic graphs in which every node
   has a control successor, e.g. every graph of the generator): whenever the run ends Done, every
   node ran or was skipped, nothing else was scheduled with END and the only live handle is the
   output. *)
Theorem open_empty_at_end_dag_reach : forall g sched out dropped st,
  g_dag g = true -> NoDup (all_keys g) -> ~ In kEND (all_keys g) -> covered g = true -> all_reach g = true ->
  run g sched = Ok (Done out dropped st) ->
  all_finished g st = true /\ s_open (rs_store st) = [out] /\ dropped = [].
Proof. exact open_empty_at_end_dag_reach_s. Qed.
Print Assumptions open_empty_at_end_dag_reach.

(* open_empty_at_end, any-predecessor mode (Pregel): if END is reached with no other node
   scheduled, the only live handle is the output. *)
Theorem open_empty_at_end_pregel : forall g sched out st,
  g_dag g = false -> NoDup (all_keys g) -> ~ In kEND (all_keys g) ->
  run g sched = Ok (Done out [] st) ->
  s_open (rs_store st) = [out].
Proof. exact open_empty_at_end_pregel_s. Qed.
Print Assumptions open_empty_at_end_pregel.

(* Interrupt exits.  At every pass of the run loop, in both modes, the live handles are exactly the
   streams stored in the channels and the inputs of the tasks about to start; an interrupt exit hands
   exactly these to checkPointer.convertCheckPoint (cp.Channels, cp.Inputs), which concatenates —
   drains and closes — every one of them: nothing stays live when the run returns the interrupt. *)
Theorem interrupt_exit_drains : forall g sched st b ready st4,
  NoDup (all_keys g) -> ~ In kEND (all_keys g) -> (g_dag g = true -> covered g = true) ->
  run g sched = Ok (Running st) -> calc_next g b st = Ok (ready, st4) ->
  exists s, checkpoint_drain g ready st4 = Ok s /\ s_open s = [].
Proof. exact interrupt_exit_drains_l. Qed.
Print Assumptions interrupt_exit_drains.

(* "every stream the framework created internally is drained or closed".  The store records how
   every handle was created (a producer's / node's fresh stream, a child of a Copy, the result of a
   merge) and how it was retired (consumed; copied: it lives on in its children; merged: it lives on
   in the merged stream).  [released]: consumed by a consumer, or all its copies are released, or the
   stream it was merged into is released.  When a run is Done (all-predecessor mode: every node ran or
   was skipped; any-predecessor mode: nothing else scheduled with END) and the caller has drained or
   closed the output, EVERY stream that existed during the run is released: the run's input, every
   node's output, every fan-out copy, every merged and every empty stream. *)
Theorem every_stream_released : forall g sched out dropped st s',
  NoDup (all_keys g) -> ~ In kEND (all_keys g) ->
  (g_dag g = true -> covered g = true /\ all_finished g st = true) ->
  (g_dag g = false -> dropped = []) ->
  run g sched = Ok (Done out dropped st) ->
  consume out (rs_store st) = Ok s' ->
  s_open s' = [] /\ forall h, created (s_hist s') h -> released (s_hist s') h.
Proof. exact every_stream_released_l. Qed.
Print Assumptions every_stream_released.

Example every_stream_released_nonvacuous :
  exists out st s', run ex_dag ex_dag_sched = Ok (Done out [] st) /\ consume out (rs_store st) = Ok s' /\
    s_open s' = [] /\
    In (HCopy 1 [2; 3; 4]) (s_hist s') /\ In (HMerge [6; 8; 7] 9) (s_hist s') /\ In (HConsume 9) (s_hist s').
Proof. exact ex_released_ok. Qed.

(* ------------------------------------------------------------------ every way a run can end
   Model/StreamResume.v: runner.run with interrupts.  A run is a sequence of CALLS of the runnable with
   the same checkpoint id; a call ends with END in the ready map of calculateNextTasks (after START's
   pseudo task, in the main loop, or in the second round an interrupting pass makes after waitAll — the
   run then returns the result and the interrupt is forgotten), or leaves through an interrupt exit:
   handleInterrupt for interrupt-before / interrupt-after nodes (computed by the model from the
   configuration), handleInterruptWithSubGraphAndRerunNodes when a completed task returned
   InterruptAndRerun or is a nested graph that was interrupted itself (which tasks did is part of the
   recorded call); the next call restores the checkpoint (every stored value and every pending input
   becomes a fresh stream), closes the input it was called with and continues.  The theorems quantify
   over EVERY graph, EVERY interrupt configuration, EVERY number of calls, EVERY schedule, branch outcome
   and set of self-interrupting tasks. *)

(* all-predecessor mode (Graph and eager Workflow): however many calls were interrupted before and in
   whichever way, if the last call returns the output and every node ran or was skipped, nothing was
   dropped and the only live handle is the output — whichever of the three places of runner.run
   returned it *)
Theorem finished_run_open_empty_dag : forall g cfg start tms out dropped st,
  g_dag g = true -> NoDup (all_keys g) -> ~ In kEND (all_keys g) -> covered g = true ->
  run_int g cfg start tms = Ok (SDone out dropped st) ->
  all_finished g st = true ->
  s_open (rs_store st) = [out] /\ dropped = [].
Proof. exact resumed_open_empty_dag_s. Qed.
Print Assumptions finished_run_open_empty_dag.

Theorem finished_run_open_empty_dag_reach : forall g cfg start tms out dropped st,
  g_dag g = true -> NoDup (all_keys g) -> ~ In kEND (all_keys g) -> covered g = true -> all_reach g = true ->
  run_int g cfg start tms = Ok (SDone out dropped st) ->
  all_finished g st = true /\ s_open (rs_store st) = [out] /\ dropped = [].
Proof. exact resumed_open_empty_dag_reach_s. Qed.
Print Assumptions finished_run_open_empty_dag_reach.

(* any-predecessor mode: END reached with no other node scheduled.  [g_eager g = false]: graph.compile
   makes only Workflows eager, and a Workflow runs in all-predecessor mode *)
Theorem finished_run_open_empty_pregel : forall g cfg start tms out st,
  g_dag g = false -> g_eager g = false -> NoDup (all_keys g) -> ~ In kEND (all_keys g) ->
  run_int g cfg start tms = Ok (SDone out [] st) ->
  s_open (rs_store st) = [out].
Proof. exact resumed_open_empty_pregel_s. Qed.
Print Assumptions finished_run_open_empty_pregel.

(* a suspended run holds nothing: whenever a call — the first or a resumed one — leaves through an
   interrupt exit, after one or two rounds of calculateNextTasks, the live handles are exactly the
   streams stored in the channels and the inputs of the tasks about to start, and the checkpoint
   conversion drains every one of them (generalises interrupt_exit_drains to every call, to the eager
   second round and to the interrupts of tasks) *)
Theorem suspended_run_holds_nothing : forall g cfg start tms ready rr st,
  NoDup (all_keys g) -> ~ In kEND (all_keys g) -> (g_dag g = true -> covered g = true) ->
  (g_dag g = false -> g_eager g = false) ->
  run_int g cfg start tms = Ok (SInt ready rr st) ->
  exists s, checkpoint_drain g ready st = Ok s /\ s_open s = [].
Proof. exact suspended_holds_nothing_s. Qed.
Print Assumptions suspended_run_holds_nothing.

(* every stream that existed during ANY call of the run — the inputs, every node's output, every
   copy, every merged and empty stream, the streams restored from the checkpoints, the empty inputs of
   the tasks to rerun, the inputs handed to the resumed calls (ignored, closed by runner.run since
   56b8ed6) — is released once the caller has drained or closed the output of the last call *)
Theorem every_stream_released_all_calls : forall g cfg start tms out dropped st s',
  NoDup (all_keys g) -> ~ In kEND (all_keys g) ->
  (g_dag g = true -> covered g = true /\ all_finished g st = true) ->
  (g_dag g = false -> dropped = [] /\ g_eager g = false) ->
  run_int g cfg start tms = Ok (SDone out dropped st) ->
  consume out (rs_store st) = Ok s' ->
  s_open s' = [] /\ forall h, created (s_hist s') h -> released (s_hist s') h.
Proof. exact every_stream_released_resumed_s. Qed.
Print Assumptions every_stream_released_all_calls.

(* ... "drained or closed", literally.  Whatever each consumer does with the handle it was given — close
   it ([drains h = false]) or read it to EOF — every stream that existed during any call of a finished
   run is closed or drained at its source, by the propagation rules of schema/stream.go: a copied stream
   is closed when all its copies are and drained as soon as one copy is; the sources of a merged stream
   are closed / drained with it ([sclosed] / [sdrained], Proofs/StreamAcct.v).  A closed pipe tells its
   writer "closed" on the next Send, a drained one has seen its writer finish (C08) *)
Theorem every_stream_drained_or_closed : forall (drains : handle -> bool) g cfg start tms out dropped st s',
  NoDup (all_keys g) -> ~ In kEND (all_keys g) ->
  (g_dag g = true -> covered g = true /\ all_finished g st = true) ->
  (g_dag g = false -> dropped = [] /\ g_eager g = false) ->
  run_int g cfg start tms = Ok (SDone out dropped st) ->
  consume out (rs_store st) = Ok s' ->
  forall h, created (s_hist s') h -> sclosed drains (s_hist s') h \/ sdrained drains (s_hist s') h.
Proof. exact every_stream_drained_or_closed_s. Qed.
Print Assumptions every_stream_drained_or_closed.

(* ... with callback handlers.  The run model hands a node its input when its task is created and takes
   the node's output as a fresh handle; with handlers the framework copies the stream at both places
   (internal/callbacks.OnWithStreamHandle — the function of callback_copies_have_one_consumer, tied to the
   code by Proofs/GenAgreeAcct.v): n handlers get one copy each, the last copy continues.  [weave isites
   osites nxt] inserts exactly these events into the history, for ANY assignment of handler counts to the
   handles that are consumed (node inputs, the input of a nested run) and to the fresh handles (node
   outputs, the run's own output site), with names [nxt ..] the run did not use.  Under the property's
   hypothesis that a handler closes (or reads to its end) the copy it is given: every stream of the woven
   history — those of the run model, every callback copy, every node's own output stream — is released,
   and the weaving only adds streams with new names. *)
Theorem every_stream_released_with_callbacks :
  forall (isites osites : handle -> nat) nxt g cfg start tms out dropped st s',
  NoDup (all_keys g) -> ~ In kEND (all_keys g) ->
  (g_dag g = true -> covered g = true /\ all_finished g st = true) ->
  (g_dag g = false -> dropped = [] /\ g_eager g = false) ->
  run_int g cfg start tms = Ok (SDone out dropped st) ->
  consume out (rs_store st) = Ok s' ->
  let W := weave isites osites nxt (s_hist s') in
  (forall h, created W h -> released W h)
  /\ (forall h, created (s_hist s') h -> released W h)
  /\ (forall h, created W h -> created (s_hist s') h \/ (nxt <= h)%N).
Proof. exact every_stream_released_with_callbacks_s. Qed.
Print Assumptions every_stream_released_with_callbacks.

(* ... and "drained or closed" for the woven history, whatever each consumer (node, branch condition,
   handler, caller) does with its handle *)
Theorem every_stream_drained_or_closed_with_callbacks :
  forall (drains : handle -> bool) (isites osites : handle -> nat) nxt g cfg start tms out dropped st s',
  NoDup (all_keys g) -> ~ In kEND (all_keys g) ->
  (g_dag g = true -> covered g = true /\ all_finished g st = true) ->
  (g_dag g = false -> dropped = [] /\ g_eager g = false) ->
  run_int g cfg start tms = Ok (SDone out dropped st) ->
  consume out (rs_store st) = Ok s' ->
  let W := weave isites osites nxt (s_hist s') in
  forall h, created W h -> sclosed drains W h \/ sdrained drains W h.
Proof. exact every_stream_drained_or_closed_with_callbacks_s. Qed.
Print Assumptions every_stream_drained_or_closed_with_callbacks.

(* the copy event the weaving inserts at a site with n + 1 handlers is the one OnWithStreamHandle makes *)
Theorem woven_site_is_on_with_stream_handle : forall n h s,
  let cs := fresh_handles (s_next s) (S n + 1) in
  on_with_stream_handle (S n) h s
  = (List.last cs h, List.removelast cs,
     {| s_next := s_next s + N.of_nat (S n + 1); s_open := remove_one h (s_open s) ++ cs;
        s_log := s_log s ++ [Z.of_nat (S n + 1)]; s_hist := HCopy h cs :: s_hist s |}).
Proof. exact site_is_on_with_stream_handle. Qed.

(* non-vacuity: a stream produced at a site with one handler and consumed at a site with one handler *)
Example weave_nonvacuous :
  weave (fun h => if N.eqb h 0 then 1%nat else 0%nat) (fun _ => 1%nat) 100 [HFresh 0; HConsume 0]
  = [HFresh 100; HCopy 100 [101; 0]; HConsume 101; HCopy 0 [102; 103]; HConsume 102; HConsume 103].
Proof. exact weave_example. Qed.

(* without an interrupt configuration a single call is the run of Model/StreamRun.v: the theorems
   above specialise to open_empty_at_end_* / every_stream_released *)
Theorem run_int_without_interrupts_is_run : forall g b rest,
  run_int g icfg0 b (one_call rest) = res_map to_sout (run g (b :: rest)).
Proof. exact run_int_icfg0_l. Qed.

Example finished_run_dag_nonvacuous :
  exists out st, run_int ex_dag ex_dag_cfg [(0, [])] ex_dag_tms = Ok (SDone out [] st) /\ all_finished ex_dag st = true /\
                 s_open (rs_store st) = [out] /\ l_cp_drains (rs_log st) = 3%nat /\ l_input_closes (rs_log st) = 1%nat /\
                 l_merges (rs_log st) = [3%nat].
Proof. exact ex_dag_resumed_ok. Qed.

(* eager Workflow, interrupt-after node: the interrupting pass collects the tasks still running *)
Example finished_run_workflow_nonvacuous :
  exists out st, run_int ex_wf ex_wf_cfg [(0, [])] ex_wf_tms = Ok (SDone out [] st) /\ all_finished ex_wf st = true /\
                 s_open (rs_store st) = [out] /\ l_cp_drains (rs_log st) = 3%nat /\ l_input_closes (rs_log st) = 1%nat.
Proof. exact ex_wf_resumed_ok. Qed.

(* a task asks for a rerun: it stays pending with an empty input, the task collected with it is resolved *)
Example finished_run_rerun_nonvacuous :
  exists out st, run_int ex_dag icfg0 [(0, [])] ex_rr_tms = Ok (SDone out [] st) /\ all_finished ex_dag st = true /\
                 s_open (rs_store st) = [out] /\ l_cp_drains (rs_log st) = 3%nat /\ l_input_closes (rs_log st) = 1%nat.
Proof. exact ex_rerun_ok. Qed.

(* any-predecessor mode: a loop node completes, is scheduled again and asks for a rerun in the same call *)
Example finished_run_pregel_rerun_nonvacuous :
  exists out st, run_int ex_pregel icfg0 [(0, [])] ex_pregel_rr_tms = Ok (SDone out [] st) /\
                 s_open (rs_store st) = [out] /\ l_cp_drains (rs_log st) = 1%nat /\ l_input_closes (rs_log st) = 1%nat /\
                 rs_resolved st = [0; 2; 3; 2; 3].
Proof. exact ex_pregel_rerun_ok. Qed.

Example suspended_run_nonvacuous :
  exists ready st, run_int ex_dag ex_dag_cfg [(0, [])] [ plain [ [(2, [[3; 4]])] ] ] = Ok (SInt ready [] st) /\
                   List.length ready = 2%nat /\ List.length (held ex_dag st) = 1%nat.
Proof. exact ex_dag_suspended_ok. Qed.

(* ... and once the caller has drained or closed the output, no handle is live *)
Theorem open_empty_after_caller : forall st out,
  s_open (rs_store st) = [out] ->
  exists s', consume out (rs_store st) = Ok s' /\ s_open s' = [].
Proof. exact caller_consumes_l. Qed.
Print Assumptions open_empty_after_caller.

(* the status invariant behind the all-predecessor theorem, of independent interest (C02 territory):
   in every reachable state of a run no node has two tasks (in flight or resolved) *)
Theorem dag_node_runs_at_most_once : forall g sched st,
  g_dag g = true -> NoDup (all_keys g) -> ~ In kEND (all_keys g) -> covered g = true ->
  run g sched = Ok (Running st) ->
  NoDup (rs_pending st ++ rs_resolved st).
Proof. exact dag_once_s. Qed.
Print Assumptions dag_node_runs_at_most_once.

(* F-C19b and 760a968 at run level.  Model/StreamRunV0.v is the same run loop with the two channel
   operations as parameters; instantiated with the current operations it IS the run model
   (definitional equality), instantiated with dagChannel.reportValues as it was before 14672f6, resp.
   dagChannel.reportSkip as it was before 760a968, open_empty_at_end is false. *)
Theorem run_model_is_instance : forall g sched, run_g report_skip report_value g sched = run g sched.
Proof. exact run_g_current. Qed.

Theorem open_empty_at_end_v0_values_refuted :
  ~ (forall g sched out dropped st,
       g_dag g = true -> NoDup (all_keys g) -> ~ In kEND (all_keys g) -> covered g = true ->
       run_v0_values g sched = Ok (Done out dropped st) -> all_finished g st = true ->
       s_open (rs_store st) = [out]).
Proof. exact v0_values_refuted_l. Qed.
Print Assumptions open_empty_at_end_v0_values_refuted.

Theorem open_empty_at_end_v0_skip_refuted :
  ~ (forall g sched out dropped st,
       g_dag g = true -> NoDup (all_keys g) -> ~ In kEND (all_keys g) -> covered g = true ->
       run_v0_skip g sched = Ok (Done out dropped st) -> all_finished g st = true ->
       s_open (rs_store st) = [out]).
Proof. exact v0_skip_refuted_l. Qed.
Print Assumptions open_empty_at_end_v0_skip_refuted.

(* non-vacuity of the run theorems: a diamond with a branch (all-predecessor), a Workflow shape
   whose branch carries no data and whose unselected end holds a data-only input, a Pregel loop *)
Example run_dag_nonvacuous :
  g_dag ex_dag = true /\ NoDup (all_keys ex_dag) /\ ~ In kEND (all_keys ex_dag) /\ covered ex_dag = true /\ all_reach ex_dag = true /\
  exists out st, run ex_dag ex_dag_sched = Ok (Done out [] st) /\ all_finished ex_dag st = true /\
                 s_open (rs_store st) = [out] /\ s_log (rs_store st) = [3%Z; 2%Z] /\ l_merges (rs_log st) = [3%nat].
Proof. exact ex_dag_ok. Qed.

Example run_workflow_nonvacuous :
  g_dag ex_wf = true /\ g_eager ex_wf = true /\ covered ex_wf = true /\
  exists out st, run ex_wf ex_wf_sched = Ok (Done out [] st) /\ all_finished ex_wf st = true /\
                 s_open (rs_store st) = [out] /\
                 l_update_closes (rs_log st) = 1%nat /\ l_skip_closes (rs_log st) = 1%nat.
Proof. exact ex_wf_ok. Qed.

Example run_pregel_nonvacuous :
  g_dag ex_pregel = false /\ NoDup (all_keys ex_pregel) /\ ~ In kEND (all_keys ex_pregel) /\
  exists out st, run ex_pregel ex_pregel_sched = Ok (Done out [] st) /\ s_open (rs_store st) = [out] /\
                 rs_resolved st = [0; 2; 3; 2; 3].
Proof. exact ex_pregel_ok. Qed.

(* the hypothesis "END reached with no other node scheduled" cannot be dropped: a Pregel graph in
   which END and another node are scheduled in the same superstep leaves the other node's input live *)
Theorem open_empty_at_end_pregel_needs_end_alone :
  ~ (forall g sched out dropped st,
       g_dag g = false -> NoDup (all_keys g) -> ~ In kEND (all_keys g) ->
       run g sched = Ok (Done out dropped st) -> s_open (rs_store st) = [out]).
Proof. exact pregel_end_not_alone_l. Qed.
Print Assumptions open_empty_at_end_pregel_needs_end_alone.

(* non-vacuity: concrete accounts (v0 against current code on the two witnesses; a fan-out with
   two branches selecting three distinct nodes plus one repeated; a Workflow-style branch
   without data flow whose selected node is closed by updateValues) *)
Example witness_none_accounts :
  account_task_v0 witness_none =
    Ok {| a_copies := [3%Z]; a_handles := 3; a_branch_evals := 1; a_chan_writes := 1; a_closes := 0;
          a_resolve_closes := 0; a_update_closes := 0 |} /\
  account_task witness_none =
    Ok {| a_copies := [3%Z]; a_handles := 3; a_branch_evals := 1; a_chan_writes := 1; a_closes := 1;
          a_resolve_closes := 1; a_update_closes := 0 |}.
Proof. vm_compute. split; reflexivity. Qed.

Example witness_twice_accounts :
  account_task_v0 witness_twice =
    Ok {| a_copies := [3%Z]; a_handles := 3; a_branch_evals := 1; a_chan_writes := 1; a_closes := 0;
          a_resolve_closes := 0; a_update_closes := 0 |} /\
  account_task witness_twice =
    Ok {| a_copies := [3%Z]; a_handles := 3; a_branch_evals := 1; a_chan_writes := 1; a_closes := 1;
          a_resolve_closes := 1; a_update_closes := 0 |}.
Proof. vm_compute. split; reflexivity. Qed.

Example fanout_accounts :
  account_task {| t_node := 2; t_write_to := [3; 4];
                  t_branches := [ {| b_nodata := false; b_ends := [4; 5; 6]; b_sel := [4; 5; 6] |};
                                  {| b_nodata := false; b_ends := [6; 7]; b_sel := [6; 7] |} ] |} =
    Ok {| a_copies := [6%Z; 2%Z]; a_handles := 7; a_branch_evals := 2; a_chan_writes := 5; a_closes := 0;
          a_resolve_closes := 0; a_update_closes := 0 |}.
Proof. vm_compute. reflexivity. Qed.

Example nodata_branch_accounts :
  account_task {| t_node := 2; t_write_to := [3];
                  t_branches := [ {| b_nodata := true; b_ends := [4; 5]; b_sel := [4] |} ] |} =
    Ok {| a_copies := [3%Z]; a_handles := 3; a_branch_evals := 1; a_chan_writes := 1; a_closes := 1;
          a_resolve_closes := 0; a_update_closes := 1 |}.
Proof. vm_compute. reflexivity. Qed.

Example callback_copies_example :
  on_with_stream_handle 2 0 (init_store 0) =
    (3, [1; 2], {| s_next := 4; s_open := [1; 2; 3]; s_log := [3%Z]; s_hist := [HCopy 0 [1; 2; 3]; HFresh 0] |}) /\
  callback_copies 2 3 = [3%Z; 3%Z; 3%Z] /\ callback_copies 0 3 = [].
Proof. vm_compute. repeat split. Qed.

Example store_ok_nonvacuous : store_ok (init_store 0) /\ In 0 (s_open (init_store 0)).
Proof. split; [exact (init_store_ok 0)|now left]. Qed.
