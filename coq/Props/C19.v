(* Props/C19.v — property C19 (placeholder while the proofs are being written). *)
From Eino Require Import Base.Util Model.StreamAcct Proofs.StreamAcct.
Open Scope N_scope.

Example v0_none_unbalanced :
  res_map balanced (account_task_v0 witness_none) = Ok false /\ res_map balanced (account_task witness_none) = Ok true.
Proof. vm_compute. split; reflexivity. Qed.
Example v0_twice_unbalanced :
  res_map balanced (account_task_v0 witness_twice) = Ok false /\ res_map balanced (account_task witness_twice) = Ok true.
Proof. vm_compute. split; reflexivity. Qed.
