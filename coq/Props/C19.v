(* Props/C19.v — property C19: a finished streaming run leaves no blocked producer or goroutine
   behind.  What is PROVED here is the accounting of stream handles in the model
   Model/StreamAcct.v of runner.resolveCompletedTasks + channelManager.updateValues
   (every copy made of a task's output has exactly one consumer).  That no goroutine stays
   blocked is OBSERVED by the harness (harness/cmd/c19), not proved.
   Only statements, each closed by [exact]. *)
From Eino Require Import Base.Util Model.StreamAcct Proofs.StreamAcct.
From Coq Require Import Permutation.
Open Scope N_scope.

(* Core (DESIGN §11).  For every completed task — any successor list, any list of branches
   (with or without data flow), any outcome of every branch condition: selecting nothing,
   several nodes, a node that is also a direct successor, a node selected by two branches —
   resolveCompletedTasks does not panic and the number of live stream handles derived from
   the task's output equals the number of branch evaluations plus channel writes plus
   explicit closes; there is one branch evaluation per branch and one channel write or
   close per distinct generated successor. *)
Theorem copies_eq_consumers : forall t : task,
  exists a, account_task t = Ok a /\
    a_handles a = (a_branch_evals a + a_chan_writes a + a_closes a)%nat /\
    a_branch_evals a = List.length (t_branches t) /\
    (a_chan_writes a + a_update_closes a)%nat = List.length (next_keys t) /\
    a_closes a = (a_resolve_closes a + a_update_closes a)%nat.
Proof. exact copies_eq_consumers_l. Qed.
Print Assumptions copies_eq_consumers.

(* The same at the level of handles and for an arbitrary store: after the step the multiset of
   live handles is the old one without the task's output, plus the handles given to the branch
   conditions, to the successors' channels, and to close() — each exactly once (no handle is
   lost, none is handed out twice), and the store stays duplicate-free. *)
Theorem every_copy_has_one_consumer : forall t out s,
  store_ok s -> In out (s_open s) ->
  exists r, resolve_task t out s = Ok r /\
    let u := update_values t (r_writes r) in
    NoDup (s_open (r_store r)) /\
    Permutation (s_open (r_store r))
                (remove_one out (s_open s) ++
                 r_branch_in r ++ map snd (u_chan u) ++ (u_closed u ++ r_closed r)) /\
    map fst (r_writes r) = next_keys t /\
    List.length (r_branch_in r) = List.length (t_branches t).
Proof. exact every_copy_has_one_consumer_l. Qed.
Print Assumptions every_copy_has_one_consumer.

(* Every generated successor (selected by a branch or a direct data edge) gets exactly one value. *)
Theorem successors_receive_once : forall t out s r,
  store_ok s -> In out (s_open s) -> resolve_task t out s = Ok r ->
  NoDup (map fst (r_writes r)) /\
  (forall k, In k (map fst (r_writes r)) <-> In k (selected t) \/ In k (t_write_to t)).
Proof. exact successors_once_l. Qed.
Print Assumptions successors_receive_once.

(* F-C19: the statement is false for the code before the repair b7635b4 ([resolve_task_v0]).
   Witness 1: a node with an edge to END and a multi-branch that selects nothing — 3 copies,
   1 branch evaluation, 1 channel write, nobody closes the third.
   Witness 2: an edge and a branch to the same node — the map write overwrites one copy. *)
Theorem copies_eq_consumers_v0_refuted :
  ~ (forall t a, account_task_v0 t = Ok a ->
       a_handles a = (a_branch_evals a + a_chan_writes a + a_closes a)%nat).
Proof. exact v0_refuted_l. Qed.
Print Assumptions copies_eq_consumers_v0_refuted.

Theorem copies_eq_consumers_v0_refuted_same_target :
  ~ (forall t a, account_task_v0 t = Ok a ->
       a_handles a = (a_branch_evals a + a_chan_writes a + a_closes a)%nat).
Proof. exact v0_twice_refuted_l. Qed.
Print Assumptions copies_eq_consumers_v0_refuted_same_target.

(* non-vacuity: concrete accounts (v0 against current code on the two witnesses; a fan-out with
   two branches selecting three distinct nodes plus one repeated; a Workflow-style branch
   without data flow whose selected node is closed by updateValues) *)
Example witness_none_accounts :
  account_task_v0 witness_none =
    Ok {| a_copies := [3%Z]; a_handles := 3; a_branch_evals := 1; a_chan_writes := 1; a_closes := 0;
          a_resolve_closes := 0; a_update_closes := 0 |} /\
  account_task witness_none =
    Ok {| a_copies := [3%Z]; a_handles := 3; a_branch_evals := 1; a_chan_writes := 1; a_closes := 1;
          a_resolve_closes := 1; a_update_closes := 0 |}.
Proof. vm_compute. split; reflexivity. Qed.

Example witness_twice_accounts :
  account_task_v0 witness_twice =
    Ok {| a_copies := [3%Z]; a_handles := 3; a_branch_evals := 1; a_chan_writes := 1; a_closes := 0;
          a_resolve_closes := 0; a_update_closes := 0 |} /\
  account_task witness_twice =
    Ok {| a_copies := [3%Z]; a_handles := 3; a_branch_evals := 1; a_chan_writes := 1; a_closes := 1;
          a_resolve_closes := 1; a_update_closes := 0 |}.
Proof. vm_compute. split; reflexivity. Qed.

Example fanout_accounts :
  account_task {| t_node := 2; t_write_to := [3; 4];
                  t_branches := [ {| b_nodata := false; b_ends := [4; 5; 6]; b_sel := [4; 5; 6] |};
                                  {| b_nodata := false; b_ends := [6; 7]; b_sel := [6; 7] |} ] |} =
    Ok {| a_copies := [6%Z; 2%Z]; a_handles := 7; a_branch_evals := 2; a_chan_writes := 5; a_closes := 0;
          a_resolve_closes := 0; a_update_closes := 0 |}.
Proof. vm_compute. reflexivity. Qed.

Example nodata_branch_accounts :
  account_task {| t_node := 2; t_write_to := [3];
                  t_branches := [ {| b_nodata := true; b_ends := [4; 5]; b_sel := [4] |} ] |} =
    Ok {| a_copies := [3%Z]; a_handles := 3; a_branch_evals := 1; a_chan_writes := 1; a_closes := 1;
          a_resolve_closes := 0; a_update_closes := 1 |}.
Proof. vm_compute. reflexivity. Qed.

Example store_ok_nonvacuous : store_ok (init_store 0) /\ In 0 (s_open (init_store 0)).
Proof. split; [exact (init_store_ok 0)|now left]. Qed.
