(* Props/C03.v — placeholder until the proofs land *)
From Eino Require Import Base.Util Model.TaskMgr Model.Confluence.
