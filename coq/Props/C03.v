(* Props/C03.v — property C03: the result of a run does not depend on the completion order of
   concurrently running nodes; every started node execution is collected exactly once; the run
   does not hang; batch (Graph) and eager (Workflow) execution.
   Only statements, each closed by [exact]; proofs are in Proofs/TaskMgr*.v, Proofs/Confluence.v.

   Hand-off protocol (Model/TaskMgr.v): [reach] = every interleaving of executors, collector and
   run loop.  Go's channel (capacity 1 = one-slot option) and sync.Mutex (atomic sections)
   semantics are assumed by the model. *)
From Eino Require Import Base.Util Model.TaskMgr Model.Confluence Model.EagerSkip Model.RunHandoff.
From Eino Require Import Proofs.TaskMgr Proofs.TaskMgrProgress Proofs.TaskMgrTrace Proofs.Confluence Proofs.Eager Proofs.HandoffOrder Proofs.TaskMgrComplete Proofs.TaskMgrOrders Proofs.RunHandoff Proofs.RunHandoffOrder Proofs.RunHandoffLive Proofs.RunHandoffLiveBatch Proofs.RunHandoffSched Proofs.RunHandoffReturn Proofs.EagerSkip Proofs.PreFail Proofs.BatchDagOnce.
From Coq Require Import Permutation.

(* ---- every finished task is in exactly one of l / done / the collector's hands / collected;
        an unfinished one in none; collected tasks are distinct and stay collected ---- *)
Theorem tm_exactly_once : forall s, reach s ->
  (forall t, pushed s t -> count_occ N.eq_dec (map fst (places s)) t = 1%nat) /\
  (forall t, ~ pushed s t -> count_occ N.eq_dec (map fst (places s)) t = 0%nat) /\
  NoDup (map fst (collected s)) /\
  (forall s', step s s' -> incl (collected s) (collected s')).
Proof. exact exactly_once. Qed.
Print Assumptions tm_exactly_once.

(* ---- the collector never sleeps on an empty slot while a finished task waits to be handed over ---- *)
Theorem tm_no_lost_wakeup : forall s, reach s -> cp s = CWait ->
  (exists t b, get_pc t (epcs s) = Some (EDone, b) /\ ~ In t (map fst (collected s))) ->
  done s <> None.
Proof. exact no_lost_wakeup. Qed.
Print Assumptions tm_no_lost_wakeup.

(* ---- no hang: deadlock freedom (invariant) + variant ---- *)
Theorem tm_deadlock_free : forall s, reach s -> drained s \/ exists s', dstep s s'.
Proof. intros s R. exact (deadlock_free s (inv_reach s R)). Qed.
Print Assumptions tm_deadlock_free.

Theorem tm_variant : forall s s', dstep s s' -> (mu s' < mu s)%nat.
Proof. exact dstep_mu. Qed.
Print Assumptions tm_variant.

(* waitAll (batch mode; also what an eager run would need before returning): on every maximal
   sequence of protocol steps the collector ends idle with nothing outstanding and has collected
   exactly the submitted tasks (an eager run stops waiting earlier: when END is ready or a node
   failed; what it has collected until then is covered by tm_exactly_once / tm_progress_one). *)
Theorem tm_progress : forall s, reach s ->
  AF (fun s' => drained s' /\ Permutation (map fst (collected s')) (map fst (epcs s))) s.
Proof. exact progress_all. Qed.
Print Assumptions tm_progress.

Theorem tm_all_collected_when_drained : forall s, reach s -> drained s ->
  Permutation (map fst (collected s)) (map fst (epcs s)).
Proof. intros s R. exact (drained_all_collected s (inv_reach s R)). Qed.
Print Assumptions tm_all_collected_when_drained.

(* every completion order can occur: the tasks [sub] are submitted in this order; for EVERY
   permutation [col] of them there is a run of the protocol at the end of which waitAll has handed
   them back in exactly the order [col] - the permutation of tm_progress is an arbitrary one, so the
   quantification of batch_order_independent over all permutations of every step is exactly what the
   protocol requires, and "every interleaving" is not about a protocol that is secretly FIFO *)
Theorem tm_every_order_possible : forall sub col : list (task * bres),
  NoDup (map fst sub) -> Permutation sub col ->
  exists s, reach s /\ drained s /\ map fst (epcs s) = map fst sub /\
            rev (collected s) = map (fun x => (fst x, err_of (snd x))) col.
Proof. exact every_order_possible. Qed.
Print Assumptions tm_every_order_possible.

(* waitOne (eager mode): a wait that has started returns exactly one more task *)
Theorem tm_progress_one : forall s, reach s -> cp s = CWait ->
  AF (fun s' => cp s' = CIdle /\ num s' = num s /\ exists x, collected s' = x :: collected s) s.
Proof. exact progress_one. Qed.
Print Assumptions tm_progress_one.

(* ---- a panic in a node body is that task's error, and goes through the same hand-off ---- *)
Theorem tm_panic_is_error : forall s t e p, reach s ->
  In (t, e) (places s) -> get_pc t (epcs s) = Some (p, BPanic) -> e = true.
Proof. exact panic_is_error. Qed.
Print Assumptions tm_panic_is_error.

(* ---- the executable trace checker used by the correspondence only accepts runs of the LTS ---- *)
Theorem tm_accepts_sound : forall tr, accepts tr = true -> exists s, reach s /\ Inv s /\ settled s = true.
Proof. exact accepts_sound. Qed.
Print Assumptions tm_accepts_sound.

(* ... and it is not stricter than the LTS: every transition from a reachable state is one event the
   checker accepts, with the same successor (so a conforming implementation whose log is in
   transition order is never rejected) *)
Theorem tm_checker_complete : forall s s', reach s -> step s s' -> exists e, exec_ev s e = Some s'.
Proof. intros s s' R. exact (exec_ev_complete s s' (inv_reach s R)). Qed.
Print Assumptions tm_checker_complete.

(* ---- order side: calculateNextTasks on a permuted completed list (distinct nodes) gives the same
        next tasks with the same inputs, the same END value, and a lookup-equivalent channel state ---- *)
Theorem batch_perm_invariant : forall m g s s' cs cs',
  Permutation cs cs' -> NoDup (map fst cs) -> ceq s s' ->
  next_eq (calc_next m g s cs) (calc_next m g s' cs').
Proof. exact calc_next_perm. Qed.
Print Assumptions batch_perm_invariant.

(* whole batch runs: result and executions are independent of every step's completion order *)
Theorem batch_order_independent : forall ord m g fuel,
  NoDup (map n_id g) -> (forall l, Permutation (ord l) l) ->
  batch ord m g fuel = batch (fun l => l) m g fuel.
Proof. exact batch_order_independent. Qed.
Print Assumptions batch_order_independent.

(* the diamond on the channel state: the writes of two different completed tasks commute *)
Theorem report_diamond : forall g s a b,
  fst a <> fst b -> ceq (report g (report g s a) b) (report g (report g s b) a).
Proof. exact report_diamond. Qed.
Print Assumptions report_diamond.

(* ---- the two models composed (batch mode): from every reachable state of the hand-off protocol,
        on every maximal run (every interleaving of executors and collector) waitAll returns, and
        calculateNextTasks on the tasks in the order they were collected is what it is on the
        order they were submitted in ([outs out] pairs every task with its deterministic output) ---- *)
Theorem batch_step_through_handoff : forall s, reach s ->
  AF (fun s' => drained s' /\ reach s' /\ map fst (epcs s') = map fst (epcs s) /\
        forall m g st out,
          next_eq (calc_next m g st (outs out (collected s'))) (calc_next m g st (outs out (epcs s)))) s.
Proof. exact batch_step_through_handoff. Qed.
Print Assumptions batch_step_through_handoff.

(* ---- eager mode (Workflow): [pick] = any schedule (which running task completes next).
        Two runs that deliver a value deliver the same value, computed from the same executions
        (with the same inputs) of the nodes that feed END - for every graph, failing nodes or not ---- *)
Theorem eager_value_unique : forall g pick1 pick2 f1 f2 v1 v2 l1 l2 r1 r2,
  NoDup (map n_id g) -> ~ In START (map n_id g) ->
  eager pick1 g f1 = (ODone v1, l1, r1) -> eager pick2 g f2 = (ODone v2, l2, r2) ->
  v1 = v2 /\ Permutation (feeding g l1) (feeding g l2).
Proof. exact eager_value_unique. Qed.
Print Assumptions eager_value_unique.

(* every schedule reaches the same outcome (value / failure) and the same execution multiset
   feeding END.  Named hypothesis [failing_feed_end] (carves out finding F-C03c): every node that
   fails feeds END.  Fuel: more than the number of nodes is enough, and is never exhausted. *)
Theorem eager_confluent : forall g pick1 pick2 f1 f2,
  NoDup (map n_id g) -> ~ In START (map n_id g) -> failing_feed_end g ->
  (List.length g < f1)%nat -> (List.length g < f2)%nat ->
  fst (fst (eager pick1 g f1)) = fst (fst (eager pick2 g f2)) /\
  (forall v, fst (fst (eager pick1 g f1)) = ODone v ->
     Permutation (feeding g (snd (fst (eager pick1 g f1)))) (feeding g (snd (fst (eager pick2 g f2))))).
Proof. exact eager_confluent. Qed.
Print Assumptions eager_confluent.

(* without any hypothesis on where the failing nodes are: two schedules agree on the outcome, or one of
   them fails - never two different values (what F-C03c leaves open is exactly "the value under one
   schedule, the failure of a node that does not feed END under another") *)
Theorem eager_outcome_dichotomy : forall g pick1 pick2 f1 f2,
  NoDup (map n_id g) -> ~ In START (map n_id g) ->
  (List.length g < f1)%nat -> (List.length g < f2)%nat ->
  fst (fst (eager pick1 g f1)) = fst (fst (eager pick2 g f2)) \/
  fst (fst (eager pick1 g f1)) = OFail \/ fst (fst (eager pick2 g f2)) = OFail.
Proof. exact eager_outcome_dichotomy. Qed.
Print Assumptions eager_outcome_dichotomy.

Theorem eager_fuel_enough : forall g pick f,
  NoDup (map n_id g) -> ~ In START (map n_id g) -> (List.length g < f)%nat ->
  fst (fst (eager pick g f)) <> OFuel.
Proof. exact eager_fuel_enough. Qed.
Print Assumptions eager_fuel_enough.

(* the schedule the correspondence check evaluates for a value ([pick_ok]: the oldest running task
   that does not fail) delivers the value whenever some schedule does.  Hypothesis [prefail_feed_end]:
   every node whose state pre-handler fails feeds END (such a node fails the run the moment it
   becomes ready, whatever the schedule does afterwards; when it does not feed END the outcome is
   schedule dependent - the F-C03c shape, [eager_prefail_schedule_dependent] below - and the
   correspondence then compares the value runs with each other and through their recorded schedules) *)
Theorem eager_ok_complete : forall g pick f fuel v l r,
  NoDup (map n_id g) -> ~ In START (map n_id g) -> prefail_feed_end g ->
  eager pick g f = (ODone v, l, r) -> (List.length g < fuel)%nat ->
  exists l' r', eager pick_ok g fuel = (ODone v, l', r') /\ Permutation (feeding g l) (feeding g l').
Proof. exact eager_ok_complete. Qed.
Print Assumptions eager_ok_complete.

(* whatever the schedule and the outcome, an eager run starts no node twice, and only nodes of the graph *)
Theorem eager_starts_each_node_once : forall g pick f out log left,
  NoDup (map n_id g) -> ~ In START (map n_id g) ->
  eager pick g f = (out, log, left) ->
  NoDup (map fst log) /\ (forall y i, In (y, i) log -> y <> END /\ In y (map n_id g)).
Proof. exact eager_starts_each_node_once. Qed.
Print Assumptions eager_starts_each_node_once.

(* an eager run does not return a value before the nodes feeding END have finished: none of them
   is among the nodes still running at the return *)
Theorem eager_done_ancestors_finished : forall g pick f v log left,
  NoDup (map n_id g) -> ~ In START (map n_id g) ->
  eager pick g f = (ODone v, log, left) -> forall x, In x left -> ~ In x (ancestors g).
Proof. exact eager_done_ancestors_finished. Qed.
Print Assumptions eager_done_ancestors_finished.

(* ---- finding F-C03c (known, not repaired): with a failing node that does not feed END the outcome
        of an eager run depends on the schedule: END's value if END becomes ready first, the node's
        error if the failure is collected first.  Witness: START -> {3, 4}, only 3 feeds END, 4 fails.
        (corpus/C03/f_c03c_eager_failing_non_ancestor.json) ---- *)
Definition g_fc03c : graph := [mkn 3 [0%N] 0; mkn 4 [0%N] 1; mkn 1 [3%N] 0].

Theorem eager_outcome_schedule_dependent_refuted :
  ~ (forall pick1 pick2 g fuel,
       NoDup (map n_id g) ->
       fst (fst (eager pick1 g fuel)) = fst (fst (eager pick2 g fuel))).
Proof.
  intros H. specialize (H (fun _ => 0%nat) (fun _ => 1%nat) g_fc03c 10%nat).
  assert (Hn : NoDup (map n_id g_fc03c)) by (vm_compute; repeat constructor; simpl; intuition discriminate).
  specialize (H Hn). vm_compute in H. discriminate H.
Qed.
Print Assumptions eager_outcome_schedule_dependent_refuted.

(* ---- permitted behaviour, for the record: an eager run returns as soon as END is ready; a node
        that does not feed END may then still be running and is never collected (the statement only
        requires the nodes feeding END to have finished).  START -> {3, 4}, only 3 feeds END.
        (corpus/C03/eager_slow_non_ancestor.json) ---- *)
Definition g_side : graph := [mkn 3 [0%N] 0; mkn 4 [0%N] 0; mkn 1 [3%N] 0].

Example eager_may_leave_non_ancestor_running :
  eager pick_first g_side 10 = (ODone [3;0;2;0;1;1]%N, [(3, [2;0;1]); (4, [2;0;1])]%N, [4%N]) /\
  ancestors g_side = [0; 3; 1]%N.
Proof. vm_compute. split; reflexivity. Qed.

(* the same in the protocol model: the run loop may stop (cp = CIdle) with a task outstanding *)
Example protocol_state_with_outstanding_task :
  exists s, reach s /\ cp s = CIdle /\ num s = 1%nat /\ List.length (collected s) = 1%nat /\ List.length (epcs s) = 2%nat.
Proof.
  destruct (run_trace init 0
     [EvSpawn 3 BOk; EvSpawn 4 BOk; EvAwait; EvLockE 3; EvPush 3 false; EvSend 3; EvUnlockE 3;
      EvRecv 3 false; EvLockC; EvUnlockC]%N) as [s|] eqn:E; [|vm_compute in E; discriminate].
  exists s. split; [eapply run_trace_sound; [apply r_init|exact E]|].
  vm_compute in E. inversion E; subst; simpl. repeat split.
Qed.

(* ---- non-vacuity ---- *)
(* a reachable state with three finished tasks in three different places, a blocked collector is
   impossible there: l = [5], done = Some 4, collected = [3] *)
Definition tr_demo : list ev :=
  [EvSync 3 BOk; EvLockE 3; EvPush 3 false; EvSend 3; EvUnlockE 3; EvSyncRet 3;
   EvAwait; EvRecv 3 false; EvLockC; EvUnlockC;
   EvSpawn 4 BPanic; EvSpawn 5 BErr;
   EvLockE 4; EvPush 4 true; EvSend 4; EvUnlockE 4;
   EvLockE 5; EvPush 5 true; EvFull; EvUnlockE 5]%N.

Example tm_nonvacuous :
  exists s, run_trace init 0 tr_demo = inl s /\ reach s /\
            l s = [(5%N, true)] /\ done s = Some (4%N, true) /\ collected s = [(3%N, false)] /\
            pushed s 4%N /\ get_pc 4%N (epcs s) = Some (EDone, BPanic).
Proof.
  destruct (run_trace init 0 tr_demo) as [s|] eqn:E; [|vm_compute in E; discriminate].
  exists s. split; [reflexivity|]. split; [eapply run_trace_sound; [apply r_init|exact E]|].
  vm_compute in E. inversion E; subst; simpl. repeat split.
  exists EDone, BPanic. split; reflexivity.
Qed.

(* the collector blocked on the receive with a finished, uncollected task: the slot is full *)
Example tm_no_lost_wakeup_nonvacuous :
  exists s, reach s /\ cp s = CWait /\
            (exists t b, get_pc t (epcs s) = Some (EDone, b) /\ ~ In t (map fst (collected s))) /\
            done s = Some (4%N, true).
Proof.
  destruct (run_trace init 0 (tr_demo ++ [EvAwait])) as [s|] eqn:E; [|vm_compute in E; discriminate].
  exists s. split; [eapply run_trace_sound; [apply r_init|exact E]|].
  vm_compute in E. inversion E; subst; simpl. repeat split.
  exists 4%N, BPanic. split; [reflexivity|]. simpl. intuition discriminate.
Qed.

(* a complete accepted trace with the late-logged receive (recv 3 overtaken by send 4) *)
Example accepts_nonvacuous :
  accepts [EvSpawn 3 BOk; EvSpawn 4 BOk; EvAwait; EvLockE 3; EvPush 3 false; EvSend 3; EvUnlockE 3;
           EvLockE 4; EvPush 4 false; EvSend 4; EvRecv 3 false; EvUnlockE 4; EvLockC; EvUnlockC;
           EvAwait; EvRecv 4 false; EvLockC; EvUnlockC; EvEmpty]%N = true.
Proof. vm_compute. reflexivity. Qed.

(* batch: a step with three completed tasks, two orders, same next tasks *)
Definition g_demo : graph :=
  [mkn 3 [0%N] 0; mkn 4 [0%N] 0; mkn 5 [0%N] 0; mkn 6 [3%N; 4%N] 0; mkn 7 [4%N; 5%N] 0; mkn 1 [6%N; 7%N] 0].

Example batch_nonvacuous :
  batch (@rev _) Dag g_demo 20 = batch (fun l => l) Dag g_demo 20 /\
  fst (batch (fun l => l) Dag g_demo 20) =
    ODone [6;0;3;0;2;0;1;1;4;0;2;0;1;1;1; 7;0;4;0;2;0;1;1;5;0;2;0;1;1;1]%N.
Proof. vm_compute. split; reflexivity. Qed.

(* eager: a graph with a side chain (4 -> 7 -> 8 does not feed END) and a fan-in; two schedules,
   one value, different logs and different nodes left running, the same executions feeding END;
   the hypotheses of eager_confluent hold *)
Definition g_eager : graph :=
  [mkn 3 [0%N] 0; mkn 4 [0%N] 0; mkn 5 [0%N] 0; mkn 6 [3%N; 5%N] 0; mkn 7 [4%N] 0; mkn 8 [7%N] 0;
   mkn 1 [3%N; 6%N] 0].
Definition pick_last (l : list (node * val)) : nat := (List.length l - 1)%nat.

Example eager_nonvacuous :
  NoDup (map n_id g_eager) /\ ~ In START (map n_id g_eager) /\ failing_feed_end g_eager /\
  fst (fst (eager pick_first g_eager 8)) = ODone [3;0;2;0;1;1; 6;0;3;0;2;0;1;1;5;0;2;0;1;1;1]%N /\
  fst (fst (eager pick_last g_eager 8)) = fst (fst (eager pick_first g_eager 8)) /\
  snd (eager pick_first g_eager 8) = [8%N] /\
  snd (eager pick_last g_eager 8) = [] /\
  snd (fst (eager pick_first g_eager 8)) <> snd (fst (eager pick_last g_eager 8)) /\
  feeding g_eager (snd (fst (eager pick_first g_eager 8))) =
    [(3, [2;0;1]); (5, [2;0;1]); (6, [3;0;2;0;1;1;5;0;2;0;1;1])]%N /\
  feeding g_eager (snd (fst (eager pick_last g_eager 8))) =
    feeding g_eager (snd (fst (eager pick_first g_eager 8))).
Proof.
  split; [vm_compute; repeat constructor; simpl; intuition discriminate|].
  split; [vm_compute; intuition discriminate|].
  split; [intros n Hn Hf; vm_compute in Hn; intuition (subst; try (exfalso; apply Hf; reflexivity))|].
  vm_compute. repeat split; try reflexivity. discriminate.
Qed.

(* a failing node that feeds END: every schedule fails (hypotheses of eager_confluent hold) *)
Definition g_eager_fail : graph := [mkn 3 [0%N] 0; mkn 4 [0%N] 2; mkn 5 [3%N; 4%N] 0; mkn 1 [5%N] 0].
Example eager_fail_nonvacuous :
  failing_feed_end g_eager_fail /\
  fst (fst (eager pick_first g_eager_fail 5)) = OFail /\ fst (fst (eager pick_ok g_eager_fail 5)) = OFail.
Proof.
  split; [intros n Hn Hf; vm_compute in Hn; vm_compute;
          intuition (subst; try (exfalso; apply Hf; reflexivity); auto)|].
  vm_compute. split; reflexivity.
Qed.

(* the composed statement is not vacuous: a reachable drained state whose collection order differs
   from the submission order *)
Example handoff_nonvacuous :
  exists s, reach s /\ drained s /\ map fst (epcs s) = [3; 4]%N /\ map fst (collected s) = [4; 3]%N.
Proof.
  destruct (run_trace init 0
     [EvSpawn 3 BOk; EvSpawn 4 BOk; EvLockE 3; EvPush 3 false; EvSend 3; EvUnlockE 3;
      EvAwait; EvRecv 3 false; EvLockC; EvUnlockC;
      EvLockE 4; EvPush 4 false; EvSend 4; EvUnlockE 4;
      EvAwait; EvRecv 4 false; EvLockC; EvUnlockC]%N) as [s|] eqn:E; [|vm_compute in E; discriminate].
  exists s. split; [eapply run_trace_sound; [apply r_init|exact E]|].
  vm_compute in E. inversion E; subst; simpl. repeat split.
Qed.

(* ==== the two models composed into one transition system (Model/RunHandoff.v): a state is
        (protocol state, run-loop state); [creach needAll m g F] = every interleaving of executors,
        collector and the run loop that hands the new tasks to the task manager (each on a goroutine
        of its own or synchronously, in any order), waits (batch: until nothing is outstanding;
        eager: for one task) and resolves what the collector handed back, in the order it was
        collected.  [conf_run] is the executable replay the correspondence runs on every trace. ==== *)

(* the protocol component only makes steps of the hand-off LTS: tm_exactly_once, tm_no_lost_wakeup,
   tm_deadlock_free ... hold along every path of the composed system *)
Theorem run_protocol_projection : forall needAll m g F s r, creach needAll m g F (s, r) -> reach s.
Proof. intros needAll m g F s r H. exact (creach_reach needAll m g F (s, r) H). Qed.
Print Assumptions run_protocol_projection.

(* every trace the replay accepts is a path of the composed system; what the replay reports
   (outcome, executions, tasks left in flight) is what that path computed *)
Theorem run_replay_sound : forall needAll m g F tr s o log lft,
  conf_run needAll m g F tr = Some (s, (o, log, lft)) ->
  exists r, creach needAll m g F (s, r) /\ r_res r = o /\ r_log r = log /\ ids_of (r_run r) = lft.
Proof. exact conf_run_sound. Qed.
Print Assumptions run_replay_sound.

(* batch mode (Graph; pregel and dag channels): whatever the interleaving - the order in which the
   tasks of every step finish, are pushed, handed over and collected - a run that returns, returns
   the outcome and the executions of the canonical run that resolves every step in submission order *)
Theorem run_batch_result : forall m g F s r o,
  NoDup (map n_id g) -> creach true m g F (s, r) -> r_res r = Some o ->
  (o, r_log r) = batch (fun l => l) m g F.
Proof. exact combined_batch_result. Qed.
Print Assumptions run_batch_result.

(* eager mode (Workflow): two paths of the composed system (any two interleavings) that return a
   value return the same value, computed from the same executions of the nodes feeding END *)
Theorem run_eager_value_unique : forall g F1 F2 s1 r1 s2 r2 v1 v2,
  NoDup (map n_id g) -> ~ In START (map n_id g) ->
  creach false Dag g F1 (s1, r1) -> creach false Dag g F2 (s2, r2) ->
  r_res r1 = Some (ODone v1) -> r_res r2 = Some (ODone v2) ->
  v1 = v2 /\ Permutation (feeding g (r_log r1)) (feeding g (r_log r2)).
Proof. exact combined_eager_value_unique. Qed.
Print Assumptions run_eager_value_unique.

(* ... and the same outcome altogether when every failing node feeds END (F-C03c carved out) *)
Theorem run_eager_confluent : forall g F1 F2 s1 r1 s2 r2 o1 o2,
  NoDup (map n_id g) -> ~ In START (map n_id g) -> failing_feed_end g ->
  creach false Dag g F1 (s1, r1) -> creach false Dag g F2 (s2, r2) ->
  r_res r1 = Some o1 -> r_res r2 = Some o2 ->
  o1 = o2 /\ (forall v, o1 = ODone v -> Permutation (feeding g (r_log r1)) (feeding g (r_log r2))).
Proof. exact combined_eager_confluent. Qed.
Print Assumptions run_eager_confluent.

(* ... and for every graph: two paths that return, return the same outcome or one of them a failure *)
Theorem run_eager_outcome_dichotomy : forall g F1 F2 s1 r1 s2 r2 o1 o2,
  NoDup (map n_id g) -> ~ In START (map n_id g) ->
  creach false Dag g F1 (s1, r1) -> creach false Dag g F2 (s2, r2) ->
  r_res r1 = Some o1 -> r_res r2 = Some o2 ->
  o1 = o2 \/ o1 = OFail \/ o2 = OFail.
Proof. exact combined_eager_dichotomy. Qed.
Print Assumptions run_eager_outcome_dichotomy.

(* a value is never returned while a task that feeds END is still in flight *)
Theorem run_eager_ancestors_finished : forall g F s r v,
  NoDup (map n_id g) -> ~ In START (map n_id g) ->
  creach false Dag g F (s, r) -> r_res r = Some (ODone v) ->
  forall x, In x (ids_of (r_run r)) -> ~ In x (ancestors g).
Proof. exact combined_eager_ancestors_finished. Qed.
Print Assumptions run_eager_ancestors_finished.

(* at every moment of every path: no node has been started twice *)
Theorem run_eager_starts_once : forall g F s r,
  NoDup (map n_id g) -> ~ In START (map n_id g) ->
  creach false Dag g F (s, r) ->
  NoDup (map fst (r_log r)) /\ (forall y i, In (y, i) (r_log r) -> y <> END /\ In y (map n_id g)).
Proof. exact combined_eager_starts_once. Qed.
Print Assumptions run_eager_starts_once.

(* eager mode, no hang, for whole runs: from every reachable state of the composed system every
   maximal path (every interleaving of executors, collector and run loop; no fairness assumed: a
   variant decreases with every step) reaches the return of the run; before the return the system is
   never stuck - in particular the guards of the run-loop transitions never block: the task the
   collector hands back is one the run loop has in flight, with the error flag of its body, and the
   key of a task to be handed over is fresh *)
Theorem run_eager_no_hang : forall g F x,
  NoDup (map n_id g) -> ~ In START (map n_id g) ->
  creach false Dag g F x -> CAF g (fun y => r_res (snd y) <> None) x.
Proof. intros g F x Hnd Hs. exact (eager_no_hang g Hnd Hs F x). Qed.
Print Assumptions run_eager_no_hang.

Theorem run_eager_never_stuck : forall g F s r,
  NoDup (map n_id g) -> ~ In START (map n_id g) ->
  creach false Dag g F (s, r) -> r_res r = None -> exists y, cstep false Dag g (s, r) y.
Proof. intros g F s r Hnd Hs. exact (cstep_enabled g Hnd Hs F s r). Qed.
Print Assumptions run_eager_never_stuck.

(* batch mode, no hang, for whole runs (pregel and dag channels, every fuel = maxRunSteps): from
   every reachable state of the composed system every maximal path reaches the return of the run;
   before the return the system is never stuck - waitAll hands back exactly the tasks of the step,
   with the error flags of their bodies (the guards of the resolve transition never block).
   Hypothesis: the canonical run executes no node twice (the composed system, like the trace events
   of the implementation, uses the node key as the key of a task; true of every acyclic graph) *)
Theorem run_batch_no_hang : forall m g F x,
  NoDup (map n_id g) -> NoDup (map fst (snd (batch (fun l => l) m g F))) ->
  creach true m g F x -> CAFb m g (fun y => r_res (snd y) <> None) x.
Proof. intros m g F x Hnd Hf. exact (batch_no_hang m g F Hnd Hf x). Qed.
Print Assumptions run_batch_no_hang.

Theorem run_batch_never_stuck : forall m g F s r,
  NoDup (map n_id g) -> NoDup (map fst (snd (batch (fun l => l) m g F))) ->
  creach true m g F (s, r) -> r_res r = None -> exists y, cstep true m g (s, r) y.
Proof. intros m g F s r Hnd Hf. exact (cstep_enabled_b m g F Hnd Hf s r). Qed.
Print Assumptions run_batch_never_stuck.

(* all-predecessor (dag) channels: the hypothesis holds for EVERY graph and every step limit - a node
   becomes ready again only after all its predecessors have run again, so the canonical run executes no
   node twice (a node on a cycle is never ready) - and the whole-run no-hang theorems need nothing but
   well-formed node keys *)
Theorem batch_dag_no_node_twice : forall g F,
  NoDup (map n_id g) -> ~ In START (map n_id g) ->
  NoDup (map fst (snd (batch (fun l => l) Dag g F))).
Proof. intros g F Hnd Hs. exact (batch_dag_nodup g Hnd Hs F). Qed.
Print Assumptions batch_dag_no_node_twice.

Theorem run_batch_no_hang_dag : forall g F x,
  NoDup (map n_id g) -> ~ In START (map n_id g) ->
  creach true Dag g F x -> CAFb Dag g (fun y => r_res (snd y) <> None) x.
Proof. intros g F x Hnd Hs. exact (batch_no_hang Dag g F Hnd (batch_dag_nodup g Hnd Hs F) x). Qed.
Print Assumptions run_batch_no_hang_dag.

Theorem run_batch_never_stuck_dag : forall g F s r,
  NoDup (map n_id g) -> ~ In START (map n_id g) ->
  creach true Dag g F (s, r) -> r_res r = None -> exists y, cstep true Dag g (s, r) y.
Proof. intros g F s r Hnd Hs. exact (cstep_enabled_b Dag g F Hnd (batch_dag_nodup g Hnd Hs F) s r). Qed.
Print Assumptions run_batch_never_stuck_dag.

(* any-predecessor (pregel) channels: the hypothesis is needed - two paths of different length to a node
   run it twice, in an acyclic graph too *)
Example pregel_runs_a_node_twice :
  map fst (snd (batch (fun l => l) Pregel [mkn 3 [0%N] 0; mkn 4 [0%N] 0; mkn 5 [4%N] 0; mkn 6 [3%N; 5%N] 0; mkn 1 [7%N] 0] 10))
  = [3; 4; 5; 6; 6]%N.
Proof. vm_compute. reflexivity. Qed.

Example run_batch_no_hang_nonvacuous :
  NoDup (map n_id g_demo) /\ NoDup (map fst (snd (batch (fun l => l) Dag g_demo 20))) /\
  NoDup (map fst (snd (batch (fun l => l) Pregel g_demo 20))).
Proof. vm_compute. repeat split; repeat constructor; simpl; intuition discriminate. Qed.

(* the composed system exhibits every schedule of the functional eager model: for every [pick]
   there is a path - an interleaving of executors, collector and run loop - that returns exactly what
   [eager pick] returns, with the same executions and the same tasks left in flight.  So the
   theorems about all paths cover every completion order, and the schedules the correspondence
   evaluates (pick_ok, pick_first, pick_seq) are paths of the composed system *)
Theorem run_eager_every_schedule_realised : forall g F pick fuel out log lft,
  NoDup (map n_id g) -> ~ In START (map n_id g) ->
  eager pick g fuel = (out, log, lft) -> out <> OFuel ->
  exists s r, creach false Dag g F (s, r) /\ r_res r = Some out /\ r_log r = log /\ ids_of (r_run r) = lft.
Proof. intros g F pick fuel out log lft Hnd Hs. exact (every_schedule_realised g Hnd Hs F pick fuel out log lft). Qed.
Print Assumptions run_eager_every_schedule_realised.

(* "does not return before the nodes have finished", batch mode: when a batch run returns - and ever
   after - every task that was ever handed to the task manager has been collected, exactly once;
   nothing is in transit and nothing can move any more (every executor has left the protocol) *)
Theorem run_batch_return_all_collected : forall m g F s r,
  creach true m g F (s, r) -> r_res r <> None ->
  Permutation (map fst (collected s)) (map fst (epcs s)) /\ NoDup (map fst (collected s)) /\
  l s = [] /\ done s = None /\ (forall s', ~ dstep s s').
Proof. exact batch_return_all_collected. Qed.
Print Assumptions run_batch_return_all_collected.

(* eager mode: when the run returns - and ever after - the tasks the run loop of the model has in flight
   are exactly the tasks that were handed to the task manager and have not been collected; with
   run_eager_ancestors_finished: at a value return every task that feeds END has been collected *)
Theorem run_eager_return_inflight : forall g F s r,
  NoDup (map n_id g) -> ~ In START (map n_id g) ->
  creach false Dag g F (s, r) -> r_res r <> None ->
  forall x, In x (ids_of (r_run r)) <-> (In x (map fst (epcs s)) /\ ~ In x (map fst (collected s))).
Proof. intros g F s r Hnd Hs. exact (eager_return_inflight g Hnd Hs F s r). Qed.
Print Assumptions run_eager_return_inflight.

(* the protocol alone: a drained state (waitAll has returned) is completely quiescent *)
Theorem tm_drained_quiescent : forall s, reach s -> drained s -> mu s = 0%nat /\ l s = [] /\ done s = None.
Proof. exact drained_quiescent. Qed.
Print Assumptions tm_drained_quiescent.

(* non-vacuity: an eager path that returns END's value and leaves task 4 in flight; a batch path in
   which the step is collected in the order 4, 3 and that returns the canonical result *)
Example run_eager_nonvacuous :
  exists s r, creach false Dag g_side 0 (s, r) /\ r_res r = Some (ODone [3;0;2;0;1;1]%N) /\ ids_of (r_run r) = [4%N].
Proof.
  destruct (conf_run false Dag g_side 0
     [EvSpawn 3 BOk; EvSpawn 4 BOk; EvAwait; EvLockE 3; EvPush 3 false; EvSend 3; EvUnlockE 3;
      EvRecv 3 false; EvLockC; EvUnlockC]%N) as [[s [[o lg] lf]]|] eqn:E; [|vm_compute in E; discriminate].
  destruct (conf_run_sound _ _ _ _ _ _ _ _ _ E) as (r & C & E1 & E2 & E3).
  exists s, r. split; [exact C|]. vm_compute in E. inversion E. split; congruence.
Qed.

Definition g_two : graph := [mkn 3 [0%N] 0; mkn 4 [0%N] 0; mkn 1 [3%N; 4%N] 0].
Example run_batch_nonvacuous :
  exists s r, creach true Dag g_two 5 (s, r) /\ map fst (collected s) = [3; 4]%N /\
              r_res r = Some (ODone [3;0;2;0;1;1;4;0;2;0;1;1]%N) /\
              fst (batch (fun l => l) Dag g_two 5) = ODone [3;0;2;0;1;1;4;0;2;0;1;1]%N.
Proof.
  destruct (conf_run true Dag g_two 5
     [EvSpawn 4 BOk; EvSync 3 BOk; EvLockE 4; EvPush 4 false; EvSend 4; EvUnlockE 4;
      EvLockE 3; EvPush 3 false; EvFull; EvUnlockE 3; EvSyncRet 3;
      EvAwait; EvRecv 4 false; EvLockC; EvSend 3; EvUnlockC;
      EvAwait; EvRecv 3 false; EvLockC; EvUnlockC; EvEmpty]%N) as [[s [[o lg] lf]]|] eqn:E; [|vm_compute in E; discriminate].
  destruct (conf_run_sound _ _ _ _ _ _ _ _ _ E) as (r & C & E1 & E2 & E3).
  exists s, r. split; [exact C|]. vm_compute in E. inversion E as [[Hs Ho Hl Hf]].
  split; [try rewrite <- Hs; try subst s; reflexivity|]. split; [congruence|]. vm_compute. reflexivity.
Qed.

(* ==== a state pre-handler that fails (behaviour 4 of a node; since fix 559768a the error of that node):
        taskManager.submit runs the pre-processors of all the new tasks before it starts any of them and
        returns at the first failure.  In the models: a step (batch) / a set of newly ready tasks (eager)
        that contains such a node ends the run with a failure, nothing of it is started or logged, what
        is in flight (eager) stays in flight.  All the theorems above are about the models with this
        clause (order independence, exactly-once, no hang, return conditions); in addition: ==== *)

(* such a node is never executed: batch, every completion order of every step *)
Theorem prefail_never_executed_batch : forall g ord m fuel,
  NoDup (map n_id g) ->
  forall y i, In (y, i) (snd (batch ord m g fuel)) -> forall n, In n g -> n_id n = y -> n_fail n <> 4%N.
Proof. intros g ord m fuel Hnd. exact (batch_clean g Hnd ord m fuel). Qed.
Print Assumptions prefail_never_executed_batch.

(* eager, every schedule *)
Theorem prefail_never_executed_eager : forall g pick fuel,
  NoDup (map n_id g) ->
  forall y i, In (y, i) (snd (fst (eager pick g fuel))) -> forall n, In n g -> n_id n = y -> n_fail n <> 4%N.
Proof. intros g pick fuel Hnd. exact (eager_clean g Hnd pick fuel). Qed.
Print Assumptions prefail_never_executed_eager.

(* Workflows with branches, control-only or data-only edges (Model/EagerSkip.v), every schedule *)
Theorem prefail_never_executed_workflow : forall fixed pick G fuel,
  NoDup (map n_id (sg_nodes G)) ->
  forall y i, In (y, i) (snd (fst (seager fixed pick G fuel))) ->
  forall n, In n (sg_nodes G) -> n_id n = y -> n_fail n <> 4%N.
Proof. intros fixed pick G fuel Hnd. exact (seager_clean fixed pick G fuel Hnd). Qed.
Print Assumptions prefail_never_executed_workflow.

(* the composed system, batch and eager: at every moment of every path (every interleaving of executors,
   collector and run loop) no execution of such a node has been created *)
Theorem run_prefail_never_executed : forall needAll m g F s r,
  NoDup (map n_id g) -> creach needAll m g F (s, r) ->
  forall y i, In (y, i) (r_log r) -> forall n, In n g -> n_id n = y -> n_fail n <> 4%N.
Proof. intros needAll m g F s r Hnd C. exact (creach_clean g Hnd needAll m F (s, r) C). Qed.
Print Assumptions run_prefail_never_executed.

(* a batch step with such a node: the run fails and nothing of the step is started *)
Theorem batch_prefail_step_not_started : forall ord m g f s tasks log,
  existsb prefail tasks = true -> run_batch ord m g (S f) s tasks log = (OFail, log).
Proof. exact run_batch_prefail. Qed.
Print Assumptions batch_prefail_step_not_started.

(* non-vacuity.  3 -> {5, 6}, 4 -> 6, the pre-handler of 5 fails: the second step {5, 6} is never
   started, in either channel mode, whatever the completion order of the first step *)
Definition g_pre : graph :=
  [mkn 3 [0%N] 0; mkn 4 [0%N] 0; mkn 5 [3%N] 4; mkn 6 [3%N; 4%N] 0; mkn 1 [5%N; 6%N] 0].
Example batch_prefail_nonvacuous :
  batch (@rev _) Dag g_pre 20 = (OFail, [(3, [2;0;1]); (4, [2;0;1])]%N) /\
  batch (fun l => l) Pregel g_pre 20 = (OFail, [(3, [2;0;1]); (4, [2;0;1])]%N).
Proof. vm_compute. split; reflexivity. Qed.

(* eager: the failure of the pre-handler of 5 is returned while 4 is still in flight *)
Example eager_prefail_nonvacuous :
  eager pick_first g_pre 10 = (OFail, [(3, [2;0;1]); (4, [2;0;1])]%N, [4%N]).
Proof. vm_compute. reflexivity. Qed.

(* the composed system: a batch path (the step {3, 4} collected in the order 4, 3) that returns the
   failure of the pre-handler; nothing of the second step was handed to the task manager *)
Example run_prefail_nonvacuous :
  exists s r, creach true Dag g_pre 5 (s, r) /\ r_res r = Some OFail /\
              map fst (r_log r) = [3; 4]%N /\ map fst (epcs s) = [4; 3]%N.
Proof.
  destruct (conf_run true Dag g_pre 5
     [EvSpawn 4 BOk; EvSync 3 BOk; EvLockE 4; EvPush 4 false; EvSend 4; EvUnlockE 4;
      EvLockE 3; EvPush 3 false; EvFull; EvUnlockE 3; EvSyncRet 3;
      EvAwait; EvRecv 4 false; EvLockC; EvSend 3; EvUnlockC;
      EvAwait; EvRecv 3 false; EvLockC; EvUnlockC; EvEmpty]%N) as [[s [[o lg] lf]]|] eqn:E; [|vm_compute in E; discriminate].
  destruct (conf_run_sound _ _ _ _ _ _ _ _ _ E) as (r & C & E1 & E2 & E3).
  exists s, r. split; [exact C|]. vm_compute in E. inversion E as [[Hs Ho Hl Hf]].
  split; [congruence|]. split; [rewrite E2, <- Hl; reflexivity|]. try rewrite <- Hs; try subst s; reflexivity.
Qed.

(* a node whose pre-handler fails and that does not feed END: the F-C03c shape - the run returns END's
   value if END becomes ready first (4 collected first) and the failure if node 5 becomes ready first *)
Definition g_pre_side : graph := [mkn 3 [0%N] 0; mkn 4 [0%N] 0; mkn 5 [3%N] 4; mkn 1 [4%N] 0].
Example eager_prefail_schedule_dependent :
  fst (fst (eager pick_first g_pre_side 10)) = OFail /\
  fst (fst (eager pick_last g_pre_side 10)) = ODone [4;0;2;0;1;1]%N /\
  ~ prefail_feed_end g_pre_side /\ prefail_feed_end g_pre.
Proof.
  split; [vm_compute; reflexivity|]. split; [vm_compute; reflexivity|]. split.
  - intros H. specialize (H (mkn 5 [3%N] 4)). vm_compute in H.
    assert (K : 0%N = 5%N \/ 4%N = 5%N \/ 1%N = 5%N \/ False) by (apply H; [tauto|reflexivity]).
    intuition discriminate.
  - intros n Hn Hf. vm_compute in Hn. vm_compute.
    intuition (subst; simpl in Hf; try discriminate; auto).
Qed.

(* ==== eager mode with branches (Model/EagerSkip.v, what the correspondence evaluates for Workflows
        with branches): on a graph without branches the branch-aware run loop is the plain one, for
        every schedule, so everything above holds for it there ==== *)
Theorem eager_branches_conservative : forall g fixed pick fuel,
  seager fixed pick (mksg g [] [] []) fuel = eager pick g fuel.
Proof. exact seager_no_branches. Qed.
Print Assumptions eager_branches_conservative.

(* ---- finding F-C03d (fixed, /repo 665541a): before the fix ([seager false]) the outcome of a
        Workflow with a node that is both a direct successor and an unselected branch end depended on
        the schedule; the repaired rule gives one outcome on the witness
        (corpus/C03/eager_edge_and_unselected_branch.json) ---- *)
Theorem eager_branch_v0_schedule_dependent_refuted :
  ~ (forall pick1 pick2 G fuel, fst (fst (seager false pick1 G fuel)) = fst (fst (seager false pick2 G fuel))).
Proof. intros H. exact (seager_v0_schedule_dependent (H pick_first pick_newest g_fc03d 20%nat)). Qed.
Print Assumptions eager_branch_v0_schedule_dependent_refuted.

Example eager_branch_fixed_on_witness :
  fst (fst (seager true pick_first g_fc03d 20)) = fst (fst (seager true pick_newest g_fc03d 20)) /\
  exists v, fst (fst (seager true pick_first g_fc03d 20)) = ODone v.
Proof. exact seager_fixed_on_witness. Qed.

(* the same rule for a control-only edge (WorkflowNode.AddDependency; round 4): 5 depends on 3 by a
   control-only edge and is an unselected end of a branch of 3 and of a branch of 4.  The successors
   exempted from a node's skip report are its successors by a CONTROL edge (chanCall.controls), not its
   data successors (chanCall.writeTo): 5 runs whichever of 3 and 4 is collected first, and its output
   (computed from no input: {5: {}}) is part of the result
   (corpus/C03/eager_ctl_edge_and_unselected_branch.json; seeded change
   C03-branch-skip-exempts-writeto-not-controls) *)
Definition g_ctl_edge : sgraph :=
  mksg [mkn 3 [0%N] 0; mkn 4 [0%N] 0; mkn 5 [] 0; mkn 6 [] 0; mkn 7 [] 0; mkn 1 [5; 6; 7]%N 0]
       [mkbr 3 [5; 6] [6]; mkbr 4 [5; 7] [7]]%N [(5, 3)]%N [].
Example eager_ctl_edge_wins :
  fst (fst (seager true pick_first g_ctl_edge 20)) = ODone [5;0;1; 6;0;1; 7;0;1]%N /\
  fst (fst (seager true pick_newest g_ctl_edge 20)) = ODone [5;0;1; 6;0;1; 7;0;1]%N.
Proof. vm_compute. split; reflexivity. Qed.
