(* Props/C15.v — property C15: Workflow field mappings move exactly the mapped values;
   overlapping targets are rejected whatever the declaration order; run-time-only type
   checks give an error, never a panic.  Only statements, each closed by [exact]. *)
From Coq Require Import Permutation.
From Eino Require Import Base.Util Base.FMUniverse Model.FieldMap Proofs.FieldMapOverlap
  Model.FieldMapOwn Proofs.FieldMapAssign Proofs.FieldMapComm Proofs.FieldMapGetPut Proofs.FieldMapRun
  Proofs.FieldMapOwn Proofs.FieldMapFresh Model.FieldMapPromote Proofs.FieldMapPromote Proofs.FieldMapPartition Proofs.FieldMapFanIn Model.FieldMapClean Proofs.FieldMapClean.

(* ---------------------------------------------------------------- overlap detection *)

(* The overlap check (checkAndAddMappedPath after fix F-C15a) accepts a list of target
   paths iff no path equals or is a prefix of another one ([] = the whole input, a prefix
   of everything). *)
Theorem overlap_iff : forall ps : list path, overlap_check ps = true <-> no_conflict ps.
Proof. exact overlap_check_iff. Qed.
Print Assumptions overlap_iff.

(* ... hence for EVERY declaration order of the same paths the verdict is the same *)
Theorem overlap_order_independent :
  forall ps qs : list path, Permutation ps qs -> overlap_check ps = overlap_check qs.
Proof. exact overlap_check_perm. Qed.
Print Assumptions overlap_order_independent.

(* the per-AddInput insertion of [compile] is the insertion of the concatenated list *)
Theorem overlap_per_declaration :
  forall (dps : list (list path)) (t : trie), tinsert_decls dps t = tinsert_all (List.concat dps) t.
Proof. exact tinsert_decls_flat. Qed.
Print Assumptions overlap_per_declaration.

(* acceptance by Compile (overlap check AND static validation of every declaration) is the
   same for every declaration order *)
Theorem compile_accept_order_independent :
  forall (env : senv) (T : ty) (ds ds' : list decl),
    Permutation ds ds' ->
    ((exists ckss, compile env T ds = CAccept ckss) <-> (exists ckss', compile env T ds' = CAccept ckss')).
Proof. exact compile_accept_perm. Qed.
Print Assumptions compile_accept_order_independent.

Example overlap_accepts : overlap_check [[10; 2]; [10; 5; 0]; [13; 23]; [14]]%N = true.
Proof. vm_compute. reflexivity. Qed.
Example overlap_rejects_both_orders :
  overlap_check [[10; 2]; [10]]%N = false /\ overlap_check [[10]; [10; 2]]%N = false
  /\ overlap_check [[10; 5; 0]; [10; 2]; [10; 5]]%N = false
  /\ overlap_check [[]; [2]]%N = false /\ overlap_check [[2]; []]%N = false.
Proof. vm_compute. repeat split; reflexivity. Qed.

(* Before the fix (F-C15a) the check depended on the declaration order, forgot recorded
   paths when a sibling was added, and never recorded a mapping to the whole input. *)
Theorem overlap_iff_v0_refuted :
  (check_add_all_v0 None [[[10; 2]%N]; [[10%N]]] = true /\ check_add_all_v0 None [[[10%N]]; [[10; 2]%N]] = false)
  /\ check_add_all_v0 None [[[10; 5; 0]%N]; [[10; 2]%N]; [[10; 5]%N]] = true
  /\ check_add_all_v0 None [[[]]; [[2%N]]] = true.
Proof.
  split; [exact overlap_v0_order_dependent | split; [exact overlap_v0_sibling_reset | exact (proj1 overlap_v0_whole_ignored)]].
Qed.
Print Assumptions overlap_iff_v0_refuted.

(* ---------------------------------------------------------------- target assignment *)

(* the struct environment of the harness (Leaf = 0, Inner = 1, Outer = 2), used by the
   non-vacuity examples *)
Definition ex_env : senv :=
  [(0, [(0, (true, TInt)); (1, (true, TStr))]);
   (1, [(2, (true, TInt)); (3, (true, TStr)); (4, (true, TAny)); (5, (true, TStruct 0));
        (6, (true, TPtr (TStruct 0))); (7, (true, TMap true TInt)); (8, (true, TMap true (TStruct 0)));
        (9, (false, TInt))]);
   (2, [(10, (true, TStruct 1)); (11, (true, TPtr (TStruct 1))); (12, (true, TPtr (TPtr (TStruct 1))));
        (13, (true, TAny)); (14, (true, TInt)); (15, (true, TStr)); (16, (true, TMap true TAny));
        (17, (true, TMap true TStr)); (18, (true, TMap true (TStruct 1)));
        (19, (true, TMap true (TPtr (TStruct 1)))); (20, (true, TMap false TStr))])]%N.

(* convertTo iterates over a Go map (random order): for a set of target paths without
   overlap EVERY iteration order gives the same outcome (same value, or the same failure),
   whatever the target type, the paths and the values are. *)
Theorem assign_order_independent :
  forall (env : senv) (T : ty) (m m' : fmap),
    Permutation m m' -> no_conflict (keys m) -> convert_to env T m = convert_to env T m'.
Proof. exact convert_to_perm. Qed.
Print Assumptions assign_order_independent.

Example assign_order_independent_nonvacuous :
  let m := [([11; 5; 0], VInt 6); ([11; 2], VInt 5); ([19; 100; 3], VStr "y"); ([13; 101; 102], VNil);
            ([18; 100; 5; 1], VStr "z")]%N in
  no_conflict (keys m) /\
  convert_to ex_env (TStruct 2) m = convert_to ex_env (TStruct 2) (rev m) /\
  is_ok (convert_to ex_env (TStruct 2) m) = true.
Proof. vm_compute. repeat split; repeat constructor. Qed.

(* ... and with overlapping targets the order does matter (which is why they are rejected) *)
Example assign_order_matters_with_overlap :
  let m := [([10; 2], VInt 5); ([10], VStruct 1 [])]%N in
  convert_to ex_env (TStruct 2) m <> convert_to ex_env (TStruct 2) (rev m).
Proof. vm_compute. discriminate. Qed.

(* ---------------------------------------------------------------- moves exactly the mapped values *)

(* convertTo on ANY overlap-free map whose target paths are valid for T and whose values fit
   their slots (= what Compile's static check plus the request-time checkers let through):
   it succeeds; every target path reads back the assigned value (nil interface = the zero
   value of the slot); every other path that can be read at all reads as the zero value of
   its static type. Reading uses [take_path], the walker of the source side. *)
Theorem assign_get_put :
  forall (env : senv) (T : ty) (m : fmap),
    no_conflict (keys m) -> fits env T m ->
    exists v, convert_to env T m = Ok v /\
      (forall p x, In (p, x) m ->
         exists st b, extract_ty env T p = SOk st b /\ take_path env v p = Ok (conv st x)) /\
      (forall q z, q <> [] -> fresh_for q (keys m) -> take_path env v q = Ok z ->
         exists st b, extract_ty env T q = SOk st b /\ z = zero st).
Proof. exact convert_to_spec. Qed.
Print Assumptions assign_get_put.

(* Invoke through an accepted set of field mappings and static values (every declaration
   order, since acceptance is order independent), predecessors returning values of their
   declared types: never a panic; if it succeeds, every mapped target path of the
   successor's input holds the value found at the source path of its predecessor's output,
   every static path holds its constant, and every path that overlaps none of them reads
   as zero.  ([ss] = [] : no SetStaticValue; then compile_s / run_invoke_s are compile /
   run_invoke.) *)
Theorem mapped_get_put :
  forall (env : senv) (T : ty) (ds : list decl) (ss : statics) (ckss : list checks) (srcs : list val),
    compile_s env T ds ss = CAccept ckss -> has_plain ds = false ->
    Forall2 (fun d s => has_type env (d_ty d) s = true) ds srcs ->
    match run_invoke_s env T ds ss ckss srcs with
    | Panic => False
    | Err _ => True
    | Ok v =>
        (forall d s from to, In (d, s) (combine ds srcs) -> In (from, to) (d_maps d) ->
           exists x st b, take_path env s from = Ok x /\ extract_ty env T to = SOk st b /\
                          take_path env v to = Ok (conv st x)) /\
        (forall to x, In (to, x) ss ->
           exists st b, extract_ty env T to = SOk st b /\ take_path env v to = Ok (conv st x)) /\
        (forall q z, q <> [] -> fresh_for q (all_targets ds ++ map fst ss) -> take_path env v q = Ok z ->
           exists st b, extract_ty env T q = SOk st b /\ z = zero st)
    end.
Proof. exact invoke_spec_s. Qed.
Print Assumptions mapped_get_put.

(* AddInput without mappings: accepted only alone and only between assignable types; the successor
   gets the value itself, chunk by chunk in Stream — unless the predecessor's type is an interface and
   the successor's is not: then the edge's run-time type check turns a value that is not of the
   successor's input type into an error (never a panic). *)
Theorem plain_edge_alone :
  forall (env : senv) (T : ty) (ds : list decl) (ckss : list checks),
    compile env T ds = CAccept ckss -> has_plain ds = true ->
    exists d, ds = [d] /\ d_maps d = [] /\ check_assignable (d_ty d) T <> MustNot /\
      (forall s, run_invoke env T ds ckss [s] =
                 if (match check_assignable (d_ty d) T with May => negb (slot_ok T s) | _ => false end)
                 then Err ECheck else Ok s) /\
      (forall cs, run_stream env T ds ckss [cs] =
                  if forallb (fun c => match check_assignable (d_ty d) T with May => slot_ok T c | _ => true end) cs
                  then Ok cs else Err ECheck).
Proof. exact plain_edge_spec. Qed.
Print Assumptions plain_edge_alone.

Example plain_edge_nonvacuous :
  let ds := [ {| d_ty := TAny; d_maps := [] |} ] in
  compile ex_env (TStruct 0) ds = CAccept [[]] /\
  run_invoke ex_env (TStruct 0) ds [[]] [VStruct 0 [(0, VInt 1)]]%N = Ok (VStruct 0 [(0, VInt 1)])%N /\
  run_invoke ex_env (TStruct 0) ds [[]] [VInt 1] = Err ECheck /\
  run_invoke ex_env (TStruct 0) ds [[]] [VNil] = Err ECheck /\
  run_stream ex_env (TStruct 0) ds [[]] [[VStruct 0 []; VInt 1]] = Err ECheck /\
  compile ex_env (TStruct 0) [ {| d_ty := TInt; d_maps := [] |} ] = CErrStatic.
Proof. vm_compute. repeat split; reflexivity. Qed.

(* the accepted example: three predecessors, nested struct / pointer / map / any-hole
   targets, one source path below an interface-typed field (checked at request time) *)
Definition ex_decls : list decl :=
  [ {| d_ty := TStruct 2; d_maps := [([14], [11; 2]); ([10; 4; 100], [10; 3])] |};
    {| d_ty := TMap true TAny; d_maps := [([100], [13; 101; 102]); ([101], [19; 100; 5; 0])] |};
    {| d_ty := TInt; d_maps := [([], [16; 103])] |} ]%N.
Definition ex_srcs : list val :=
  [ VStruct 2 [(10, VStruct 1 [(4, VMap true TStr (Some [(100, VStr "deep")]))]); (14, VInt 7)];
    VMap true TAny (Some [(100, VNil); (101, VInt 9)]);
    VInt 3 ]%N.

Definition ex_statics : statics := [([15], VStr "const"); ([17; 100], VStr "k")]%N.

Example mapped_get_put_nonvacuous :
  exists ckss v,
    compile_s ex_env (TStruct 2) ex_decls ex_statics = CAccept ckss /\ has_plain ex_decls = false /\
    Forall2 (fun d s => has_type ex_env (d_ty d) s = true) ex_decls ex_srcs /\
    run_invoke_s ex_env (TStruct 2) ex_decls ex_statics ckss ex_srcs = Ok v /\
    take_path ex_env v [11; 2]%N = Ok (VInt 7) /\ take_path ex_env v [10; 3]%N = Ok (VStr "deep") /\
    take_path ex_env v [13; 101; 102]%N = Ok VNil /\ take_path ex_env v [19; 100; 5; 0]%N = Ok (VInt 9) /\
    take_path ex_env v [15]%N = Ok (VStr "const") /\ take_path ex_env v [17; 100]%N = Ok (VStr "k") /\
    take_path ex_env v [11; 3]%N = Ok (VStr "") /\ ckss <> [[]; []; []].
Proof.
  eexists. eexists. split; [vm_compute; reflexivity|].
  split; [reflexivity|]. split; [repeat constructor|].
  split; [vm_compute; reflexivity|]. repeat split; try (vm_compute; reflexivity). discriminate.
Qed.

(* a static value of the wrong type is rejected at compile time (F-C15j: it used to be
   accepted and every run panicked) *)
Example static_value_rejected :
  compile_s ex_env (TStruct 2) ex_decls [([15], VInt 1)]%N = CErrStatic /\
  convert_to ex_env (TStruct 2) [([15], VInt 1)]%N = Panic /\
  compile_s ex_env (TStruct 2) ex_decls [([11], VNil)]%N = CErrOverlap.
Proof. vm_compute. repeat split; reflexivity. Qed.

(* ---------------------------------------------------------------- errors, never a panic *)

(* Whatever Compile accepts never panics at request time, in Invoke and in Stream, whatever
   values (of the declared types) the predecessors deliver and however they are chunked:
   mappings that can only be checked at run time (source below an interface-typed field,
   interface-typed source for a concrete target, nil values, missing keys, nil pointers)
   end in [Err] or in a value. *)
Theorem runtime_check_errors :
  forall (env : senv) (T : ty) (ds : list decl) (ss : statics) (ckss : list checks),
    compile_s env T ds ss = CAccept ckss ->
    (forall srcs, Forall2 (fun d s => has_type env (d_ty d) s = true) ds srcs ->
                  run_invoke_s env T ds ss ckss srcs <> Panic) /\
    (forall chunkss, Forall2 (fun d cs => Forall (fun c => has_type env (d_ty d) c = true) cs) ds chunkss ->
                     run_stream_s env T ds ss ckss chunkss <> Panic).
Proof. exact run_no_panic_s. Qed.
Print Assumptions runtime_check_errors.

(* a run-time-checked mapping whose value does not fit: [Err], and a nil interface on the
   source path: [Err] (both were panics before F-C15b/c/h) *)
Example runtime_check_errors_nonvacuous :
  let ds := [ {| d_ty := TStruct 2; d_maps := [([13; 2], [14])] |} ]%N in
  exists ckss, compile ex_env (TStruct 2) ds = CAccept ckss /\ ckss = [[([14], TInt)]]%N /\
    run_invoke ex_env (TStruct 2) ds ckss [VStruct 2 [(13, VStruct 1 [(2, VInt 5)])]]%N
      = Ok (VStruct 2 [(14, VInt 5)])%N /\
    run_invoke ex_env (TStruct 2) ds ckss [VStruct 2 [(13, VMap true TStr (Some [(2, VStr "no")]))]]%N = Err ECheck /\
    run_invoke ex_env (TStruct 2) ds ckss [VStruct 2 []]%N = Err ESrc.
Proof. eexists. vm_compute. repeat split; reflexivity. Qed.

(* Before F-C15i a target path below a pointer to an interface (type "*any") passed the static
   check and every run panicked; the repaired check rejects it. *)
Theorem runtime_check_errors_v0_refuted :
  extract_ty_v0 ex_env (TPtr TAny) [100%N] = SOk TAny false /\
  convert_to ex_env (TPtr TAny) [([100%N], VInt 1)] = Panic /\
  extract_ty ex_env (TPtr TAny) [100%N] = SErr.
Proof. vm_compute. repeat split; reflexivity. Qed.
Print Assumptions runtime_check_errors_v0_refuted.

(* ---------------------------------------------------------------- stream form *)

(* Stream: every chunk of every predecessor is mapped (missing map keys skipped), checked
   and converted on its own; each converted chunk holds the values of the mappings whose
   source resolved in that chunk and is zero everywhere else. *)
Theorem stream_itemwise :
  forall (env : senv) (T : ty) (ds : list decl) (ss : statics) (ckss : list checks) (chunkss : list (list val)),
    compile_s env T ds ss = CAccept ckss -> has_plain ds = false ->
    Forall2 (fun d cs => Forall (fun c => has_type env (d_ty d) c = true) cs) ds chunkss ->
    match run_stream_s env T ds ss ckss chunkss with
    | Panic => False
    | Err _ => True
    | Ok vs =>
        match ss with
        | [] => stream_rel env T ds chunkss vs
        | _ => (* the static values arrive as one more chunk *)
               exists vs' v, vs = vs' ++ [v] /\ stream_rel env T ds chunkss vs' /\ static_chunk_post env T ss v
        end
    end.
Proof. exact stream_spec_s. Qed.
Print Assumptions stream_itemwise.

(* The stream in which every predecessor delivers its Invoke value as a single chunk: it
   succeeds whenever Invoke does, and the chunk coming from predecessor i is the Invoke
   result restricted to i's target paths (same value on each of them, zero elsewhere) —
   so overlaying the chunks (what the successor's stream concatenation does, C14/C04) gives
   the Invoke value. *)
Theorem stream_agrees :
  forall (env : senv) (T : ty) (ds : list decl) (ss : statics) (ckss : list checks) (srcs : list val) (v : val),
    compile_s env T ds ss = CAccept ckss -> has_plain ds = false ->
    Forall2 (fun d s => has_type env (d_ty d) s = true) ds srcs ->
    run_invoke_s env T ds ss ckss srcs = Ok v ->
    exists vs, run_stream_from env T ds ckss (map (fun s => [s]) srcs) = Ok vs /\
      Forall2 (fun d vi =>
                 (forall from to, In (from, to) (d_maps d) -> take_path env vi to = take_path env v to) /\
                 (forall q z, q <> [] -> fresh_for q (map snd (d_maps d)) -> take_path env vi q = Ok z ->
                              exists st b, extract_ty env T q = SOk st b /\ z = zero st)) ds vs /\
      match ss with
      | [] => run_stream_s env T ds ss ckss (map (fun s => [s]) srcs) = Ok vs
      | _ => exists vst, run_stream_s env T ds ss ckss (map (fun s => [s]) srcs) = Ok (vs ++ [vst]) /\
                         (forall to x, In (to, x) ss -> take_path env vst to = take_path env v to) /\
                         (forall q z, q <> [] -> fresh_for q (map fst ss) -> take_path env vst q = Ok z ->
                                      exists st b, extract_ty env T q = SOk st b /\ z = zero st)
      end.
Proof. exact stream_agrees_s. Qed.
Print Assumptions stream_agrees.

Example stream_agrees_nonvacuous :
  exists ckss vs,
    compile ex_env (TStruct 2) ex_decls = CAccept ckss /\
    run_stream ex_env (TStruct 2) ex_decls ckss (map (fun s => [s]) ex_srcs) = Ok vs /\
    List.length vs = 3 /\
    (* two chunks with disjoint keys from the map-typed predecessor: missing keys are skipped *)
    run_stream ex_env (TStruct 2) ex_decls ckss
      [[nth 0 ex_srcs VNil]; [VMap true TAny (Some [(100, VNil)]); VMap true TAny (Some [(101, VInt 9)])]; [VInt 3]]%N
    = Ok [VStruct 2 [(10, VStruct 1 [(3, VStr "deep")]); (11, VPtr (TStruct 1) (Some (VStruct 1 [(2, VInt 7)])))];
          VStruct 2 [(13, VMap true TAny (Some [(101, VMap true TAny (Some [(102, VNil)]))]))];
          VStruct 2 [(19, VMap true (TPtr (TStruct 1)) (Some [(100, VPtr (TStruct 1) (Some (VStruct 1 [(5, VStruct 0 [(0, VInt 9)])])))]))];
          VStruct 2 [(16, VMap true TAny (Some [(103, VInt 3)]))]]%N.
Proof. eexists. eexists. split; [vm_compute; reflexivity|]. split; [vm_compute; reflexivity|]. split; vm_compute; reflexivity. Qed.

(* The converted chunks PARTITION the Invoke value: with one chunk per predecessor, every slot
   at or below a mapped target path is carried by exactly one chunk — the chunk of the
   declaration that maps it reads there what the Invoke value reads, every other chunk reads
   zero there.  So whatever overlays the chunks slot by slot (the successor's stream
   concatenation, properties C14/C04) rebuilds the Invoke value. *)
Theorem stream_partition :
  forall (env : senv) (T : ty) (ds : list decl) (ss : statics) (ckss : list checks) (srcs : list val) (v : val),
    compile_s env T ds ss = CAccept ckss -> has_plain ds = false ->
    Forall2 (fun d s => has_type env (d_ty d) s = true) ds srcs ->
    run_invoke_s env T ds ss ckss srcs = Ok v ->
    exists vs, run_stream_from env T ds ckss (map (fun s => [s]) srcs) = Ok vs /\
      List.length vs = List.length ds /\
      forall i d vi from to q,
        nth_error ds i = Some d -> nth_error vs i = Some vi ->
        In (from, to) (d_maps d) -> prefix to q = true ->
        take_path env vi q = take_path env v q /\
        forall j vj z, j <> i -> nth_error vs j = Some vj -> take_path env vj q = Ok z ->
                       exists st b, extract_ty env T q = SOk st b /\ z = zero st.
Proof. exact stream_partition. Qed.
Print Assumptions stream_partition.

(* ... with static values: they arrive as one more chunk, which carries exactly the static slots *)
Theorem stream_partition_static :
  forall (env : senv) (T : ty) (ds : list decl) (ss : statics) (ckss : list checks) (srcs : list val) (v : val),
    compile_s env T ds ss = CAccept ckss -> has_plain ds = false -> ss <> [] ->
    Forall2 (fun d s => has_type env (d_ty d) s = true) ds srcs ->
    run_invoke_s env T ds ss ckss srcs = Ok v ->
    exists vs vst, run_stream_s env T ds ss ckss (map (fun s => [s]) srcs) = Ok (vs ++ [vst]) /\
      List.length vs = List.length ds /\
      (forall i d from to q z, nth_error ds i = Some d -> In (from, to) (d_maps d) -> prefix to q = true ->
         take_path env vst q = Ok z -> exists st b, extract_ty env T q = SOk st b /\ z = zero st) /\
      (forall to x q, In (to, x) ss -> prefix to q = true ->
         take_path env vst q = take_path env v q /\
         forall j vj z, nth_error vs j = Some vj -> take_path env vj q = Ok z ->
                        exists st b, extract_ty env T q = SOk st b /\ z = zero st).
Proof. exact stream_partition_s. Qed.
Print Assumptions stream_partition_static.

(* non-vacuity: the accepted example (three predecessors + two static values): four chunks;
   the slots PI.X = [11; 2] and I.Y = [10; 3] are carried by the first chunk only *)
Example stream_partition_nonvacuous :
  exists ckss v vs,
    compile_s ex_env (TStruct 2) ex_decls ex_statics = CAccept ckss /\
    run_invoke_s ex_env (TStruct 2) ex_decls ex_statics ckss ex_srcs = Ok v /\
    run_stream_s ex_env (TStruct 2) ex_decls ex_statics ckss (map (fun s => [s]) ex_srcs) = Ok vs /\
    List.length vs = 4 /\
    (* below a pointer the other chunks have not instantiated, the slot cannot be read at all *)
    map (fun c => take_path ex_env c [11; 2]%N) vs = [Ok (VInt 7); Err ESrc; Err ESrc; Err ESrc] /\
    take_path ex_env v [11; 2]%N = Ok (VInt 7) /\
    map (fun c => take_path ex_env c [10; 3]%N) vs = [Ok (VStr "deep"); Ok (VStr ""); Ok (VStr ""); Ok (VStr "")] /\
    take_path ex_env v [10; 3]%N = Ok (VStr "deep").
Proof.
  eexists. eexists. eexists. split; [vm_compute; reflexivity|]. split; [vm_compute; reflexivity|].
  split; [vm_compute; reflexivity|]. vm_compute. repeat split; reflexivity.
Qed.

(* ---------------------------------------------------------------- predecessors' outputs *)

(* Model/FieldMapOwn.v runs assignOne / convertTo on values whose heap objects (pointer
   targets, maps) carry an ownership tag — allocated by this convertTo call, or existing
   before (reachable from a predecessor's output or a static value; the stored values share
   their objects with the source, as in Go) — and reports whether an object that existed
   before was written to (SetMapIndex on it, field.Set in it).  Forgetting the tags gives
   exactly [convert_to]; for overlap-free target paths the report is always "no". *)
Theorem convert_writes_only_fresh :
  forall (env : senv) (T : ty) (m : fmap),
    convert_to env T m = res_map (fun r => erase (fst r)) (convert_to_w env T m) /\
    (forall d fl, no_conflict (keys m) -> convert_to_w env T m = Ok (d, fl) -> fl = false).
Proof. exact (fun env T m => conj (erase_convert_to_w env T m) (convert_to_w_own env T m)). Qed.
Print Assumptions convert_writes_only_fresh.

(* Whole runs: Invoke and Stream through accepted field mappings and static values are the
   instrumented runs, and those never write to an object that existed before the conversion:
   the predecessors' outputs are not modified. *)
Theorem source_unmodified :
  forall (env : senv) (T : ty) (ds : list decl) (ss : statics) (ckss : list checks),
    compile_s env T ds ss = CAccept ckss -> has_plain ds = false ->
    (forall srcs,
       run_invoke_s env T ds ss ckss srcs = res_map fst (run_invoke_w env T ds ss ckss srcs) /\
       forall v fl, run_invoke_w env T ds ss ckss srcs = Ok (v, fl) -> fl = false) /\
    (forall chunkss,
       run_stream_s env T ds ss ckss chunkss = res_map fst (run_stream_w env T ds ss ckss chunkss) /\
       forall vs fl, run_stream_w env T ds ss ckss chunkss = Ok (vs, fl) -> fl = false).
Proof. exact source_unmodified_run. Qed.
Print Assumptions source_unmodified.

(* non-vacuity, and why the overlap check matters here: with overlapping targets convertTo DOES
   write into the predecessor's map / into what the predecessor's pointer points to *)
Example source_unmodified_nonvacuous :
  (exists ckss v, compile_s ex_env (TStruct 2) ex_decls ex_statics = CAccept ckss /\
                  run_invoke_w ex_env (TStruct 2) ex_decls ex_statics ckss ex_srcs = Ok (v, false)) /\
  (exists d, convert_to_w ex_env (TStruct 2) [([16], VMap true TAny (Some [])); ([16; 100], VInt 1)]%N = Ok (d, true)) /\
  (exists d, convert_to_w ex_env (TStruct 2) [([11], VPtr (TStruct 1) (Some (VStruct 1 []))); ([11; 2], VInt 5)]%N = Ok (d, true)).
Proof.
  split; [eexists; eexists; split; vm_compute; reflexivity|].
  split; eexists; vm_compute; reflexivity.
Qed.

(* "Identically on every run", heap side (round 6): every conversion makes the successor's input anew.
   In the value the instrumented convertTo returns, every heap object (pointer target, map) that
   does not lie at or below a mapped path carries the tag "allocated by this call" (invariant
   [own_ok] of Proofs/FieldMapOwn.v: a struct is inline, a pointer / map off the mapped paths must be
   tagged [true]).  [run_invoke_w] / [run_stream_w] call [convert_to_w] once per request resp. per
   chunk ([source_unmodified] above: they ARE the runs): two requests on one compiled runnable, or
   two chunks of one stream, share no object except what the mapped values themselves bring
   along, so what a successor does to the input it was handed cannot show in another run. *)
Theorem successor_input_fresh :
  forall (env : senv) (T : ty) (m : fmap) (d : oval) (fl : bool),
    no_conflict (keys m) -> convert_to_w env T m = Ok (d, fl) -> own_ok d (keys m).
Proof. exact convert_to_w_fresh. Qed.
Print Assumptions successor_input_fresh.

(* non-vacuity: an accepted key set whose conversion instantiates a pointer (PI) and makes two maps
   (MA, MP), all tagged "allocated by this call", and stores a predecessor's pointer (tagged
   "existed before") AT a mapped path; and the invariant does exclude a value in which an object
   that existed before sits off the mapped paths (what a converter that hands out a cached input
   would return) *)
Definition ex_fresh_m : fmap :=
  [([11; 2], VInt 7); ([16; 100], VStr "s"); ([19; 100], VPtr (TStruct 1) (Some (VStruct 1 [(2, VInt 1)])))]%N.

Example successor_input_fresh_nonvacuous :
  (no_conflict (keys ex_fresh_m) /\
   convert_to_w ex_env (TPtr (TStruct 2)) ex_fresh_m =
     Ok (OPtr true (TStruct 2) (Some (OStruct 2
           [(11, OPtr true (TStruct 1) (Some (OStruct 1 [(2, OInt 7)])));
            (16, OMap true true TAny (Some [(100, OStr "s")]));
            (19, OMap true true (TPtr (TStruct 1)) (Some [(100, OPtr false (TStruct 1) (Some (OStruct 1 [(2, OInt 1)])))]))])), false)%N) /\
  ~ own_ok (OStruct 2 [(11, OPtr false (TStruct 1) (Some (OStruct 1 [])))])%N [[16; 100]]%N.
Proof.
  split; [split; [vm_compute; repeat split; repeat constructor | vm_compute; reflexivity]|].
  intros H. inversion H as [? ? Hin| | | |? ? ? Hf| | | |]; subst.
  - simpl in Hin. destruct Hin as [E|[]]. discriminate.
  - specialize (Hf 11%N _ eq_refl). simpl in Hf.
    inversion Hf as [? ? Hin| | | | | | | |]; subst. destruct Hin.
Qed.

(* In an accepted set no target path lies strictly below (or equals) another one: an
   assignment never walks into a value that an earlier assignment took from a predecessor's
   output. *)
Theorem source_not_entered :
  forall (env : senv) (T : ty) (ds : list decl) (ckss : list checks),
    compile env T ds = CAccept ckss ->
    forall l1 p l2 q l3, all_targets ds = l1 ++ p :: l2 ++ q :: l3 -> prefix p q = false /\ prefix q p = false.
Proof. exact targets_not_nested. Qed.
Print Assumptions source_not_entered.

(* ---------------------------------------------------------------- static values *)

(* SetStaticValue keeps its values in a Go map, Compile and every run iterate over it in an
   arbitrary order: the verdict of Compile and the result of every Invoke are the same for
   every order. *)
Theorem static_values_order_independent :
  forall (env : senv) (T : ty) (ds : list decl) (ss ss' : statics),
    Permutation ss ss' ->
    compile_s env T ds ss = compile_s env T ds ss' /\
    forall ckss srcs,
      compile_s env T ds ss = CAccept ckss -> has_plain ds = false ->
      Forall2 (fun d s => has_type env (d_ty d) s = true) ds srcs ->
      run_invoke_s env T ds ss ckss srcs = run_invoke_s env T ds ss' ckss srcs.
Proof. exact statics_order_independent. Qed.
Print Assumptions static_values_order_independent.

(* The fan-in of a node collects the per-predecessor maps of mapped values from a Go map
   (dagChannel.get over ch.Values) and merges them in that arbitrary order, in front of the map of
   static values: whatever order [ms'] the maps [ms] of the predecessors arrive in, the node's input
   is the one [run_invoke_s] computes — "identically on every run", whichever predecessor finishes
   first. *)
Theorem fanin_order_independent :
  forall (env : senv) (T : ty) (ds : list decl) (ss : statics) (ckss : list checks) (srcs : list val)
         (ms ms' : list fmap),
    compile_s env T ds ss = CAccept ckss -> has_plain ds = false ->
    Forall2 (fun d s => has_type env (d_ty d) s = true) ds srcs ->
    edges_out env ds ckss srcs = Ok ms ->
    Permutation ms ms' ->
    merge_convert env T ms' ss = run_invoke_s env T ds ss ckss srcs.
Proof. exact Proofs.FieldMapFanIn.fanin_order_independent. Qed.
Print Assumptions fanin_order_independent.

(* non-vacuity: three predecessors and a static value; all six arrival orders give the same input *)
Example fanin_order_independent_nonvacuous :
  let env : senv := [(1%N, [(2%N, (true, TInt)); (3%N, (true, TStr)); (4%N, (true, TAny)); (5%N, (true, TInt))])] in
  let T := TStruct 1 in
  let ds := [ {| d_ty := TInt; d_maps := [([], [2%N])] |};
              {| d_ty := TStr; d_maps := [([], [3%N])] |};
              {| d_ty := TMap true TAny; d_maps := [([7%N], [4%N; 8%N])] |} ] in
  let ss : statics := [([5%N], VInt 9)] in
  let srcs := [VInt 5; VStr "s"; VMap true TAny (Some [(7%N, VInt 1)])] in
  exists ckss m1 m2 m3 v,
    compile_s env T ds ss = CAccept ckss /\ edges_out env ds ckss srcs = Ok [m1; m2; m3] /\
    run_invoke_s env T ds ss ckss srcs = Ok v /\
    Forall (fun ms' => merge_convert env T ms' ss = Ok v)
      [[m1; m2; m3]; [m1; m3; m2]; [m2; m1; m3]; [m2; m3; m1]; [m3; m1; m2]; [m3; m2; m1]].
Proof. vm_compute. do 5 eexists. repeat split; repeat constructor. Qed.

(* The second conclusion of mapped_get_put ("everything else zero-valued") as the correspondence checks
   it on the value the IMPLEMENTATION returned: the decision procedure [clean_b] (Model/FieldMapClean.v)
   answers true only if EVERY path that overlaps no target path reads the zero value of its static type
   in that value — an exhaustive check, not one on probe paths. *)
Theorem zero_clause_exhaustive :
  forall (fuel : nat) (env : senv) (t : ty) (v : val) (W : list path) (q : path) (z : val),
    clean_b fuel env t v W = true ->
    (forall p, In p W -> conflict q p = false) -> q <> [] ->
    take_path env v q = Ok z ->
    exists st b, extract_ty env t q = SOk st b /\ z = zero st.
Proof. exact clean_b_read_zero. Qed.
Print Assumptions zero_clause_exhaustive.

(* non-vacuity: a value with an instantiated pointer, a map entry and an any-hole along the targets passes;
   the same value with one stray field does not *)
Example zero_clause_exhaustive_nonvacuous :
  let env : senv := [(1%N, [(2%N, (true, TInt)); (3%N, (true, TPtr (TStruct 1))); (4%N, (true, TAny)); (5%N, (true, TMap true TInt))])] in
  let W := [[3%N; 2%N]; [4%N; 7%N; 8%N]; [5%N; 9%N]] in
  let v := VStruct 1 [(3%N, VPtr (TStruct 1) (Some (VStruct 1 [(2%N, VInt 5)])));
                      (4%N, VMap true TAny (Some [(7%N, VMap true TAny (Some [(8%N, VStr "s")]))]));
                      (5%N, VMap true TInt (Some [(9%N, VInt 0)]))] in
  clean_b 8 env (TStruct 1) v W = true
  /\ clean_b 8 env (TStruct 1) (VStruct 1 [(2%N, VInt 1); (3%N, VPtr (TStruct 1) (Some (VStruct 1 [(2%N, VInt 5)])))]) [[3%N; 2%N]] = false
  /\ take_path env v [3%N; 3%N] = Ok (VPtr (TStruct 1) None).
Proof. vm_compute. repeat split. Qed.

(* ---------------------------------------------------------------- promoted fields (embedded structs) *)

(* Paths may name a field promoted from an embedded struct by its short name (Go's
   FieldByName).  Model/FieldMapPromote.v elaborates every declared path along the static
   type into its explicit spelling ([expand] = canonicalTargetPath of workflow.go, and what
   the walkers' fieldByName does step by step since F-C15k); compile_x / run_invoke_x /
   run_stream_x are Compile / Invoke / Stream on the declarations as written.  The elaborated
   spelling is canonical: spelling it out again changes nothing. *)
Theorem promoted_canonical :
  forall (env : senv) (pe : penv), penv_wf env pe = true ->
    forall (p : path) (t : ty), expand env pe t (expand env pe t p) = expand env pe t p.
Proof. exact expand_idempotent. Qed.
Print Assumptions promoted_canonical.

(* Whatever Compile accepts has no two targets (mappings of any declaration, static values)
   that denote the same slot or a slot and something inside it, HOWEVER they are spelled
   (F-C15l: ToField(X) beside ToFieldPath{Inner,X} or ToField(Inner) used to be accepted). *)
Theorem promoted_overlap_rejected :
  forall (env : senv) (pe : penv) (T : ty) (ds : list decl) (ss : statics) (ckss : list checks),
    compile_x env pe T ds ss = CAccept ckss ->
    no_conflict (all_targets (expand_decls env pe T ds) ++ map fst (expand_keys env pe T ss)).
Proof. exact compile_x_no_alias. Qed.
Print Assumptions promoted_overlap_rejected.

(* mapped_get_put for the declared spelling: never a panic; the slot a declared target
   path denotes holds the value found at the slot the declared source path denotes. *)
Theorem mapped_get_put_promoted :
  forall (env : senv) (pe : penv) (T : ty) (ds : list decl) (ss : statics) (ckss : list checks) (srcs : list val),
    compile_x env pe T ds ss = CAccept ckss -> has_plain ds = false ->
    Forall2 (fun d s => has_type env (d_ty d) s = true) ds srcs ->
    match run_invoke_x env pe T ds ss ckss srcs with
    | Panic => False
    | Err _ => True
    | Ok v =>
        (forall d s from to, In (d, s) (combine ds srcs) -> In (from, to) (d_maps d) ->
           exists x st b, take_path env s (expand env pe (d_ty d) from) = Ok x /\
                          extract_ty env T (expand env pe T to) = SOk st b /\
                          take_path env v (expand env pe T to) = Ok (conv st x)) /\
        (forall to x, In (to, x) ss ->
           exists st b, extract_ty env T (expand env pe T to) = SOk st b /\
                        take_path env v (expand env pe T to) = Ok (conv st x)) /\
        (forall q z, q <> [] ->
           fresh_for q (all_targets (expand_decls env pe T ds) ++ map fst (expand_keys env pe T ss)) ->
           take_path env v q = Ok z -> exists st b, extract_ty env T q = SOk st b /\ z = zero st)
    end.
Proof. exact invoke_spec_x. Qed.
Print Assumptions mapped_get_put_promoted.

Theorem runtime_check_errors_promoted :
  forall (env : senv) (pe : penv) (T : ty) (ds : list decl) (ss : statics) (ckss : list checks),
    compile_x env pe T ds ss = CAccept ckss ->
    (forall srcs, Forall2 (fun d s => has_type env (d_ty d) s = true) ds srcs ->
                  run_invoke_x env pe T ds ss ckss srcs <> Panic) /\
    (forall chunkss, Forall2 (fun d cs => Forall (fun c => has_type env (d_ty d) c = true) cs) ds chunkss ->
                     run_stream_x env pe T ds ss ckss chunkss <> Panic).
Proof. exact run_no_panic_x. Qed.
Print Assumptions runtime_check_errors_promoted.

(* declaration order and Go's map iteration order do not matter, whatever spellings are used *)
Theorem promoted_order_independent :
  forall (env : senv) (pe : penv) (T : ty),
    (forall ds ds', Permutation ds ds' ->
       ((exists ckss, compile_x env pe T ds [] = CAccept ckss) <-> (exists ckss', compile_x env pe T ds' [] = CAccept ckss'))) /\
    (forall m m', Permutation m m' -> no_conflict (keys (expand_keys env pe T m)) ->
       convert_to_x env pe T m = convert_to_x env pe T m').
Proof. exact (fun env pe T => conj (compile_x_accept_perm env pe T) (convert_to_x_perm env pe T)). Qed.
Print Assumptions promoted_order_independent.

(* the harness's struct Emb (= 3): Leaf (= 30) embedded by value, *Inner (= 31) embedded by
   pointer, W (= 32); the fields of Leaf and Inner are promoted *)
Definition ex_envp : senv :=
  ex_env ++ [(3, [(30, (true, TStruct 0)); (31, (true, TPtr (TStruct 1))); (32, (true, TInt))])]%N.
Definition ex_penv : penv :=
  [(3, [(0, [30]); (1, [30]); (2, [31]); (3, [31]); (4, [31]); (5, [31]); (6, [31]); (7, [31]); (8, [31]); (9, [31])])]%N.

Example promoted_nonvacuous :
  penv_wf ex_envp ex_penv = true /\
  expand ex_envp ex_penv (TStruct 3) [2]%N = [31; 2]%N /\
  expand ex_envp ex_penv (TMap true (TPtr (TStruct 3))) [100; 5; 0]%N = [100; 31; 5; 0]%N /\
  (* X (promoted through the nil embedded pointer, instantiated on the way), A, Inner.Y, W *)
  (let ds := [ {| d_ty := TInt; d_maps := [([], [2])] |}; {| d_ty := TStruct 3; d_maps := [([0], [0]); ([3], [31; 3])] |};
               {| d_ty := TInt; d_maps := [([], [32])] |} ]%N in
   exists ckss,
     compile_x ex_envp ex_penv (TStruct 3) ds [] = CAccept ckss /\
     run_invoke_x ex_envp ex_penv (TStruct 3) ds [] ckss
       [VInt 5; VStruct 3 [(30, VStruct 0 [(0, VInt 6)]); (31, VPtr (TStruct 1) (Some (VStruct 1 [(3, VStr "y")])))]; VInt 7]%N
     = Ok (VStruct 3 [(30, VStruct 0 [(0, VInt 6)]);
                      (31, VPtr (TStruct 1) (Some (VStruct 1 [(2, VInt 5); (3, VStr "y")]))); (32, VInt 7)])%N /\
     (* the source's embedded pointer is nil: a request-time error *)
     run_invoke_x ex_envp ex_penv (TStruct 3) ds [] ckss [VInt 5; VStruct 3 []; VInt 7]%N = Err ESrc).
Proof.
  split; [vm_compute; reflexivity|]. split; [vm_compute; reflexivity|]. split; [vm_compute; reflexivity|].
  eexists. split; [vm_compute; reflexivity|]. split; vm_compute; reflexivity.
Qed.

(* Before F-C15l the overlap check saw the targets as spelled: X beside Inner.X (the same
   field) and X beside Inner (the embedded pointer as a whole) were accepted, the outcome of
   convertTo then depends on the iteration order of its map, and in one of the orders it
   writes into the predecessor's *Inner. The repaired Compile rejects both. *)
Theorem promoted_overlap_v0_refuted :
  let d1 := {| d_ty := TInt; d_maps := [([], [2])] |}%N in
  let d2 := {| d_ty := TInt; d_maps := [([], [31; 2])] |}%N in
  let d3 := {| d_ty := TPtr (TStruct 1); d_maps := [([], [31])] |}%N in
  accepts_x_v0 ex_envp ex_penv (TStruct 3) [d1; d2] = true /\
  accepts_x_v0 ex_envp ex_penv (TStruct 3) [d1; d3] = true /\
  compile_x ex_envp ex_penv (TStruct 3) [d1; d2] [] = CErrOverlap /\
  compile_x ex_envp ex_penv (TStruct 3) [d3; d1] [] = CErrOverlap /\
  (let m := [([2], VInt 1); ([31; 2], VInt 2)]%N in
   convert_to_x ex_envp ex_penv (TStruct 3) m <> convert_to_x ex_envp ex_penv (TStruct 3) (rev m)) /\
  (let m := [([31], VPtr (TStruct 1) (Some (VStruct 1 [(3, VStr "src")]))); ([2], VInt 1)]%N in
   exists d, convert_to_w ex_envp (TStruct 3) (expand_keys ex_envp ex_penv (TStruct 3) m) = Ok (d, true)).
Proof.
  cbv zeta. split; [vm_compute; reflexivity|]. split; [vm_compute; reflexivity|].
  split; [vm_compute; reflexivity|]. split; [vm_compute; reflexivity|].
  split; [vm_compute; discriminate|]. eexists. vm_compute. reflexivity.
Qed.
Print Assumptions promoted_overlap_v0_refuted.
