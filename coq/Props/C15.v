(* Props/C15.v — property C15: Workflow field mappings move exactly the mapped values;
   overlapping targets are rejected whatever the declaration order; run-time-only type
   checks give an error, never a panic.  Only statements, each closed by [exact]. *)
From Coq Require Import Permutation.
From Eino Require Import Base.Util Base.FMUniverse Model.FieldMap Proofs.FieldMapOverlap.

(* ---------------------------------------------------------------- overlap detection *)

(* The overlap check (checkAndAddMappedPath after fix F-C15a) accepts a list of target
   paths iff no path equals or is a prefix of another one ([] = the whole input, a prefix
   of everything). *)
Theorem overlap_iff : forall ps : list path, overlap_check ps = true <-> no_conflict ps.
Proof. exact overlap_check_iff. Qed.
Print Assumptions overlap_iff.

(* ... hence for EVERY declaration order of the same paths the verdict is the same *)
Theorem overlap_order_independent :
  forall ps qs : list path, Permutation ps qs -> overlap_check ps = overlap_check qs.
Proof. exact overlap_check_perm. Qed.
Print Assumptions overlap_order_independent.

(* the per-AddInput insertion of [compile] is the insertion of the concatenated list *)
Theorem overlap_per_declaration :
  forall (dps : list (list path)) (t : trie), tinsert_decls dps t = tinsert_all (List.concat dps) t.
Proof. exact tinsert_decls_flat. Qed.
Print Assumptions overlap_per_declaration.

Example overlap_accepts : overlap_check [[10; 2]; [10; 5; 0]; [13; 23]; [14]]%N = true.
Proof. vm_compute. reflexivity. Qed.
Example overlap_rejects_both_orders :
  overlap_check [[10; 2]; [10]]%N = false /\ overlap_check [[10]; [10; 2]]%N = false
  /\ overlap_check [[10; 5; 0]; [10; 2]; [10; 5]]%N = false
  /\ overlap_check [[]; [2]]%N = false /\ overlap_check [[2]; []]%N = false.
Proof. vm_compute. repeat split; reflexivity. Qed.

(* Before the fix (F-C15a) the check depended on the declaration order, forgot recorded
   paths when a sibling was added, and never recorded a mapping to the whole input. *)
Theorem overlap_iff_v0_refuted :
  (check_add_all_v0 None [[[10; 2]%N]; [[10%N]]] = true /\ check_add_all_v0 None [[[10%N]]; [[10; 2]%N]] = false)
  /\ check_add_all_v0 None [[[10; 5; 0]%N]; [[10; 2]%N]; [[10; 5]%N]] = true
  /\ check_add_all_v0 None [[[]]; [[2%N]]] = true.
Proof.
  split; [exact overlap_v0_order_dependent | split; [exact overlap_v0_sibling_reset | exact (proj1 overlap_v0_whole_ignored)]].
Qed.
Print Assumptions overlap_iff_v0_refuted.
