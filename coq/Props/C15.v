(* Props/C15.v — property C15: Workflow field mappings move exactly the mapped values;
   overlapping targets are rejected whatever the declaration order; run-time-only type
   checks give an error, never a panic.  Only statements, each closed by [exact]. *)
From Coq Require Import Permutation.
From Eino Require Import Base.Util Base.FMUniverse Model.FieldMap Proofs.FieldMapOverlap
  Proofs.FieldMapAssign Proofs.FieldMapComm.

(* ---------------------------------------------------------------- overlap detection *)

(* The overlap check (checkAndAddMappedPath after fix F-C15a) accepts a list of target
   paths iff no path equals or is a prefix of another one ([] = the whole input, a prefix
   of everything). *)
Theorem overlap_iff : forall ps : list path, overlap_check ps = true <-> no_conflict ps.
Proof. exact overlap_check_iff. Qed.
Print Assumptions overlap_iff.

(* ... hence for EVERY declaration order of the same paths the verdict is the same *)
Theorem overlap_order_independent :
  forall ps qs : list path, Permutation ps qs -> overlap_check ps = overlap_check qs.
Proof. exact overlap_check_perm. Qed.
Print Assumptions overlap_order_independent.

(* the per-AddInput insertion of [compile] is the insertion of the concatenated list *)
Theorem overlap_per_declaration :
  forall (dps : list (list path)) (t : trie), tinsert_decls dps t = tinsert_all (List.concat dps) t.
Proof. exact tinsert_decls_flat. Qed.
Print Assumptions overlap_per_declaration.

Example overlap_accepts : overlap_check [[10; 2]; [10; 5; 0]; [13; 23]; [14]]%N = true.
Proof. vm_compute. reflexivity. Qed.
Example overlap_rejects_both_orders :
  overlap_check [[10; 2]; [10]]%N = false /\ overlap_check [[10]; [10; 2]]%N = false
  /\ overlap_check [[10; 5; 0]; [10; 2]; [10; 5]]%N = false
  /\ overlap_check [[]; [2]]%N = false /\ overlap_check [[2]; []]%N = false.
Proof. vm_compute. repeat split; reflexivity. Qed.

(* Before the fix (F-C15a) the check depended on the declaration order, forgot recorded
   paths when a sibling was added, and never recorded a mapping to the whole input. *)
Theorem overlap_iff_v0_refuted :
  (check_add_all_v0 None [[[10; 2]%N]; [[10%N]]] = true /\ check_add_all_v0 None [[[10%N]]; [[10; 2]%N]] = false)
  /\ check_add_all_v0 None [[[10; 5; 0]%N]; [[10; 2]%N]; [[10; 5]%N]] = true
  /\ check_add_all_v0 None [[[]]; [[2%N]]] = true.
Proof.
  split; [exact overlap_v0_order_dependent | split; [exact overlap_v0_sibling_reset | exact (proj1 overlap_v0_whole_ignored)]].
Qed.
Print Assumptions overlap_iff_v0_refuted.

(* ---------------------------------------------------------------- target assignment *)

(* the struct environment of the harness (Leaf = 0, Inner = 1, Outer = 2), used by the
   non-vacuity examples *)
Definition ex_env : senv :=
  [(0, [(0, (true, TInt)); (1, (true, TStr))]);
   (1, [(2, (true, TInt)); (3, (true, TStr)); (4, (true, TAny)); (5, (true, TStruct 0));
        (6, (true, TPtr (TStruct 0))); (7, (true, TMap true TInt)); (8, (true, TMap true (TStruct 0)));
        (9, (false, TInt))]);
   (2, [(10, (true, TStruct 1)); (11, (true, TPtr (TStruct 1))); (12, (true, TPtr (TPtr (TStruct 1))));
        (13, (true, TAny)); (14, (true, TInt)); (15, (true, TStr)); (16, (true, TMap true TAny));
        (17, (true, TMap true TStr)); (18, (true, TMap true (TStruct 1)));
        (19, (true, TMap true (TPtr (TStruct 1)))); (20, (true, TMap false TStr))])]%N.

(* convertTo iterates over a Go map (random order): for a set of target paths without
   overlap EVERY iteration order gives the same outcome (same value, or the same failure),
   whatever the target type, the paths and the values are. *)
Theorem assign_order_independent :
  forall (env : senv) (T : ty) (m m' : fmap),
    Permutation m m' -> no_conflict (keys m) -> convert_to env T m = convert_to env T m'.
Proof. exact convert_to_perm. Qed.
Print Assumptions assign_order_independent.

Example assign_order_independent_nonvacuous :
  let m := [([11; 5; 0], VInt 6); ([11; 2], VInt 5); ([19; 100; 3], VStr "y"); ([13; 101; 102], VNil);
            ([18; 100; 5; 1], VStr "z")]%N in
  no_conflict (keys m) /\
  convert_to ex_env (TStruct 2) m = convert_to ex_env (TStruct 2) (rev m) /\
  is_ok (convert_to ex_env (TStruct 2) m) = true.
Proof. vm_compute. repeat split; repeat constructor. Qed.

(* ... and with overlapping targets the order does matter (which is why they are rejected) *)
Example assign_order_matters_with_overlap :
  let m := [([10; 2], VInt 5); ([10], VStruct 1 [])]%N in
  convert_to ex_env (TStruct 2) m <> convert_to ex_env (TStruct 2) (rev m).
Proof. vm_compute. discriminate. Qed.
