(* Props/C08.v — property C08: streams deliver every item exactly once, in order, to every
   reader.  Only statements, each closed by [exact]; non-vacuity examples beside them.

   A *run* is [run fuel init_state ops]: [ops] is an arbitrary list of API calls
   (Pipe / StreamReaderFromArray / Copy / MergeStreamReaders / StreamReaderWithConvert /
   Send / writer Close / Recv / reader Close) and forwarder-goroutine steps, i.e. one
   schedule of all the goroutines holding ends of the streams; the arguments [ch] of
   ORecv / OFwd are the outcomes of Go's [select]s.  "forall fuel ops" therefore quantifies
   over every tree, every item sequence, every capacity and every interleaving. *)
From Eino Require Import Base.Util Model.Stream Model.StreamIlv Proofs.Stream Proofs.StreamRel Proofs.StreamWf Proofs.StreamClose Proofs.StreamLink Proofs.StreamSem Proofs.StreamEof Proofs.StreamOnce Proofs.StreamTrace Proofs.StreamRank Proofs.StreamTotal Proofs.StreamProg Proofs.StreamOwned Proofs.StreamIlv Proofs.StreamSend.

(* ------------------------------------------------------------------ base streams *)

Theorem pipe_eof_iff_closed_and_drained : forall s,
  fst (stream_recv s) = PEOF <-> (s_sclosed s = true /\ s_buf s = []).
Proof. exact stream_recv_eof_iff. Qed.
Print Assumptions pipe_eof_iff_closed_and_drained.

(* pipe_fifo: in every reachable state, for every base stream (user pipes, the streams of
   forwarder goroutines, the stream built from array sources by a merge): what receivers
   were handed, followed by what is buffered, is exactly what was accepted from the sender,
   in order; the buffer respects the capacity; and Recv returns io.EOF exactly when the
   sender has closed and every accepted item has been delivered. *)
Theorem pipe_fifo : forall fuel ops bs G, run fuel init_state ops = (bs, G) ->
  forall sid s, nth_error (streams (st_store G)) sid = Some s ->
    s_sent s = s_deliv s ++ s_buf s
    /\ List.length (s_buf s) <= eff_cap (s_cap s)
    /\ (fst (stream_recv s) = PEOF <-> (s_sclosed s = true /\ s_deliv s = s_sent s)).
Proof. exact run_pipe_fifo. Qed.
Print Assumptions pipe_fifo.

(* ------------------------------------------------------------------ copies *)

(* copy_each_child_full (local form): in every reachable state, for every copy parent:
   the source has been received from exactly once per filled list position (plus once for
   the final EOF); every child has received a prefix of the one shared item list — the
   prefix up to its cursor — and a child that was handed io.EOF has received all of it. *)
Theorem copy_each_child_prefix : forall fuel ops bs G, run fuel init_state ops = (bs, G) ->
  forall p P, nth_error (parents (st_store G)) p = Some P ->
    p_pulls P = List.length (p_items P) + (if p_eof P then 1 else 0)
    /\ forall i oc g, nth_error (p_cur P) i = Some oc -> nth_error (p_got P) i = Some g ->
         (exists k, g = firstn k (p_items P))
         /\ (forall c, oc = Some c -> g = firstn c (p_items P) /\ c <= List.length (p_items P))
         /\ (nth_error (p_sawEOF P) i = Some true -> g = p_items P /\ p_eof P = true).
Proof. exact run_copy_children. Qed.
Print Assumptions copy_each_child_prefix.

(* ------------------------------------------------------------------ convert *)

(* convert_is_filter_map (local form): every converted reader anywhere in a reachable state
   (held by user code, wrapped by a copy parent, owned by a forwarder goroutine; at any
   nesting depth) has delivered exactly the item-wise image of what it received from its
   source, items mapped to ErrNoValue dropped, source errors passed through. *)
Theorem convert_is_filter_map : forall fuel ops bs G, run fuel init_state ops = (bs, G) ->
  forall t f cin cout, In t (readers_of G) -> In (f, cin, cout) (conv_nodes t) ->
    cout = filter_map (conv_item f) cin.
Proof. exact run_convert_filter_map. Qed.
Print Assumptions convert_is_filter_map.

(* ------------------------------------------------------------------ arrays *)

(* array_ops_sequential: Recv / Close / Copy / Merge on array-backed readers touch neither
   the store nor the forwarder table (no stream, no goroutine), take no [select] outcome and
   never block: they are functions of the reader alone. *)
Theorem array_recv_sequential : forall fuel st d rest ch,
  recv (S fuel) st (RArr d rest) ch =
    match rest with
    | [] => (PEOF, st, RArr d rest, ch)
    | x :: r => (PItem (IVal x), st, RArr (d ++ [x]) r, ch)
    end.
Proof. exact array_recv. Qed.
Print Assumptions array_recv_sequential.

Theorem array_copy_sequential : forall fuel G h n d rest,
  live_rd G h = Some (RArr d rest) -> 2 <= n ->
  exists hs', do_op fuel G (OCopy h n) =
    (BNew (seq (List.length (st_handles G)) n),
     mkState (st_store G) (st_fwds G) (hs' ++ repeat (mkH (RArr [] rest) true false [] false) n))
    /\ List.length hs' = List.length (st_handles G).
Proof. exact array_copy. Qed.
Print Assumptions array_copy_sequential.

Theorem array_merge_sequential : forall fuel G h0 h1 hs ts,
  nodupb (h0 :: h1 :: hs) = true -> live_rds G (h0 :: h1 :: hs) = Some ts -> forallb is_arr ts = true ->
  exists hs', List.length hs' = List.length (st_handles G) /\
    do_op fuel G (OMerge (h0 :: h1 :: hs)) =
      (BNew [List.length (st_handles G)],
       mkState (st_store G) (st_fwds G)
               (hs' ++ [mkH (match flat_map arr_rest ts with
                             | [] => RMul [] []
                             | _ :: _ => RArr [] (flat_map arr_rest ts)
                             end) true false [] false])).
Proof. exact array_merge. Qed.
Print Assumptions array_merge_sequential.

(* ------------------------------------------------------------------ ownership *)

(* ownership_linear: in every reachable state (every schedule, no hypothesis) every base
   stream and every copy-child slot is referenced by at most one reader — a live handle,
   the source of a copy parent, the source of a forwarder goroutine —, every reference is in
   range, copy parents refer to older parents only, forwarder destinations are distinct
   internal streams: "the reader of a stream" is well defined. *)
Theorem ownership_linear : forall fuel ops bs G, run fuel init_state ops = (bs, G) -> wf G.
Proof. exact reachable_wf. Qed.
Print Assumptions ownership_linear.

(* ------------------------------------------------------------------ whole trees *)

(* [legal_run fuel ops]: the schedule uses the API as documented — Copy / Merge / Convert
   are applied to readers nothing has been received from yet and that are not closed ("the
   original reader becomes unusable"), and no Recv is issued on a reader after its Close.
   Everything else (which trees are built, when, interleaved in any way with sends, receives,
   closes and forwarder steps; every select outcome; every fuel) is arbitrary. *)

(* merge_is_interleaving (all trees): in every legal run, for every live reader handle and
   whatever tree of copy / merge / convert it is the root of, the items Recv has returned on
   it so far are an order-preserving interleaving of prefixes of its strands: the sequences
   accepted so far by the pipes it derives from and the array contents, mapped item-wise
   through the conversions on the way (ErrNoValue dropped).  With one strand this says
   "a prefix of what was sent, in order"; for copies every child gets this for the same
   strands; [strands] and [is_interleaving_of] are the functions the correspondence check
   evaluates on the implementation's histories. *)
Theorem merge_is_interleaving : forall fuel ops bs G,
  run fuel init_state ops = (bs, G) -> legal_run fuel ops ->
  forall h H, nth_error (st_handles G) h = Some H -> h_live H = true ->
  forall N strs, strands N G (cur_w G) (h_rd H) = Some strs ->
    Shuf false (h_got H) strs /\ is_interleaving_of false (h_got H) strs = true.
Proof. exact run_tree_delivery. Qed.
Print Assumptions merge_is_interleaving.

(* pipe_reader_fifo: the reader end of a pipe has received exactly the accepted items that
   are no longer buffered, in order *)
Theorem pipe_reader_fifo : forall fuel ops bs G,
  run fuel init_state ops = (bs, G) -> legal_run fuel ops ->
  forall h H sid s, nth_error (st_handles G) h = Some H -> h_live H = true -> h_rd H = RStr sid ->
    nth_error (streams (st_store G)) sid = Some s ->
    s_sent s = h_got H ++ s_buf s.
Proof. exact run_pipe_reader_fifo. Qed.
Print Assumptions pipe_reader_fifo.

(* copy_each_child_full (link form): the shared list of a copy parent is exactly what its
   source reader has delivered, and what a child handle has received is a prefix of it — for
   every interleaving of Recv / Close on the children and of everything else *)
Theorem copy_child_prefix_of_source : forall fuel ops bs G,
  run fuel init_state ops = (bs, G) -> legal_run fuel ops ->
  forall h H p i P, nth_error (st_handles G) h = Some H -> h_live H = true -> h_rd H = RChild p i ->
    nth_error (parents (st_store G)) p = Some P ->
    Link (st_store G) (p_src P) (p_items P)
    /\ (exists k, h_got H = firstn k (p_items P)).
Proof. exact run_copy_child_link. Qed.
Print Assumptions copy_child_prefix_of_source.

(* tree_delivery_full: a reader on which Recv has returned io.EOF has received a *complete*
   interleaving of its strands — every item accepted by every pipe it derives from, every
   array element, through every conversion, exactly once and in order.  In particular every
   copy that reads to EOF receives the whole sequence, however the reads and closes of the
   other copies interleave.  (The strands are those of the final state: after EOF the pipes
   are send-closed, nothing more can be accepted.) *)
Theorem tree_delivery_full : forall fuel ops bs G,
  run fuel init_state ops = (bs, G) -> legal_run fuel ops ->
  forall h H, nth_error (st_handles G) h = Some H -> h_live H = true -> h_eof H = true ->
  forall N strs, strands N G (cur_w G) (h_rd H) = Some strs ->
    Shuf true (h_got H) strs /\ is_interleaving_of true (h_got H) strs = true.
Proof. exact run_tree_delivery_full. Qed.
Print Assumptions tree_delivery_full.

(* merge_eof_after_all_sources: a merged reader returns io.EOF only after every one of its
   source streams has ended: sender side closed, every accepted item delivered, and — for a
   stream fed by a forwarder goroutine — the forwarder stopped because its own source
   returned io.EOF (not because it was told closed). *)
Theorem merge_eof_after_all_sources : forall fuel ops bs G,
  run fuel init_state ops = (bs, G) -> legal_run fuel ops ->
  forall h H sts ch, nth_error (st_handles G) h = Some H -> h_live H = true -> h_eof H = true ->
    h_rd H = RMul sts ch ->
    ch = [] /\ forall sid, In sid sts ->
      exists s, nth_error (streams (st_store G)) sid = Some s /\ s_sclosed s = true /\ s_buf s = []
                /\ s_deliv s = s_sent s
                /\ forall F, In F (st_fwds G) -> f_dst F = sid -> f_eof F = true.
Proof. exact run_merge_eof. Qed.
Print Assumptions merge_eof_after_all_sources.

(* copy_each_child_full: a copy that read to io.EOF has received the whole shared list, and
   that list is everything the source reader delivered up to its own end of stream *)
Theorem copy_each_child_full : forall fuel ops bs G,
  run fuel init_state ops = (bs, G) -> legal_run fuel ops ->
  forall h H p i P, nth_error (st_handles G) h = Some H -> h_live H = true -> h_eof H = true ->
    h_rd H = RChild p i -> nth_error (parents (st_store G)) p = Some P ->
    h_got H = p_items P /\ p_eof P = true
    /\ Link (st_store G) (p_src P) (p_items P) /\ EofR (st_store G) (st_fwds G) (p_src P).
Proof. exact run_copy_child_full. Qed.
Print Assumptions copy_each_child_full.

(* ------------------------------------------------------------------ strands exist *)

(* derivation_well_founded: in every reachable state (no hypothesis) base streams and copy
   parents can be ranked so that the reader a forwarder goroutine reads only refers to objects
   of smaller rank than the stream it feeds, and the reader a copy parent reads only to objects
   of smaller rank than the parent: no reader is derived from itself. *)
Theorem derivation_well_founded : forall fuel ops bs G, run fuel init_state ops = (bs, G) ->
  exists rs rp : nat -> nat,
    (forall F, In F (st_fwds G) -> Forall (fun r => rkr rs rp r < rs (f_dst F)) (refs (f_src F)))
    /\ (forall q Q, nth_error (parents (st_store G)) q = Some Q ->
           Forall (fun r => rkr rs rp r < rp q) (refs (p_src Q))).
Proof. exact reachable_ranked. Qed.
Print Assumptions derivation_well_founded.

(* strands_total: hence [strands] — the fuel-bounded function the tree theorems and the
   correspondence check use — returns a value for every live reader of every reachable state,
   for all sufficiently large fuels the same value. *)
Theorem strands_total : forall fuel ops bs G, run fuel init_state ops = (bs, G) ->
  forall h H, nth_error (st_handles G) h = Some H -> h_live H = true ->
    exists N, forall w, exists strs, forall M, N <= M -> strands M G w (h_rd H) = Some strs.
Proof. exact run_strands_total. Qed.
Print Assumptions strands_total.

(* tree_delivery (fuel-free form of merge_is_interleaving + tree_delivery_full): every live
   reader of a legal run has strands; what it has received is an order-preserving interleaving
   of prefixes of them, and a complete interleaving once Recv has returned io.EOF. *)
Theorem tree_delivery : forall fuel ops bs G,
  run fuel init_state ops = (bs, G) -> legal_run fuel ops ->
  forall h H, nth_error (st_handles G) h = Some H -> h_live H = true ->
  exists strs,
    (exists N, forall M, N <= M -> strands M G (cur_w G) (h_rd H) = Some strs)
    /\ Shuf false (h_got H) strs /\ is_interleaving_of false (h_got H) strs = true
    /\ (h_eof H = true -> Shuf true (h_got H) strs /\ is_interleaving_of true (h_got H) strs = true).
Proof. exact run_tree_delivery_total. Qed.
Print Assumptions tree_delivery.

(* ------------------------------------------------------------------ logs = observable trace *)

(* recv_log_is_trace / sent_log_is_trace: the logs the theorems above and below speak about are
   projections of the observable trace [(ops, bs)] of the run, for every schedule (no
   hypothesis): [h_got] of a reader handle is exactly the sequence of items its Recv calls
   returned, [h_eof] says whether one of them returned io.EOF, and [s_sent] of a pipe (= [cur_w],
   the strands of the tree theorems) is exactly the sequence of items whose Send returned
   closed = false.  The tree theorems therefore relate what Send accepted to what Recv returned. *)
Theorem recv_log_is_trace : forall fuel ops bs G, run fuel init_state ops = (bs, G) ->
  forall h H, nth_error (st_handles G) h = Some H ->
    h_got H = recv_trace h ops bs /\ h_eof H = eof_trace h ops bs.
Proof. exact run_recv_log_is_trace. Qed.
Print Assumptions recv_log_is_trace.

Theorem sent_log_is_trace : forall fuel ops bs G, run fuel init_state ops = (bs, G) ->
  forall sid s, nth_error (streams (st_store G)) sid = Some s -> s_user s = true ->
    s_sent s = sent_trace sid ops bs.
Proof. exact run_sent_log_is_trace. Qed.
Print Assumptions sent_log_is_trace.

(* delivery_on_the_trace: the tree theorems stated on the observable trace alone.  In every
   legal run, for every live reader handle: the items its Recv calls returned are an
   order-preserving interleaving of prefixes of the strands computed from the items the Send
   calls accepted (through the conversions, ErrNoValue dropped), a complete interleaving — every
   accepted item exactly once — if one of its Recv calls returned io.EOF.  This is the predicate
   the correspondence check evaluates on the histories of the implementation. *)
Theorem delivery_on_the_trace : forall fuel ops bs G,
  run fuel init_state ops = (bs, G) -> legal_run fuel ops ->
  forall h H, nth_error (st_handles G) h = Some H -> h_live H = true ->
  exists strs,
    (exists N, forall M, N <= M -> strands M G (fun sid => sent_trace sid ops bs) (h_rd H) = Some strs)
    /\ is_interleaving_of false (recv_trace h ops bs) strs = true
    /\ (eof_trace h ops bs = true -> is_interleaving_of true (recv_trace h ops bs) strs = true).
Proof. exact run_tree_delivery_trace. Qed.
Print Assumptions delivery_on_the_trace.

(* interleaving_check_is_the_spec: the function the correspondence check evaluates on the
   implementation's histories ([ilv_fast]: a breadth-first sweep over the reachable position
   vectors, polynomial where the backtracking [is_interleaving_of] is exponential on strands
   that share items) decides exactly [Shuf], the predicate the tree theorems establish for the
   model's logs; in particular what it accepts the backtracking checker accepts too. *)
Theorem interleaving_check_is_the_spec : forall full obs strs,
  ilv_fast full obs strs = true <-> Shuf full obs strs.
Proof. exact ilv_fast_spec. Qed.
Print Assumptions interleaving_check_is_the_spec.

(* ------------------------------------------------------------------ close propagation *)

(* [legal_run2 fuel ops]: a legal run in which, moreover, user code closes every reader at
   most once ("Close should be called only once") and the model's fuel suffices for every
   Close (no Close returns the out-of-fuel error). *)

(* close_propagates_once: in every such run
   - closeRecv happens at most once per base stream, and no Close ever hits an already closed
     channel (the panic of Go's close(closed chan) is unreachable);
   - closedNum counts the closed children, and a copy parent closes its source exactly when
     the last child is closed, exactly once;
   - nothing is closed unless its owner is: a live handle closed by the user, a copy parent all
     of whose children are closed, a forwarder that has finished (the writer is never told
     "closed" early);
   - conversely a closed owner has closed everything it owns, hence when every reader derived
     from a stream is closed ([AllClosed]: recursively through copy parents; a forwarder
     goroutine holding a converted / copied reader counts as a reader until it has finished),
     the stream is receive-closed and the writer's next Send returns closed = true. *)
Theorem close_propagates_once : forall fuel ops bs G,
  run fuel init_state ops = (bs, G) -> legal_run2 fuel ops ->
  (forall sid s, nth_error (streams (st_store G)) sid = Some s -> s_rclosed s <= 1)
  /\ no_close_panic bs
  /\ (forall q Q, nth_error (parents (st_store G)) q = Some Q ->
        p_closed Q = count_none (p_cur Q)
        /\ p_srcclosed Q = if Nat.eqb (p_closed Q) (List.length (p_cur Q)) then 1 else 0)
  /\ (forall ro r, In r (root_refs G ro) -> rclosed (st_store G) r -> root_closed G ro)
  /\ (forall ro r, root_closed G ro -> In r (root_refs G ro) -> rclosed (st_store G) r)
  /\ (forall r, AllClosed G r -> rclosed (st_store G) r)
  /\ (forall sid s x, nth_error (streams (st_store G)) sid = Some s -> AllClosed G (RS sid) ->
        stream_send s x = (SClosed, s)).
Proof. exact run_close_propagates. Qed.
Print Assumptions close_propagates_once.

(* the safety half needs no hypothesis on closes: in every legal run nothing is closed unless
   its owner is *)
Theorem not_closed_before_owner : forall fuel ops bs G,
  run fuel init_state ops = (bs, G) -> legal_run fuel ops ->
  forall ro r, In r (root_refs G ro) -> rclosed (st_store G) r -> root_closed G ro.
Proof.
  intros fuel ops bs G Hrun Hleg. destruct (run_legal_Inv _ _ _ _ Hrun Hleg) as (_ & _ & _ & HK & _). exact HK.
Qed.
Print Assumptions not_closed_before_owner.

(* forwarder_terminates_on_close: a forwarder goroutine that holds an item while the merged
   stream it feeds has been closed is told on its next send, closes the send side and then
   closes its own source *)
Theorem forwarder_terminates_on_close : forall fuel G k F d x ch,
  nth_error (st_fwds G) k = Some F -> f_st F = FSend x ->
  nth_error (streams (st_store G)) (f_dst F) = Some d -> 0 < s_rclosed d ->
  exists G1, do_op fuel G (OFwd k ch) = (BStep, G1)
    /\ exists F1, nth_error (st_fwds G1) k = Some F1 /\ f_st F1 = FClosing /\ f_src F1 = f_src F
    /\ forall ch2, exists G2 F2, do_op fuel G1 (OFwd k ch2) = (BStep, G2)
         /\ nth_error (st_fwds G2) k = Some F2 /\ f_st F2 = FDone.
Proof. exact forwarder_stops_when_told. Qed.
Print Assumptions forwarder_terminates_on_close.

(* every_reference_owned: in every reachable state every base stream and every child slot of
   every copy parent is referenced by a reader of the state (with ownership_linear: by exactly
   one) — nothing is orphaned by Copy / Merge / Convert. *)
Theorem every_reference_owned : forall fuel ops bs G, run fuel init_state ops = (bs, G) ->
  (forall sid, sid < List.length (streams (st_store G)) -> In (RS sid) (all_refs G))
  /\ (forall q Q i, nth_error (parents (st_store G)) q = Some Q -> i < List.length (p_cur Q) ->
         In (RC q i) (all_refs G)).
Proof. exact reachable_covers. Qed.
Print Assumptions every_reference_owned.

(* source_closed_exactly_once: when user code has closed every reader it still holds and every
   forwarder goroutine has finished, every base stream — the pipes, the streams fed by
   forwarders, the stream a merge builds from arrays — has been receive-closed exactly once and
   every copy parent has closed its source exactly once (what the concurrent tier observes at
   the end of every case through the accounting hook). *)
Theorem source_closed_exactly_once : forall fuel ops bs G,
  run fuel init_state ops = (bs, G) -> legal_run2 fuel ops -> all_done G ->
  (forall sid s, nth_error (streams (st_store G)) sid = Some s -> s_rclosed s = 1)
  /\ (forall q Q, nth_error (parents (st_store G)) q = Some Q ->
         p_closed Q = List.length (p_cur Q) /\ p_srcclosed Q = 1).
Proof. exact run_all_done_closed_once. Qed.
Print Assumptions source_closed_exactly_once.

(* ------------------------------------------------------------------ no deadlock among the library's goroutines *)

(* recv_block_drained: a Recv that would block (the model's PBlock: the Go call parks) leaves the
   reader *drained*: every base stream it is currently selecting on is empty with its send side
   open, recursively through conversions (after skipping what could be skipped) and through the
   shared list of a copy parent (cursor at the end, pull from the source blocked). *)
Theorem recv_block_drained : forall fuel ops bs G, run fuel init_state ops = (bs, G) ->
  forall h ch G', do_op fuel G (ORecv h ch) = (BRecv PBlock, G') ->
  exists H', nth_error (st_handles G') h = Some H' /\ h_live H' = true /\ Drained (st_store G') (h_rd H').
Proof. exact run_recv_block_drained. Qed.
Print Assumptions recv_block_drained.

(* no_internal_deadlock: in every reachable state (every schedule, no hypothesis on the use of
   the API) in which every forwarder goroutine is blocked — in its Recv without progress, or in
   its Send — or has finished, a live reader on which Recv blocks derives, through forwarders
   and copy parents, from a pipe of the user that is empty and whose writer has not closed; and
   a Send on that pipe cannot block (it is accepted or answered "closed").  Contrapositive: when
   a Recv blocks and no such pipe exists, some forwarder goroutine can take a step — the
   goroutines of the library never wait for each other in a cycle, a blocked reader always
   waits for a writer that is free to act.  (Mutexes / sync.Once inside one call are below the
   granularity of the model: watchdog + race detector on every run.) *)
Theorem no_internal_deadlock : forall fuel ops bs G, run fuel init_state ops = (bs, G) ->
  (forall F, In F (st_fwds G) -> fwd_blocked fuel G F) ->
  forall h H, nth_error (st_handles G) h = Some H -> h_live H = true ->
    Drained (st_store G) (h_rd H) ->
    exists u s, Derives G (h_rd H) u /\ nth_error (streams (st_store G)) u = Some s /\ s_user s = true
                /\ s_buf s = [] /\ s_sclosed s = false /\ forall x, fst (stream_send s x) <> SBlock.
Proof. exact run_drained_waits. Qed.
Print Assumptions no_internal_deadlock.

(* send_block_released_by_recv: a Send blocks only on a full buffer with both sides open, and the
   next receive from that stream makes room for it (buffer bound: pipe_fifo) *)
Theorem send_block_released_by_recv : forall s x, List.length (s_buf s) <= eff_cap (s_cap s) ->
  fst (stream_send s x) = SBlock ->
  exists y s1, stream_recv s = (PItem y, s1) /\ fst (stream_send s1 x) = SOk.
Proof. exact send_block_reader_ready. Qed.
Print Assumptions send_block_released_by_recv.


(* blocked_send_waits_for_reader: the writer side.  In a reachable state of a legal run (readers
   used as the API documents, each closed at most once) in which every forwarder goroutine is
   blocked or has finished, a Send of user code that blocks — buffer full, receive side open — is
   waited for by a reader that user code itself holds (live), has not closed, that derives from
   that pipe through the forwarders and copy parents on the way, and that is *hot*: a stream it
   selects on holds an item, or its place in the shared list of a copy parent is filled, or — at
   the end of that list — the parent's source is hot.  The proof climbs from the full pipe to its
   owner (every_reference_owned), by increasing rank (derivation_well_founded): a handle — done; a
   copy parent — not all children are closed (else the pipe would be receive-closed: close
   propagation), and an open child is hot; a forwarder — not parked in Recv (its source is hot),
   not finished (it would have closed the pipe), so parked in Send on its own full stream: climb
   on from there.  Contrapositive: when a Send blocks and user code holds no such reader, some
   forwarder goroutine can take a step.  With no_internal_deadlock: no cycle of waiting among the
   library's goroutines, in either direction. *)
Theorem blocked_send_waits_for_reader : forall fuel ops bs G,
  run fuel init_state ops = (bs, G) -> legal_run2 fuel ops ->
  (forall F, In F (st_fwds G) -> fwd_blocked fuel G F) ->
  forall u s x, nth_error (streams (st_store G)) u = Some s -> s_user s = true ->
    fst (stream_send s x) = SBlock ->
    exists h H, nth_error (st_handles G) h = Some H /\ h_live H = true /\ h_closed H = false
                /\ Hot (st_store G) (h_rd H) /\ Derives G (h_rd H) u.
Proof. exact run_blocked_send_waits. Qed.
Print Assumptions blocked_send_waits_for_reader.

(* hot_reader_not_drained / hot_recv_consumes: what "hot" gives the holder of the reader: a hot
   reader is not in the state in which Recv parks (recv_block_drained), and a Recv on it that
   parks all the same (a converted reader that skipped every item it found) has consumed what made
   it hot: the blocked writer has been released (send_block_released_by_recv) *)
Theorem hot_reader_not_drained : forall st t, Hot st t -> ~ Drained st t.
Proof. intros st t H D. exact (Hot_not_Drained st t H D). Qed.
Print Assumptions hot_reader_not_drained.

Theorem hot_recv_consumes : forall fuel ops bs G, run fuel init_state ops = (bs, G) ->
  forall h ch G', do_op fuel G (ORecv h ch) = (BRecv PBlock, G') ->
  exists H', nth_error (st_handles G') h = Some H' /\ h_live H' = true /\ ~ Hot (st_store G') (h_rd H').
Proof. exact run_hot_recv_consumes. Qed.
Print Assumptions hot_recv_consumes.

(* ------------------------------------------------------------------ non-vacuity *)

(* a run with a pipe, a conversion, a copy, a merge through forwarders, sends and receives:
   the hypotheses of the theorems above are satisfiable by a state with non-empty logs *)
Definition ex_ops : list op :=
  [ OPipe 2; OSend 0 (IVal 1%N); OSend 0 (IVal 2%N); OCloseSend 0;
    OConv 0 (fun v => if N.eqb v 1 then CSkip else CVal (v + 10)%N);
    OCopy 1 2; ORecv 2 []; ORecv 2 [];
    OArray [7%N; 8%N]; OMerge [3; 4]; OFwd 0 []; OFwd 0 []; ORecv 5 [0]; ORecv 5 [0]; ORecv 5 [0];
    OFwd 0 []; OFwd 0 []; ORecv 5 [0]; OClose 5; OClose 2 ].

Example ex_run_obs :
  fst (run 50 init_state ex_ops) =
  [ BNew [0]; BSend SOk; BSend SOk; BSend SOk; BNew [1]; BNew [2; 3];
    BRecv (PItem (IVal 12%N)); BRecv PEOF; BNew [4]; BNew [5]; BStep; BStep;
    BRecv (PItem (IVal 12%N)); BRecv (PItem (IVal 7%N)); BRecv (PItem (IVal 8%N));
    BStep; BStep; BRecv PEOF; BClose ClOk; BClose ClOk ].
Proof. vm_compute. reflexivity. Qed.

(* the example run is legal; the merged reader (handle 5: a forwarder over a copy of a
   converted pipe, merged with an array) read to EOF what its strands hold *)
Example ex_legal : legal_run 50 ex_ops.
Proof. apply run_legalb_sound. vm_compute. reflexivity. Qed.

Example ex_strands :
  let G := snd (run 50 init_state ex_ops) in
  option_map (fun H => (h_got H, h_live H, h_eof H, strands 20 G (cur_w G) (h_rd H))) (nth_error (st_handles G) 5)
  = Some ([IVal 12%N; IVal 7%N; IVal 8%N], true, true, Some [[IVal 12%N]; [IVal 7%N; IVal 8%N]]).
Proof. vm_compute. reflexivity. Qed.

(* the logs of the example are the projections of its trace *)
Example ex_trace :
  let '(bs, G) := run 50 init_state ex_ops in
  (recv_trace 5 ex_ops bs, eof_trace 5 ex_ops bs, sent_trace 0 ex_ops bs, recv_trace 2 ex_ops bs)
  = ([IVal 12%N; IVal 7%N; IVal 8%N], true, [IVal 1%N; IVal 2%N], [IVal 12%N]).
Proof. vm_compute. reflexivity. Qed.

(* after both derived readers are closed: every stream receive-closed once, the copy parent
   closed its source once, the forwarder has finished *)
Example ex_closed :
  let G := snd (run 50 init_state ex_ops) in
  (map s_rclosed (streams (st_store G)), map p_srcclosed (parents (st_store G)), map f_st (st_fwds G))
  = ([1; 1; 1], [1], [FDone]).
Proof. vm_compute. reflexivity. Qed.

Example ex_ilv_fast :
  (ilv_fast true [IVal 1%N; IErr 9%N; IErr 9%N; IVal 2%N; IVal 1%N] [[IErr 9%N; IVal 1%N]; [IVal 1%N; IErr 9%N; IVal 2%N]],
   ilv_fast true [IVal 1%N; IErr 9%N] [[IErr 9%N; IVal 1%N]],
   ilv_fast false [IVal 1%N] [[IVal 1%N; IVal 2%N]; []])
  = (true, false, true).
Proof. vm_compute. reflexivity. Qed.

Example ex_array_merge :
  fst (run 10 init_state [OArray [1%N; 2%N]; OArray [3%N]; ORecv 0 []; OMerge [1; 0]; ORecv 2 []; ORecv 2 []; ORecv 2 []])
  = [BNew [0]; BNew [1]; BRecv (PItem (IVal 1%N)); BNew [2];
     BRecv (PItem (IVal 3%N)); BRecv (PItem (IVal 2%N)); BRecv PEOF].
Proof. vm_compute. reflexivity. Qed.


(* the example run also satisfies the close hypotheses, and at its end every reader derived
   from the pipe (stream 0) is closed: copy 2 by the user, copy 3 by the finished forwarder *)
Example ex_legal2 : legal_run2 50 ex_ops.
Proof. apply run_legal2b_sound. vm_compute. reflexivity. Qed.

Example ex_all_done : all_done (snd (run 50 init_state ex_ops)).
Proof. apply all_doneb_sound. vm_compute. reflexivity. Qed.

Example ex_all_closed : AllClosed (snd (run 50 init_state ex_ops)) (RS 0).
Proof. apply (all_closedb_sound 5). vm_compute. reflexivity. Qed.

(* ... hence, by close_propagates_once, the writer's next Send is refused; the model agrees *)
Example ex_send_told :
  fst (do_op 50 (snd (run 50 init_state ex_ops)) (OSend 0 (IVal 9%N))) = BSend SClosed.
Proof. vm_compute. reflexivity. Qed.

(* a blocked reader: Merge(Convert(pipe), array) after the array part has been read.  The
   forwarder goroutine is blocked in its Recv on the empty pipe, the merged reader is drained:
   the hypotheses of no_internal_deadlock hold in a state with a blocked Recv *)
Definition ex2_ops : list op :=
  [ OPipe 1; OConv 0 (fun v => if N.eqb v 1 then CSkip else CVal (v + 10)%N); OArray [7%N]; OMerge [1; 2];
    OFwd 0 []; ORecv 3 []; ORecv 3 [] ].

Example ex2_obs : fst (run 50 init_state ex2_ops) =
  [BNew [0]; BNew [1]; BNew [2]; BNew [3]; BStep; BRecv (PItem (IVal 7%N)); BRecv PBlock].
Proof. vm_compute. reflexivity. Qed.

Example ex2_blocked : exists bs G, run 50 init_state ex2_ops = (bs, G)
  /\ (forall F, In F (st_fwds G) -> fwd_blocked 50 G F)
  /\ exists H, nth_error (st_handles G) 3 = Some H /\ h_live H = true /\ Drained (st_store G) (h_rd H).
Proof.
  eexists. eexists. split; [vm_compute; reflexivity|]. split.
  - intros F [<-|[]]. unfold fwd_blocked. simpl. exists [], []. vm_compute. reflexivity.
  - eexists. split; [reflexivity|]. split; [reflexivity|]. simpl. apply D_mul; [discriminate|].
    intros i sid [<-|[]] Hn; simpl in Hn; inversion Hn; subst; reflexivity.
Qed.

(* a blocked writer: Merge(Convert(pipe of capacity 1), array); the writer sends, the forwarder
   goroutine moves six items (five fill its stream, it holds the sixth and is parked in Send), the
   seventh fills the pipe: the hypotheses of blocked_send_waits_for_reader hold in a state in
   which the next Send blocks — and the merged reader (handle 3), which nobody has read, is hot *)
Definition ex3_round (v : N) : list op := [ OSend 0 (IVal v); OFwd 0 []; OFwd 0 [] ].
Definition ex3_ops : list op :=
  [ OPipe 1; OConv 0 (fun v => CVal (v + 10)%N); OArray [7%N]; OMerge [1; 2] ]
  ++ flat_map ex3_round [1; 2; 3; 4; 5; 6]%N ++ [ OSend 0 (IVal 7%N) ].

Example ex3_legal2 : legal_run2 50 ex3_ops.
Proof. apply run_legal2b_sound. vm_compute. reflexivity. Qed.

Example ex3_blocked_send : exists bs G, run 50 init_state ex3_ops = (bs, G)
  /\ (forall F, In F (st_fwds G) -> fwd_blocked 50 G F)
  /\ exists s, nth_error (streams (st_store G)) 0 = Some s /\ s_user s = true
               /\ fst (stream_send s (IVal 8%N)) = SBlock.
Proof.
  eexists. eexists. split; [vm_compute; reflexivity|]. split.
  - intros F [<-|[]]. unfold fwd_blocked. simpl. eexists. split; [reflexivity|]. vm_compute. reflexivity.
  - eexists. split; [reflexivity|]. split; vm_compute; reflexivity.
Qed.
