(* Props/C08.v — property C08: streams deliver every item exactly once, in order, to every
   reader.  Only statements, each closed by [exact]. *)
From Eino Require Import Base.Util Model.Stream Proofs.Stream.

Theorem pipe_eof_iff_closed_and_drained : forall s,
  fst (stream_recv s) = PEOF <-> (s_sclosed s = true /\ s_buf s = []).
Proof. exact stream_recv_eof_iff. Qed.
Print Assumptions pipe_eof_iff_closed_and_drained.
