(* Props/C16.v — property C16 (placeholder while the proofs are being written) *)
From Eino Require Import Base.Util Model.Options.
Local Open Scope N_scope.

Example run_example :
  run [[mkNode 1 (KComp 6) true true; mkNode 2 (KSub 1%nat) true true]; [mkNode 1 (KComp 6) true true; mkNode 3 (KComp 7) true true]]
      (mkCall [BItems [(6, 100)]; BDesignate 0%nat [[2; 1]]; BItems [(7, 101)]] [1%nat; 2%nat])
  = Ok [mkRep [] None (Some []); mkRep [1] (Some []) (Some []); mkRep [2] None (Some []);
        mkRep [2; 1] (Some [(6, 100)]) (Some []); mkRep [2; 3] (Some [(7, 101)]) (Some [])].
Proof. vm_compute. reflexivity. Qed.
