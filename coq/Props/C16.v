(* Props/C16.v — property C16: call options reach exactly the nodes they address.
   Statements only; every proof is [exact <lemma of Proofs/Options.v>].

   Vocabulary (Model/Options.v, Model/OptionsSpec.v):
     run_call F opts     the run of the compiled top-level graph of forest F with the call
                         options opts: Err _ if the call fails, else one report per executing
                         node (r_path, the option values it received, the handlers in its
                         callback manager)
     resolve / executes  the node a path designates in the tree unfolding of F / every node
                         along the path is selected in this call
     spec_delivered      closed form of "who is addressed": undesignated options of the node's
                         option type, options designated to the node itself, options designated
                         to a graph that contains the node (then by type), in call order
     bad_path            empty path, unknown node, path below a non-graph node, wrong type
     keys_unique         node keys are the keys of a Go map
     well_nested         sub graph references point forward in the forest (finite nesting)
     uniform             all values of one Option have one Go type (guaranteed by the typed
                         constructors; WithLambdaOption(...any) can violate it); a hypothesis of
                         bad_designation_errors only — call_fails_iff does without it
     fired_mult / spec_fired_count   closed form of how often an option's handlers / a handler
                         sit in the callback manager of the node at a path
     handler_addressed   the option is undesignated, or one of its designated paths is the node
                         itself or a graph node above it
     resume_call F opts c  (Model/OptionsResume.v) one call of a session on a checkpoint id: c is
                         what the checkpoint store holds (None: the run starts from START; Some:
                         the tasks waiting in the checkpoint are rebuilt by restoreTasks, nested
                         checkpoints are forwarded to the sub graphs interrupted inside, every
                         later task is built by createTasks); F's n_runs are the nodes that
                         execute in this call
     would_call F opts   (Model/OptionsAll.v) run_call on the forest in which every node executes:
                         what each node of the forest is handed by this call IF it executes;
                         F's n_runs are ignored. would_resume: the same for a re-entered run
     deliveries / firings / within   the projections of a list of reports that the
                         correspondence check compares (per component the payloads received in
                         order, per node the sorted handler list) and the pointwise comparison
                         of an observation with the model's answer for all nodes *)
From Coq Require Import Permutation.
From Eino Require Import Base.Util Model.Options Model.OptionsSpec Model.OptionsResume Model.OptionsAll
  Proofs.Options Proofs.OptionsResume Proofs.OptionsFired Proofs.OptionsPerm Proofs.OptionsClauses
  Proofs.OptionsAll Proofs.OptionsFails Proofs.OptionsMult Proofs.OptionsIface.
From Eino Require Import Model.OptionsHosted Proofs.OptionsHosted.
From Eino Require Base.GoSlice Proofs.CallbacksSlice Model.OptionsSlice Proofs.OptionsSlice Proofs.OptionsSliceScript.
Local Open Scope N_scope.

(* ---- delivered_iff_addressed ------------------------------------------------------- *)
(* Every report of a component node carries exactly the addressed option values, in call
   order (and they all have the node's option type) ... *)
Theorem delivered_iff_addressed :
  forall F opts rs r its,
    keys_unique F -> run_call F opts = Ok rs -> In r rs -> r_items r = Some its ->
    exists nd ty, executes F 0 (r_path r) = true /\ resolve F 0 (r_path r) = Some nd /\
                  n_kind nd = KComp ty /\ its = spec_delivered opts (r_path r) ty /\
                  Forall (fun it => fst it = ty) its.
Proof. exact run_call_delivered_sound. Qed.
Print Assumptions delivered_iff_addressed.

(* ... and every executing component node, at any nesting depth, has such a report. *)
Theorem delivered_iff_addressed_complete :
  forall F opts rs p nd ty,
    keys_unique F -> run_call F opts = Ok rs ->
    resolve F 0 p = Some nd -> n_kind nd = KComp ty -> executes F 0 p = true ->
    exists r, In r rs /\ r_path r = p /\ r_items r = Some (spec_delivered opts p ty).
Proof. exact run_call_delivered_complete. Qed.
Print Assumptions delivered_iff_addressed_complete.

(* the closed form, read as a membership statement *)
Theorem delivered_membership :
  forall opts p ty it,
    In it (spec_delivered opts p ty) <->
    exists o, In o opts /\ In it (o_items o) /\ addresses o p ty.
Proof. exact spec_delivered_in. Qed.
Print Assumptions delivered_membership.

(* the clauses of the property text, read off the closed form ([addressed_items o p ty] is the
   contribution of option o to what the component at p, of option type ty, receives):
   an undesignated option reaches a component iff it has the component's option type ... *)
Theorem undesignated_reaches_by_type :
  forall o p ty,
    o_paths o = [] ->
    addressed_items o p ty = if ty_matches o ty then o_items o else [].
Proof. exact undesignated_by_type. Qed.
Print Assumptions undesignated_reaches_by_type.

(* ... an option designated to a component reaches that component and no other node of the
   forest, whatever its type ... *)
Theorem designated_reaches_only_there :
  forall F o p nd ty p' nd' ty',
    o_paths o = [p] ->
    resolve F 0 p = Some nd -> n_kind nd = KComp ty ->
    resolve F 0 p' = Some nd' -> p' <> p ->
    addressed_items o p' ty' = [] /\ addressed_items o p ty = o_items o.
Proof. exact designated_only_there. Qed.
Print Assumptions designated_reaches_only_there.

(* ... and an option designated to a graph node reaches, below that node, the components of its
   type, and nothing outside of it. *)
Theorem designated_to_graph_reaches_inside :
  forall o p p' ty',
    o_paths o = [p] -> p <> [] ->
    addressed_items o p' ty' =
    if path_eqb p p' then o_items o
    else if prefixb p p' && ty_matches o ty' then o_items o else [].
Proof. exact designated_to_graph. Qed.
Print Assumptions designated_to_graph_reaches_inside.

(* ... "and no node of another type", for the node types no option value can have: a lambda
   DECLARED with an interface option type (opts ...any, opts ...fmt.Stringer) has an option type
   that is the Go type of no value (reflect.TypeOf never yields an interface type; the code matches
   by identity of the types, not by assignability). Whatever the call passes — however many of the
   values would be assignable to the interface — such a node receives nothing, unless an option
   with values is designated to that very node ... *)
Theorem valueless_type_receives_nothing :
  forall opts p ty,
    (forall o, In o opts -> forall it, In it (o_items o) -> fst it <> ty) ->
    (forall o, In o opts -> In p (o_paths o) -> o_items o = []) ->
    spec_delivered opts p ty = [].
Proof. exact valueless_type_receives_nothing_l. Qed.
Print Assumptions valueless_type_receives_nothing.

(* ... which is a designation of the wrong type, at any depth of the nesting (an error of the call
   by bad_designation_errors / call_fails_iff below). *)
Theorem valueless_type_designation_is_bad :
  forall F o p nd ty,
    (forall it, In it (o_items o) -> fst it <> ty) -> o_items o <> [] ->
    resolve F 0 p = Some nd -> n_kind nd = KComp ty ->
    bad_path F o 0 p = true.
Proof. exact valueless_type_designation_is_bad_l. Qed.
Print Assumptions valueless_type_designation_is_bad.

(* ---- bad_designation_errors -------------------------------------------------------- *)
(* The call fails iff some designated path of some option is bad; nothing else makes it fail
   (for options whose values have one type; a mixed WithLambdaOption(a, b) additionally fails
   in convertOption of the node it reaches, and by delivered_iff_addressed a call that does
   not fail never hands a node a value of another type). *)
Theorem bad_designation_errors :
  forall F opts,
    keys_unique F -> well_nested F -> F <> [] -> Forall uniform opts ->
    (fails (run_call F opts) <->
     exists o q, In o opts /\ In q (o_paths o) /\ bad_path F o 0 q = true).
Proof. exact run_call_fails_iff. Qed.
Print Assumptions bad_designation_errors.

(* The same without any hypothesis on the options: the call fails iff some designated path is
   bad, or some EXECUTING component is handed a value of another Go type than its own
   ([mistyped]: convertOption in front of the component rejects it; only an Option built by
   WithLambdaOption(a, b) with values of two types can get there, its first value decides where
   it is routed). Also for a call that re-enters a run from any checkpoint. *)
Theorem call_fails_iff :
  forall F opts,
    keys_unique F -> well_nested F -> F <> [] ->
    (fails (run_call F opts) <->
     (exists o q, In o opts /\ In q (o_paths o) /\ bad_path F o 0 q = true) \/
     (exists p nd ty it, resolve F 0 p = Some nd /\ n_kind nd = KComp ty /\ executes F 0 p = true /\
                         In it (spec_delivered opts p ty) /\ fst it <> ty)).
Proof. exact run_call_fails_iff_general. Qed.
Print Assumptions call_fails_iff.

Theorem resumed_call_fails_iff :
  forall F opts c,
    keys_unique F -> well_nested F -> F <> [] ->
    (fails (resume_call F opts c) <->
     (exists o q, In o opts /\ In q (o_paths o) /\ bad_path F o 0 q = true) \/
     (exists p nd ty it, resolve F 0 p = Some nd /\ n_kind nd = KComp ty /\ executes F 0 p = true /\
                         In it (spec_delivered opts p ty) /\ fst it <> ty)).
Proof. exact resume_call_fails_iff_general. Qed.
Print Assumptions resumed_call_fails_iff.

(* ---- callbacks_only_where_designated ------------------------------------------------ *)
(* The handlers in the callback manager of any executing node (the top-level graph, a graph
   node, a component at any depth) are exactly the handlers of the options that address it:
   undesignated ones, and ones designated to the node or to a graph node above it. A callback
   designated to a node therefore applies there (and, for a graph node, inside it) and nowhere
   else. *)
Theorem callbacks_only_where_designated :
  forall F opts rs r hs,
    keys_unique F -> run_call F opts = Ok rs -> In r rs -> r_fired r = Some hs ->
    forall h, In h hs <->
              exists o, In o opts /\ In h (o_handlers o) /\ handler_addressed o (r_path r).
Proof. exact run_call_fired. Qed.
Print Assumptions callbacks_only_where_designated.

(* The handler list itself (order and multiplicity, which the correspondence check compares) is
   a function of the call's options and the node path alone — spec_fired (Proofs/OptionsFired.v)
   walks down the path: at every level the handlers inherited so far, then those of the options
   designated to that key at that level, in call order — whatever else the forest contains,
   whichever nodes execute. *)
Theorem callbacks_exact :
  forall F opts rs r hs,
    keys_unique F -> run_call F opts = Ok rs -> In r rs -> r_fired r = Some hs ->
    hs = spec_fired (graph_handlers opts) opts (r_path r).
Proof. exact run_call_fired_exact. Qed.
Print Assumptions callbacks_exact.

(* ... and as a multiset it has a closed form over the call's options (Model/OptionsSpec.v
   fired_mult): handler h is in the manager of the node at path p
     once per undesignated option that carries it,
     once per option that carries it and designates the first node of p at the top level (one
       Option is taken once per node there, however many of its paths name the node),
     once per designated path of length >= 2 that is p or a prefix of p (every such path travels
       down as an Option of its own)
   — never because of a path that leads elsewhere. *)
Theorem callbacks_multiplicity :
  forall F opts rs r hs h,
    keys_unique F -> run_call F opts = Ok rs -> In r rs -> r_fired r = Some hs ->
    cnt h hs = spec_fired_count opts (r_path r) h.
Proof. exact run_call_fired_count. Qed.
Print Assumptions callbacks_multiplicity.

(* ---- resume_delivers_same / no_leak_between_calls ----------------------------------- *)
(* A call that re-enters the run from a checkpoint — whatever the checkpoint holds, at every
   nesting depth — reports exactly what a call that starts fresh reports on the same set of
   executing nodes with the same options: the checkpoint (all that survives of earlier calls)
   has no influence on what is delivered. Hence every theorem above holds for resumed calls. *)
Theorem resume_delivers_same :
  forall F opts c, resume_call F opts c = run_call F opts.
Proof. exact resume_call_eq. Qed.
Print Assumptions resume_delivers_same.

Theorem resume_delivered_iff_addressed :
  forall F opts c rs r its,
    keys_unique F -> resume_call F opts c = Ok rs -> In r rs -> r_items r = Some its ->
    exists nd ty, executes F 0 (r_path r) = true /\ resolve F 0 (r_path r) = Some nd /\
                  n_kind nd = KComp ty /\ its = spec_delivered opts (r_path r) ty /\
                  Forall (fun it => fst it = ty) its.
Proof. exact resume_call_delivered. Qed.
Print Assumptions resume_delivered_iff_addressed.

Theorem resume_delivered_iff_addressed_complete :
  forall F opts c rs p nd ty,
    keys_unique F -> resume_call F opts c = Ok rs ->
    resolve F 0 p = Some nd -> n_kind nd = KComp ty -> executes F 0 p = true ->
    exists r, In r rs /\ r_path r = p /\ r_items r = Some (spec_delivered opts p ty).
Proof. exact resume_call_delivered_complete. Qed.
Print Assumptions resume_delivered_iff_addressed_complete.

(* Nothing reaches a node that this call's options do not contain: every option value a node
   receives and every handler in its callback manager belongs to an option passed to THIS
   call — also when the call resumes a run that earlier calls (with other options) started. *)
Theorem no_leak_between_calls :
  forall F opts c rs r,
    keys_unique F -> resume_call F opts c = Ok rs -> In r rs ->
    (forall its it, r_items r = Some its -> In it its -> exists o, In o opts /\ In it (o_items o)) /\
    (forall hs h, r_fired r = Some hs -> In h hs -> exists o, In o opts /\ In h (o_handlers o)).
Proof. exact resume_call_no_leak. Qed.
Print Assumptions no_leak_between_calls.

Theorem resume_bad_designation_errors :
  forall F opts c,
    keys_unique F -> well_nested F -> F <> [] -> Forall uniform opts ->
    (fails (resume_call F opts c) <->
     exists o q, In o opts /\ In q (o_paths o) /\ bad_path F o 0 q = true).
Proof. exact resume_call_fails_iff. Qed.
Print Assumptions resume_bad_designation_errors.

(* ---- the set of executing nodes is not an input ---------------------------------------- *)
(* Which nodes execute in a call is decided by the engine (branches, interrupt points, the
   step loop), not by the routing of options. would_call answers for every node of the forest,
   executing or not: every component has exactly its closed form there ... *)
Theorem every_node_would_receive_exactly :
  forall F opts rs p nd ty,
    keys_unique F -> would_call F opts = Ok rs ->
    resolve F 0 p = Some nd -> n_kind nd = KComp ty ->
    exists r, In r rs /\ r_path r = p /\ r_items r = Some (spec_delivered opts p ty).
Proof. exact would_call_complete. Qed.
Print Assumptions every_node_would_receive_exactly.

Theorem would_receive_only_addressed :
  forall F opts rs r its,
    keys_unique F -> would_call F opts = Ok rs -> In r rs -> r_items r = Some its ->
    exists nd ty, resolve F 0 (r_path r) = Some nd /\ n_kind nd = KComp ty /\
                  its = spec_delivered opts (r_path r) ty /\ Forall (fun it => fst it = ty) its.
Proof. exact would_call_sound. Qed.
Print Assumptions would_receive_only_addressed.

(* ... and what a call reports on a forest with some nodes not executing is that answer,
   filtered by [executes]: the set of executing nodes selects reports and does nothing else
   (no report changes because another node does or does not execute) ... *)
Theorem executing_set_only_selects :
  forall F opts rs rs',
    keys_unique F -> run_call F opts = Ok rs -> would_call F opts = Ok rs' ->
    forall r, In r rs <-> In r (select_executing F rs').
Proof. exact run_call_select_executing. Qed.
Print Assumptions executing_set_only_selects.

(* ... nor does it decide whether the call fails (options of one Go type each; a mixed
   WithLambdaOption(a, b) fails in convertOption inside the node it reaches, i.e. only if that
   node executes) ... *)
Theorem failure_independent_of_executing_set :
  forall F opts,
    keys_unique F -> well_nested F -> F <> [] -> Forall uniform opts ->
    (fails (would_call F opts) <-> fails (run_call F opts)).
Proof. exact would_call_fails_iff. Qed.
Print Assumptions failure_independent_of_executing_set.

Theorem failure_carries_over_to_all_nodes :
  forall F opts,
    keys_unique F -> well_nested F -> F <> [] ->
    fails (run_call F opts) -> fails (would_call F opts).
Proof. exact would_call_fails_of_run_fails. Qed.
Print Assumptions failure_carries_over_to_all_nodes.

(* ... and there is one report per node path (so "the" report of a node is well defined). *)
Theorem one_report_per_node :
  forall F opts rs,
    keys_unique F -> run_call F opts = Ok rs -> NoDup (map r_path rs).
Proof. exact run_call_paths_nodup. Qed.
Print Assumptions one_report_per_node.

(* The comparison the correspondence check makes for a call of a session (Corr/C16.v
   obs_within: every node observed to execute must have exactly one entry in the model's answer
   for all nodes, with the observed values) accepts an observed delivery only if it is the closed
   form of the node at that path, accepts the closed form for every component, and accepts a
   handler list only if it is spec_fired, sorted. *)
Theorem within_accepts_only_the_addressed :
  forall F opts rs p vals,
    keys_unique F -> would_call F opts = Ok rs ->
    entry_within (deliveries rs) (p, vals) = true ->
    exists nd ty, resolve F 0 p = Some nd /\ n_kind nd = KComp ty /\
                  vals = map snd (spec_delivered opts p ty).
Proof. exact within_deliveries_sound. Qed.
Print Assumptions within_accepts_only_the_addressed.

Theorem within_accepts_the_addressed :
  forall F opts rs p nd ty,
    keys_unique F -> would_call F opts = Ok rs ->
    resolve F 0 p = Some nd -> n_kind nd = KComp ty ->
    entry_within (deliveries rs) (p, map snd (spec_delivered opts p ty)) = true.
Proof. exact within_deliveries_complete. Qed.
Print Assumptions within_accepts_the_addressed.

Theorem within_accepts_only_the_designated_handlers :
  forall F opts rs p vals,
    keys_unique F -> would_call F opts = Ok rs ->
    entry_within (firings rs) (p, vals) = true ->
    vals = sort_by N.ltb (spec_fired (graph_handlers opts) opts p).
Proof. exact within_firings_sound. Qed.
Print Assumptions within_accepts_only_the_designated_handlers.

(* a call that re-enters the run from any checkpoint has the same answer for all nodes *)
Theorem would_resume_same :
  forall F cl ck, would_resume F cl ck = would F cl.
Proof. exact would_resume_eq. Qed.
Print Assumptions would_resume_same.

(* ---- map_order_irrelevant ----------------------------------------------------------- *)
(* A graph's nodes are the keys of a Go map, iterated in an arbitrary order by extractOption
   and by the validation of nested designations. Listing the nodes of any graph of the forest in
   another order changes neither whether the call fails nor the set of reports (every node
   receives the same option values in the same order and has the same handler list). *)
Theorem map_order_irrelevant :
  forall F F' opts,
    keys_unique F -> well_nested F -> F <> [] -> forest_perm F F' ->
    (fails (run_call F opts) <-> fails (run_call F' opts)) /\
    (forall rs rs', run_call F opts = Ok rs -> run_call F' opts = Ok rs' ->
       forall r, In r rs <-> In r rs').
Proof. exact run_call_perm_general. Qed.
Print Assumptions map_order_irrelevant.

(* ---- options are values (F-C16a, ed95a2a) -------------------------------------------- *)
(* Model/Options.v treats an Option as a value: designate o ps = o with paths o_paths o ++ ps.
   On the level of Go slices (Model/OptionsSlice.v over Base/GoSlice.v, any growth policy of
   append) the repaired DesignateNodeWithPath does just that: the derived option reads the
   base's paths followed by the new ones, and no array that existed before is written, so
   every option built earlier — the base, its other derivatives — still reads what it read. *)
Theorem designate_copies :
  forall pol h s ps,
    GoSlice.wf h s ->
    let r := OptionsSlice.designate_go pol h s ps in
    GoSlice.read (fst r) (snd r) = GoSlice.read h s ++ ps /\ GoSlice.wf (fst r) (snd r) /\
    CallbacksSlice.keeps (List.length h) h (fst r) /\
    (forall t, GoSlice.wf h t -> GoSlice.read (fst r) t = GoSlice.read h t /\ GoSlice.wf (fst r) t).
Proof. exact OptionsSlice.designate_go_spec. Qed.
Print Assumptions designate_copies.

(* ... and so does a whole script of constructors (Model/OptionsSlice.v build_go: WithXxxOption =
   make([]*NodePath, 0), WithCallbacks = nil paths, DesignateNodeWithPath = designate_go on the
   parent's header; dec: the path a path pointer points to): for every script and every growth
   policy, EVERY option built along the way — bases, derivatives, siblings, options of an earlier
   call that a later call derives from — reads in the final heap as the value that the
   value-level script [build] (which the correspondence check evaluates) computes for it. *)
Theorem options_are_values_for_every_script :
  forall (dec : GoSlice.elem -> path) pol script,
    match OptionsSlice.build_go pol [] script [] with
    | Some (h', env') =>
        exists envv', build (map (OptionsSliceScript.bop_of dec) script) [] = Ok envv' /\
                      Forall2 (OptionsSliceScript.reads_as dec h') env' envv'
    | None => build (map (OptionsSliceScript.bop_of dec) script) [] = Err E_SCRIPT
    end.
Proof. exact OptionsSliceScript.build_go_script_refines. Qed.
Print Assumptions options_are_values_for_every_script.

(* the derivation tree of designate_v0_refuted, through the repaired constructor with Go's
   doubling growth: the two siblings keep their own last path *)
Example script_example :
  match OptionsSlice.build_go GoSlice.pol_double []
          [OptionsSlice.SItems [(6, 1)]; OptionsSlice.SDesignate 0 [1]; OptionsSlice.SDesignate 1 [2];
           OptionsSlice.SDesignate 2 [3]; OptionsSlice.SDesignate 3 [4]; OptionsSlice.SDesignate 3 [5]] [] with
  | Some (h, env) => map (fun o => GoSlice.read h (OptionsSlice.s_paths o)) env =
                     [[]; [1]; [1; 2]; [1; 2; 3]; [1; 2; 3; 4]; [1; 2; 3; 5]]
  | None => False
  end.
Proof. vm_compute. reflexivity. Qed.

(* the code before the repair (o.paths = append(o.paths, path...)) wrote into the spare capacity
   of the base's array: building a second derivative changed the first *)
Theorem designate_v0_refuted :
  ~ (forall pol h s ps t, GoSlice.wf h s -> GoSlice.wf h t ->
       GoSlice.read (fst (OptionsSlice.designate_v0 pol h s ps)) t = GoSlice.read h t).
Proof. exact OptionsSlice.designate_v0_refuted_l. Qed.
Print Assumptions designate_v0_refuted.

(* ---- the behaviour before the repair F-C16c (4defab8) -------------------------------- *)
(* run_call_v0 validates the options handed to a nested graph only when that graph runs
   (Model/Options.v run_graph_v0): bad_designation_errors does not hold of it — an unknown node
   designated inside a graph node that a branch skips is accepted. *)
Theorem bad_designation_errors_v0_refuted :
  ~ (forall F opts,
       keys_unique F -> well_nested F -> F <> [] -> Forall uniform opts ->
       (fails (run_call_v0 F opts) <->
        exists o q, In o opts /\ In q (o_paths o) /\ bad_path F o 0 q = true)).
Proof. exact bad_designation_errors_v0_refuted_l. Qed.
Print Assumptions bad_designation_errors_v0_refuted.

(* ---- the behaviour before the repair F-C16b (3394fa8) -------------------------------- *)
(* a passthrough node was taken for a sub graph by extractOption (extract_option_v0b): the
   extraction of a graph no longer rejected every designation that is bad at that level
   (level_bad: empty / unknown / below a component / wrong type, the part of bad_path decided in
   the graph the path starts in) — an option designated to a passthrough, or below it, passed *)
Theorem extract_option_v0b_refuted :
  ~ (forall g opts,
       NoDup (map n_key g) ->
       (fails (extract_option_v0b g opts) <->
        exists o q, In o opts /\ In q (o_paths o) /\ level_bad g o q = true)).
Proof. exact extract_option_v0b_refuted_l. Qed.
Print Assumptions extract_option_v0b_refuted.

(* ... which the repaired extraction does (for every graph, option list and initial map) *)
Theorem extract_option_rejects_level_bad :
  forall g opts m,
    fails (extract_option g opts m) <->
    exists o q, In o opts /\ In q (o_paths o) /\ level_bad g o q = true.
Proof. exact extract_option_fails. Qed.
Print Assumptions extract_option_rejects_level_bad.

(* ---- a call that does not come from a fresh context -------------------------------------- *)
(* A compiled graph called by user code inside a node of another running graph (a lambda that
   invokes an inner Runnable with the context it was handed), or with a context in which handlers
   are already installed: the context brings handlers [hh] and nothing else. Model/OptionsHosted.v
   run_hosted. The call reports exactly what the direct call reports, every callback manager with
   the context's handlers in front of the node's own ... *)
Theorem hosted_call_is_direct_call :
  forall F hh opts,
    run_hosted F hh opts = res_map (map (inherit hh)) (run_call F opts).
Proof. exact hosted_is_direct. Qed.
Print Assumptions hosted_call_is_direct_call.

(* ... so every theorem above about run_call speaks about hosted calls too: the same nodes
   report, every component receives the same option values (nothing of the host's call reaches
   them, nothing of this call is lost), the handlers are the context's plus the direct call's ... *)
Theorem hosted_call_delivers_same :
  forall F hh opts rs,
    run_hosted F hh opts = Ok rs ->
    exists rs0, run_call F opts = Ok rs0 /\
      map r_path rs = map r_path rs0 /\ map r_items rs = map r_items rs0 /\
      map r_fired rs = map (fun r => match r_fired r with Some hs => Some (hh ++ hs) | None => None end) rs0.
Proof. exact hosted_items. Qed.
Print Assumptions hosted_call_delivers_same.

(* ... and a bad designation is an error there exactly when it is one for the direct call
   (wherever in the nesting it sits, executed or not: bad_designation_errors / call_fails_iff). *)
Theorem hosted_call_fails_iff :
  forall F hh opts,
    (exists e, run_hosted F hh opts = Err e) <-> (exists e, run_call F opts = Err e).
Proof. exact hosted_fails_iff. Qed.
Print Assumptions hosted_call_fails_iff.

Theorem hosted_call_fresh_context :
  forall F opts, run_hosted F [] opts = run_call F opts.
Proof. exact hosted_fresh_context. Qed.
Print Assumptions hosted_call_fresh_context.

(* ---- non-vacuity -------------------------------------------------------------------- *)
Definition exF : forest :=
  [ [mkNode 1 (KComp 6) true true; mkNode 2 (KSub 1%nat) true true; mkNode 3 (KComp 0) false true];
    [mkNode 1 (KComp 6) true true; mkNode 3 (KComp 7) true true; mkNode 4 (KSub 2%nat) true false];
    [mkNode 1 (KComp 6) true true] ].
Definition exOpts : list copt :=
  [ mkOpt [(6, 100)] [] [];               (* undesignated, type 6 *)
    mkOpt [(6, 101)] [] [[2; 1]];         (* designated to 2/1 *)
    mkOpt [(6, 102); (6, 103)] [] [[2]];  (* designated to the sub graph: undesignated inside *)
    mkOpt [(7, 104)] [] [[2; 3]; [2; 3]]; (* the same path twice: delivered twice *)
    mkOpt [] [9] [[2; 4; 1]] ].           (* a handler designated into a graph that does not run *)

Example wf_example : keys_unique exF /\ well_nested exF.
Proof.
  split.
  - intros gi g H. destruct gi as [|[|[|gi]]]; simpl in H; try (destruct gi; discriminate);
      inversion H; subst; simpl; repeat constructor; simpl; intuition discriminate.
  - intros gi g nd gj H Hin Hk.
    destruct gi as [|[|[|gi]]]; simpl in H; try (destruct gi; discriminate); inversion H; subst;
      simpl in Hin; intuition; subst; simpl in Hk; inversion Hk; subst; simpl; lia.
Qed.

Example run_example :
  run_call exF exOpts =
  Ok [ mkRep [] None (Some []);
       mkRep [1] (Some [(6, 100)]) (Some []);
       mkRep [2] None (Some []);
       mkRep [2; 1] (Some [(6, 100); (6, 101); (6, 102); (6, 103)]) (Some []);
       mkRep [2; 3] (Some [(7, 104); (7, 104)]) (Some []);
       mkRep [3] (Some []) None ].
Proof. vm_compute. reflexivity. Qed.

Example spec_example :
  spec_delivered exOpts [2; 1] 6 = [(6, 100); (6, 101); (6, 102); (6, 103)] /\
  spec_delivered exOpts [1] 6 = [(6, 100)] /\
  executes exF 0 [2; 4; 1] = false.
Proof. vm_compute. auto. Qed.

(* each kind of bad designation, found at depth 2 and inside a graph that does not execute *)
Example bad_examples :
  bad_path exF (mkOpt [(6, 1)] [] []) 0 [] = true /\           (* empty path *)
  bad_path exF (mkOpt [(6, 1)] [] []) 0 [2; 9] = true /\       (* unknown node *)
  bad_path exF (mkOpt [(6, 1)] [] []) 0 [2; 1; 1] = true /\    (* below a component *)
  bad_path exF (mkOpt [(6, 1)] [] []) 0 [2; 3] = true /\       (* wrong type *)
  bad_path exF (mkOpt [(6, 1)] [] []) 0 [3] = true /\          (* passthrough takes no option *)
  bad_path exF (mkOpt [] [9] []) 0 [2; 4; 7] = true /\         (* callbacks too, in an idle graph *)
  bad_path exF (mkOpt [(6, 1)] [] []) 0 [2; 4; 1] = false /\
  fails (run_call exF [mkOpt [] [9] [[2; 4; 7]]]) /\
  ~ fails (run_call exF exOpts).
Proof.
  repeat split; try (vm_compute; reflexivity).
  - intros a. vm_compute. discriminate.
  - intros H. eapply H. vm_compute. reflexivity.
Qed.

(* a mixed option (first value of type 6, second of type 7) is routed by its first value: no
   designation is bad, the call fails where a type-6 component that executes is handed the second
   value — and does not fail when the only such component does not execute (2/4/1 in exF) *)
Example mixed_example :
  fails (run_call exF [mkOpt [(6, 1); (7, 2)] [] [[1]]]) /\
  bad_path exF (mkOpt [(6, 1); (7, 2)] [] [[1]]) 0 [1] = false /\
  ~ fails (run_call exF [mkOpt [(6, 1); (7, 2)] [] [[2; 4; 1]]]).
Proof.
  repeat split.
  - intros a. vm_compute. discriminate.
  - intros H. eapply H. vm_compute. reflexivity.
Qed.

(* handlers: designated to a component, to a graph node (fires inside it too), undesignated *)
Definition exCb : list copt :=
  [ mkOpt [] [7] [];             (* undesignated: everywhere *)
    mkOpt [] [8] [[2; 3]];       (* designated to 2/3: only there *)
    mkOpt [] [9] [[2]] ].        (* designated to graph node 2: there and inside *)
Example fired_example :
  run_call exF exCb =
  Ok [ mkRep [] None (Some [7]);
       mkRep [1] (Some []) (Some [7]);
       mkRep [2] None (Some [7; 9]);
       mkRep [2; 1] (Some []) (Some [7; 9]);
       mkRep [2; 3] (Some []) (Some [7; 9; 8]);
       mkRep [3] (Some []) None ].
Proof. vm_compute. reflexivity. Qed.

(* multiplicities: handler 13 designated to [2] and to [2;1] is twice in the manager of 2/1 (once
   inherited from graph node 2, once designated) and once in that of 2/3; the same top-level key
   twice counts once, the same nested path twice counts twice *)
Example multiplicity_example :
  spec_fired_count [mkOpt [] [13] [[2; 1]; [2]]] [2; 1] 13 = 2%nat /\
  spec_fired_count [mkOpt [] [13] [[2; 1]; [2]]] [2; 3] 13 = 1%nat /\
  spec_fired_count [mkOpt [] [13] [[1]; [1]]] [1] 13 = 1%nat /\
  spec_fired_count [mkOpt [] [13] [[2; 1]; [2; 1]]] [2; 1] 13 = 2%nat /\
  spec_fired_count [mkOpt [] [13] [[2; 1]]] [1] 13 = 0%nat /\
  run_call exF [mkOpt [] [13] [[2; 1]; [2]]] =
  Ok [ mkRep [] None (Some []);
       mkRep [1] (Some []) (Some []);
       mkRep [2] None (Some [13]);
       mkRep [2; 1] (Some []) (Some [13; 13]);
       mkRep [2; 3] (Some []) (Some [13]);
       mkRep [3] (Some []) None ].
Proof. vm_compute. repeat split; reflexivity. Qed.

(* the answer for all nodes of exF: node 2/4 and what lies below it do not execute in exF (the
   branch skips them) but have their entries; the reports of run_example are the selected ones *)
Example would_example :
  would_call exF exOpts =
  Ok [ mkRep [] None (Some []);
       mkRep [1] (Some [(6, 100)]) (Some []);
       mkRep [2] None (Some []);
       mkRep [2; 1] (Some [(6, 100); (6, 101); (6, 102); (6, 103)]) (Some []);
       mkRep [2; 3] (Some [(7, 104); (7, 104)]) (Some []);
       mkRep [2; 4] None (Some []);
       mkRep [2; 4; 1] (Some [(6, 100); (6, 102); (6, 103)]) (Some [9]);
       mkRep [3] (Some []) None ] /\
  (exists rs', would_call exF exOpts = Ok rs' /\ run_call exF exOpts = Ok (select_executing exF rs')) /\
  (exists rs', would_call exF exOpts = Ok rs' /\
     entry_within (deliveries rs') ([2; 3], [104; 104]) = true /\
     entry_within (deliveries rs') ([2; 3], [104]) = false /\
     entry_within (deliveries rs') ([2; 9], []) = false /\
     entry_within (firings rs') ([2; 4; 1], [9]) = true).
Proof.
  split; [vm_compute; reflexivity|]. split.
  - eexists. split; [vm_compute; reflexivity|]. vm_compute. reflexivity.
  - eexists. split; [vm_compute; reflexivity|]. vm_compute. auto.
Qed.

(* a session: the first call was interrupted inside graph node 2 after node 2/1 (the checkpoint
   holds the task of graph node 2 with a nested checkpoint holding the task of 2/3); the
   resuming call executes 2/3 only, and 2/3 gets this call's options *)
Definition exF2 : forest :=
  [ [mkNode 1 (KComp 6) true false; mkNode 2 (KSub 1%nat) true true; mkNode 3 (KComp 0) false false];
    [mkNode 1 (KComp 6) true false; mkNode 3 (KComp 7) true true; mkNode 4 (KSub 2%nat) true false];
    [mkNode 1 (KComp 6) true true] ].
Definition exCk : option ckpt := Some (Ckpt [2] [(2, Ckpt [3] [])]).
Example resume_example :
  resume_call exF2 exOpts exCk =
  Ok [ mkRep [] None (Some []);
       mkRep [2] None (Some []);
       mkRep [2; 3] (Some [(7, 104); (7, 104)]) (Some []) ].
Proof. vm_compute. reflexivity. Qed.

(* the theorems are sensitive to the restore path: a restoreTasks that builds the task of a
   re-entered sub graph without its options (the planted regression) delivers nothing there *)
Example resume_sensitivity :
  resume_call_gen true exF2 exOpts exCk =
  Ok [ mkRep [] None (Some []);
       mkRep [2] None (Some []);
       mkRep [2; 3] (Some []) (Some []) ] /\
  resume_call_gen true exF2 exOpts exCk <> run_call exF2 exOpts.
Proof. split; [vm_compute; reflexivity|vm_compute; discriminate]. Qed.

(* the example forest with the first two nodes of graphs 0 and 1 swapped: the reports come in
   another order, so the two results differ as lists *)
Definition exF' : forest :=
  [ [mkNode 2 (KSub 1%nat) true true; mkNode 1 (KComp 6) true true; mkNode 3 (KComp 0) false true];
    [mkNode 3 (KComp 7) true true; mkNode 1 (KComp 6) true true; mkNode 4 (KSub 2%nat) true false];
    [mkNode 1 (KComp 6) true true] ].
Example perm_example :
  forest_perm exF exF' /\ exists rs', run_call exF' exOpts = Ok rs' /\ run_call exF exOpts <> Ok rs'.
Proof.
  split.
  - constructor; [apply perm_swap|]. constructor; [apply perm_swap|].
    constructor; [apply Permutation_refl|constructor].
  - eexists. split; [vm_compute; reflexivity|]. vm_compute. discriminate.
Qed.

(* a call issued with handlers 77 and 78 already in the context (from inside a node of a host
   graph whose call carried them): every callback manager starts with them, the option values
   are those of the direct call (run_example); a handler of the call itself comes after *)
Example hosted_example :
  run_hosted exF [77; 78] (exOpts ++ [mkOpt [] [5] [[2]]]) =
  Ok [ mkRep [] None (Some [77; 78]);
       mkRep [1] (Some [(6, 100)]) (Some [77; 78]);
       mkRep [2] None (Some [77; 78; 5]);
       mkRep [2; 1] (Some [(6, 100); (6, 101); (6, 102); (6, 103)]) (Some [77; 78; 5]);
       mkRep [2; 3] (Some [(7, 104); (7, 104)]) (Some [77; 78; 5]);
       mkRep [3] (Some []) None ]
  /\ (exists e, run_hosted exF [77] [mkOpt [(6, 1)] [] [[2; 4; 9]]] = Err e).
Proof. split; [vm_compute; reflexivity|eexists; vm_compute; reflexivity]. Qed.

(* F-C16d (repaired by 8af3bf2): an option value without a type — WithLambdaOption(nil), type id
   11 here, the option type of no component — designated to a component is an option of the
   wrong type: the call fails (before the repair: a nil-pointer panic while the message was
   built); undesignated, or designated to a sub graph node, it reaches nobody *)
Example nil_value_example :
  bad_path exF (mkOpt [(11, 1)] [] [[2; 1]]) 0 [2; 1] = true
  /\ (exists e, run_call exF [mkOpt [(11, 1)] [] [[2; 1]]] = Err e)
  /\ run_call exF [mkOpt [(11, 1)] [] []; mkOpt [(11, 2)] [] [[2]]] =
     Ok [ mkRep [] None (Some []); mkRep [1] (Some []) (Some []); mkRep [2] None (Some []);
          mkRep [2; 1] (Some []) (Some []); mkRep [2; 3] (Some []) (Some []); mkRep [3] (Some []) None ].
Proof. repeat split; try (vm_compute; reflexivity). eexists; vm_compute; reflexivity. Qed.

(* lambdas declared with an interface option type: type ids 12 (...any) and 13 (...Stringer) are the
   types of no value. A chat-model-like option (type 6 here) and an option whose values implement
   the interface (7) reach the nodes of their type only; handlers designated to such a lambda are
   applied there; a value designated to it — directly or inside a sub graph — fails the call *)
Definition exFi : forest :=
  [ [mkNode 1 (KComp 12) true true; mkNode 2 (KSub 1%nat) true true; mkNode 3 (KComp 6) true true];
    [mkNode 1 (KComp 13) true true; mkNode 3 (KComp 7) true true] ].
Example interface_typed_lambda_example :
  run_call exFi [mkOpt [(6, 1)] [] []; mkOpt [(7, 2)] [] []; mkOpt [] [9] [[1]; [2; 1]]] =
    Ok [ mkRep [] None (Some []); mkRep [1] (Some []) (Some [9]); mkRep [2] None (Some []);
         mkRep [2; 1] (Some []) (Some [9]); mkRep [2; 3] (Some [(7, 2)]) (Some []);
         mkRep [3] (Some [(6, 1)]) (Some []) ]
  /\ spec_delivered [mkOpt [(6, 1)] [] []; mkOpt [(7, 2)] [] []; mkOpt [] [9] [[1]; [2; 1]]] [2; 1] 13 = []
  /\ bad_path exFi (mkOpt [(6, 1)] [] [[1]]) 0 [1] = true
  /\ bad_path exFi (mkOpt [(7, 2)] [] [[2; 1]]) 0 [2; 1] = true
  /\ (exists e, run_call exFi [mkOpt [(7, 2)] [] [[2; 1]]] = Err e).
Proof. repeat split; try (vm_compute; reflexivity). eexists; vm_compute; reflexivity. Qed.
