(* Props/C04.v — property C04: Invoke, Stream, Collect and Transform of a compiled graph
   agree.  Only statements, each closed by [exact]; the proofs are in Proofs/Paradigm*.v. *)
From Eino Require Import Base.Util Model.Paradigm Model.StreamOps Model.ParadigmProg
  Model.ParadigmSpec Model.ParadigmHandlers Model.C04NilEnd Proofs.Paradigm Proofs.ParadigmOps Proofs.ParadigmFieldMap
  Proofs.ParadigmProg Proofs.ParadigmSpec Proofs.ParadigmPaths Proofs.C04NilEnd
  Model.C04KeyedPass Proofs.C04KeyedPass.

(* ------------------------------------------------------------------ node level *)

(* Every non-empty subset of native implementations yields all four views
   (newRunnablePacker never leaves a view nil) — and the empty subset none (AnyLambda
   rejects it). *)
Theorem derive_total :
  forall (A B : Type) (cA : list A -> res A) (cB : list B -> res B) (n : node A B),
    has_any n = true -> exists v, derive cA cB n = Some v.
Proof. exact derive_total_lem. Qed.
Print Assumptions derive_total.

Theorem derive_only_nonempty :
  forall (A B : Type) (cA : list A -> res A) (cB : list B -> res B) (n : node A B),
    has_any n = false -> derive cA cB n = None.
Proof. exact derive_none. Qed.
Print Assumptions derive_only_nonempty.

(* The native implementation a view calls is the first implemented one of its row of the
   table [order] (the row is what the correspondence run observes call by call). *)
Theorem used_is_first :
  forall (A B : Type) (n : node A B) target p,
    used n target = Some p ->
    has n p = true /\
    exists pre post, order target = pre ++ p :: post /\ forall q, In q pre -> has n q = false.
Proof. exact used_first. Qed.
Print Assumptions used_is_first.

(* For a node whose native implementations are mutually consistent (each computes, up to
   concatenation, the same function f of the whole input), whichever non-empty subset it
   implements and for every non-empty input stream (any chunking, error items included):
   concatenating what Transform delivers = what Collect returns = Invoke on the
   concatenated input; concatenating what Stream delivers = Invoke.  A failure on one side
   is a failure on the other ([agree]). *)
Theorem views_agree :
  forall (A B : Type) (cA : list A -> res A) (cB : list B -> res B) (n : node A B) (f : A -> res B),
    node_consistent A B cA cB n f -> has_any n = true ->
    forall st, st <> [] ->
      agree (sconcatR cB (view_T cA n st)) (res_bind (sconcat cA st) (view_I cB n))
      /\ agree (view_C cA cB n st) (res_bind (sconcat cA st) (view_I cB n))
      /\ forall x, agree (sconcatR cB (view_S n x)) (view_I cB n x).
Proof. exact views_agree_lem. Qed.
Print Assumptions views_agree.

(* non-vacuity: the hypotheses hold for a harness lambda with only a Stream native that
   splits its output in two chunks (and for every other well-formed spec:
   harness_node_consistent below) *)
Example views_agree_nonvacuous :
  node_consistent val val vconcat vconcat (node_of_spec any_spec) (spec_fun any_spec)
  /\ has_any (node_of_spec any_spec) = true
  /\ view_I vconcat (node_of_spec any_spec) (VS "ab"%string) = Ok (VS "n1(ab)"%string).
Proof. split; [apply spec_consistent; reflexivity|split; reflexivity]. Qed.

(* ------------------------------------------------------------------ operation level *)

(* fan-out (copyItem): every copy concatenates to what the original concatenates to *)
Theorem concat_copy :
  forall (n : nat) (s c : stream val), In c (s_copy n s) -> vsconcat c = vsconcat s.
Proof. exact concat_copy_lem. Qed.
Print Assumptions concat_copy.

(* fan-in (mergeValues, stream branch): whatever order-preserving interleaving
   MergeStreamReaders produces of two or more map streams (maps nested to any depth) with
   pairwise disjoint top-level keys, it concatenates to mergeMap of the sources'
   concatenations.  ([forallb mcons ms]: no source value holds a string and a map under one
   key — true of every Go map; the values of the model are entry lists, which could.) *)
Theorem concat_merge :
  forall (ls : list (stream val)) (ms : list amap) (t : stream val),
    Forall2 (fun s m => vsconcat s = Ok (VM m)) ls ms ->
    2 <= List.length ls ->
    Interleaving ls t ->
    disjoint_keys [] ms = true ->
    forallb mcons ms = true ->
    vsconcat t = v_merge (map VM ms).
Proof. exact concat_merge_lem. Qed.
Print Assumptions concat_merge.

(* the first source carries a nested map {0: {5: "a"}} , {0: {6: "b"}} (in Go e.g. a
   map[string]string under the output key 0, emitted key by key), the second a string *)
Example concat_merge_nonvacuous :
  let s1 := [Val (VM [((0%N, KMap), ""%string); ((0%N, KSub 5 KStr), "a"%string)]);
             Val (VM [((0%N, KMap), ""%string); ((0%N, KSub 6 KStr), "b"%string)])] in
  let s2 := [Val (VM [(kstr 1, "c"%string)])] in
  let t := [Val (VM [((0%N, KMap), ""%string); ((0%N, KSub 5 KStr), "a"%string)]);
            Val (VM [(kstr 1, "c"%string)]);
            Val (VM [((0%N, KMap), ""%string); ((0%N, KSub 6 KStr), "b"%string)])] in
  let m1 := [((0%N, KMap), ""%string); ((0%N, KSub 5 KStr), "a"%string); ((0%N, KSub 6 KStr), "b"%string)] in
  Forall2 (fun s m => vsconcat s = Ok (VM m)) [s1; s2] [m1; [(kstr 1, "c"%string)]]
  /\ Interleaving [s1; s2] t
  /\ disjoint_keys [] [m1; [(kstr 1, "c"%string)]] = true
  /\ forallb mcons [m1; [(kstr 1, "c"%string)]] = true
  /\ vsconcat t = Ok (VM (m1 ++ [(kstr 1, "c"%string)])).
Proof.
  cbv zeta. split; [repeat constructor|]. split; [|repeat split; reflexivity].
  apply (il_cons [] _ _ [[Val (VM [(kstr 1, "c"%string)])]]).
  apply (il_cons [[Val (VM [((0%N, KMap), ""%string); ((0%N, KSub 6 KStr), "b"%string)])]] _ [] []).
  apply (il_cons [] _ [] [[]]).
  constructor. repeat constructor.
Qed.

(* ... and a source that does not concatenate (error item, ...) makes every interleaving
   fail to concatenate: the failure reaches the consumer in stream mode too *)
Theorem merge_propagates_failure :
  forall (ls : list (stream val)) (t s : stream val),
    Interleaving ls t -> In s ls -> s <> [] -> failed (vsconcat s) -> failed (vsconcat t).
Proof. exact merge_failed. Qed.
Print Assumptions merge_propagates_failure.

(* WithOutputKey: stream form (streamReader.withKey) against value form, for strings and for
   maps (the value under the key is then a map again), on every sound stream: one that
   carries an error item or whose chunks concatenate *)
Theorem concat_withKey :
  forall (k : N) (s : stream val), s <> [] -> sound s ->
    agree (vsconcat (s_withKey k s)) (res_bind (vsconcat s) (v_withKey k))
    /\ sound (s_withKey k s).
Proof. exact concat_withKey_lem. Qed.
Print Assumptions concat_withKey.

Example concat_withKey_nonvacuous :
  let s := [Val (VM [(kstr 5, "a"%string)]); Val (VM [(kstr 6, "b"%string)])] in
  sound s
  /\ vsconcat (s_withKey 0 s)
     = Ok (VM [((0%N, KMap), ""%string); ((0%N, KSub 5 KStr), "a"%string); ((0%N, KSub 6 KStr), "b"%string)]).
Proof. cbv zeta. split; [right; eexists; reflexivity|reflexivity]. Qed.

(* WithInputKey: stream form (defaultStreamMapFilter) against value form, when the
   concatenated input carries the key (hypothesis: finding F-C04b is the other case) *)
Theorem concat_keyFilter :
  forall (k : N) (s : stream val), s <> [] -> sound s ->
    (forall m, vsconcat s = Ok (VM m) -> m_get k m <> None) ->
    agree (vsconcat (s_keyFilter k s)) (res_bind (vsconcat s) (v_getKey k))
    /\ s_keyFilter k s <> [] /\ sound (s_keyFilter k s).
Proof. exact concat_keyFilter_lem. Qed.
Print Assumptions concat_keyFilter.

(* the key 0 holds a nested map that arrives in two chunks, with a chunk of another key in between *)
Example concat_keyFilter_nonvacuous :
  let s := [Val (VM [((0%N, KMap), ""%string); ((0%N, KSub 5 KStr), "a"%string)]);
            Val (VM [(kstr 1, "x"%string)]);
            Val (VM [((0%N, KMap), ""%string); ((0%N, KSub 6 KStr), "b"%string)])] in
  sound s
  /\ (forall m, vsconcat s = Ok (VM m) -> m_get 0%N m <> None)
  /\ vsconcat (s_keyFilter 0%N s) = Ok (VM [(kstr 5, "a"%string); (kstr 6, "b"%string)]).
Proof.
  cbv zeta. split; [right; eexists; reflexivity|]. split; [|reflexivity].
  intros m H. vm_compute in H. inversion H. discriminate.
Qed.

(* why sound streams: chunks holding a string and a map under the same key do not
   concatenate, the input-key filter never looks at that key *)
Theorem unsound_stream_refuted :
  vsconcat clash_stream = Err e_type
  /\ ~ sound clash_stream
  /\ vsconcat (s_keyFilter 0 clash_stream) = Ok (VS "ab"%string)
  /\ ~ agree (vsconcat (s_keyFilter 0 clash_stream)) (res_bind (vsconcat clash_stream) (v_getKey 0)).
Proof. exact unsound_stream_witness. Qed.
Print Assumptions unsound_stream_refuted.

(* Workflow field mappings (ToField / MapFields / FromField; the mapped value is a string, a
   whole map, or a field that holds a nested map):
   the stream form (chunk-wise; a chunk that lacks a key maps nothing, an empty mapping
   result becomes the zero value of the input type) against the value form, when every key
   the mapping reads is carried by the concatenated input (the other case is F-C04c) and
   no two mappings write the same field (Workflow.Compile rejects that) *)
Theorem concat_fieldMap :
  forall (f : fmap) (s : stream val), fmap_wf f = true -> s <> [] -> sound s ->
    (forall x, vsconcat s = Ok x -> fmap_dom f x = true) ->
    agree (vsconcat (s_fmap f s)) (res_bind (vsconcat s) (v_fmap f)) /\ s_fmap f s <> []
    /\ sound (s_fmap f s).
Proof. exact concat_fieldMap_lem. Qed.
Print Assumptions concat_fieldMap.

(* the field 0 holds a string, the field 1 a nested map that arrives in two chunks *)
Example concat_fieldMap_nonvacuous :
  let f := FTo [(Some 0%N, 5%N); (Some 1%N, 6%N)] in
  let s := [Val (VM [(kstr 0, "a"%string); ((1%N, KMap), ""%string); ((1%N, KSub 2 KStr), "x"%string)]);
            Val (VM [((1%N, KMap), ""%string); ((1%N, KSub 3 KStr), "y"%string)]);
            Val (VM [(kstr 0, "b"%string)])] in
  let r := VM [(kstr 5, "ab"%string); ((6%N, KMap), ""%string); ((6%N, KSub 2 KStr), "x"%string); ((6%N, KSub 3 KStr), "y"%string)] in
  fmap_wf f = true
  /\ sound s
  /\ (forall x, vsconcat s = Ok x -> fmap_dom f x = true)
  /\ vsconcat (s_fmap f s) = Ok r
  /\ res_bind (vsconcat s) (v_fmap f) = Ok r.
Proof.
  cbv zeta. split; [reflexivity|]. split; [right; eexists; reflexivity|]. split; [|split; reflexivity].
  intros x H. vm_compute in H. inversion H. reflexivity.
Qed.

(* run-time type check on the edges leaving an any-typed node: chunk-wise stream form
   (defaultStreamConverter) against the value form (defaultValueChecker) *)
Theorem concat_check :
  forall (want_map : bool) (s : stream val), s <> [] -> sound s ->
    agree (vsconcat (s_check want_map s)) (res_bind (vsconcat s) (v_check want_map))
    /\ s_check want_map s <> [] /\ sound (s_check want_map s).
Proof. exact concat_check_lem. Qed.
Print Assumptions concat_check.

(* ------------------------------------------------------------------ graph level *)

(* simulation: for every graph built from consistent nodes ([prog_ok]), every choice of
   interleaving at every fan-in, every position, every non-empty sound input stream (any
   chunking, error items included) whose concatenation — if it has one — is in the domain:
   the stream-mode run, concatenated, agrees with the value-mode run on the concatenated
   input (same value, or a failure on both sides), and delivers a non-empty sound stream *)
Theorem run_sim :
  forall (mrg : list nat -> list (stream val) -> stream val),
    (forall pos ls, Interleaving ls (mrg pos ls)) ->
    forall p, prog_ok p ->
    forall pos s, s <> [] -> sound s -> (forall x, vsconcat s = Ok x -> dom_ok p x = true) ->
      agree (vsconcatR (run_stream mrg pos p s)) (res_bind (vsconcat s) (run_value p))
      /\ (forall o, run_stream mrg pos p s = Ok o -> o <> [] /\ sound o).
Proof. exact run_sim_lem. Qed.
Print Assumptions run_sim.

(* non-vacuity of [prog_ok]: see harness_graph_ok / agree_nonvacuous below *)
Example prog_ok_nonvacuous : prog_ok (compile_sprog mixed_prog).
Proof. apply compile_ok. reflexivity. Qed.

(* the four public paradigms of one compiled graph agree *)
Theorem stream_invoke_agree :
  forall (mrg : list nat -> list (stream val) -> stream val),
    (forall pos ls, Interleaving ls (mrg pos ls)) ->
    forall p, prog_ok p ->
    forall chunks x, chunks <> [] -> vsconcat (map Val chunks) = Ok x -> dom_ok p x = true ->
      agree (vsconcatR (g_stream mrg p x)) (g_invoke p x)
      /\ agree (g_collect mrg p (map Val chunks)) (g_invoke p x)
      /\ agree (vsconcatR (g_transform mrg p (map Val chunks))) (g_invoke p x).
Proof. exact four_paradigms_lem. Qed.
Print Assumptions stream_invoke_agree.

(* hence what a stream-mode run concatenates to does not depend on how MergeStreamReaders
   interleaves its sources (the correspondence runs the model with one fixed interleaving) *)
Theorem interleaving_irrelevant :
  forall (mrg1 mrg2 : list nat -> list (stream val) -> stream val),
    (forall pos ls, Interleaving ls (mrg1 pos ls)) ->
    (forall pos ls, Interleaving ls (mrg2 pos ls)) ->
    forall p, prog_ok p ->
    forall s, s <> [] -> sound s -> (forall x, vsconcat s = Ok x -> dom_ok p x = true) ->
      agree (vsconcatR (g_transform mrg1 p s)) (vsconcatR (g_transform mrg2 p s)).
Proof. exact interleaving_irrelevant_lem. Qed.
Print Assumptions interleaving_irrelevant.

(* ------------------------------------------------------------------ the graphs of the harness *)

(* the hypotheses [node_consistent] / [node_ok] hold for every node body the harness can
   build: any native subset, any splitting policy, any failure mode, chunk-by-chunk or
   collecting transformer *)
Theorem harness_node_consistent :
  forall sp, spec_wf sp = true ->
    node_consistent val val vconcat vconcat (node_of_spec sp) (spec_fun sp).
Proof. exact spec_consistent. Qed.
Print Assumptions harness_node_consistent.

Theorem harness_graph_ok : forall p, sprog_wf p = true -> prog_ok (compile_sprog p).
Proof. exact compile_ok. Qed.
Print Assumptions harness_graph_ok.

(* hence, for every graph the harness can build (the correspondence runs exactly
   [compile_sprog p] and evaluates [sprog_wf] and [dom_ok] on every case): *)
Theorem harness_graphs_agree :
  forall (mrg : list nat -> list (stream val) -> stream val),
    (forall pos ls, Interleaving ls (mrg pos ls)) ->
    forall p, sprog_wf p = true ->
    forall chunks x, chunks <> [] -> vsconcat (map Val chunks) = Ok x ->
      dom_ok (compile_sprog p) x = true ->
      agree (vsconcatR (g_stream mrg (compile_sprog p) x)) (g_invoke (compile_sprog p) x)
      /\ agree (g_collect mrg (compile_sprog p) (map Val chunks)) (g_invoke (compile_sprog p) x)
      /\ agree (vsconcatR (g_transform mrg (compile_sprog p) (map Val chunks))) (g_invoke (compile_sprog p) x).
Proof. exact harness_graphs_agree_lem. Qed.
Print Assumptions harness_graphs_agree.

(* non-vacuity: a graph with fan-out, fan-in, derived views and a stream branch that is
   well-formed, in the domain, and succeeds with a value in both modes; the interleaving
   hypothesis is satisfiable *)
Example agree_nonvacuous :
  sprog_wf mixed_prog = true
  /\ vsconcat (map Val [VS "ab"%string; VS "c"%string]) = Ok (VS "abc"%string)
  /\ dom_ok (compile_sprog mixed_prog) (VS "abc"%string) = true
  /\ g_invoke (compile_sprog mixed_prog) (VS "abc"%string)
     = Ok (VM [(kstr 2, "n6<n3{aa=n1(abc);ab=n2(abc);}"%string); (kstr 3, "n3{aa=n1(abc);ab=n2(abc);}>"%string)])
  /\ vsconcatR (g_transform seq_mrg (compile_sprog mixed_prog) (map Val [VS "ab"%string; VS "c"%string]))
     = g_invoke (compile_sprog mixed_prog) (VS "abc"%string).
Proof. exact mixed_prog_in_domain. Qed.

Example interleaving_nonvacuous : forall pos ls, Interleaving ls (seq_mrg pos ls).
Proof. exact seq_mrg_interleaving. Qed.

(* ------------------------------------------------------------------ outside the domain *)

(* finding F-C04: without [dom_ok] the agreement fails — two predecessors of a fan-in emit
   the same key: Invoke fails (mergeMap: duplicated key), Stream succeeds *)
Theorem fanin_dupkey_refuted :
  sprog_wf dupkey_prog = true
  /\ dom_ok (compile_sprog dupkey_prog) (VS "x"%string) = false
  /\ g_invoke (compile_sprog dupkey_prog) (VS "x"%string) = Err e_dupkey
  /\ vsconcatR (g_stream seq_mrg (compile_sprog dupkey_prog) (VS "x"%string))
     = Ok (VM [(kstr 5, "n3{aa=n1(x)n2(x);}"%string)])
  /\ ~ agree (vsconcatR (g_stream seq_mrg (compile_sprog dupkey_prog) (VS "x"%string)))
             (g_invoke (compile_sprog dupkey_prog) (VS "x"%string)).
Proof. exact fanin_dupkey_refuted_lem. Qed.
Print Assumptions fanin_dupkey_refuted.

(* ... and what the stream run delivers there depends on the interleaving *)
Theorem fanin_dupkey_order_dependent :
  v_merge [VM [(kstr 0, "A"%string)]; VM [(kstr 0, "B"%string)]] = Err e_dupkey
  /\ Interleaving [dup_src1; dup_src2] (dup_src1 ++ dup_src2)
  /\ Interleaving [dup_src1; dup_src2] (dup_src2 ++ dup_src1)
  /\ vsconcat (dup_src1 ++ dup_src2) = Ok (VM [(kstr 0, "AB"%string)])
  /\ vsconcat (dup_src2 ++ dup_src1) = Ok (VM [(kstr 0, "BA"%string)]).
Proof. exact fanin_dupkey_witness. Qed.
Print Assumptions fanin_dupkey_order_dependent.

(* finding F-C04b: an input key that no chunk carries — Invoke fails (cannot find input
   key), in stream mode the filter drops every chunk and a Transform-native node runs on
   the empty stream and succeeds *)
Theorem inkey_missing_refuted :
  sprog_wf nokey_prog = true
  /\ dom_ok (compile_sprog nokey_prog) (VM [(kstr 0, "v"%string)]) = false
  /\ g_invoke (compile_sprog nokey_prog) (VM [(kstr 0, "v"%string)]) = Err e_nokey
  /\ vsconcatR (g_stream seq_mrg (compile_sprog nokey_prog) (VM [(kstr 0, "v"%string)]))
     = Ok (VS "n1()"%string)
  /\ ~ agree (vsconcatR (g_stream seq_mrg (compile_sprog nokey_prog) (VM [(kstr 0, "v"%string)])))
             (g_invoke (compile_sprog nokey_prog) (VM [(kstr 0, "v"%string)])).
Proof. exact inkey_missing_refuted_lem. Qed.
Print Assumptions inkey_missing_refuted.

(* mechanism of F-C04b at the operation level *)
Theorem keyFilter_missing_key :
  forall (k : N) (ms : list amap), ms <> [] -> mok ms = true -> m_get k (mval ms) = None ->
    s_keyFilter k (sVM ms) = [] /\ res_bind (vsconcat (sVM ms)) (v_getKey k) = Err e_nokey.
Proof. exact keyFilter_missing. Qed.
Print Assumptions keyFilter_missing_key.

(* finding F-C04c: a field mapping from a map key that no chunk carries — Invoke fails (key
   not found in input), in stream mode every chunk maps nothing and the consumer runs on
   empty values and succeeds *)
Theorem fieldmap_missing_refuted :
  sprog_wf fmiss_prog = true
  /\ dom_ok (compile_sprog fmiss_prog) (VS "x"%string) = false
  /\ g_invoke (compile_sprog fmiss_prog) (VS "x"%string) = Err e_nokey
  /\ vsconcatR (g_stream seq_mrg (compile_sprog fmiss_prog) (VS "x"%string)) = Ok (VS "n2()"%string)
  /\ ~ agree (vsconcatR (g_stream seq_mrg (compile_sprog fmiss_prog) (VS "x"%string)))
             (g_invoke (compile_sprog fmiss_prog) (VS "x"%string)).
Proof. exact fieldmap_missing_refuted_lem. Qed.
Print Assumptions fieldmap_missing_refuted.

Theorem fieldMap_missing_key :
  forall (a : N) (ms : list amap), ms <> [] -> mok ms = true -> mhas (kstr a) (mval ms) = false ->
    res_bind (vsconcat (sVM ms)) (v_fmap (FTake a false)) = Err e_nokey
    /\ vsconcat (s_fmap (FTake a false) (sVM ms)) = Ok (VS EmptyString).
Proof. exact fieldMap_missing_lem. Qed.
Print Assumptions fieldMap_missing_key.

(* non-vacuity with field mappings: a Workflow-shaped graph inside the domain *)
Example agree_nonvacuous_workflow :
  sprog_wf wf_prog = true
  /\ dom_ok (compile_sprog wf_prog) (VS "abc"%string) = true
  /\ g_invoke (compile_sprog wf_prog) (VS "abc"%string) = Ok (VS "n3{af=abc>;ag=n1<abc;ah=n2(abc);}"%string)
  /\ vsconcatR (g_transform seq_mrg (compile_sprog wf_prog) (map Val [VS "ab"%string; VS "c"%string]))
     = g_invoke (compile_sprog wf_prog) (VS "abc"%string).
Proof. exact wf_prog_in_domain. Qed.

(* finding F-C04d (fixed, commit c44e450): the old concatenation at an interface chunk type *)
Theorem any_stream_output_v0_refuted :
  spec_wf any_spec = true
  /\ view_I vconcat_any_v0 (node_of_spec any_spec) (VS "ab"%string) = Err e_type
  /\ view_I vconcat (node_of_spec any_spec) (VS "ab"%string) = Ok (VS "n1(ab)"%string)
  /\ exists o, view_T vconcat (node_of_spec any_spec) (box (VS "ab"%string)) = Ok o
       /\ List.length o = 2%nat
       /\ vsconcat (s_check false o) = Ok (VS "n1(ab)"%string).
Proof. exact any_stream_output_v0_refuted_lem. Qed.
Print Assumptions any_stream_output_v0_refuted.

(* non-vacuity with a cycle (three rounds through a chunk-by-chunk transformer and a
   Stream-native node, stream condition) *)
Example agree_nonvacuous_loop :
  sprog_wf loop_prog = true
  /\ dom_ok (compile_sprog loop_prog) (VS "ab"%string) = true
  /\ g_invoke (compile_sprog loop_prog) (VS "ab"%string) = Ok (VS "n3(n2(n1(n2(n1(n2(n1(ab)))))))"%string)
  /\ vsconcatR (g_transform seq_mrg (compile_sprog loop_prog) (map Val [VS "a"%string; VS "b"%string]))
     = g_invoke (compile_sprog loop_prog) (VS "ab"%string).
Proof. exact loop_prog_in_domain. Qed.

(* non-vacuity with a multi-branch (two of three alternatives selected by a stream condition) *)
Example agree_nonvacuous_multibranch :
  sprog_wf multi_prog = true
  /\ dom_ok (compile_sprog multi_prog) (VS "ab"%string) = true
  /\ g_invoke (compile_sprog multi_prog) (VS "ab"%string) = Ok (VS "n4{aa=n1(ab);ab=n2(ab);}"%string)
  /\ vsconcatR (g_transform seq_mrg (compile_sprog multi_prog) (map Val [VS "a"%string; VS "b"%string]))
     = g_invoke (compile_sprog multi_prog) (VS "ab"%string).
Proof. exact multi_prog_in_domain. Qed.

(* non-vacuity with nested maps: a Stream-native map producer under an output key (two
   chunks that each carry a fragment of the nested map: in Go a map[string]string or a
   map[string]any), an input key that reads the nested map, two levels of nesting *)
Example agree_nonvacuous_nested :
  sprog_wf nested_prog = true
  /\ dom_ok (compile_sprog nested_prog) (VS "ab"%string) = true
  /\ g_invoke (compile_sprog nested_prog) (VS "ab"%string)
     = Ok (VS "n5{ac=n3{af=n1<ab;ag=ab>;};ad/;ad.ah=n4{aa/;aa.af=n1<ab;aa.ag=ab>;ab=n2(ab);};}"%string)
  /\ vsconcatR (g_transform seq_mrg (compile_sprog nested_prog) (map Val [VS "a"%string; VS "b"%string]))
     = g_invoke (compile_sprog nested_prog) (VS "ab"%string).
Proof. exact nested_prog_in_domain. Qed.

(* non-vacuity with passthrough nodes that carry a key (round 6): AddPassthroughNode(WithInputKey) picks a
   string out of the caller's map chunks (one chunk lacks the key) and hands it to a lambda string -> map,
   AddPassthroughNode(WithOutputKey) nests that map, a second keyed passthrough node picks it again; in the
   model a wrapper around the identity (SSub w SId).  The graph satisfies the hypotheses of
   harness_graphs_agree; corpus/C04/pass_inkey_typed_from_successor.json is this graph and these chunks. *)
Example agree_nonvacuous_keyed_passthrough :
  sprog_wf keyed_pass_prog = true
  /\ dom_ok (compile_sprog keyed_pass_prog) keyed_pass_input = true
  /\ g_invoke (compile_sprog keyed_pass_prog) keyed_pass_input = Ok (VS "n5{af=n2<hello;ag=hello>;}"%string)
  /\ vsconcatR (g_transform seq_mrg (compile_sprog keyed_pass_prog) (map Val keyed_pass_chunks))
     = g_invoke (compile_sprog keyed_pass_prog) keyed_pass_input
  /\ g_collect seq_mrg (compile_sprog keyed_pass_prog) (map Val keyed_pass_chunks)
     = g_invoke (compile_sprog keyed_pass_prog) keyed_pass_input.
Proof. exact keyed_pass_prog_in_domain. Qed.

Example keyed_passthrough_input_is_concat :
  vsconcat (map Val keyed_pass_chunks) = Ok keyed_pass_input.
Proof. exact keyed_pass_input_is_concat. Qed.

(* non-vacuity with field mappings over nested maps: MapFields from a field that holds a map
   (fragments in two chunks), ToField of a whole map, FromField of a nested map *)
Example agree_nonvacuous_workflow_nested :
  sprog_wf wfn_prog = true
  /\ dom_ok (compile_sprog wfn_prog) (VS "ab"%string) = true
  /\ g_invoke (compile_sprog wfn_prog) (VS "ab"%string)
     = Ok (VS "n5{ak=n4{ah=n3{af/;af.ac=n1<ab;af.ad=ab>;ag/;ag.ai=n2<ab;ag.aj=ab>;};};}"%string)
  /\ vsconcatR (g_transform seq_mrg (compile_sprog wfn_prog) (map Val [VS "a"%string; VS "b"%string]))
     = g_invoke (compile_sprog wfn_prog) (VS "ab"%string).
Proof. exact wfn_prog_in_domain. Qed.

(* non-vacuity with a lambda that emits nested maps itself: kind 4 puts the map chunks it
   receives under a key, chunk by chunk (Transform-native) *)
Example agree_nonvacuous_wrap :
  sprog_wf wrap_prog = true
  /\ dom_ok (compile_sprog wrap_prog) (VS "ab"%string) = true
  /\ g_invoke (compile_sprog wrap_prog) (VS "ab"%string) = Ok (VS "n3{af/;af.ac=n1<ab;af.ad=ab>;}"%string)
  /\ vsconcatR (g_transform seq_mrg (compile_sprog wrap_prog) (map Val [VS "a"%string; VS "b"%string]))
     = g_invoke (compile_sprog wrap_prog) (VS "ab"%string).
Proof. exact wrap_prog_in_domain. Qed.

(* Field mappings with nested paths (FromFieldPath / ToFieldPath / MapFieldPaths over maps) are the
   sequence of one-step mappings [path_sprog]; it satisfies the decidable hypothesis of
   [harness_graphs_agree], so that theorem covers every harness graph that contains path mappings. *)
Theorem path_mapping_wf :
  forall from to take_map, sprog_wf (path_sprog from to take_map) = true.
Proof. exact path_sprog_wf_lem. Qed.
Print Assumptions path_mapping_wf.

(* non-vacuity with nested paths: MapFieldPaths aa.ac -> af.ag from a nested map whose fragments
   arrive in two chunks, ToFieldPath ah.ai of a chunk-by-chunk transformer, fan-in *)
Example agree_nonvacuous_paths :
  sprog_wf paths_prog = true
  /\ dom_ok (compile_sprog paths_prog) (VS "ab"%string) = true
  /\ g_invoke (compile_sprog paths_prog) (VS "ab"%string)
     = Ok (VS "n3{af/;af.ag=n1<ab;ah/;ah.ai=n2(ab);}"%string)
  /\ vsconcatR (g_transform seq_mrg (compile_sprog paths_prog) (map Val [VS "a"%string; VS "b"%string]))
     = g_invoke (compile_sprog paths_prog) (VS "ab"%string).
Proof. exact paths_prog_in_domain. Qed.

(* Finding F-C04e (fixed by ff3e750): before the fix a nil value reaching END of a graph with an
   interface-typed output made Invoke fail ("no tasks to execute": the run loop took the nil result
   for "END not reached") while Stream / Collect / Transform delivered the nil. *)
Theorem nil_output_v0_refuted :
  finish_v0 true ONil = Err e_notasks
  /\ sconcatR oconcat (finish_stream true [Val ONil]) = Ok ONil
  /\ sconcatR oconcat (finish_stream true [Val ONil; Val ONil]) = Ok ONil.
Proof. exact nil_end_v0. Qed.
Print Assumptions nil_output_v0_refuted.

(* as repaired: for every value that reaches END, nil included, the value-mode ending returns what
   the stream-mode ending delivers, concatenated *)
Theorem nil_output_agrees :
  forall r, finish true r = sconcatR oconcat (finish_stream true (box r)).
Proof. exact nil_end_fixed. Qed.
Print Assumptions nil_output_agrees.

(* Finding F-C04f (fixed by d2e8680): a nil stored under an input key, read by a node whose input
   type is an interface: the invoke form of the wrapper handed it on, the stream form failed. *)
Theorem nil_under_input_key_v0_refuted :
  inkey_value true ONil = Ok ONil /\ sconcat oconcat [inkey_chunk_v0 true ONil] = Err e_node.
Proof. exact nil_under_key_v0. Qed.
Print Assumptions nil_under_input_key_v0_refuted.

Theorem nil_under_input_key_agrees :
  forall iface v, agree (inkey_value iface v) (sconcat oconcat [inkey_chunk iface v]).
Proof. exact nil_under_key_fixed. Qed.
Print Assumptions nil_under_input_key_agrees.
