(* Props/C04.v — property C04: Invoke, Stream, Collect and Transform of a compiled graph
   agree.  Only statements, each closed by [exact]; the proofs are in Proofs/Paradigm*.v. *)
From Eino Require Import Base.Util Model.Paradigm Model.StreamOps Model.ParadigmProg
  Proofs.Paradigm.

(* ------------------------------------------------------------------ node level *)

(* Every non-empty subset of native implementations yields all four views
   (newRunnablePacker never leaves a view nil) — and the empty subset none (AnyLambda
   rejects it). *)
Theorem derive_total :
  forall (A B : Type) (cA : list A -> res A) (cB : list B -> res B) (n : node A B),
    has_any n = true -> exists v, derive cA cB n = Some v.
Proof. exact derive_total_lem. Qed.
Print Assumptions derive_total.

Theorem derive_only_nonempty :
  forall (A B : Type) (cA : list A -> res A) (cB : list B -> res B) (n : node A B),
    has_any n = false -> derive cA cB n = None.
Proof. exact derive_none. Qed.
Print Assumptions derive_only_nonempty.

(* The native implementation a view calls is the first implemented one of its row of the
   table [order] (the row is what the correspondence run observes call by call). *)
Theorem used_is_first :
  forall (A B : Type) (n : node A B) target p,
    used n target = Some p ->
    has n p = true /\
    exists pre post, order target = pre ++ p :: post /\ forall q, In q pre -> has n q = false.
Proof. exact used_first. Qed.
Print Assumptions used_is_first.

(* For a node whose native implementations are mutually consistent (each computes, up to
   concatenation, the same function f of the whole input), whichever non-empty subset it
   implements and for every non-empty input stream (any chunking, error items included):
   concatenating what Transform delivers = what Collect returns = Invoke on the
   concatenated input; concatenating what Stream delivers = Invoke.  A failure on one side
   is a failure on the other ([agree]). *)
Theorem views_agree :
  forall (A B : Type) (cA : list A -> res A) (cB : list B -> res B) (n : node A B) (f : A -> res B),
    node_consistent A B cA cB n f -> has_any n = true ->
    forall st, st <> [] ->
      agree (sconcatR cB (view_T cA n st)) (res_bind (sconcat cA st) (view_I cB n))
      /\ agree (view_C cA cB n st) (res_bind (sconcat cA st) (view_I cB n))
      /\ forall x, agree (sconcatR cB (view_S n x)) (view_I cB n x).
Proof. exact views_agree_lem. Qed.
Print Assumptions views_agree.
