(* Props/C11.v — theorems of property C11 (statements only; proofs in Proofs/StateLock*.v). *)
From Eino Require Import Base.Util Model.StateLock Proofs.StateLock.
Open Scope N_scope.

Theorem cs_counts_once : forall k n x s,
  s_total (snd (cs_fun k n x s)) = (s_total s + 1)%Z /\
  s_log (snd (cs_fun k n x s)) = s_log s ++ [code n k].
Proof. exact cs_fun_counts_once. Qed.
Print Assumptions cs_counts_once.
