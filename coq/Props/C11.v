(* Props/C11.v — theorems of property C11: graph state is per run and accessed under mutual
   exclusion (statements only; proofs in Proofs/StateLock*.v).

   Object: the transition system [pstep] of Model/StateLockLTS.v — one lock per state object,
   critical sections (state pre-handler, state post-handler, ProcessState callback) in four
   micro-steps, node goroutines and run-loop moves interleaved in every possible way, nested
   graph instances, resume. [preach c]: c is reachable by any sequence of [pstep] moves;
   [reach] adds the scheduling constraints of the run loop and is included in [preach]. All
   theorems quantify over every state type, value type, generator, handler functions,
   forest of graphs, input and every reachable configuration (= every interleaving, every
   nesting, every interrupt point). Corr/C11.v makes this very transition system replay the
   log observed on the implementation ([drive], [drive_sound]) and compares what it
   computes with what was observed. *)
From Eino Require Import Base.Util Model.StateLock Model.StateLockLTS Model.StateLockDrive Model.StateLockType
  Model.StateLockCode Model.StatePlumb Model.StateAddNode Model.StateTask.
From Eino Require Import Proofs.StateLockLTS Proofs.StateLockVal Proofs.StateLockOrder Proofs.StateLockFlow
  Proofs.StateLockOwn Proofs.StateLockAcq Proofs.StateLockNest Proofs.StateLockLive Proofs.StateLockDrive Proofs.StateLock
  Proofs.StateLockType Proofs.StateLockRun Proofs.StateLockCode Proofs.StatePlumb Proofs.StateAddNode Proofs.StateTask.
From Coq Require Import Permutation Sorted.
Open Scope N_scope.

(* the run loop's scheduling only removes interleavings *)
Theorem reach_included :
  forall (S X : Type) (gen : nat -> S) (hfun : kind -> N -> X -> S -> X * S) (lout : N -> X -> X)
         (mrg : list X -> X) (f : forest) (x0 : X) (c : config S X),
  reach S X gen hfun lout mrg f x0 c -> preach S X gen hfun lout mrg f x0 c.
Proof. exact reach_preach. Qed.

(* pre-handlers, post-handlers and ProcessState callbacks on the same state object are
   mutually exclusive: two critical sections in progress on one object are the same one *)
Theorem mutex :
  forall (S X : Type) (gen : nat -> S) (hfun : kind -> N -> X -> S -> X * S) (lout : N -> X -> X)
         (mrg : list X -> X) (f : forest) (x0 : X) (c : config S X),
  preach S X gen hfun lout mrg f x0 c ->
  forall i n i' n' o, in_cs S X c i n o -> in_cs S X c i' n' o -> i = i' /\ n = n'.
Proof. exact mutex_preach. Qed.

(* no lock is leaked: a lock that is held is held by a node inside a critical section whose
   next step (load, store, release) is enabled - nobody can block the holder *)
Theorem held_lock_released :
  forall (S X : Type) (gen : nat -> S) (hfun : kind -> N -> X -> S -> X * S) (lout : N -> X -> X)
         (mrg : list X -> X) (f : forest) (x0 : X) (c : config S X),
  preach S X gen hfun lout mrg f x0 c ->
  forall o r i n, nth_error (c_objs c) o = Some r -> o_holder r = Some (i, n) ->
    exists ch c', (ch = ChLoad i n \/ ch = ChStore i n \/ ch = ChRel i n) /\
                  pstep S X gen hfun lout mrg f x0 c ch = Some c'.
Proof. exact held_lock_released_preach. Qed.

(* no update is lost: the value of a state object is, at every moment, the fold of the
   effects of all critical sections performed on it, in the order in which they held the
   lock, starting from the value the object was created with *)
Theorem no_lost_update :
  forall (S X : Type) (gen : nat -> S) (hfun : kind -> N -> X -> S -> X * S) (lout : N -> X -> X)
         (mrg : list X -> X) (f : forest) (x0 : X) (c : config S X),
  preach S X gen hfun lout mrg f x0 c ->
  forall o r, nth_error (c_objs c) o = Some r ->
    o_val r = apply_all S X hfun (hist S X c o) (o_init r).
Proof. exact no_lost_update_preach. Qed.

(* the log [hist] that no_lost_update folds over (sections in the order their user functions
   completed) is the order in which the lock of the object was acquired: per object the
   acquisition log equals the completion log, plus at most the holder's section in progress *)
Theorem acquisition_order :
  forall (S X : Type) (gen : nat -> S) (hfun : kind -> N -> X -> S -> X * S) (lout : N -> X -> X)
         (mrg : list X -> X) (f : forest) (x0 : X) (c : config S X),
  preach S X gen hfun lout mrg f x0 c ->
  forall o r, nth_error (c_objs c) o = Some r ->
    match o_holder r with
    | None => acq_of S X c o = done_of S X c o
    | Some (i, n) => acq_of S X c o = done_of S X c o \/
                     exists k, acq_of S X c o = done_of S X c o ++ [(i, n, k)]
    end.
Proof. exact acquisition_order_preach. Qed.

(* ... and for effects that commute, of any order of them *)
Theorem no_lost_update_any_order :
  forall (S X : Type) (gen : nat -> S) (hfun : kind -> N -> X -> S -> X * S) (lout : N -> X -> X)
         (mrg : list X -> X) (f : forest) (x0 : X) (c : config S X),
  preach S X gen hfun lout mrg f x0 c ->
  forall o r l', nth_error (c_objs c) o = Some r -> Permutation (hist S X c o) l' ->
    (forall e1 e2 s, In e1 (hist S X c o) -> In e2 (hist S X c o) ->
       eff S X hfun e1 (eff S X hfun e2 s) = eff S X hfun e2 (eff S X hfun e1 s)) ->
    o_val r = apply_all S X hfun l' (o_init r).
Proof. exact no_lost_update_commutative. Qed.

(* a node's pre-handler runs before it, its ProcessState callbacks one after the other,
   its post-handler after it, none of them twice: what one node of one graph instance has
   performed is always an initial segment of [full_kinds] (pre, bodies in order, post),
   all of it once the node's output is final *)
Theorem pre_node_post_order :
  forall (S X : Type) (gen : nat -> S) (hfun : kind -> N -> X -> S -> X * S) (lout : N -> X -> X)
         (mrg : list X -> X) (f : forest) (x0 : X) (c : config S X),
  preach S X gen hfun lout mrg f x0 c ->
  forall i J G n a s,
    nth_error (c_insts c) i = Some J -> nth_error f (i_graph J) = Some G ->
    find_in_graph n (g_nodes G) = Some a -> get_ns S X J n = Some s ->
    (exists rest, node_tr S X c i n ++ rest = full_kinds a) /\
    (forall y, ns_pos s = PFin y -> node_tr S X c i n = full_kinds a) /\
    StronglySorted kind_before (full_kinds a).
Proof. exact node_order_preach. Qed.

(* order across nodes: when a critical section of node b is logged, every predecessor of b
   has performed all its critical sections and performs none afterwards (so what a
   post-handler returned is settled before any successor starts) *)
Theorem preds_before_succs :
  forall (S X : Type) (gen : nat -> S) (hfun : kind -> N -> X -> S -> X * S) (lout : N -> X -> X)
         (mrg : list X -> X) (f : forest) (x0 : X) (c : config S X),
  preach S X gen hfun lout mrg f x0 c ->
  forall t1 eb t2, c_trace c = t1 ++ eb :: t2 ->
  forall J G b, nth_error (c_insts c) (t_inst eb) = Some J -> nth_error f (i_graph J) = Some G ->
    find_in_graph (n_id (t_node eb)) (g_nodes G) = Some b ->
  forall p a, In p (n_preds b) -> find_in_graph p (g_nodes G) = Some a ->
    kinds_in S X (t_inst eb) p t1 = full_kinds a /\ kinds_in S X (t_inst eb) p (eb :: t2) = [].
Proof. exact preds_before_succs_preach. Qed.

(* a graph node's pre-handler runs before everything inside the nested graph and its
   post-handler after: when a critical section of a nested instance is logged, the node that
   runs the instance has performed exactly its pre-handler (programs whose graphs list every
   node after its predecessors, with distinct ids: [topo_ok], evaluated on every case) *)
Theorem nested_between :
  forall (S X : Type) (gen : nat -> S) (hfun : kind -> N -> X -> S -> X * S) (lout : N -> X -> X)
         (mrg : list X -> X) (f : forest) (x0 : X) (c : config S X),
  preach S X gen hfun lout mrg f x0 c -> topo_ok f = true ->
  forall t1 ec t2, c_trace c = t1 ++ ec :: t2 ->
  forall CI i, nth_error (c_insts c) (t_inst ec) = Some CI -> i_parent CI = Some i ->
  exists J G n a, nth_error (c_insts c) i = Some J /\ nth_error f (i_graph J) = Some G /\
    find_in_graph n (g_nodes G) = Some a /\ n_sub a = Some (i_graph CI) /\
    kinds_in S X i n (t1 ++ [ec]) = pre_k a.
Proof. exact nested_between_preach. Qed.

(* the values the handlers return are what the node and its successors receive: every
   critical section received the value [exp_in] determines from what earlier handlers
   returned (node input = merge of the predecessors' final outputs; input of the body =
   what the pre-handler returned; input of the post-handler = the node's output; final
   output = what the post-handler returned), it returned what the user function computed
   from that value and the state it found, and every register of every node holds the
   value determined the same way ([reg_ok]) *)
Theorem handler_values_flow :
  forall (S X : Type) (gen : nat -> S) (hfun : kind -> N -> X -> S -> X * S) (lout : N -> X -> X)
         (mrg : list X -> X) (f : forest) (x0 : X) (c : config S X),
  preach S X gen hfun lout mrg f x0 c ->
  (forall e, In e (c_trace c) ->
     exp_in S X lout mrg f c (t_inst e) (t_node e) (t_kind e) (t_x e) /\
     t_out e = fst (hfun (t_kind e) (n_id (t_node e)) (t_x e) (t_seen e))) /\
  (forall i J G n a s,
     nth_error (c_insts c) i = Some J -> nth_error f (i_graph J) = Some G ->
     find_in_graph n (g_nodes G) = Some a -> get_ns S X J n = Some s ->
     reg_ok S X lout mrg f c i a (ns_pos s) (ns_cs s)).
Proof. exact handler_values_flow_preach. Qed.

(* state is per run and per stateful graph instance: instances of different runs never
   see the same object; two instances of graphs that declare state never see the same
   object; a graph that declares state sees an object of its own; a nested graph without
   state sees exactly what its parent sees; an object made by a generator starts from the
   generated value; one generator call per object made *)
Theorem fresh_state_per_run_and_nesting :
  forall (S X : Type) (gen : nat -> S) (hfun : kind -> N -> X -> S -> X * S) (lout : N -> X -> X)
         (mrg : list X -> X) (f : forest) (x0 : X) (c : config S X),
  preach S X gen hfun lout mrg f x0 c ->
  (forall i i' J J' o, nth_error (c_insts c) i = Some J -> nth_error (c_insts c) i' = Some J' ->
      i_obj J = Some o -> i_obj J' = Some o -> i_run J = i_run J') /\
  (forall i i' J J' o, nth_error (c_insts c) i = Some J -> nth_error (c_insts c) i' = Some J' ->
      stateful S X f J = true -> stateful S X f J' = true ->
      i_obj J = Some o -> i_obj J' = Some o -> i = i') /\
  (forall i J, nth_error (c_insts c) i = Some J -> stateful S X f J = true ->
      exists o r, i_obj J = Some o /\ nth_error (c_objs c) o = Some r /\ o_inst r = i) /\
  (forall i J, nth_error (c_insts c) i = Some J -> stateful S X f J = false ->
      match i_parent J with
      | None => i_obj J = None
      | Some pi => exists PJ, nth_error (c_insts c) pi = Some PJ /\ i_obj J = i_obj PJ /\ i_run PJ = i_run J
      end) /\
  (forall o r g, nth_error (c_objs c) o = Some r -> o_origin r = OGen g ->
      o_init r = gen g /\ exists K, nth_error (c_insts c) (o_inst r) = Some K /\ i_graph K = g) /\
  c_gens c = flat_map (ogen S) (c_objs c).
Proof. exact fresh_state_preach. Qed.

(* a handler never works on another run's state, at any time in the past: all critical sections
   ever logged on one state object were performed by graph instances of one and the same run
   (fresh_state_per_run_and_nesting is about who sees an object now; this is about the whole log,
   across resumes) *)
Theorem one_run_per_object :
  forall (S X : Type) (gen : nat -> S) (hfun : kind -> N -> X -> S -> X * S) (lout : N -> X -> X)
         (mrg : list X -> X) (f : forest) (x0 : X) (c : config S X),
  preach S X gen hfun lout mrg f x0 c ->
  forall e1 e2, In e1 (c_trace c) -> In e2 (c_trace c) -> t_obj e1 = t_obj e2 ->
    exists J1 J2, nth_error (c_insts c) (t_inst e1) = Some J1 /\ nth_error (c_insts c) (t_inst e2) = Some J2 /\
                  i_run J1 = i_run J2.
Proof. exact one_run_per_object_preach. Qed.

(* which state a handler / a ProcessState call finds (compose/state.go getState), and of which
   type (compose/graph.go AddNode's checks): in a forest that is a tree of nested graphs
   ([nest_ok], evaluated on every case) every graph instance sees no object if no enclosing
   graph declares state, otherwise an object that was made - through any number of resumes -
   by the generator of the NEAREST enclosing graph that declares state ([owner_of]); hence in a
   program AddNode accepts ([build_err_t] = false) a node with a state handler always finds
   the state of its own graph, which has the type the handler is written for, and when
   [must_fail_t] = false every ProcessState call finds a state of the type it is written for:
   neither "have not set state" nor "unexpected state type" can happen, in any interleaving,
   nesting or after any resume *)
Theorem state_lookup_well_typed :
  forall (S X : Type) (gen : nat -> S) (hfun : kind -> N -> X -> S -> X * S) (lout : N -> X -> X)
         (mrg : list X -> X) (f : forest) (x0 : X) (c : config S X) (gty : list N) (nty : typing),
  preach S X gen hfun lout mrg f x0 c -> nest_ok f = true ->
  (forall i J, nth_error (c_insts c) i = Some J ->
     match owner_of f (i_graph J) with
     | None => i_obj J = None
     | Some og => exists o, i_obj J = Some o /\
                            forall fuel, (o < fuel)%nat -> obj_root fuel (c_objs c) o = Some og
     end) /\
  (build_err_t f gty nty = false ->
   forall i J G a, nth_error (c_insts c) i = Some J -> nth_error f (i_graph J) = Some G -> In a (g_nodes G) ->
     (n_pre a = true -> owner_of f (i_graph J) = Some (i_graph J) /\ t_pre nty a = gty_of gty (i_graph J)) /\
     (n_post a = true -> owner_of f (i_graph J) = Some (i_graph J) /\ t_post nty a = gty_of gty (i_graph J))) /\
  (must_fail_t f gty nty = false ->
   forall i J G a, nth_error (c_insts c) i = Some J -> nth_error f (i_graph J) = Some G -> In a (g_nodes G) ->
     n_sub a = None -> (0 < n_ps a)%nat ->
     exists og, owner_of f (i_graph J) = Some og /\ t_ps nty a = gty_of gty og).
Proof. exact state_lookup_well_typed_preach. Qed.

(* the state is carried unchanged, apart from the caller's modifier, across interrupt and
   resume: the object made at resume starts from m applied to the fold of everything that
   happened to the old object, nobody sees the old object again, and what happens after
   the resume is folded on top *)
Theorem state_survives_resume :
  forall (S X : Type) (gen : nat -> S) (hfun : kind -> N -> X -> S -> X * S) (lout : N -> X -> X)
         (mrg : list X -> X) (f : forest) (x0 : X) (c : config S X),
  preach S X gen hfun lout mrg f x0 c ->
  forall o' r' o m, nth_error (c_objs c) o' = Some r' -> o_origin r' = OResumed o m ->
  exists r, nth_error (c_objs c) o = Some r /\ (o < o')%nat /\ dead S X c o /\ o_holder r = None /\
            o_inst r' = o_inst r /\
            o_init r' = m (apply_all S X hfun (hist S X c o) (o_init r)) /\
            o_val r' = apply_all S X hfun (hist S X c o')
                                 (m (apply_all S X hfun (hist S X c o) (o_init r))).
Proof. exact state_survives_resume_preach. Qed.

(* the critical-section function of the harness counts and logs every section once *)
Theorem cs_counts_once : forall k n x s,
  s_total (snd (cs_fun k n x s)) = (s_total s + 1)%Z /\
  s_log (snd (cs_fun k n x s)) = s_log s ++ [code n k].
Proof. exact cs_fun_counts_once. Qed.

(* hence the counter kept in the state = number of critical sections performed on it, and
   the log kept in the state = these sections in lock order (what the harness compares) *)
Theorem final_counters : forall f x0 c,
  preach sstate X gen_state cs_fun leaf_out merge f x0 c ->
  forall o r, nth_error (c_objs c) o = Some r ->
    s_total (o_val r) = (s_total (o_init r) + Z.of_nat (List.length (hist sstate X c o)))%Z /\
    s_log (o_val r) = s_log (o_init r) ++ map code_of (hist sstate X c o).
Proof. exact final_counters_preach. Qed.

(* the model can express the defect: with a lock that does not block (what a handler that
   forgets the mutex amounts to) an update is lost and two sections overlap *)
Theorem no_lost_update_without_lock_refuted :
  ~ (forall l c, run_steps sstate X (pstep_nolock sstate X gen_state cs_fun leaf_out merge ex_forest ex_x0)
                           (init_cfg sstate X) l = Some c ->
       forall o r, nth_error (c_objs c) o = Some r ->
         o_val r = apply_all sstate X cs_fun (hist sstate X c o) (o_init r)).
Proof. exact no_lost_update_nolock_refuted. Qed.

Theorem mutex_without_lock_refuted :
  ~ (forall l c, run_steps sstate X (pstep_nolock sstate X gen_state cs_fun leaf_out merge ex_forest ex_x0)
                           (init_cfg sstate X) l = Some c ->
       forall i n i' n' o, in_cs sstate X c i n o -> in_cs sstate X c i' n' o -> i = i' /\ n = n').
Proof. exact mutex_nolock_refuted. Qed.

(* the configuration Corr/C11.v computes from an observed log is reachable *)
Theorem drive_reachable : forall f x0 runs l c,
  drive f x0 runs l = DOk c -> preach sstate X gen_state cs_fun leaf_out merge f x0 c.
Proof. exact drive_sound. Qed.

(* ---- the code of compose/state.go, graph.go, graph_run.go as programs (translator tie: the Gen
   counterparts, re-read from the source by tools/go2v on every run, are proved to behave like /
   be equal to these programs in Proofs/GenAgreeStateLock.v and Proofs/GenAgreeStatePlumb.v) *)

(* each of the five wrappers around a user function (the closures of convertPreHandler,
   convertPostHandler, streamConvertPreHandler, streamConvertPostHandler; ProcessState), for every
   answer of getState and whether the user function returns, returns an error or panics: nothing at
   all when no state is found, otherwise acquire; user function under the lock, with the state
   found next to that lock; release — the mutex free on every exit *)
Theorem critical_section_code_meets_protocol : forall w found h,
  run_prog found h (cs_prog w) = cs_spec found h.
Proof. exact wrappers_meet_protocol. Qed.

Theorem critical_section_protocol_safe : forall found h,
  let o := cs_spec found h in
  (forall held have, In (ACall held have) (o_trace o) -> held = true /\ have = true) /\
  o_held o = false /\
  (o_exit o = ERet \/ o_exit o = EPanic) /\
  (found = false -> o_trace o = []) /\
  (found = true -> o_trace o = [AAcq; ACall true true; ARel]).
Proof. exact protocol_safe. Qed.

(* the critical section of the transition system — what the replay performs for every observed
   section — is the script of the trace of the wrapper's code, whatever the user function does
   (returns, returns an error, panics: in all three cases its update is made and the lock released) *)
Theorem critical_section_is_code_script :
  forall (S X : Type) (gen : nat -> S) (hfun : kind -> N -> X -> S -> X * S) (lout : N -> X -> X)
         (mrg : list X -> X) (f : forest) (x0 : X) w h (c : config S X) i n,
    do_cs S X gen hfun lout mrg f x0 c i n =
    run_steps S X (pstep S X gen hfun lout mrg f x0) c (script (o_trace (run_prog true h (cs_prog w))) i n).
Proof. exact do_cs_is_wrapper_script. Qed.

(* the lock a critical section takes is the mutex getState returns: that of the very holder whose
   state the user function is given, found under the state key of the node's context; and where
   getState finds nothing no critical section begins *)
Theorem lock_taken_is_the_found_holders :
  forall (S X : Type) (gen : nat -> S) (hfun : kind -> N -> X -> S -> X * S) (lout : N -> X -> X)
         (mrg : list X -> X) (f : forest) (x0 : X) (c : config S X) i n c' J a s,
    lookup S X f c i n = Some (J, a, s) ->
    pstep S X gen hfun lout mrg f x0 c (ChAcq i n) = Some c' ->
    exists o r, gs S X c J = GsOk r o /\ o_holder r = None /\
                nth_error (c_objs c') o = Some (with_holder S r (Some (i, n))).
Proof. exact acq_locks_what_get_state_finds. Qed.

Theorem no_state_no_critical_section :
  forall (S X : Type) (gen : nat -> S) (hfun : kind -> N -> X -> S -> X * S) (lout : N -> X -> X)
         (mrg : list X -> X) (f : forest) (x0 : X) (c : config S X) i n J a s,
    lookup S X f c i n = Some (J, a, s) ->
    gs S X c J = GsErr ENoState ->
    pstep S X gen hfun lout mrg f x0 c (ChAcq i n) = None.
Proof. exact no_state_no_section. Qed.

(* where the state object comes from: the start of an instance in the transition system is the
   start block of runner.run (a graph that declares state binds the state key to a NEW holder with
   what its generator returns; a graph without state keeps the context it was given) *)
Theorem instance_start_is_start_block :
  forall (S X : Type) (gen : nat -> S) (c : config S X) r g G parent inherited x,
    let c' := new_inst S X gen c r g G parent inherited x in
    exists st' J,
      pexec S (mkPE (g_state G) (gen g) None 0) start_block (st_of S X c inherited) = Some st' /\
      ps_objs st' = map (@o_val S) (c_objs c') /\
      nth_error (c_insts c') (List.length (c_insts c)) = Some J /\
      i_obj J = ps_ctx st' KState /\ i_run J = r /\ i_graph J = g /\ i_parent J = parent.
Proof. exact new_inst_is_start_block. Qed.

(* the resume step of the transition system is the save block of the interrupt handlers followed by
   a resume block of runner.run: the holder's value is saved, the caller's modifier applied to it
   exactly once, the result put into a NEW holder before the restored tasks are created, and every
   instance that saw the old holder sees the new one *)
Theorem resume_step_is_save_then_resume :
  forall (S X : Type) (gen : nat -> S) (hfun : kind -> N -> X -> S -> X * S) (lout : N -> X -> X)
         (mrg : list X -> X) (f : forest) (x0 : X) rb (c : config S X) o om c',
    rb = resume_sub_block \/ rb = resume_top_block ->
    pstep S X gen hfun lout mrg f x0 c (ChResume o (mod_fun om)) = Some c' ->
    exists r st',
      nth_error (c_objs c) o = Some r /\
      pexec S (mkPE true (o_val r) om 0) (save_block ++ rb) (st_of S X c (Some o)) = Some st' /\
      ps_objs st' = map (@o_val S) (c_objs c') /\
      ps_ctx st' KState = Some (List.length (c_objs c)) /\
      ps_restored st' = [Some (List.length (c_objs c))] /\
      ps_modcalls st' = (match om with Some _ => 1 | None => 0 end)%nat /\
      (forall J, i_obj J = Some o -> i_obj (remap S X o (List.length (c_objs c)) J) = ps_ctx st' KState).
Proof. exact resume_step_is_save_then_resume_block. Qed.

(* a graph that declares no state saves nothing at an interrupt and leaves the context alone on
   resume: its nodes go on seeing the holder of the enclosing graph (F-C11a) *)
Theorem stateless_graph_keeps_parent_context :
  forall (S : Type) rb (g0 : S) om st,
    rb = resume_sub_block \/ rb = resume_top_block ->
    ps_cp st = None ->
    exists st', pexec S (mkPE false g0 om 0) (save_block ++ rb) st = Some st' /\
                ps_ctx st' = ps_ctx st /\ ps_objs st' = ps_objs st /\ ps_cp st' = None /\
                ps_modcalls st' = ps_modcalls st /\ ps_restored st' = ps_restored st ++ [ps_ctx st KState].
Proof. exact stateless_graph_keeps_context. Qed.

(* AddNode: the verdict [build_err_t] that Corr/C11.v evaluates on every case (and compares with what
   AddNode / Compile did) is addNode's decision function applied to every node of every graph; every
   public option that attaches a state handler marks the node as needing the graph state, records the
   handler's state type on the handler's side and wraps the handler by the locking converter of that side *)
Theorem build_err_is_add_node_decision : forall f gty nty,
  build_err_t f gty nty = build_err_nodes f gty nty.
Proof. exact build_err_t_is_add_node. Qed.

Theorem state_handler_options_consistent :
  forall o w hs ts need, In (o, (w, (hs, (ts, need)))) handler_options ->
    need = true /\ hs = ts /\
    (hs = SPre -> wrapper_is w KPre = true) /\ (hs = SPost -> wrapper_is w KPost = true).
Proof. exact handler_options_consistent. Qed.

(* the task manager's treatment of a node's state handlers (programs of Model/StateTask.v = the loop of
   taskManager.submit, the node call of taskManager.executor, the tail of taskManager.waitOne), for every
   pre-processor, node and post-processor: the pre-handler is called exactly once on the task's input and
   what it returns is what the node is called with; the post-handler exactly once on the node's output and
   what it returns is the task's output; a skipped pre-handler and a failed node call neither; a failing
   pre-handler fails the submit before the node is called *)
Theorem task_handler_pipeline :
  forall (X : Type) has_pre skip has_post (proc : tproc -> X -> X * bool) x d,
    let runs := pre_runs has_pre skip in
    let x1 := if runs then fst (proc TPre x) else x in
    let pre_call := if runs then [(TPre, x)] else [] in
    if runs && snd (proc TPre x) then
      exists st, run_task X has_pre skip has_post proc x d = RFail st /\ ts_calls st = [(TPre, x)]
    else
      exists st, run_task X has_pre skip has_post proc x d = RRet st /\ ts_in st = x1 /\
      if snd (proc TAction x1) then
        ts_err st = true /\ ts_out st = fst (proc TAction x1) /\ ts_calls st = pre_call ++ [(TAction, x1)]
      else if has_post then
        ts_out st = fst (proc TPost (fst (proc TAction x1))) /\
        ts_err st = snd (proc TPost (fst (proc TAction x1))) /\
        ts_calls st = pre_call ++ [(TAction, x1); (TPost, fst (proc TAction x1))]
      else
        ts_out st = fst (proc TAction x1) /\ ts_err st = false /\ ts_calls st = pre_call ++ [(TAction, x1)].
Proof. exact task_pipeline. Qed.

(* ... and the transition system does the same with its registers: the store step of a critical section
   puts the handler's result into the node's register; after a pre-handler that is the node's input, after
   a post-handler the final output, after a ProcessState callback what the lambda goes on with *)
Theorem handler_result_is_the_register :
  forall (S X : Type) (gen : nat -> S) (hfun : kind -> N -> X -> S -> X * S) (lout : N -> X -> X)
         (mrg : list X -> X) (f : forest) (x0 : X) (c : config S X) i n J a p l k x o r,
    lookup S X f c i n = Some (J, a, mkNs p (Some (CsLoaded l))) ->
    next_cs X a p = Some k -> pos_x X p = Some x -> i_obj J = Some o -> nth_error (c_objs c) o = Some r ->
    pstep S X gen hfun lout mrg f x0 c (ChStore i n) =
    Some (set_inst S X (add_trace S X (set_obj S X c o (with_val S r (snd (hfun k (n_id a) x l))))
                                  (mkT o i a k x l (fst (hfun k (n_id a) x l)))) i
                   (set_ns S X J n (mkNs (set_x X p (fst (hfun k (n_id a) x l))) (Some CsStored)))).
Proof. exact store_sets_register. Qed.

Theorem register_after_handler : forall (X : Type) (x x' : X) (j : nat),
  after_cs X (set_x X (PReady x) x') = PPred x' /\
  after_cs X (set_x X (PDone x) x') = PFin x' /\
  after_cs X (set_x X (PRun x j) x') = PRun x' (Datatypes.S j).
Proof. exact handler_result_is_register. Qed.

Print Assumptions reach_included.
Print Assumptions mutex.
Print Assumptions held_lock_released.
Print Assumptions no_lost_update.
Print Assumptions acquisition_order.
Print Assumptions no_lost_update_any_order.
Print Assumptions pre_node_post_order.
Print Assumptions preds_before_succs.
Print Assumptions nested_between.
Print Assumptions handler_values_flow.
Print Assumptions fresh_state_per_run_and_nesting.
Print Assumptions state_survives_resume.
Print Assumptions state_lookup_well_typed.
Print Assumptions one_run_per_object.
Print Assumptions cs_counts_once.
Print Assumptions final_counters.
Print Assumptions no_lost_update_without_lock_refuted.
Print Assumptions mutex_without_lock_refuted.
Print Assumptions drive_reachable.
Print Assumptions critical_section_code_meets_protocol.
Print Assumptions critical_section_protocol_safe.
Print Assumptions critical_section_is_code_script.
Print Assumptions lock_taken_is_the_found_holders.
Print Assumptions no_state_no_critical_section.
Print Assumptions instance_start_is_start_block.
Print Assumptions resume_step_is_save_then_resume.
Print Assumptions stateless_graph_keeps_parent_context.
Print Assumptions build_err_is_add_node_decision.
Print Assumptions state_handler_options_consistent.
Print Assumptions task_handler_pipeline.
Print Assumptions handler_result_is_the_register.
Print Assumptions register_after_handler.

(* ------------------------------------------------------------------ non-vacuity *)

Notation ex_preach := (preach sstate X gen_state cs_fun leaf_out merge ex_forest ex_x0).

(* reach / preach are inhabited by complete, interleaved runs *)
Example ex_final_reach : reach sstate X gen_state cs_fun leaf_out merge ex_forest ex_x0 ex_final.
Proof. apply ex_run_reach. Qed.
Example ex_final_complete :
  all_final sstate X ex_final = true /\ List.length (c_trace ex_final) = 13%nat /\
  List.length (c_insts ex_final) = 2%nat.
Proof. vm_compute. auto. Qed.

(* mutex: a reachable configuration with a critical section in progress; a parallel node
   whose ProcessState call is due cannot take the lock, and can once it is released *)
Example ex_mutex_hyp : ex_preach ex_contend /\ in_cs sstate X ex_contend 0%nat 1 0%nat.
Proof.
  split; [apply ex_contend_preach|].
  eexists _, _, _. vm_compute. repeat split; reflexivity.
Qed.
Example ex_mutex_blocks :
  ex_pstep ex_contend (ChAcq 0%nat 2) = None /\
  (exists c1 c2 c3, ex_pstep ex_contend (ChStore 0%nat 1) = Some c1 /\ ex_pstep c1 (ChRel 0%nat 1) = Some c2 /\
                    ex_pstep c2 (ChAcq 0%nat 2) = Some c3).
Proof.
  split; [vm_compute; reflexivity|].
  eexists _, _, _. vm_compute. repeat split; reflexivity.
Qed.

(* held_lock_released: in the contention example the lock is held *)
Example ex_held : map (@o_holder sstate) (c_objs ex_contend) = [Some (0%nat, 1)].
Proof. vm_compute. reflexivity. Qed.

(* no_lost_update: an object updated by three parallel nodes and by a nested graph's nodes,
   interleaved *)
Example ex_no_lost_update :
  map (fun e => (t_inst e, n_id (t_node e))) (hist sstate X ex_final 0%nat) =
    [(0%nat, 3); (0%nat, 1); (0%nat, 2); (0%nat, 1); (0%nat, 2); (0%nat, 1); (1%nat, 5); (1%nat, 5);
     (0%nat, 1); (1%nat, 6); (0%nat, 4); (0%nat, 4); (0%nat, 4)] /\
  map (fun r => s_total (o_val r)) (c_objs ex_final) = [13%Z].
Proof. vm_compute. auto. Qed.

(* acquisition_order: while node 1 holds the lock its section is the one acquisition not yet
   completed *)
Example ex_acq : acq_of sstate X ex_contend 0%nat = done_of sstate X ex_contend 0%nat ++ [(0%nat, 1, KBody 0)] /\
                 acq_of sstate X ex_final 0%nat = done_of sstate X ex_final 0%nat.
Proof. vm_compute. auto. Qed.

(* pre_node_post_order: node 1 of the example performs pre, two bodies, post *)
Example ex_order : node_tr sstate X ex_final 0%nat 1 = [KPre; KBody 0; KBody 1; KPost] /\
                   node_tr sstate X ex_mid 0%nat 1 = [].
Proof. vm_compute. auto. Qed.

(* preds_before_succs / nested_between: the example program is well formed; the log splits at
   a section of the join node 4 (after all sections of its predecessors 1, 2) and at a section
   of the nested instance 1 (the enclosing node 3 has performed its pre-handler only) *)
Example ex_topo : topo_ok ex_forest = true.
Proof. vm_compute. reflexivity. Qed.
Example ex_cross :
  exists t1 eb t2, c_trace ex_final = t1 ++ eb :: t2 /\ t_inst eb = 0%nat /\ n_id (t_node eb) = 4 /\
    kinds_in sstate X 0%nat 1 t1 = [KPre; KBody 0; KBody 1; KPost] /\
    kinds_in sstate X 0%nat 2 t1 = [KBody 0; KPost].
Proof.
  exists (firstn 10 (c_trace ex_final)), (nth 10 (c_trace ex_final) (mkT 0 0 (mkNode 0 false false None 0 []) KPre [] (gen_state 0) [])),
         (skipn 11 (c_trace ex_final)).
  vm_compute. repeat split; reflexivity.
Qed.
Example ex_nested :
  exists t1 ec t2, c_trace ex_final = t1 ++ ec :: t2 /\ t_inst ec = 1%nat /\
    map (@i_parent sstate X) (c_insts ex_final) = [None; Some 0%nat] /\
    kinds_in sstate X 0%nat 3 (t1 ++ [ec]) = [KPre].
Proof.
  exists (firstn 6 (c_trace ex_final)), (nth 6 (c_trace ex_final) (mkT 0 0 (mkNode 0 false false None 0 []) KPre [] (gen_state 0) [])),
         (skipn 7 (c_trace ex_final)).
  vm_compute. repeat split; reflexivity.
Qed.

(* handler_values_flow: the trace is not empty and the join node received the merge of
   three final outputs *)
Example ex_flow : exists e, In e (c_trace ex_final) /\ n_id (t_node e) = 4 /\ t_kind e = KPre /\
                            List.length (t_x e) = 3%nat.
Proof. eexists. vm_compute. repeat split; [do 10 right; left; reflexivity|..]; reflexivity. Qed.

(* fresh_state: two instances (top-level graph with state, nested graph without state) see
   the one object made by the one generator call *)
Example ex_fresh : map (@i_obj sstate X) (c_insts ex_final) = [Some 0%nat; Some 0%nat] /\
                   c_gens ex_final = [0%nat].
Proof. vm_compute. auto. Qed.

(* state_survives_resume: a reachable configuration with a resumed object *)
Example ex_resume : ex_preach ex_resumed /\
  map (fun r => (s_total (o_val r), s_total (o_init r),
                 match o_origin r with OGen _ => 0 | OResumed o _ => 1 + N.of_nat o end)) (c_objs ex_resumed)
  = [(1%Z, 0%Z, 0); (100002%Z, 100001%Z, 1)].
Proof. split; [apply ex_resumed_preach|]. vm_compute. reflexivity. Qed.

(* state_lookup_well_typed: the example forest (graph 0 declares state, the nested graph 1 does
   not) is a tree, passes the checks with both graphs typed 0, the nested graph's nodes see the
   state of graph 0, also after a resume; a handler on the stateless nested graph is refused,
   a ProcessState call for another type must fail *)
Example ex_typed :
  nest_ok ex_forest = true /\ build_err_t ex_forest [0; 0] [] = false /\ must_fail_t ex_forest [0; 0] [] = false /\
  owner_of ex_forest 1%nat = Some 0%nat /\
  lookup_ok ex_forest ex_final = true /\ lookup_ok ex_forest ex_resumed = true /\
  obj_root 2 (c_objs ex_resumed) 1 = Some 0%nat /\
  must_fail_t ex_forest [0; 0] [(5, (0, (0, 1)))] = true /\
  build_err_t ex_forest [0; 0] [(1, (1, (0, 0)))] = true.
Proof. vm_compute. repeat split; reflexivity. Qed.

(* one_run_per_object: two runs of the example forest, interleaved: the sections of run 0 are
   logged on object 0, those of run 1 on object 1 *)
Example ex_two_runs :
  match drive ex_forest ex_x0 2 [IEv (mkEv 0 1 KPre 0 [] [] 0%Z); IEv (mkEv 1 1 KPre 1 [] [] 0%Z);
                                 IEv (mkEv 1 2 (KBody 0) 1 [] [] 0%Z); IEv (mkEv 0 2 (KBody 0) 0 [] [] 0%Z)] with
  | DOk c => map (fun e => (t_obj e, run_of c (t_inst e))) (c_trace c) = [(0%nat, 0); (1%nat, 1); (1%nat, 1); (0%nat, 0)]
  | DBad _ => False
  end.
Proof. vm_compute. reflexivity. Qed.

(* ... three levels: graph 0 declares state, its nested graph 1 declares its own, graph 2 nested
   in graph 1 declares none: the instances of graphs 1 and 2 both see the object made by the
   generator of graph 1 (the NEAREST one), the instance of graph 0 sees its own *)
Definition ex_forest3 : forest :=
  [ mkGraph MPregel true [ mkNode 1 false false (Some 1%nat) 0%nat [] ];
    mkGraph MDag true [ mkNode 2 false false (Some 2%nat) 0%nat [] ];
    mkGraph MPregel false [ mkNode 3 false false None 1%nat [] ] ].
Example ex_typed_nested :
  nest_ok ex_forest3 = true /\
  map (owner_of ex_forest3) [0%nat; 1%nat; 2%nat] = [Some 0%nat; Some 1%nat; Some 1%nat] /\
  must_fail_t ex_forest3 [0; 1; 0] [(3, (0, (0, 1)))] = false /\
  must_fail_t ex_forest3 [0; 1; 0] [(3, (0, (0, 0)))] = true /\
  match drive ex_forest3 ex_x0 1 [IEv (mkEv 0 3 (KBody 0) 1 ex_x0 (fst (cs_fun (KBody 0) 3 ex_x0 (gen_state 1))) 1000%Z)] with
  | DOk c => map (@i_obj sstate X) (c_insts c) = [Some 0%nat; Some 1%nat; Some 1%nat] /\
             lookup_ok ex_forest3 c = true /\
             map (fun r => s_total (o_val r)) (c_objs c) = [0%Z; 1001%Z]
  | DBad _ => False
  end.
Proof. vm_compute. repeat split; reflexivity. Qed.

(* drive: replaying the log of the interleaved example run reproduces that run's log, values
   and final state (the replay accepts what the system itself produces) *)
Example ex_drive_roundtrip :
  match drive ex_forest ex_x0 1 (items_of_trace ex_final) with
  | DOk c => all2 (entry_matches c) (c_trace c) (events_of (items_of_trace ex_final)) = true /\
             List.length (c_trace c) = 13%nat /\
             map (fun r => s_total (o_val r)) (c_objs c) = [13%Z] /\
             all_final sstate X c = true
  | DBad _ => False
  end.
Proof. vm_compute. auto. Qed.

(* drive: replaying a two-section log of the example forest succeeds *)
Example ex_drive :
  match drive ex_forest ex_x0 1
          [IEv (mkEv 0 1 KPre 0 [(0, 5%Z)] (fst (cs_fun KPre 1 [(0, 5%Z)] (gen_state 0))) 0%Z)] with
  | DOk c => List.length (c_trace c) = 1%nat
  | DBad _ => False
  end.
Proof. vm_compute. reflexivity. Qed.

(* non-vacuity of the code theorems: the wrapper's trace with a failing user function, a panicking one,
   and without state; the plumbing blocks on a run that is interrupted and resumed with a modifier *)
Example ex_code_protocol :
  o_trace (run_prog true HErrRet (cs_prog WProcess)) = [AAcq; ACall true true; ARel] /\
  o_held (run_prog true HPanic (cs_prog WSPost)) = false /\
  o_trace (run_prog false HRet (cs_prog WPre)) = [].
Proof. repeat split; reflexivity. Qed.

Example ex_plumb_roundtrip :
  let env := mkPE true 10%nat (Some Datatypes.S) 0 in
  match pexec nat env start_block (mkPS (fun _ => None) [] None [] 0) with
  | Some st1 =>
      ps_objs st1 = [10%nat] /\ ps_ctx st1 KState = Some 0%nat /\
      match pexec nat env (save_block ++ resume_top_block) st1 with
      | Some st2 => ps_objs st2 = [10; 11]%nat /\ ps_ctx st2 KState = Some 1%nat /\
                    ps_restored st2 = [Some 1%nat] /\ ps_modcalls st2 = 1%nat
      | None => False
      end
  | None => False
  end.
Proof. cbn. repeat split; reflexivity. Qed.

Example ex_add_node :
  add_node_err false true true false 0 0 0 = true /\ add_node_err true true true true 1 1 0 = true /\
  add_node_err true true true true 1 1 1 = false /\
  build_err_t [mkGraph MDag false [mkNode 1 true false None 0 []]] [0] [(1, (0, (0, 0)))] = true.
Proof. repeat split; reflexivity. Qed.

(* a node that interrupts itself and is run again (n_zero): the interrupted attempt 1 (pre-handler, one
   ProcessState call) is followed by the re-execution 1001, whose pre-handler receives the zero value,
   not what the attempt or the graph's input would deliver *)
Definition ex_rr_forest : forest :=
  [ mkGraph MDag true [ mkNode 1 true false None 1%nat []; mkNodeZ 1001 true true None 2%nat [1] true ] ].
Definition ex_rr_final : config sstate X :=
  match step sstate X gen_state cs_fun leaf_out merge ex_rr_forest ex_x0 (init_cfg sstate X) (ChStart 0) with
  | Some c => run_sched sstate X gen_state cs_fun leaf_out merge ex_rr_forest ex_x0 c (repeat 0%nat 100)
  | None => init_cfg sstate X
  end.
Example ex_rerun_zero_input :
  all_final sstate X ex_rr_final = true /\
  map (fun e => (n_id (t_node e), t_kind e, t_x e)) (c_trace ex_rr_final) =
    [(1, KPre, ex_x0); (1, KBody 0, fst (cs_fun KPre 1 ex_x0 (gen_state 0)));
     (1001, KPre, []); (1001, KBody 0, []); (1001, KBody 1, []); (1001, KPost, leaf_out 1001 [])] /\
  (exists J, nth_error (c_insts ex_rr_final) 0 = Some J /\
             is_in sstate X merge ex_rr_final 0 (mkNodeZ 1001 true true None 2%nat [1] true) []).
Proof.
  split; [vm_compute; reflexivity|]. split; [vm_compute; reflexivity|].
  eexists. split; [vm_compute; reflexivity|].
  eexists. split; [vm_compute; reflexivity|]. cbn [n_preds].
  exists [leaf_out 1 (fst (cs_fun (KBody 0) 1 (fst (cs_fun KPre 1 ex_x0 (gen_state 0))) (snd (cs_fun KPre 1 ex_x0 (gen_state 0)))))].
  split; [|reflexivity].
  constructor; [|constructor]. eexists. split; [vm_compute; reflexivity|]. vm_compute. reflexivity.
Qed.

Example ex_task_pipeline :
  let proc := fun p (x : nat) => match p with TPre => (x + 1, false) | TAction => (2 * x, false) | TPost => (x + 100, false) end%nat in
  match run_task nat true false true proc 5%nat 0%nat with
  | RRet st => ts_out st = 112%nat /\ ts_calls st = [(TPre, 5); (TAction, 6); (TPost, 12)]%nat
  | _ => False
  end.
Proof. vm_compute. split; reflexivity. Qed.
