(* Props/C06.v — property C06: interrupt points are honoured and reported exactly.
   Statements only; the lemmas are in Proofs/RunLoop.v (batch mode: Graph in any- or
   all-predecessor mode) and Proofs/RunLoopEager.v (eager mode: Workflow, every schedule).
   Generic run loop: any channel discipline, any node bodies (lambdas, nested graphs, nodes asking
   for a rerun), any pre-handlers, any interrupt-before/after sets, any position of the node
   (direct successors of START included: [start] tests the initial task set). *)
From Eino Require Import Base.Util Model.Graph Model.RunLoop Model.Interrupt Model.IntrObs
     Proofs.RunLoop Proofs.RunLoopEager Proofs.Interrupt Proofs.InterruptWitness
     Proofs.RunLoopDrive Proofs.InterruptDrive Proofs.RunLoopAfterRerun Proofs.InterruptNestedRun.
Open Scope N_scope.

Section Generic.
  Context {V CS GS ENV SCP SINFO : Type}.
  Variable zero : V.
  Variable fold : CS -> list (N * V) -> res CS.
  Variable getr : CS -> res (CS * list (N * V)).
  Variable pre : N -> V -> GS -> V * GS.
  Variable exec : N -> option SCP -> V -> ENV -> @texec V SCP SINFO * ENV.
  Variable before after : list N.

  (* ---- before_never_runs_unresumed ----
     A fresh run segment never executes the body of an interrupt-before node; a resumed segment
     executes one only if it is a pending input of the checkpoint it was resumed from — and every
     pending input of a checkpoint that is an interrupt-before node was reported by the interrupt
     that produced the checkpoint ([info_faithful] below: before list, rerun list or nested info). *)
  Theorem before_never_runs_fresh : forall fuel cs0 (gs0 : GS) x env o log env',
    start zero fold getr pre exec before after fuel cs0 gs0 x env = (o, log, env') ->
    forall ev, In ev log -> memN (ev_key ev) before = false.
  Proof. exact (start_no_before zero fold getr pre exec before after). Qed.

  Theorem before_never_runs_unresumed : forall fuel sm (c : @checkpoint V CS GS SCP) env o log env',
    resume zero fold getr pre exec before after fuel sm c env = (o, log, env') ->
    forall ev, In ev log -> memN (ev_key ev) before = true -> In (ev_key ev) (map fst (cp_inputs c)).
  Proof. exact (resume_before_only_pending zero fold getr pre exec before after). Qed.

  Theorem before_never_runs_fresh_eager : forall fuel cs0 (gs0 : GS) x sched env o log env',
    estart zero fold getr pre exec before after false fuel cs0 gs0 x sched env = (o, log, env') ->
    forall ev, In ev log -> memN (ev_key ev) before = false.
  Proof. exact (estart_no_before zero fold getr pre exec before after). Qed.

  Theorem before_never_runs_unresumed_eager : forall fuel sm (c : @checkpoint V CS GS SCP) sched env o log env',
    eresume zero fold getr pre exec before after false fuel sm c sched env = (o, log, env') ->
    forall ev, In ev log -> memN (ev_key ev) before = true -> In (ev_key ev) (map fst (cp_inputs c)).
  Proof. exact (eresume_before_only_pending zero fold getr pre exec before after). Qed.

  (* ---- after_stops_successors ----
     Batch mode: when an interrupt-after node completes in a step, that step is the last of the run
     segment, whatever the remaining budget: the segment ends Interrupted reporting the node, Done, or
     Failed; the tasks computed from its output are never submitted in this segment. *)
  Theorem after_stops_successors : forall (s : @lstate V CS GS SCP) env k,
    In k (afters after (fst (results pre exec s env))) ->
    forall fuel log, exists o,
      iterate zero fold getr pre exec before after (S fuel) s env log =
        (o, log ++ events_of (fst (submitted pre s)) (fst (results pre exec s env)), snd (results pre exec s env)) /\
      match o with
      | OInterrupted i _ => In k (ii_after i)
      | ODone _ | OFailed _ => True
      | OLimit => False
      end.
  Proof. exact (step_after_stops zero fold getr pre exec before after). Qed.

  (* Eager mode, any schedule, any set of tasks still running: when the collected task [c] (or, on the
     wait-all paths, one of the tasks [rest] collected with it) is an interrupt-after node the loop
     does not continue with the tasks created from [c]'s output, and an interrupt reports the node. *)
  Theorem after_stops_successors_eager : forall cs (gs1 : GS) (c : N * @texec V SCP SINFO) rest sched' k,
    In k (afters after (c :: rest)) ->
    match edecide zero fold getr before after false cs gs1 c rest sched' with
    | EContinue _ _ => ~ In k (afters after [c])
    | EStop (Interrupted i _) => In k (ii_after i)
    | EStop _ => True
    end.
  Proof. exact (edecide_after_stops zero fold getr pre exec before after). Qed.

  (* ---- info_faithful ----
     Whatever interrupt the loop returns (after a step, after an eager collection, or on the initial
     task set), its information is what the checkpoint holds: the state, the completed
     interrupt-after nodes, the nodes that asked for a rerun, the nested infos of exactly the nested
     checkpoints (whose nodes skip their pre-handler on resume); the reported before-nodes are
     interrupt-before nodes pending in the checkpoint; every pending interrupt-before node is
     reported (before list, rerun list, or nested info); rerun and nested nodes are pending with the
     zero input. *)
  Theorem info_faithful : forall cs (gs1 : GS) (rs : list (N * @texec V SCP SINFO)) i c,
    decide zero fold getr before after cs gs1 rs = Interrupted i c -> info_ok zero before after rs i c.
  Proof. exact (decide_info_ok zero fold getr pre exec before after). Qed.

  Theorem info_faithful_initial : forall cs0 (gs0 : GS) x i (c : @checkpoint V CS GS SCP),
    init fold getr before cs0 gs0 x = Interrupted i c ->
    info_ok (SINFO := SINFO) zero before after [] i c /\ ii_before i <> [].
  Proof. exact (init_info_ok zero fold getr pre exec before after). Qed.

  Theorem info_faithful_eager : forall cs (gs1 : GS) (c : N * @texec V SCP SINFO) rest sched' i cp,
    edecide zero fold getr before after false cs gs1 c rest sched' = EStop (Interrupted i cp) ->
    info_ok zero before after (c :: rest) i cp.
  Proof. exact (edecide_info_ok zero fold getr pre exec before after). Qed.

  (* ---- checkpoint_iff_interrupt ----
     One call (top level: nested graphs hand their checkpoint to the parent through [exec] and never
     see the store): a checkpoint is written iff the call ends with an interrupt and an id was
     given; what is written is the checkpoint of that interrupt; otherwise the store is untouched. *)
  Theorem checkpoint_iff_interrupt : forall {B : Type} (ser : @checkpoint V CS GS SCP -> B) deser
      (fresh : ENV -> @outcome V CS GS SCP SINFO * list (@event V) * ENV)
      (resumed : (GS -> GS) -> @checkpoint V CS GS SCP -> ENV -> @outcome V CS GS SCP SINFO * list (@event V) * ENV)
      with_id store sm env co store' env',
    call ser deser fresh resumed with_id store sm env = (co, store', env') ->
    (co_written co = true <-> (with_id = true /\ exists i c, co_out co = OInterrupted i c)) /\
    (forall i c, co_out co = OInterrupted i c -> with_id = true -> store' = Some (ser c)) /\
    (co_written co = false -> store' = store).
  Proof. intros B ser deser; exact (call_written_iff ser deser). Qed.

  (* ---- segment level: every interrupt a run segment returns — on the initial task set or after any
     number of steps, batch or eager under any schedule, fresh or resumed — reports every
     interrupt-before node that is pending in the checkpoint it leaves (before list, rerun list or
     nested information) ---- *)
  Theorem interrupt_reports_pending_fresh : forall fuel cs0 (gs0 : GS) x env i c log env',
    start zero fold getr pre exec before after fuel cs0 gs0 x env = (OInterrupted i c, log, env') ->
    reports_pending before i c.
  Proof. exact (start_interrupt_reports zero fold getr pre exec before after). Qed.

  Theorem interrupt_reports_pending_resumed : forall fuel sm (c0 : @checkpoint V CS GS SCP) env i c log env',
    resume zero fold getr pre exec before after fuel sm c0 env = (OInterrupted i c, log, env') ->
    reports_pending before i c.
  Proof. exact (resume_interrupt_reports zero fold getr pre exec before after). Qed.

  Theorem interrupt_reports_pending_fresh_eager : forall fuel cs0 (gs0 : GS) x sched env i c log env',
    estart zero fold getr pre exec before after false fuel cs0 gs0 x sched env = (OInterrupted i c, log, env') ->
    reports_pending before i c.
  Proof. exact (estart_interrupt_reports zero fold getr pre exec before after). Qed.

  Theorem interrupt_reports_pending_resumed_eager : forall fuel sm (c0 : @checkpoint V CS GS SCP) sched env i c log env',
    eresume zero fold getr pre exec before after false fuel sm c0 sched env = (OInterrupted i c, log, env') ->
    reports_pending before i c.
  Proof. exact (eresume_interrupt_reports zero fold getr pre exec before after). Qed.

  (* ---- the first clause composed, for the whole run driven through a store ----
     Whatever the segments are, as long as they satisfy the four segment-level statements above (batch:
     [before_never_runs_fresh], [before_never_runs_unresumed], [interrupt_reports_pending_*]; the model:
     see below) and the store round-trips: a node configured as interrupt-before executes in call j of
     the run only if j > 0 and call j-1 returned an interrupt, whose checkpoint was written under the id,
     that reported the node (before list, rerun list or nested information) — and call j is the
     caller's explicit resume. *)
  Theorem before_needs_reported_interrupt : forall {B : Type} (ser : @checkpoint V CS GS SCP -> B) deser,
    (forall c, deser (ser c) = Some c) ->
    forall fuel cs0 (gs0 : GS) x tick with_id n mods env cos env' j co ev,
      drive ser deser (start zero fold getr pre exec before after fuel cs0 gs0 x)
            (resume zero fold getr pre exec before after fuel) tick with_id n O mods None env = (cos, env') ->
      nth_error cos j = Some co -> In ev (co_log co) -> memN (ev_key ev) before = true ->
      exists j' co' i c, j = S j' /\ nth_error cos j' = Some co' /\
                         co_out co' = OInterrupted i c /\ co_written co' = true /\ reported i (ev_key ev).
  Proof. intros B ser deser; exact (drive_before_needs_report_batch zero fold getr pre exec before after ser deser). Qed.

  (* ---- after_stops_successors, eager mode, at the level of the segment: the iteration in which the
     loop collects an interrupt-after node is the last of the segment, whatever the remaining budget
     and whatever is still running; the log ends with the tasks submitted before that collection ---- *)
  Theorem after_stops_successors_eager_segment : forall (s : @estate V CS GS SCP SINFO) sched env c rest sched' k,
    collected pre exec s sched env = Some (c, rest, sched') ->
    In k (afters after [c]) ->
    forall fuel log, exists o,
      eiterate zero fold getr pre exec before after false (S fuel) s sched env log =
        (o, log ++ fst (esubmitted pre exec s env), snd (esubmitted pre exec s env)) /\
      match o with
      | OInterrupted i _ => In k (ii_after i)
      | ODone _ | OFailed _ => True
      | OLimit => False
      end.
  Proof. exact (eiterate_after_stops zero fold getr pre exec before after). Qed.

  (* ---- the successors, by name: when the loop interrupts after computing the tasks [ready] from the
     outputs of the tasks that completed (none of them asked for a rerun or was interrupted inside), every
     one of those tasks is a pending input of the checkpoint, with the input computed for it; by the
     after_stops_successors theorems the segment ends there, so none of them is submitted ---- *)
  Theorem after_successors_pending : forall cs (gs1 : GS) (rs : list (N * @texec V SCP SINFO)) i (c : @checkpoint V CS GS SCP) cs2 ready,
    decide zero fold getr before after cs gs1 rs = Interrupted i c ->
    subcps rs = [] -> reruns rs = [] ->
    calc fold getr cs (outs rs) = Ok (cs2, ready) ->
    incl ready (cp_inputs c).
  Proof. exact (decide_successors_pending zero fold getr before after). Qed.

  Theorem after_successors_pending_eager : forall cs (gs1 : GS) (c : N * @texec V SCP SINFO) rest sched' i (cp : @checkpoint V CS GS SCP) cs2 ready,
    edecide zero fold getr before after false cs gs1 c rest sched' = EStop (Interrupted i cp) ->
    subcps [c] = [] -> reruns [c] = [] ->
    calc fold getr cs (outs [c]) = Ok (cs2, ready) ->
    incl ready (cp_inputs cp).
  Proof. exact (edecide_successors_pending zero fold getr before after). Qed.

  (* ---- checkpoint_iff_interrupt for every call of the driven run (any segments) ---- *)
  Theorem checkpoint_iff_interrupt_driven : forall {B : Type} (ser : @checkpoint V CS GS SCP -> B) deser
      (fresh : ENV -> @outcome V CS GS SCP SINFO * list (@event V) * ENV)
      (resumed : (GS -> GS) -> @checkpoint V CS GS SCP -> ENV -> @outcome V CS GS SCP SINFO * list (@event V) * ENV)
      tick with_id n k mods store env cos env',
    drive ser deser fresh resumed tick with_id n k mods store env = (cos, env') ->
    forall co, In co cos ->
      (co_written co = true <-> (with_id = true /\ exists i c, co_out co = OInterrupted i c)).
  Proof. intros B ser deser fresh resumed tick; exact (drive_written_iff ser deser fresh resumed tick). Qed.

  (* ---- the second clause, the remaining case: an interrupt-after node completes in a step in which another
     task asked for a rerun or was interrupted inside a nested graph. The segment ends with that iteration
     (the after_stops_successors theorems), reporting the node; its output is kept in the channels of the checkpoint and NO
     task is created from it: the pending inputs are exactly the rerun / nested nodes, with the zero input —
     its successors can only become ready in a resumed segment ---- *)
  Theorem after_outputs_kept_rerun : forall cs (gs1 : GS) (rs : list (N * @texec V SCP SINFO)) i (c : @checkpoint V CS GS SCP),
    decide zero fold getr before after cs gs1 rs = Interrupted i c ->
    negb (is_nil (subcps rs) && is_nil (reruns rs)) = true ->
    fold cs (outs rs) = Ok (cp_cs c) /\
    cp_inputs c = zero_tasks zero rs /\
    ii_after i = afters after rs /\ ii_rerun i = reruns rs /\ map fst (ii_subs i) = map fst (subcps rs).
  Proof. exact (decide_rerun_keeps_outputs zero fold getr before after). Qed.

  (* eager mode, the collected task itself asked for a rerun / was interrupted inside: everything still running is
     waited for, all outputs are kept in the channels, nothing is created from them *)
  Theorem after_outputs_kept_rerun_eager : forall cs (gs1 : GS) (c : N * @texec V SCP SINFO) rest sched' i (cp : @checkpoint V CS GS SCP),
    edecide zero fold getr before after false cs gs1 c rest sched' = EStop (Interrupted i cp) ->
    negb (is_nil (subcps [c]) && is_nil (reruns [c])) = true ->
    fold cs (outs (c :: rest)) = Ok (cp_cs cp) /\
    cp_inputs cp = zero_tasks zero (c :: rest) /\
    ii_after i = afters after (c :: rest) /\ ii_rerun i = reruns (c :: rest).
  Proof. exact (edecide_rerun_keeps_outputs zero fold getr before after). Qed.

  (* eager mode, the collected task completed and an interrupt point was hit; while the loop waited for the
     others one of them asked for a rerun / was interrupted inside: the tasks already created from the collected
     task's output stay pending — held, not started — and the outputs of the others are kept in the channels *)
  Theorem after_outputs_kept_late_rerun_eager : forall cs (gs1 : GS) (c : N * @texec V SCP SINFO) rest sched' i (cp : @checkpoint V CS GS SCP),
    edecide zero fold getr before after false cs gs1 c rest sched' = EStop (Interrupted i cp) ->
    negb (is_nil (subcps [c]) && is_nil (reruns [c])) = false ->
    negb (is_nil (subcps rest) && is_nil (reruns rest)) = true ->
    exists cs2 ready,
      calc fold getr cs (outs [c]) = Ok (cs2, ready) /\
      fold cs2 (outs rest) = Ok (cp_cs cp) /\
      cp_inputs cp = ready ++ zero_tasks zero rest /\
      ii_before i = hits before ready /\
      ii_after i = afters after [c] ++ afters after rest /\ ii_rerun i = reruns rest.
  Proof. exact (edecide_late_rerun_keeps_outputs zero fold getr before after). Qed.
End Generic.

(* ---------------------------------------------------------------------------------------------
   The same for the model the correspondence check evaluates (Model/Interrupt.v): [seg_fresh] and
   [seg_resumed] are the run segments of a graph in either mode — batch or eager under whatever
   collection order the environment supplies — at the top level and, through [node_exec], at every
   nesting level. *)
Theorem before_never_runs_fresh_model :
  forall (ex : N -> option ncp -> value -> env -> tex * env) (gi : N) (g : gspec) x e o log e',
    seg_fresh ex gi g x e = (o, log, e') ->
    forall ev, In ev log -> memN (ev_key ev) (gs_before g) = false.
Proof. exact seg_fresh_no_before. Qed.

Theorem before_never_runs_unresumed_model :
  forall (ex : N -> option ncp -> value -> env -> tex * env) (gi : N) (g : gspec) sm c e o log e',
    seg_resumed ex gi g sm c e = (o, log, e') ->
    forall ev, In ev log -> memN (ev_key ev) (gs_before g) = true -> In (ev_key ev) (map fst (cp_inputs c)).
Proof. exact seg_resumed_before_only_pending. Qed.

(* the segments of the model report every pending interrupt-before node, at every nesting level *)
Theorem interrupt_reports_pending_fresh_model :
  forall (ex : N -> option ncp -> value -> env -> tex * env) (gi : N) (g : gspec) x e i c log e',
    seg_fresh ex gi g x e = (OInterrupted i c, log, e') -> reports_pending (gs_before g) i c.
Proof. exact seg_fresh_interrupt_reports. Qed.

Theorem interrupt_reports_pending_resumed_model :
  forall (ex : N -> option ncp -> value -> env -> tex * env) (gi : N) (g : gspec) sm c0 e i c log e',
    seg_resumed ex gi g sm c0 e = (OInterrupted i c, log, e') -> reports_pending (gs_before g) i c.
Proof. exact seg_resumed_interrupt_reports. Qed.

(* THE FIRST CLAUSE for [run_drive], the very definition the correspondence check evaluates on every
   case (either mode at the top level, any forest, any list handed to WithInterruptBeforeNodes — names
   given twice, names of no node): a node of the top-level graph configured as interrupt-before
   executes in call j only if call j-1 returned an interrupt that reported it, checkpoint written *)
Theorem before_needs_reported_interrupt_run :
  forall (F : list gspec) g0 with_id mods x e cos e' j co ev,
    nth_error F 0 = Some g0 ->
    run_drive F with_id mods x e = (cos, e') ->
    nth_error cos j = Some co -> In ev (co_log co) -> memN (ev_key ev) (gs_before g0) = true ->
    exists j' co' i c, j = S j' /\ nth_error cos j' = Some co' /\
                       co_out co' = OInterrupted i c /\ co_written co' = true /\ reported i (ev_key ev).
Proof. exact run_drive_before_needs_report. Qed.

Theorem checkpoint_iff_interrupt_run : forall (F : list gspec) with_id mods x e cos e',
  run_drive F with_id mods x e = (cos, e') ->
  forall co, In co cos ->
    (co_written co = true <-> (with_id = true /\ exists i c, co_out co = OInterrupted i c)).
Proof. exact run_drive_written_iff. Qed.

(* ---- the nested-graph information ----
   [paired F g i c] (Proofs/InterruptDrive.v): the information [i] and the checkpoint [c] of an interrupt of
   graph [g] belong together: [i] reports every interrupt-before node of [g] pending in [c]; nested
   informations and nested checkpoints are listed under the same keys, every key is a graph node of [g], and
   the pair found under it belongs together in the same sense for the nested graph — at every depth.
   Every interrupt of every call of the run of a case satisfies it (whatever the modes of the graphs, the
   schedules of the eager ones, the lists handed to Compile), and so does what every graph node returns
   to its parent when its graph is interrupted inside. *)
Theorem nested_info_faithful :
  forall (F : list gspec) g0 with_id mods x e cos e' co i c,
    nth_error F 0 = Some g0 ->
    run_drive F with_id mods x e = (cos, e') ->
    In co cos -> co_out co = OInterrupted i c -> paired F g0 i c.
Proof. exact run_drive_paired. Qed.

Theorem nested_info_faithful_node :
  forall d F g k cpo v e cp info e',
    node_exec d F g k cpo v e = (TSub cp info, e') ->
    exists n j sub, find_node (gs_graph g) k = Some n /\ n_kind n = KSub j /\ nth_error F j = Some sub /\
                    paired F sub (un_info info) (un_cp cp).
Proof. exact node_exec_sub_ok. Qed.

(* the first clause below the top level: a pair (information, checkpoint) that belongs together — every
   interrupt of the run, and by [paired_descends] every nested pair found in it under a graph node, at any
   depth — is honoured by ANY segment resumed from that checkpoint (whatever node bodies, schedule, state
   modifier): an interrupt-before node of that graph executes only if that information reports it. The run
   loop hands a graph node the nested checkpoint stored under its key and nothing else (C05:
   sub_checkpoint_used_once). *)
Theorem resumed_from_paired_honours : forall F g (i : inf) (c : cpt),
  paired F g i c ->
  forall (ex : N -> option ncp -> value -> env -> tex * env) gi sm e o l e',
    seg_resumed ex gi g sm c e = (o, l, e') ->
    forall ev, In ev l -> memN (ev_key ev) (gs_before g) = true -> reported i (ev_key ev).
Proof. exact paired_resume_honours. Qed.

Theorem paired_descends_to_nested : forall F g (i : inf) (c : cpt),
  paired F g i c ->
  forall k sc, In (k, sc) (cp_subs c) ->
    exists si n j sub, In (k, si) (ii_subs i) /\
      find_node (gs_graph g) k = Some n /\ n_kind n = KSub j /\ nth_error F j = Some sub /\
      paired F sub (un_info si) (un_cp sc).
Proof. exact paired_descends. Qed.

(* ---- THE FIRST CLAUSE AT RUN LEVEL FOR EVERY NESTING LEVEL ----
   [call_logs e'] is the flat execution log of the run cut at the call markers: one entry [LExec k v ab] per
   execution of a lambda body in that call, at whatever depth of nested graphs — what the correspondence check
   compares with the executions the implementation performed in each call. An execution of a node that is
   configured interrupt-before in the graph of the forest declaring it ([before_in]: one graph declares the
   node — node ids are unique across a forest the harness builds — and lists it) occurs only in a call j > 0
   whose predecessor returned an interrupt, wrote its checkpoint, and whose information tree reports the node:
   in its before / rerun / nested list or in those of a nested information at any depth ([tree_reports]).
   Whatever the modes of the graphs, the schedules of the eager ones, the lists handed to Compile. *)
Theorem nested_before_needs_reported_interrupt_run :
  forall (F : list gspec) g0 with_id mods x scheds cos e',
    nth_error F 0 = Some g0 ->
    run_drive F with_id mods x (env0 scheds) = (cos, e') ->
    List.length (call_logs e') = List.length cos /\
    forall j entries k v ab,
      nth_error (call_logs e') j = Some entries -> In (LExec k v ab) entries -> before_in F k ->
      exists j' co' i c, j = S j' /\ nth_error cos j' = Some co' /\
                         co_out co' = OInterrupted i c /\ co_written co' = true /\ tree_reports i k.
Proof. exact run_drive_nested_before_needs_report. Qed.

(* non-vacuity: node 5 of the nested graph of [wd_top] is interrupt-before; the first call is interrupted inside
   the nested graph and reports node 5 in the nested information under node 2; the second call executes it *)
Example nested_before_needs_reported_interrupt_run_witness : exists cos e' entries v,
  run_drive [wd_top; wd_sub] true [] wd_x (env0 []) = (cos, e') /\
  nth_error (call_logs e') 1 = Some entries /\ In (LExec 5 v false) entries /\ before_in [wd_top; wd_sub] 5 /\
  (exists co i c si, nth_error cos 0 = Some co /\ co_out co = OInterrupted i c /\ co_written co = true /\
                     ii_subs i = [(2, NInfo si)] /\ ii_before si = [5]).
Proof. exact wd_nested_second_call. Qed.

(* non-vacuity of [after_outputs_kept_rerun]: node 2 (interrupt-after) completed, node 3 asked for a rerun *)
Example after_outputs_kept_rerun_witness : exists i c,
  decide (V := N) (CS := list (N * N)) (GS := unit) (SCP := N) (SINFO := N) 0
         (fun cs o => Ok (cs ++ o)) (fun cs => Ok (cs, [])) [] [2] [] tt [(2, TDone 5); (3, TRerun)] = Interrupted i c /\
  cp_cs c = [(2, 5)] /\ cp_inputs c = [(3, 0)] /\ ii_after i = [2] /\ ii_rerun i = [3].
Proof. exact decide_rerun_keeps_outputs_witness. Qed.

Example nested_info_faithful_witness : exists co rest e i c si sc,
  run_drive [wd_top; wd_sub] true [] wd_x (env0 []) = (co :: rest, e) /\
  co_out co = OInterrupted i c /\ ii_subs i = [(2, NInfo si)] /\ cp_subs c = [(2, NCP sc)] /\
  ii_before si = [5] /\ map fst (cp_inputs sc) = [5].
Proof. exact wd_nested_run. Qed.

(* non-vacuity of the run-level statement: two calls, the interrupt-before node runs in the second, the
   first reported it and wrote its checkpoint; the configured list names the node twice and a node
   that does not exist *)
Example before_needs_reported_interrupt_run_witness : exists co1 co2 e ev i c,
  run_drive [wd_chain] true [] wd_x (env0 []) = ([co1; co2], e) /\
  In ev (co_log co2) /\ memN (ev_key ev) (gs_before wd_chain) = true /\
  co_out co1 = OInterrupted i c /\ co_written co1 = true /\ ii_before i = [3] /\ ii_after i = [2] /\
  (exists v, co_out co2 = ODone v) /\ co_written co2 = false.
Proof. exact wd_chain_run. Qed.

(* non-vacuity of [after_successors_pending]: the successor 3 of the interrupt-after node 2 is pending with
   the input computed from the output of node 2, and only node 2 ran *)
Example after_successors_pending_witness : exists i c e,
  seg_fresh (node_exec 1 [wd_chain] wd_chain) 0 wd_chain wd_x (env0 []) = (OInterrupted i c, [{| ev_key := 2; ev_in := wd_x; ev_abort := false; ev_skip := false |}], e) /\
  ii_after i = [2] /\ cp_inputs c = [(3, VMap [(2, wd_x)])].
Proof. exact wd_chain_successor_pending. Qed.

(* non-vacuity of [after_stops_successors_eager_segment]: a Workflow START -> {2, 3} -> 4 -> END with
   interrupt-after {2}: node 2 is collected while node 3 is still running *)
Example after_stops_successors_eager_segment_witness : exists s c rest sched',
  wd_eager_state = Some s /\
  collected (pre_fn wd_eager) (node_exec 1 [wd_eager] wd_eager) s [2; 3] (env0 []) = Some (c, rest, sched') /\
  In 2 (afters (gs_after wd_eager) [c]) /\ rest <> [].
Proof. exact wd_eager_collects_after_node. Qed.

(* non-vacuity, and the position the tests never reach: interrupt-before on the direct successor of
   START — nothing runs, the node is reported *)
Example before_first_node_is_honoured : exists i c e,
  seg_fresh w_first_ex 0 w_first x1 (env0 []) = (OInterrupted i c, [], e) /\ ii_before i = [2] /\ e_log e = [].
Proof. exact w_first_repaired. Qed.

(* F-C06 (fixed 1b566d3): [start_v0] is the code before the repair (the task set computed from START
   was submitted without the interrupt-before test): the statement of [before_never_runs_fresh] is
   false for it — on START -> 2 -> 3 -> END with interrupt-before {2}, node 2 runs. *)
Theorem before_never_runs_fresh_v0_refuted :
  ~ (forall (g : gspec) (ex : N -> option ncp -> value -> env -> tex * env) cs0 x e o log e',
       init_chans value (gs_graph g) = Ok cs0 ->
       start_v0 VNil (ifold (gs_graph g)) (igetr (gs_graph g)) (pre_fn g) ex (gs_before g) (gs_after g)
                (seg_fuel (gs_graph g)) cs0 (gs0 g) x e = (o, log, e') ->
       forall ev, In ev log -> memN (ev_key ev) (gs_before g) = false).
Proof. exact start_v0_runs_before_node. Qed.

Print Assumptions before_never_runs_fresh.
Print Assumptions before_never_runs_unresumed.
Print Assumptions before_never_runs_fresh_eager.
Print Assumptions before_never_runs_unresumed_eager.
Print Assumptions after_stops_successors.
Print Assumptions after_stops_successors_eager.
Print Assumptions info_faithful.
Print Assumptions info_faithful_initial.
Print Assumptions info_faithful_eager.
Print Assumptions checkpoint_iff_interrupt.
Print Assumptions before_never_runs_fresh_model.
Print Assumptions before_never_runs_unresumed_model.
Print Assumptions before_first_node_is_honoured.
Print Assumptions before_never_runs_fresh_v0_refuted.
Print Assumptions interrupt_reports_pending_fresh.
Print Assumptions interrupt_reports_pending_resumed.
Print Assumptions interrupt_reports_pending_fresh_eager.
Print Assumptions interrupt_reports_pending_resumed_eager.
Print Assumptions before_needs_reported_interrupt.
Print Assumptions after_stops_successors_eager_segment.
Print Assumptions checkpoint_iff_interrupt_driven.
Print Assumptions interrupt_reports_pending_fresh_model.
Print Assumptions interrupt_reports_pending_resumed_model.
Print Assumptions before_needs_reported_interrupt_run.
Print Assumptions checkpoint_iff_interrupt_run.
Print Assumptions before_needs_reported_interrupt_run_witness.
Print Assumptions after_stops_successors_eager_segment_witness.
Print Assumptions nested_info_faithful.
Print Assumptions nested_info_faithful_node.
Print Assumptions nested_info_faithful_witness.
Print Assumptions resumed_from_paired_honours.
Print Assumptions paired_descends_to_nested.
Print Assumptions after_successors_pending.
Print Assumptions after_successors_pending_eager.
Print Assumptions after_successors_pending_witness.
Print Assumptions after_outputs_kept_rerun.
Print Assumptions after_outputs_kept_rerun_eager.
Print Assumptions after_outputs_kept_late_rerun_eager.
Print Assumptions nested_before_needs_reported_interrupt_run.
Print Assumptions nested_before_needs_reported_interrupt_run_witness.
Print Assumptions after_outputs_kept_rerun_witness.
