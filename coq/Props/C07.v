(* Props/C07.v — placeholder while the proofs are being written *)
From Eino Require Import Base.Util Model.Types Model.TypeBuilder.
