(* Props/C07.v — property C07: a graph that compiles cannot hit a type mismatch between
   concretely typed nodes; interface-typed connections are checked at run time with an
   ordinary error; type inference through passthrough nodes.
   Only statements, each closed by [exact]; the definitions they speak about are the ones
   the correspondence check (Corr/C07.v) evaluates on every run: [run_ops], [in_ty],
   [out_ty], [run] of Model/TypeBuilder.v and the lattice of Model/Types.v.

   Reading guide.  [run_ops u orcs 0 (init_graph i o s) ops = (st, oks)]: the calls [ops]
   (AddLambdaNode / AddPassthroughNode / AddEdge / AddBranch / Compile) made on a new
   graph with input type [i], output type [o] and state type [s] leave the builder in
   state [st]; [oks] says which calls returned nil.  [orcs] resolves every iteration over
   a Go map (toValidateMap, branch.endNodes): all theorems hold for every [orcs].
   [u] is the type universe (method sets): all theorems hold for every universe. *)
From Eino Require Import Base.Util Model.Types Model.TypeBuilder.
From Eino Require Import Proofs.TypesLattice Proofs.TypesBuilder Proofs.TypesRun Proofs.TypesInv2 Proofs.TypesMay Proofs.TypesMain.
From Eino Require Import Proofs.TypesOrder Proofs.TypesAddOrder Proofs.TypesFlow Proofs.TypesFlowX Proofs.TypesLatticeX Proofs.TypesNested.

(* the universe of the harness: T1 T2 T3 M = TConc 0..3, I1 I2 = TIface 0 1 *)
Definition U0 : univ :=
  {| u_conc := [(0, [1; 2]); (1, [2]); (2, []); (3, [])]%N; u_iface := [(0, [1; 2]); (1, [2])]%N |}.
Definition T1 := TConc 0. Definition T2 := TConc 1. Definition T3 := TConc 2.
Definition I1 := TIface 0. Definition I2 := TIface 1.
Definition asc : nat -> nat -> nat -> list key := fun _ _ _ => [].

(* ------------------------------------------------------------------ the lattice *)

(* checkAssignable = Must is sound: every value the upstream static type admits passes the
   downstream assertion (node entry, branch condition, state handler) *)
Theorem must_is_sound : forall u i a d,
  check_assignable u (Some i) (Some a) = Must -> has_type u d i = true -> assert_type u d a = true.
Proof. exact must_sound. Qed.
Print Assumptions must_is_sound.

(* two concrete types are compatible only when equal; a concrete upstream is never May *)
Theorem concrete_concrete_equal : forall u x y,
  check_assignable u (Some (TConc x)) (Some (TConc y)) <> MustNot -> x = y.
Proof. exact concrete_pair_equal. Qed.
Print Assumptions concrete_concrete_equal.

Theorem concrete_upstream_decided : forall u x a,
  check_assignable u (Some (TConc x)) (Some a) <> MustNot ->
  check_assignable u (Some (TConc x)) (Some a) = Must.
Proof. exact concrete_upstream_static. Qed.
Print Assumptions concrete_upstream_decided.

(* behind a concrete upstream type the static decision is exact: Must iff the value is held
   by the downstream type (its own type, or an interface it implements), MustNot iff not *)
Theorem concrete_upstream_exact : forall u x a,
  (check_assignable u (Some (TConc x)) (Some a) = Must <-> dyn_assignable u (DVal x) a = true) /\
  (check_assignable u (Some (TConc x)) (Some a) = MustNot <-> dyn_assignable u (DVal x) a = false).
Proof. exact concrete_upstream_exact_lemma. Qed.
Print Assumptions concrete_upstream_exact.

(* a run-time check is asked for (May) exactly for an interface-typed upstream whose type the
   downstream type implements, when the connection is not already statically safe *)
Theorem may_exact : forall u i a,
  check_assignable u (Some i) (Some a) = May <->
  (ty_eqb a i = false /\ (is_iface a && implements u i a) = false /\ is_iface i = true /\ implements u a i = true).
Proof. exact may_exact_lemma. Qed.
Print Assumptions may_exact.

(* a named map type and its unnamed underlying type (TConc 4 / TConc 3 in the harness), a
   struct and its pointer type: distinct concrete types, never connected, in either direction *)
Example concrete_upstream_exact_nonvacuous :
  let U := {| u_conc := [(3, []); (4, [4]); (0, [3; 4]); (5, [3; 4])]%N; u_iface := [(1, [4])]%N |} in
  check_assignable U (Some (TConc 3)) (Some (TConc 4)) = MustNot /\
  check_assignable U (Some (TConc 4)) (Some (TConc 3)) = MustNot /\
  check_assignable U (Some (TConc 0)) (Some (TConc 5)) = MustNot /\
  check_assignable U (Some (TConc 4)) (Some (TIface 1)) = Must /\
  check_assignable U (Some (TConc 3)) (Some (TIface 1)) = MustNot /\
  check_assignable U (Some (TIface 1)) (Some (TConc 4)) = May.
Proof. vm_compute. repeat split. Qed.

(* the assertion the framework makes (after the repair F-C07b) is Go assignability *)
Theorem assertion_is_assignability : forall u d t, assert_type u d t = dyn_assignable u d t.
Proof. exact assert_type_assignable. Qed.
Print Assumptions assertion_is_assignability.

(* ------------------------------------------------------------------ validated_edges_stay_valid *)

(* Whatever calls follow ([ops2]), a type that is known (declared or inferred) after [ops1]
   never changes, and a connection that has been validated ([conn_ok]: both types known,
   checkAssignable <> MustNot, converter installed if May) stays validated.  This is the
   invariant the defect F-C07a broke. *)
Theorem validated_edges_stay_valid : forall u orcs i o s ops1 ops2 st1 oks1 st2 oks2,
  run_ops u orcs 0 (init_graph i o s) ops1 = (st1, oks1) ->
  run_ops u orcs 0 (init_graph i o s) (ops1 ++ ops2) = (st2, oks2) ->
  (forall k t, in_ty st1 k = Some t -> in_ty st2 k = Some t) /\
  (forall k t, out_ty st1 k = Some t -> out_ty st2 k = Some t) /\
  (forall p, conn_ok u st1 p -> conn_ok u st2 p).
Proof. exact stay_valid. Qed.
Print Assumptions validated_edges_stay_valid.

Definition ops_a1 : list op :=
  [OpPass 2 None None; OpNode 3 T2 T1 None None; OpNode 4 T2 T1 None None; OpEdge 0 2]%N.
Definition ops_a2 : list op :=
  [OpBranch 2 T2 [3; 4] [3]; OpEdge 3 1; OpEdge 4 1; OpCompile]%N.

Example validated_edges_stay_valid_nonvacuous :
  let st1 := fst (run_ops U0 asc 0 (init_graph T1 T1 None) ops_a1) in
  let '(st2, oks2) := run_ops U0 asc 0 (init_graph T1 T1 None) (ops_a1 ++ ops_a2) in
  in_ty st1 2%N = Some T1 /\ in_ty st2 2%N = Some T1 /\ oks2 = [true; true; true; true; false; false; false; false].
Proof. vm_compute. auto. Qed.

(* before the repair F-C07a ([ow = true]) AddBranch overwrote the inferred type *)
Theorem validated_edges_stay_valid_v0_refuted :
  let st1 := fst (run_ops_sel U0 true false false asc 0 (init_graph T1 T1 None) ops_a1) in
  let '(st2, oks2) := run_ops_sel U0 true false false asc 0 (init_graph T1 T1 None) (ops_a1 ++ ops_a2) in
  in_ty st1 2%N = Some T1 /\ in_ty st2 2%N = Some T2 /\ g_compiled st2 = true /\
  run U0 (assert_type U0) [] st2 (DVal 0) = RPanicEsc.
Proof. vm_compute. auto. Qed.

(* ------------------------------------------------------------------ compile_sound *)

(* If some Compile call succeeded, then on every data edge and every branch end the two
   types are known and: concrete-concrete => equal; concrete upstream => statically
   assignable (Must); interface upstream => Must, or May with a run-time converter
   installed on exactly that edge.  The same for every branch condition.  Every node is
   typed, a passthrough node has equal input and output type, state handlers are declared
   at their node's type, and nothing is pending in toValidateMap.  Types may be declared or
   inferred through any number of passthrough nodes. *)
Theorem compile_sound : forall u orcs i o s ops st oks,
  run_ops u orcs 0 (init_graph i o s) ops = (st, oks) ->
  g_compiled st = true -> compiled_sound u st.
Proof. exact compile_sound_main. Qed.
Print Assumptions compile_sound.

(* [g_compiled] after a final Compile is "that call returned nil" *)
Theorem compile_sound_after_compile : forall u orcs i o s ops st oks,
  run_ops u orcs 0 (init_graph i o s) (ops ++ [OpCompile]) = (st, oks) ->
  last oks false = true -> compiled_sound u st.
Proof. exact compile_sound_last. Qed.
Print Assumptions compile_sound_after_compile.

(* START:T1 -> n2 (T1 -> I2) -> P (passthrough, inferred I2) -> n4 (T1 -> T1) -> END *)
Definition ops_b : list op :=
  [OpNode 2 T1 I2 None None; OpPass 3 None None; OpNode 4 T1 T1 None None;
   OpEdge 0 2; OpEdge 2 3; OpEdge 3 4; OpEdge 4 1; OpCompile]%N.
Definition st_b : gstate := fst (run_ops U0 asc 0 (init_graph T1 T1 None) ops_b).

Example compile_sound_nonvacuous :
  snd (run_ops U0 asc 0 (init_graph T1 T1 None) ops_b) = [true; true; true; true; true; true; true; true] /\
  g_compiled st_b = true /\ in_ty st_b 3%N = Some I2 /\ g_hedge st_b = [(3, 4, T1)]%N.
Proof. vm_compute. auto. Qed.

(* ------------------------------------------------------------------ run_type_safe *)

(* No run of a compiled graph reaches a failing type assertion (neither the recovered
   panic of a node entry nor the escaping panic of a branch condition, state handler or
   the final output), for every input of the graph's input type and every dynamic value
   the lambdas and state handlers return (constrained only by what the Go compiler
   guarantees: [emit_ok] = every lambda returns a value of its declared output type;
   [hret_ok] = a state handler of a lambda node, declared for the node's type, returns a
   value of that type.  The handlers of a passthrough node are declared for any and may
   return anything: the framework checks their result against the node's inferred type
   and reports the ordinary run-time type error, repair F-C07f). *)
Theorem run_type_safe : forall u orcs i o s ops st oks emit input,
  run_ops u orcs 0 (init_graph i o s) ops = (st, oks) -> g_compiled st = true ->
  emit_ok u emit st -> hret_ok u st -> has_type u input (g_in st) = true ->
  run u (assert_type u) emit st input <> RPanicRec /\
  run u (assert_type u) emit st input <> RPanicEsc.
Proof. exact run_type_safe_main. Qed.
Print Assumptions run_type_safe.

Example run_type_safe_nonvacuous :
  hret_ok U0 st_b /\
  emit_ok U0 [(2, DVal 0)]%N st_b /\ emit_ok U0 [(2, DVal 1)]%N st_b /\ emit_ok U0 [(2, DNil)]%N st_b /\
  run U0 (assert_type U0) [(2, DVal 0)]%N st_b (DVal 0) = ROk (DVal 0) /\
  run U0 (assert_type U0) [(2, DVal 1)]%N st_b (DVal 0) = RTypeErr /\
  run U0 (assert_type U0) [(2, DNil)]%N st_b (DVal 0) = RTypeErr.
Proof.
  split; [apply hret_okb_sound; vm_compute; reflexivity|].
  split; [apply emit_okb_sound; vm_compute; reflexivity|].
  split; [apply emit_okb_sound; vm_compute; reflexivity|].
  split; [apply emit_okb_sound; vm_compute; reflexivity|].
  vm_compute. auto.
Qed.

(* state handlers that change the value: on the lambda node n2 (declared for I2: returns T2
   instead of what came in) and on the passthrough node P (declared for any: returns T3,
   which is not of P's inferred type I2: ordinary error; or T1: passed on) *)
Definition ops_hd (pret : dyn) : list op :=
  [OpNode 2 I2 I2 (Some {| h_state := 1; h_ty := I2; h_ret := Some (DVal 1) |}) None;
   OpPass 3 (Some {| h_state := 1; h_ty := TAny; h_ret := Some pret |}) None;
   OpNode 4 T1 T1 None None;
   OpEdge 0 2; OpEdge 2 3; OpEdge 3 4; OpEdge 4 1; OpCompile]%N.
Example run_type_safe_handlers_nonvacuous :
  let st3 := fst (run_ops U0 asc 0 (init_graph I2 T1 (Some 1%N)) (ops_hd (DVal 2))) in
  let st1 := fst (run_ops U0 asc 0 (init_graph I2 T1 (Some 1%N)) (ops_hd (DVal 0))) in
  g_compiled st3 = true /\ hret_ok U0 st3 /\ emit_ok U0 [(2, DVal 0)]%N st3 /\
  run U0 (assert_type U0) [(2, DVal 0)]%N st3 (DVal 0) = RTypeErr /\
  run U0 (assert_type U0) [(2, DVal 0)]%N st1 (DVal 0) = ROk (DVal 0).
Proof.
  split; [vm_compute; reflexivity|].
  split; [apply hret_okb_sound; vm_compute; reflexivity|].
  split; [apply emit_okb_sound; vm_compute; reflexivity|].
  vm_compute. auto.
Qed.

(* before the repair F-C07b the assertion was the plain [v.(T)], which fails for nil: a nil
   value returned by a node of output type any panicked in an any-typed branch condition *)
Definition ops_c : list op :=
  [OpNode 2 T1 TAny None None; OpNode 3 TAny T1 None None; OpNode 4 TAny T1 None None;
   OpEdge 0 2; OpBranch 2 TAny [3; 4] [3]; OpEdge 3 1; OpEdge 4 1; OpCompile]%N.
Theorem run_type_safe_v0_refuted :
  let st := fst (run_ops U0 asc 0 (init_graph T1 T1 None) ops_c) in
  g_compiled st = true /\ emit_ok U0 [(2, DNil)]%N st /\
  run U0 (assert_type_v0 U0) [(2, DNil)]%N st (DVal 0) = RPanicEsc /\
  run U0 (assert_type U0) [(2, DNil)]%N st (DVal 0) = ROk (DVal 0).
Proof.
  split; [vm_compute; reflexivity|].
  split; [apply emit_okb_sound; vm_compute; reflexivity|].
  vm_compute. auto.
Qed.

(* ------------------------------------------------------------------ flow_type_safe *)

(* Scheduler-independent form of run_type_safe.  [flow u st site k d] (Proofs/TypesFlow.v): a
   value of dynamic type d can be at the given site of node k ([SArr] handed to the task,
   [SBody] entering the node body behind the state pre handler, [SOut] leaving it, [SDone]
   the completed value behind the state post handler) in SOME execution of the compiled
   graph: values move only from a completed node along a data edge or to an end node of one
   of its branches, through the run-time converters installed on that connection, and
   through handlers and node bodies; lambdas and state handlers return ANY value of their
   declared Go type (no emit table, nothing fixed per run: loops may carry different values
   every time), the any-typed handlers of a passthrough node return anything and the result
   moves on only if the node's converter accepts it.  Nothing is said about WHEN a node
   runs, about whether values travel as values or as lazily converted streams, or about how
   many values meet at a node (mergeValues returns a value of the common dynamic type of
   its arguments or fails): the statement covers Invoke / Stream / Collect / Transform, the
   Pregel, all-predecessor (DAG) and eager (Workflow) disciplines, and fan-in.
   Every value that can be at a site has the static type of that site ... *)
Theorem flow_type_safe : forall u orcs i o s ops st oks,
  run_ops u orcs 0 (init_graph i o s) ops = (st, oks) -> g_compiled st = true ->
  forall si k d, flow u st si k d -> site_typed u st si k d.
Proof. exact flow_typed_main. Qed.
Print Assumptions flow_type_safe.

(* ... hence no type assertion of the framework can fail: state pre handler entry, node
   entry, state post handler entry, branch condition (behind its converter), final output *)
Theorem flow_sites_safe : forall u orcs i o s ops st oks,
  run_ops u orcs 0 (init_graph i o s) ops = (st, oks) -> g_compiled st = true -> sites_safe u st.
Proof. exact flow_sites_safe_main. Qed.
Print Assumptions flow_sites_safe.

(* the superstep loop [run] that the correspondence check evaluates is one of these
   executions: every task it creates and every completed value it sees is a flow *)
Theorem invoke_is_a_flow : forall u orcs i o s ops st oks emit input,
  run_ops u orcs 0 (init_graph i o s) ops = (st, oks) -> g_compiled st = true ->
  emit_ok u emit st -> hret_ok u st -> has_type u input (g_in st) = true ->
  (forall ts, In ts (run_tasks u emit st input) -> forall x, In x ts -> flow u st SArr (fst x) (snd x)) /\
  (forall ds, In ds (run_dones u emit st input) -> forall x, In x ds -> flow u st SDone (fst x) (snd x)).
Proof. exact run_flows_main. Qed.
Print Assumptions invoke_is_a_flow.

(* in st_b a T2 value returned by n2 (output type I2) reaches the passthrough node P = 3
   (inferred I2); the Pregel run with that emission has exactly this task *)
Example flow_type_safe_nonvacuous :
  flow U0 st_b SArr 3%N (DVal 1) /\
  In [(3%N, DVal 1)] (run_tasks U0 [(2, DVal 1)]%N st_b (DVal 0)) /\
  site_typed U0 st_b SArr 3%N (DVal 1).
Proof.
  assert (F : flow U0 st_b SArr 3%N (DVal 1)).
  { eapply F_edge with (s := 2%N); [| vm_compute; auto | vm_compute; reflexivity].
    apply F_post_same.
    eapply F_body_lambda with (d := DVal 0) (t := I2);
      [| vm_compute; reflexivity | reflexivity | reflexivity | vm_compute; reflexivity].
    apply F_pre_same. eapply F_edge with (s := 0%N); [| vm_compute; auto | vm_compute; reflexivity].
    apply F_start. vm_compute; reflexivity. }
  split; [exact F|]. split; [vm_compute; auto|].
  eapply flow_type_safe; [| | exact F]; [unfold st_b; apply surjective_pairing | vm_compute; reflexivity].
Qed.

(* Nested graphs (AddGraphNode, round 4).  In the parent a sub graph node is a non-passthrough node
   declared with the sub graph's input and output type.  The flow relation lets the body of such
   a node return ANY value of its declared output type and starts a graph with ANY value of its
   input type; both are discharged for a compiled sub graph: whatever can enter the node's body
   in the parent is a legitimate input of the sub graph, and whatever the sub graph can hand to
   its END, in any execution, is a value the node may return in the parent.  So an execution of
   the nested pair is made of executions that flow_type_safe / flow_sites_safe of the parent and
   of the sub graph already cover -- at any depth (a sub graph of the sub graph: the same
   statement one level down), for every discipline and transport. *)
Theorem nested_graph_contract : forall u orcs i o s ops st oks orcs' i' o' s' ops' sub oks' k n,
  run_ops u orcs 0 (init_graph i o s) ops = (st, oks) -> g_compiled st = true ->
  run_ops u orcs' 0 (init_graph i' o' s') ops' = (sub, oks') -> g_compiled sub = true ->
  get_node st k = Some n -> n_pass n = false ->
  n_in n = Some (g_in sub) -> n_out n = Some (g_out sub) ->
  (forall d, flow u st SBody k d -> flow u sub SDone kSTART d) /\
  (forall d din, flow u sub SArr kEND d -> flow u st SBody k din -> flow u st SOut k d).
Proof. exact nested_contract_main. Qed.
Print Assumptions nested_graph_contract.

(* parent START:T1 -> n2 (the sub graph, T1 -> I2) -> END:I2; sub graph START:T1 -> x (T1 -> I2) -> END:I2.
   A T1 value enters n2's body in the parent; the sub graph can hand a T2 value to its END *)
Definition ops_sub : list op := [OpNode 2 T1 I2 None None; OpEdge 0 2; OpEdge 2 1; OpCompile]%N.
Definition st_sub : gstate := fst (run_ops U0 asc 0 (init_graph T1 I2 None) ops_sub).
Example nested_graph_contract_nonvacuous :
  g_compiled st_sub = true /\
  (exists n, get_node st_sub 2%N = Some n /\ n_pass n = false /\ n_in n = Some (g_in st_sub) /\ n_out n = Some (g_out st_sub)) /\
  flow U0 st_sub SBody 2%N (DVal 0) /\ flow U0 st_sub SArr kEND (DVal 1).
Proof.
  assert (B : flow U0 st_sub SBody 2%N (DVal 0)).
  { apply F_pre_same. eapply F_edge with (s := 0%N); [| vm_compute; auto | vm_compute; reflexivity].
    apply F_start. vm_compute; reflexivity. }
  split; [vm_compute; reflexivity|].
  split; [eexists; split; [vm_compute; reflexivity|]; vm_compute; auto|].
  split; [exact B|].
  eapply F_edge with (s := 2%N); [| vm_compute; auto | vm_compute; reflexivity].
  apply F_post_same.
  eapply F_body_lambda with (t := I2); [exact B | vm_compute; reflexivity | reflexivity | reflexivity | vm_compute; reflexivity].
Qed.

(* The run-time checks are exact connection by connection, whatever the execution
   discipline (the scheduler-independent form of may_edges_error_iff): for a value d of the
   upstream node's static type ([done_ok]), the converters installed on a data edge or branch
   end s -> t (handlerOnEdges) let it pass exactly when it is assignable to t's input type,
   and the converter of a branch of s (handlerPreBranch) exactly when it is assignable to the
   condition's type.  Together with flow_type_safe: a value is stopped with the ordinary
   error iff it is not assignable, and what is not stopped never fails an assertion. *)
Theorem connection_check_exact : forall u orcs i o s0 ops st oks s t d,
  run_ops u orcs 0 (init_graph i o s0) ops = (st, oks) -> g_compiled st = true ->
  In (s, t) (g_data st ++ branch_pairs st) -> done_ok u st (s, d) ->
  (conv_all (assert_type u) d (hedge_of st s t) = true <->
   exists b, in_ty st t = Some b /\ dyn_assignable u d b = true).
Proof. exact conn_check_exact_main. Qed.
Print Assumptions connection_check_exact.

Theorem branch_check_exact : forall u orcs i o s0 ops st oks s b d,
  run_ops u orcs 0 (init_graph i o s0) ops = (st, oks) ->
  In (s, b) (g_branches st) -> done_ok u st (s, d) ->
  (conv_all (assert_type u) d (b_conv b) = true <-> dyn_assignable u d (b_ty b) = true).
Proof. exact branch_check_exact_main. Qed.
Print Assumptions branch_check_exact.

(* st_b, connection P(3, inferred I2) -> n4 (T1): a T2 value is stopped, a T1 value passes *)
Example connection_check_exact_nonvacuous :
  In (3, 4)%N (g_data st_b ++ branch_pairs st_b) /\
  done_ok U0 st_b (3%N, DVal 1) /\ done_ok U0 st_b (3%N, DVal 0) /\
  conv_all (assert_type U0) (DVal 1) (hedge_of st_b 3%N 4%N) = false /\
  conv_all (assert_type U0) (DVal 0) (hedge_of st_b 3%N 4%N) = true.
Proof.
  split; [vm_compute; auto|].
  split; [exists I2; vm_compute; auto|]. split; [exists I2; vm_compute; auto|].
  vm_compute. auto.
Qed.

(* ------------------------------------------------------------------ may_edges_error_iff *)

(* [step_mismatch u st done]: some value [d] that a node [s] just completed with is not
   assignable (Go assignability, [dyn_assignable]) to the condition type of a branch of [s]
   or to the input type of a node it is handed to (data-edge successors and the nodes the
   branch conditions select).  [choices_valid]: every branch condition returns end nodes
   of its own branch (otherwise the run may end with the ordinary error "branch result is
   not an end node" before the type check is reached; second clause).
   For every superstep of a compiled graph: the run-time type error is reported exactly
   when such a value exists; it always ends the run with an ordinary error, never a panic
   (run_type_safe) and never silently. *)
Theorem may_edges_error_iff_step : forall u orcs i o s ops st oks done,
  run_ops u orcs 0 (init_graph i o s) ops = (st, oks) -> g_compiled st = true ->
  (forall x, In x done -> done_ok u st x) ->
  (next u (assert_type u) st done = inl RTypeErr -> step_mismatch u st done = true) /\
  (step_mismatch u st done = true ->
     next u (assert_type u) st done = inl RTypeErr \/ next u (assert_type u) st done = inl ROther) /\
  (choices_valid st ->
     (next u (assert_type u) st done = inl RTypeErr <-> step_mismatch u st done = true)).
Proof. exact may_step_main. Qed.
Print Assumptions may_edges_error_iff_step.

(* The whole run ([run_dones]: the completed-task lists of its supersteps, every value in
   them of its producer's static output type; [run_tasks]: the task lists of its
   supersteps): Invoke fails with the run-time type error iff in some superstep a value is
   not assignable to something it is handed to, or ([exec_mismatch]) a state handler of a
   passthrough node hands on a value that is not assignable to the node's inferred type. *)
Theorem may_edges_error_iff : forall u orcs i o s ops st oks emit input,
  run_ops u orcs 0 (init_graph i o s) ops = (st, oks) -> g_compiled st = true ->
  emit_ok u emit st -> hret_ok u st -> has_type u input (g_in st) = true -> choices_valid st ->
  (run u (assert_type u) emit st input = RTypeErr <->
   (exists done, In done (run_dones u emit st input) /\ step_mismatch u st done = true) \/
   (exists tasks, In tasks (run_tasks u emit st input) /\ exec_mismatch u st tasks = true)).
Proof. exact may_run_main. Qed.
Print Assumptions may_edges_error_iff.

(* ... and a mismatch needs an interface-typed upstream: a value completed by a node of
   concrete output type is assignable to everything it is handed to *)
Theorem mismatch_only_from_interface : forall u orcs i o s ops st oks k d c,
  run_ops u orcs 0 (init_graph i o s) ops = (st, oks) -> g_compiled st = true ->
  choices_valid st -> done_ok u st (k, d) -> out_ty st k = Some (TConc c) ->
  bad_branch u st k d = false /\ bad_target u st k d = false.
Proof. exact concrete_upstream_main. Qed.
Print Assumptions mismatch_only_from_interface.

Example may_edges_error_iff_nonvacuous :
  choices_valid st_b /\
  run U0 (assert_type U0) [(2, DVal 1)]%N st_b (DVal 0) = RTypeErr /\
  run_dones U0 [(2, DVal 1)]%N st_b (DVal 0) = [[(0, DVal 0)]; [(2, DVal 1)]; [(3, DVal 1)]]%N /\
  step_mismatch U0 st_b [(3, DVal 1)]%N = true /\
  step_mismatch U0 st_b [(2, DVal 1)]%N = false /\
  run U0 (assert_type U0) [(2, DVal 0)]%N st_b (DVal 0) = ROk (DVal 0) /\
  forallb (fun done => negb (step_mismatch U0 st_b done)) (run_dones U0 [(2, DVal 0)]%N st_b (DVal 0)) = true.
Proof. split; [apply choices_valid_b; vm_compute; reflexivity|]. vm_compute. repeat split. Qed.

(* an interface-typed branch condition fed from an any-typed node: T1 passes, T3 (no M2) is
   the ordinary error of the branch's converter; a condition returning a node that is not an
   end node of its branch is the other ordinary error *)
Definition ops_d (choice : list key) : list op :=
  [OpNode 2 T1 TAny None None; OpNode 3 I2 T1 None None; OpNode 4 I2 T1 None None;
   OpEdge 0 2; OpBranch 2 I2 [3; 4] choice; OpEdge 3 1; OpEdge 4 1; OpCompile]%N.
Example may_edges_branch_nonvacuous :
  let st := fst (run_ops U0 asc 0 (init_graph T1 T1 None) (ops_d [3]%N)) in
  let st' := fst (run_ops U0 asc 0 (init_graph T1 T1 None) (ops_d [2]%N)) in
  g_compiled st = true /\ g_compiled st' = true /\
  run U0 (assert_type U0) [(2, DVal 0)]%N st (DVal 0) = ROk (DVal 0) /\
  run U0 (assert_type U0) [(2, DVal 2)]%N st (DVal 0) = RTypeErr /\
  step_mismatch U0 st [(2, DVal 2)]%N = true /\
  run U0 (assert_type U0) [(2, DVal 0)]%N st' (DVal 0) = ROther.
Proof. vm_compute. repeat split. Qed.

(* ------------------------------------------------------------------ inference_order_independent *)

(* Work-list order.  For every sequence of calls, the iteration order of toValidateMap at
   every range statement and of branch.endNodes (the oracles [orcs1], [orcs2]) is
   invisible: the same calls succeed, every node gets the same types, the same
   connections carry converters, the same entries stay pending, and every run of the
   result behaves the same.  (This needs all four repairs; see the refutations below.) *)
Theorem inference_worklist_order_independent : forall u orcs1 orcs2 i o s ops st1 oks1 st2 oks2,
  run_ops u orcs1 0 (init_graph i o s) ops = (st1, oks1) ->
  run_ops u orcs2 0 (init_graph i o s) ops = (st2, oks2) ->
  oks1 = oks2 /\
  (forall k, in_ty st1 k = in_ty st2 k) /\ (forall k, out_ty st1 k = out_ty st2 k) /\
  g_nodes st1 = g_nodes st2 /\ g_data st1 = g_data st2 /\ g_branches st1 = g_branches st2 /\
  g_compiled st1 = g_compiled st2 /\ g_err st1 = g_err st2 /\
  (forall x, In x (g_hedge st1) <-> In x (g_hedge st2)) /\
  (forall p, In p (g_tvm st1) <-> In p (g_tvm st2)) /\
  (forall asrt emit input, run u asrt emit st1 input = run u asrt emit st2 input).
Proof. exact worklist_independent_obs. Qed.
Print Assumptions inference_worklist_order_independent.

Definition asc2 : nat -> nat -> nat -> list key := fun _ _ _ => [0; 1; 2; 3; 4; 5; 6; 7]%N.
Definition desc2 : nat -> nat -> nat -> list key := fun _ _ _ => [7; 6; 5; 4; 3; 2; 1; 0]%N.

(* three linked passthrough nodes typed backwards: different oracles, different numbers of
   passes, same result *)
Definition ops_chain : list op :=
  [OpPass 2 None None; OpPass 3 None None; OpPass 4 None None; OpNode 5 I2 T1 None None;
   OpEdge 2 3; OpEdge 3 4; OpEdge 4 5; OpEdge 0 2; OpEdge 5 1; OpCompile]%N.
Example inference_worklist_order_independent_nonvacuous :
  let r1 := run_ops U0 asc2 0 (init_graph T1 T1 None) ops_chain in
  let r2 := run_ops U0 desc2 0 (init_graph T1 T1 None) ops_chain in
  snd r1 = snd r2 /\ g_compiled (fst r1) = true /\ in_ty (fst r1) 2%N = Some I2 /\ in_ty (fst r2) 2%N = Some I2.
Proof. vm_compute. auto. Qed.

(* F-C07d (before d47d56e, [noprop = true]): Q->P pending, a branch without end nodes types Q
   as I2, then START:T1->P: the two types meet in one update and P->n4:T2 is accepted or
   rejected depending on the iteration order *)
Definition ops_e : list op :=
  [OpPass 2 None None; OpPass 3 None None; OpNode 4 T2 T1 None None; OpEdge 2 3; OpBranch 2 I2 [] [];
   OpEdge 0 3; OpEdge 0 2; OpEdge 3 4; OpEdge 4 1; OpCompile]%N.
Theorem inference_worklist_order_independent_v0_refuted :
  last (snd (run_ops_sel U0 false false true asc 0 (init_graph T1 T1 None) ops_e)) false = true /\
  last (snd (run_ops_sel U0 false false true asc2 0 (init_graph T1 T1 None) ops_e)) false = false /\
  snd (run_ops U0 asc 0 (init_graph T1 T1 None) ops_e) = snd (run_ops U0 asc2 0 (init_graph T1 T1 None) ops_e).
Proof. vm_compute. auto. Qed.

(* F-C07c (before 95ae261, [stale = true], together with the unpropagated branch type):
   X->Q1, X->Q2 pending, Q1 typed T1, then Q2->n5:T2: rejected, or accepted with X's type
   overwritten -- and the accepted graph panics at run time *)
Definition ops_f : list op :=
  [OpPass 2 None None; OpPass 3 None None; OpPass 4 None None; OpNode 5 T2 T2 None None; OpNode 6 T1 T2 None None;
   OpEdge 2 3; OpEdge 2 4; OpBranch 3 T1 [] []; OpEdge 4 5; OpEdge 0 2; OpEdge 5 1; OpEdge 3 6; OpEdge 6 1; OpCompile]%N.
Theorem inference_worklist_order_independent_v00_refuted :
  last (snd (run_ops_sel U0 false true true asc 0 (init_graph T2 T2 None) ops_f)) false = false /\
  (let st := fst (run_ops_sel U0 false true true desc2 0 (init_graph T2 T2 None) ops_f) in
   g_compiled st = true /\ run U0 (assert_type U0) [] st (DVal 1) = RPanicEsc).
Proof. vm_compute. auto. Qed.

(* Order of the Add* calls.  With interface types it is observable, so the statement
   "accept/reject and inferred types are the same for every order of the Add* calls that
   keeps node-before-edge" is false as it stands: P->n4:I2 first types P as I2 and
   P->n5:T2 is then accepted with a run-time check; n2:T1->P first types P as T1 and
   P->n5:T2 is rejected.  Both outcomes are sound (compile_sound, run_type_safe hold for
   every order). *)
Definition ops_g1 : list op :=
  [OpNode 2 T1 T1 None None; OpPass 3 None None; OpNode 4 I2 T1 None None; OpNode 5 T2 T1 None None;
   OpEdge 0 2; OpEdge 3 4; OpEdge 2 3; OpEdge 3 5; OpEdge 4 1; OpEdge 5 1; OpCompile]%N.
Definition ops_g2 : list op :=
  [OpNode 2 T1 T1 None None; OpPass 3 None None; OpNode 4 I2 T1 None None; OpNode 5 T2 T1 None None;
   OpEdge 0 2; OpEdge 2 3; OpEdge 3 4; OpEdge 3 5; OpEdge 4 1; OpEdge 5 1; OpCompile]%N.
Theorem inference_order_independent_refuted :
  Permutation.Permutation ops_g1 ops_g2 /\
  last (snd (run_ops U0 asc 0 (init_graph T1 T1 None) ops_g1)) false = true /\
  last (snd (run_ops U0 asc 0 (init_graph T1 T1 None) ops_g2)) false = false.
Proof.
  split; [|vm_compute; auto].
  unfold ops_g1, ops_g2. do 5 apply Permutation.perm_skip. apply Permutation.perm_swap.
Qed.

(* Partial form that does hold: universes without interface types.
   [conc t]: t is not an interface type; [op_tyP conc]: the call declares only such types;
   [no_compile]: no Compile inside the sequence (one is appended at the end);
   [nbu [] L]: node-before-use, every AddEdge / AddBranch names only START, END and nodes
   added by earlier calls of L.  For every type universe, all oracles, every permutation:
   if one order is accepted, the other is accepted too and every node (passthrough nodes
   included) gets the same input and output type.  Invalid sequences (duplicate keys or
   edges, bad handlers, ...) are covered: they are rejected in every order. *)
Theorem inference_order_independent_partial : forall u orcs1 orcs2 i o s L1 L2,
  conc i -> conc o -> Forall (op_tyP conc) L1 -> no_compile L1 ->
  Permutation.Permutation L1 L2 -> nbu [] L2 ->
  last (snd (run_ops u orcs1 0 (init_graph i o s) (L1 ++ [OpCompile]))) false = true ->
  last (snd (run_ops u orcs2 0 (init_graph i o s) (L2 ++ [OpCompile]))) false = true /\
  forall k,
    in_ty (fst (run_ops u orcs1 0 (init_graph i o s) (L1 ++ [OpCompile]))) k =
    in_ty (fst (run_ops u orcs2 0 (init_graph i o s) (L2 ++ [OpCompile]))) k /\
    out_ty (fst (run_ops u orcs1 0 (init_graph i o s) (L1 ++ [OpCompile]))) k =
    out_ty (fst (run_ops u orcs2 0 (init_graph i o s) (L2 ++ [OpCompile]))) k.
Proof. exact add_order_accept. Qed.
Print Assumptions inference_order_independent_partial.

(* ... hence the same verdict when both orders keep node-before-use *)
Theorem inference_order_independent_partial_verdict : forall u orcs1 orcs2 i o s L1 L2,
  conc i -> conc o -> Forall (op_tyP conc) L1 -> no_compile L1 ->
  Permutation.Permutation L1 L2 -> nbu [] L1 -> nbu [] L2 ->
  last (snd (run_ops u orcs1 0 (init_graph i o s) (L1 ++ [OpCompile]))) false =
  last (snd (run_ops u orcs2 0 (init_graph i o s) (L2 ++ [OpCompile]))) false.
Proof. exact add_order_verdict. Qed.
Print Assumptions inference_order_independent_partial_verdict.

(* Round 3: the same holds whenever the declared types (graph input / output, node input /
   output, branch conditions) form an ANTICHAIN of the lattice -- pairwise incomparable: two of
   them are compatible only when equal -- interface types included: a graph over T3 and I1
   (T3 does not implement I1), over G[int] and G[string], over I2 alone...  The order of the
   Add* calls is observable only when two declared types are related by Implements (the
   refutation above uses T1, T2 and I2, which both implement). *)
Definition antichain (u : univ) (P : ty -> Prop) : Prop :=
  forall a b, P a -> P b -> check_assignable u (Some a) (Some b) <> MustNot -> a = b.

Theorem inference_order_independent_antichain : forall u (P : ty -> Prop) orcs1 orcs2 i o s L1 L2,
  antichain u P -> P i -> P o -> Forall (op_tyP P) L1 -> no_compile L1 ->
  Permutation.Permutation L1 L2 -> nbu [] L2 ->
  last (snd (run_ops u orcs1 0 (init_graph i o s) (L1 ++ [OpCompile]))) false = true ->
  last (snd (run_ops u orcs2 0 (init_graph i o s) (L2 ++ [OpCompile]))) false = true /\
  forall k,
    in_ty (fst (run_ops u orcs1 0 (init_graph i o s) (L1 ++ [OpCompile]))) k =
    in_ty (fst (run_ops u orcs2 0 (init_graph i o s) (L2 ++ [OpCompile]))) k /\
    out_ty (fst (run_ops u orcs1 0 (init_graph i o s) (L1 ++ [OpCompile]))) k =
    out_ty (fst (run_ops u orcs2 0 (init_graph i o s) (L2 ++ [OpCompile]))) k.
Proof. intros u P orcs1 orcs2 i o s L1 L2 A. exact (add_order_accept_gen u P A orcs1 orcs2 i o s L1 L2). Qed.
Print Assumptions inference_order_independent_antichain.

Theorem inference_order_independent_antichain_verdict : forall u (P : ty -> Prop) orcs1 orcs2 i o s L1 L2,
  antichain u P -> P i -> P o -> Forall (op_tyP P) L1 -> no_compile L1 ->
  Permutation.Permutation L1 L2 -> nbu [] L1 -> nbu [] L2 ->
  last (snd (run_ops u orcs1 0 (init_graph i o s) (L1 ++ [OpCompile]))) false =
  last (snd (run_ops u orcs2 0 (init_graph i o s) (L2 ++ [OpCompile]))) false.
Proof. intros u P orcs1 orcs2 i o s L1 L2 A. exact (add_order_verdict_gen u P A orcs1 orcs2 i o s L1 L2). Qed.
Print Assumptions inference_order_independent_antichain_verdict.

(* an antichain with an interface type: {I1, T3}; START:I1 -> P -> n3:(I1 -> T3) -> Q -> END:T3 *)
Definition P_i1t3 (t : ty) : Prop := t = I1 \/ t = T3.
Definition ops_an : list op := [OpPass 2 None None; OpNode 3 I1 T3 None None; OpPass 4 None None]%N.
Definition ops_ac : list op := [OpEdge 0 2; OpEdge 2 3; OpEdge 3 4; OpEdge 4 1]%N.
Example inference_order_independent_antichain_nonvacuous :
  antichain U0 P_i1t3 /\ P_i1t3 I1 /\ P_i1t3 T3 /\
  Forall (op_tyP P_i1t3) (ops_an ++ ops_ac) /\ no_compile (ops_an ++ ops_ac) /\
  Permutation.Permutation (ops_an ++ ops_ac) (rev ops_an ++ rev ops_ac) /\
  nbu [] (ops_an ++ ops_ac) /\ nbu [] (rev ops_an ++ rev ops_ac) /\
  last (snd (run_ops U0 asc 0 (init_graph I1 T3 None) ((ops_an ++ ops_ac) ++ [OpCompile]))) false = true /\
  in_ty (fst (run_ops U0 asc2 0 (init_graph I1 T3 None) ((rev ops_an ++ rev ops_ac) ++ [OpCompile]))) 2%N = Some I1 /\
  in_ty (fst (run_ops U0 asc2 0 (init_graph I1 T3 None) ((rev ops_an ++ rev ops_ac) ++ [OpCompile]))) 4%N = Some T3.
Proof.
  split.
  { intros a b [Ha|Ha] [Hb|Hb] H; subst; try reflexivity; exfalso; apply H; vm_compute; reflexivity. }
  split; [left; reflexivity|]. split; [right; reflexivity|].
  split.
  { apply Forall_forall. intros x Hx. simpl in Hx.
    repeat (destruct Hx as [Hx|Hx]; [subst x; simpl; try exact I; try (split; [left|right]; reflexivity)|]).
    destruct Hx. }
  split; [repeat constructor; discriminate|].
  split; [apply Permutation.Permutation_app; apply Permutation.Permutation_rev|].
  split; [simpl; intuition (try discriminate); subst; simpl; intuition|].
  split; [simpl; intuition (try discriminate); subst; simpl; intuition|].
  vm_compute. auto.
Qed.

(* two passthrough nodes and a branch, connection calls in opposite orders *)
Definition ops_hn : list op :=
  [OpNode 2 T1 T2 None None; OpPass 3 None None; OpPass 4 None None; OpNode 5 T2 T1 None None]%N.
Definition ops_hc : list op :=
  [OpEdge 0 2; OpEdge 2 3; OpEdge 3 4; OpBranch 4 T2 [5; 3] [5]; OpEdge 5 1]%N.
Definition ops_h1 : list op := ops_hn ++ ops_hc.
Definition ops_h2 : list op := rev ops_hn ++ rev ops_hc.
Example inference_order_independent_partial_nonvacuous :
  conc T1 /\ Forall (op_tyP conc) ops_h1 /\ no_compile ops_h1 /\
  Permutation.Permutation ops_h1 ops_h2 /\ nbu [] ops_h1 /\ nbu [] ops_h2 /\
  last (snd (run_ops U0 asc 0 (init_graph T1 T1 None) (ops_h1 ++ [OpCompile]))) false = true /\
  in_ty (fst (run_ops U0 asc2 0 (init_graph T1 T1 None) (ops_h2 ++ [OpCompile]))) 3%N = Some T2.
Proof.
  split; [reflexivity|].
  split; [repeat constructor|].
  split; [repeat constructor; discriminate|].
  split.
  { unfold ops_h1, ops_h2. apply Permutation.Permutation_app; apply Permutation.Permutation_rev. }
  split; [simpl; intuition (try discriminate); subst; simpl; intuition|].
  split; [simpl; intuition (try discriminate); subst; simpl; intuition|].
  vm_compute. auto.
Qed.
