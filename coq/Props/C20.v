(* Props/C20.v — property C20: ill-formed constructions are rejected with an error and
   never a panic, at any position of any call sequence; the first build error sticks;
   after a successful Compile the builder cannot be modified and the runnable obtained
   is unaffected by every later call, including another Compile.
   The statements are about the executable model Model/Builder.v (version [fixed] = the
   tree after the repairs F-C20a..d), whose steps the correspondence check compares with
   the implementation outcome by outcome and state by state.  Determinism: every step is a
   function of the state and the call; the places where Go iterates a map are either a
   parameter over which the theorems quantify (Workflow.compile's visiting order [ord];
   accept / reject is proved independent of it) or proved irrelevant (validateDAG's
   sweeps, the type inference loop).  Only statements, each closed by [exact]. *)
From Eino Require Import Base.Util Model.Builder Proofs.Builder Proofs.BuilderReject Proofs.BuilderDag Proofs.BuilderSound Proofs.BuilderReject2 Proofs.BuilderInfer Proofs.BuilderWfOrder Proofs.BuilderReject3 Proofs.BuilderSticky Proofs.BuilderAgree Model.BuilderNested Proofs.BuilderNested.
From Coq Require Import Permutation.
Local Open Scope string_scope.
Local Open Scope list_scope.

(* ------------------------------------------------------------------ first_error_sticks *)
(* Graph: after an Add* call failed with a build error, every later call (Add* or Compile,
   any version) returns that same error and the builder state no longer changes.
   Chain / Workflow (Add* calls cannot return errors): once the deferred error is set,
   every Compile of every later call sequence returns it; a Workflow's graph is unchanged. *)
Theorem first_error_sticks :
  (forall v g c g' e cs,
      is_add c = true -> gstep v g c = (g', OErr e) -> e <> ECompiled ->
      run_calls (gstep v) g' cs = (g', map (fun _ => OErr e) cs))
  /\ (forall c e cs,
      c_err c = Some e ->
      c_err (fst (run_calls (cstep fixed) c cs)) = Some e /\
      Forall2 (fun call o => c_is_compile call = true -> o = OErr e) cs (snd (run_calls (cstep fixed) c cs)))
  /\ (forall w e cs,
      g_err (w_g w) = Some e ->
      w_g (fst (run_calls (wstep fixed) w cs)) = w_g w /\
      Forall2 (fun call o => w_is_compile call = true -> o = OErr e) cs (snd (run_calls (wstep fixed) w cs))).
Proof. exact (conj graph_first_error_sticks (conj chain_first_error_sticks workflow_first_error_sticks)). Qed.
Print Assumptions first_error_sticks.

Example first_error_sticks_nonvacuous :
  run_calls (gstep fixed) (g_init CGraph false)
    [GAddNode "a" NLambda false false; GAddNode "a" NLambda false false; GAddEdge START "a"; GCompile opt_default]
  = (set_err (Some EDupNode) (set_nodes [("a", mkNode NLambda true true false)] (g_init CGraph false)),
     [OOk; OErr EDupNode; OErr EDupNode; OErr EDupNode]).
Proof. vm_compute. reflexivity. Qed.

(* first_error_sticks, continued: the errors a Workflow meets while Compile makes its deferred
   calls.  A failing deferred addEdge / addBranch is recorded in the build error (above); a
   conflict of mapping targets is not recorded anywhere — and still sticks.  At every point of
   every call sequence on a Workflow that has not been compiled yet: if a Compile fails with an
   error that is not one of graph.compile's own rejections ([compile_time]: trigger / step-limit
   option, no entry, no exit, un-inferable type, duplicate mapping target, invalid sub graph, cycle
   — the ones a later call or other options can still repair), then every Compile of every later
   call sequence fails, whatever orders the Compiles take. *)
Theorem deferred_error_sticks :
  forall st cs0 o ord sord w' e,
    let w := final (wstep fixed) (w_init st) cs0 in
    g_compiled (w_g w) = false ->
    wstep fixed w (WCompile o ord sord) = (w', OErr e) -> ~ compile_time e ->
    forall cs, Forall2 (fun call out => w_is_compile call = true -> is_err out) cs (snd (run_calls (wstep fixed) w' cs)).
Proof. exact Proofs.BuilderSticky.deferred_error_sticks. Qed.
Print Assumptions deferred_error_sticks.

Example deferred_error_sticks_nonvacuous :
  let w := final (wstep fixed) (w_init false) wf_unrecorded in
  g_compiled (w_g w) = false /\
  snd (wstep fixed w (WCompile opt_default [] [])) = OErr EMapConflict /\
  g_err (w_g (fst (wstep fixed w (WCompile opt_default [] [])))) = None /\
  ~ compile_time EMapConflict.
Proof. exact wf_unrecorded_run. Qed.

(* ------------------------------------------------------------------ rejects_each_kind *)
(* For every state (hence at any position of any sequence) and every kind of ill-formedness
   the property lists, the outcome is an error:
   1. Graph Add* calls ([gviolation]: reserved / duplicate node key, state handler without
      state, node-key option outside a chain, END as start, START as end, unknown edge start
      / end, duplicate edge, branch from END / from an unknown node, single-target branch,
      unknown branch target);
   2. Compile ([gill]: no entry, no exit, un-inferable pass-through edge or node, duplicate
      mapping target, trigger mode on a chain / workflow, invalid sub graph, cycle in
      all-predecessor mode, max steps in DAG mode);
   3. a cycle (through edges or branches) really is rejected in all-predecessor mode;
   4. Chain: the violation ([cviolation]) is reported by every later Compile;
   5. Workflow: a bad AddNode is recorded in the build error; a branch to a node that was
      never added makes Compile fail (F-C20a: it panicked);
   6. and no call of any front-end has the panic outcome. *)
Theorem rejects_each_kind :
  (forall v g c, gviolation g c -> is_err (snd (gstep v g c)))
  /\ (forall g o, gill g o -> is_err (snd (g_compile fixed g o)))
  /\ (forall c call cs, cviolation c call ->
        exists e, Forall2 (fun k o => c_is_compile k = true -> o = OErr e) cs
                          (snd (run_calls (cstep fixed) (fst (cstep fixed c call)) cs)))
  /\ (forall w k nk ns, g_compiled (w_g w) = false ->
        is_se k = true \/ has_node (w_g w) k = true \/ (ns = true /\ g_state (w_g w) = false) ->
        g_err (w_g (fst (wstep fixed w (WAddNode k nk ns)))) <> None)
  /\ (forall w o ord sord, existsb (bad_branch w) (w_branches w) = true -> is_err (snd (w_compile fixed w o ord sord)))
  /\ (forall g c, snd (gstep fixed g c) <> OPanic)
  /\ (forall c call, snd (cstep fixed c call) <> OPanic)
  /\ (forall w call, snd (wstep fixed w call) <> OPanic).
Proof.
  exact (conj graph_rejects_add (conj compile_rejects ((conj chain_rejects_at_compile
        (conj workflow_rejects_node (conj workflow_rejects_unknown_branch_target
        (conj gstep_no_panic (conj cstep_no_panic wstep_no_panic)))))))).
Qed.
Print Assumptions rejects_each_kind.

Example rejects_cycle_nonvacuous :
  snd (run_calls (gstep fixed) (g_init CGraph false)
    [GAddNode "a" NLambda false false; GAddNode "b" NLambda false false; GAddEdge START "a";
     GAddEdge "a" "b"; GAddEdge "b" "a"; GAddEdge "b" END_;
     GCompile (mkOpt (Some true) 0%Z); GCompile opt_default])
  = [OOk; OOk; OOk; OOk; OOk; OOk; OErr EDagLoop;
     OCompiled (mkR [("a", NLambda); ("b", NLambda)]
                    [(START, "a"); ("a", "b"); ("b", "a"); ("b", END_)]
                    [(START, "a"); ("a", "b"); ("b", "a"); ("b", END_)] [] false false 12%Z (Some []))].
Proof. vm_compute. reflexivity. Qed.

(* rejects_each_kind, continued: the violations a Chain / Workflow only meets when Compile makes
   the deferred graph calls.  In every state and for every visiting order [ord]:
   1. a Chain Compile with a trigger-mode option fails;
   2. a Workflow Compile with a trigger-mode option or a step limit fails;
   3. a Workflow with a deferred AddBranch from END, from an unknown node or with a single target
      fails to compile;
   4. a Workflow node that still carries an input declared from a node that was never added makes
      Compile fail;
   [g_cmp] is CChain / CWorkflow in every state reachable from NewChain / NewWorkflow. *)
Theorem rejects_deferred :
  (forall c o, g_cmp (c_g c) = CChain -> o_trigger o <> None -> is_err (snd (cstep fixed c (CCompile o))))
  /\ (forall w o ord sord, g_cmp (w_g w) = CWorkflow -> (o_trigger o <> None \/ (0 < o_max_steps o)%Z) ->
        is_err (snd (wstep fixed w (WCompile o ord sord))))
  /\ (forall w o ord sord, g_compiled (w_g w) = false ->
        (exists b, In b (w_branches w) /\ bad_branch_call (w_g w) b) ->
        is_err (snd (wstep fixed w (WCompile o ord sord))))
  /\ (forall w o ord sord k n i,
        alist_get k (w_nodes w) = Some n -> In i (wn_pending n) -> unknown_source (w_g w) i ->
        is_err (snd (wstep fixed w (WCompile o ord sord))))
  /\ ((forall v st cs, g_cmp (c_g (final (cstep v) (c_init st) cs)) = CChain)
      /\ (forall v st cs, g_cmp (w_g (final (wstep v) (w_init st) cs)) = CWorkflow)).
Proof.
  exact (conj chain_rejects_trigger_option (conj w_compile_rejects_option
        (conj workflow_rejects_bad_branch_call (conj workflow_rejects_unknown_input_source reachable_cmp)))).
Qed.
Print Assumptions rejects_deferred.

Example rejects_deferred_nonvacuous :
  (let w := final (wstep fixed) (w_init false) wf_unknown_input in
   exists n i, alist_get "a" (w_nodes w) = Some n /\ In i (wn_pending n) /\ unknown_source (w_g w) i)
  /\ snd (wstep fixed (final (wstep fixed) (w_init false) wf_unknown_input) (WCompile opt_default [] []))
     = OErr EEdgeStartUnknown.
Proof. exact (conj wf_unknown_input_hyp wf_unknown_input_rejected). Qed.

(* rejects_each_kind, continued: conflicting declarations on ONE Workflow node, met when Compile
   makes the node's deferred AddInput / AddInputWithOptions / AddDependency calls (the deprecated
   AddEnd is End().AddInput since d4925e3, so END's declarations are covered whichever way they
   were made).  In every state, for every Compile option and every pair of visiting orders:
   1. duplicate edge: two declarations from the same predecessor that both make a control edge
      (neither is WithNoDirectDependency) or both make a data edge (neither is AddDependency);
   2. overlapping mapping targets: two data declarations of which one maps the whole input, or
      which share a target field;
   3. one data declaration naming a target field twice. *)
Theorem rejects_conflicting_inputs :
  (forall w o ord sord k n l1 i1 l2 i2 l3,
      alist_get k (w_nodes w) = Some n -> wn_pending n = l1 ++ i1 :: l2 ++ i2 :: l3 -> same_dependency i1 i2 ->
      is_err (snd (wstep fixed w (WCompile o ord sord))))
  /\ (forall w o ord sord k n l1 i1 l2 i2 l3,
      alist_get k (w_nodes w) = Some n -> wn_pending n = l1 ++ i1 :: l2 ++ i2 :: l3 -> overlapping i1 i2 ->
      is_err (snd (wstep fixed w (WCompile o ord sord))))
  /\ (forall w o ord sord k n l1 i l2,
      alist_get k (w_nodes w) = Some n -> wn_pending n = l1 ++ i :: l2 ->
      adds_data i = true -> has_dup (wi_fields i) = true ->
      is_err (snd (wstep fixed w (WCompile o ord sord)))).
Proof.
  exact (conj workflow_rejects_duplicate_dependency workflow_rejects_overlapping_mappings).
Qed.
Print Assumptions rejects_conflicting_inputs.

Example rejects_conflicting_inputs_nonvacuous :
  (let w := final (wstep fixed) (w_init false) wf_dup_dependency in
   exists n i1 i2, alist_get "b" (w_nodes w) = Some n /\ wn_pending n = [] ++ i1 :: [] ++ i2 :: [] /\ same_dependency i1 i2)
  /\ snd (wstep fixed (final (wstep fixed) (w_init false) wf_dup_dependency) (WCompile opt_default [] [])) = OErr EDupCtrlEdge
  /\ (let w := final (wstep fixed) (w_init false) wf_addend_overlap in
      exists n i1 i2, alist_get END_ (w_nodes w) = Some n /\ wn_pending n = [] ++ i1 :: [] ++ i2 :: [] /\ overlapping i1 i2)
  /\ snd (wstep fixed (final (wstep fixed) (w_init false) wf_addend_overlap) (WCompile opt_default [] [])) = OErr EMapConflict.
Proof.
  exact (conj wf_dup_dependency_hyp (conj wf_dup_dependency_rejected (conj wf_addend_overlap_hyp wf_addend_overlap_rejected))).
Qed.

(* ------------------------------------------------------------------ no_modification_after_compile *)
(* After a successful Compile: a Graph refuses every Add* with the compiled error and no
   call changes its state; no call changes a Chain's graph, and an Append* is answered by
   the next Compile; no call changes anything of a Workflow's graph except that a build
   error may still be recorded. *)
Theorem no_modification_after_compile :
  (forall g c, g_compiled g = true -> g_err g = None -> is_add c = true -> gstep fixed g c = (g, OErr ECompiled))
  /\ (forall g cs, g_compiled g = true -> final (gstep fixed) g cs = g)
  /\ (forall cs c, g_compiled (c_g c) = true -> c_g (final (cstep fixed) c cs) = c_g c)
  /\ (forall c nk key ns, g_compiled (c_g c) = true -> c_err (c_append c nk key ns) <> None)
  /\ (forall cs w, g_compiled (w_g w) = true -> core (w_g (final (wstep fixed) w cs)) = core (w_g w)).
Proof.
  exact (conj compiled_add_refused (conj compiled_grun (conj compiled_crun
        (conj compiled_append_reported compiled_wrun)))).
Qed.
Print Assumptions no_modification_after_compile.

(* ------------------------------------------------------------------ runner_unaffected *)
(* The runner returned by a successful Compile computes with the same data after every
   later sequence of calls (including further Compiles): its view — own fields plus
   everything it reads through references shared with the builder — is the same value. *)
Theorem runner_unaffected :
  (forall g o g1 r cs, gstep fixed g (GCompile o) = (g1, OCompiled r) ->
      runner_view (final (gstep fixed) g1 cs) r = runner_view g1 r)
  /\ (forall c o c1 r cs, cstep fixed c (CCompile o) = (c1, OCompiled r) ->
      runner_view (c_g (final (cstep fixed) c1 cs)) r = runner_view (c_g c1) r)
  /\ (forall w o ord sord w1 r cs, wstep fixed w (WCompile o ord sord) = (w1, OCompiled r) ->
      runner_view (w_g (final (wstep fixed) w1 cs)) r = runner_view (w_g w1) r).
Proof. exact (conj graph_runner_unaffected (conj chain_runner_unaffected workflow_runner_unaffected)). Qed.
Print Assumptions runner_unaffected.

Example runner_unaffected_nonvacuous :
  match first_runner fixed with
  | Some (w1, r) =>
      rv_prenode (runner_view (w_g w1) r) = ["a"] /\
      rv_prenode (runner_view (w_g (fst (wstep fixed w1 (WCompile opt_default [] [])))) r) = ["a"]
  | None => False
  end.
Proof. exact wf_compile_twice_fixed. Qed.

(* ------------------------------------------------------------------ compile_sound (stretch) *)
(* Soundness of acceptance.  Whatever calls were made before it, on any of the three
   front-ends and for every map order, a Compile that succeeds returns a runner built
   from a WELL-FORMED graph ([well_formed], Proofs/BuilderSound.v): node keys distinct and
   not reserved; every edge and branch between known nodes (START only as a source, END
   only as a target); no duplicate control or data edge; no branch with a single target;
   a node with a state handler only in a graph with state; an edge or branch out of START
   and one into END; every pass-through type inferred; no duplicate mapping target; no
   invalid sub graph; no trigger-mode option on a Chain / Workflow; no step limit in
   all-predecessor mode; and in all-predecessor mode a topological order of all nodes
   w.r.t. the control edges and branch targets (no cycle).  [runner_of]: the runner's node
   table, edges, branches and mode are the graph's. *)
Theorem compile_sound :
  (forall st cs o g1 r,
      gstep fixed (final (gstep fixed) (g_init CGraph st) cs) (GCompile o) = (g1, OCompiled r) ->
      well_formed g1 o /\ runner_of g1 o r)
  /\ (forall st cs o c1 r,
      cstep fixed (final (cstep fixed) (c_init st) cs) (CCompile o) = (c1, OCompiled r) ->
      well_formed (c_g c1) o /\ runner_of (c_g c1) o r)
  /\ (forall st cs o ord sord w1 r,
      wstep fixed (final (wstep fixed) (w_init st) cs) (WCompile o ord sord) = (w1, OCompiled r) ->
      well_formed (w_g w1) o /\ runner_of (w_g w1) o r).
Proof. exact (conj graph_compile_sound (conj chain_compile_sound workflow_compile_sound)). Qed.
Print Assumptions compile_sound.

Example compile_sound_nonvacuous :
  exists g1 r, gstep fixed (final (gstep fixed) (g_init CGraph false) sound_example) (GCompile (mkOpt (Some true) 0%Z))
               = (g1, OCompiled r) /\ r_dag r = true /\ List.length (r_nodes r) = 3%nat.
Proof. exact sound_example_compiles. Qed.

(* the structural invariant [ginv] behind it holds in every state any call sequence of any
   version can produce *)
Theorem builder_invariant :
  (forall v st cs, ginv (final (gstep v) (g_init CGraph st) cs))
  /\ (forall v st cs, ginv (c_g (final (cstep v) (c_init st) cs)))
  /\ (forall v st cs, ginv (w_g (final (wstep v) (w_init st) cs))).
Proof. exact reachable_ginv. Qed.
Print Assumptions builder_invariant.

(* validateDAG (the counter algorithm of graph.go, sweeping a Go map): on every state that
   satisfies the invariant it accepts exactly when a topological order of the nodes exists,
   and every run of the algorithm — the nodes fired in ANY order, until none is ready —
   ends with the verdict of the model's run (determinism under map iteration). *)
Theorem validateDAG_sound :
  forall g, ginv g -> validate_dag g = true -> exists order, topo (ctrl_pairs g) (keys g) order.
Proof. exact validate_dag_sound. Qed.
Print Assumptions validateDAG_sound.

Theorem validateDAG_complete :
  forall g, ginv g -> (exists order, topo (ctrl_pairs g) (keys g) order) -> validate_dag g = true.
Proof. exact validate_dag_complete. Qed.
Print Assumptions validateDAG_complete.

Theorem validateDAG_order_independent :
  forall g m, ginv g ->
    reach (ctrl_pairs g) (keys g) (init (ctrl_pairs g) (keys g)) m -> stable (keys g) m ->
    accepted m = validate_dag g.
Proof. exact validate_dag_any_order. Qed.
Print Assumptions validateDAG_order_independent.

Example validateDAG_order_independent_nonvacuous :
  forall g, ginv g ->
    reach (ctrl_pairs g) (keys g) (init (ctrl_pairs g) (keys g)) (dag_final (ctrl_pairs g) (keys g)) /\
    stable (keys g) (dag_final (ctrl_pairs g) (keys g)).
Proof. exact any_order_example. Qed.

(* ------------------------------------------------------------------ determinism of type inference *)
(* updateToValidateMap (inference of pass-through types; it decides the "cannot be inferred"
   rejection) loops over a Go map.  Any two runs of the loop — pending entries resolved in
   ANY order, until no entry is resolvable — from a state [g0] whose pending ends are known
   nodes end with the same input/output type flags for every node and the same pending
   entries; the model's [update_pending] is one such run; and the side conditions hold
   wherever AddEdge / AddBranch call it, in every reachable state of every front-end. *)
Theorem inference_order_independent :
  (forall g0 g1 g2, io_ok g0 -> ends_ok g0 ->
      ireach g0 g1 -> istable g1 -> ireach g0 g2 -> istable g2 ->
      (forall k, in_typed g1 k = in_typed g2 k /\ out_typed g1 k = out_typed g2 k) /\
      Permutation (g_pending g1) (g_pending g2))
  /\ (forall g, ireach g (update_pending g) /\ istable (update_pending g))
  /\ (forall g s e fs g',
      pinv g -> (is_se s = true \/ has_node g s = true) -> (is_se e = true \/ has_node g e = true) ->
      let g1 := set_pending (g_pending g ++ [(s, e, fs)]) g in
      ireach g1 g' -> istable g' ->
      (forall k, in_typed g' k = in_typed (update_pending g1) k /\ out_typed g' k = out_typed (update_pending g1) k) /\
      Permutation (g_pending g') (g_pending (update_pending g1)))
  /\ ((forall v st cs, pinv (final (gstep v) (g_init CGraph st) cs))
      /\ (forall v st cs, pinv (c_g (final (cstep v) (c_init st) cs)))
      /\ (forall v st cs, pinv (w_g (final (wstep v) (w_init st) cs)))).
Proof.
  exact (conj infer_order_independent (conj update_pending_is_a_run (conj push_then_infer_any_order reachable_pinv))).
Qed.
Print Assumptions inference_order_independent.

Example inference_order_independent_nonvacuous :
  let g1 := set_pending (g_pending infer_example ++ [("q", "a", [])]) infer_example in
  g_pending g1 = [("p", "q", []); ("q", "a", [])] /\
  resolvable g1 ("p", "q", []) = false /\ resolvable g1 ("q", "a", []) = true /\
  g_pending (update_pending g1) = [] /\ in_typed (update_pending g1) "p" = true.
Proof. exact infer_example_run. Qed.

(* ------------------------------------------------------------------ determinism of Workflow.Compile *)
(* Workflow.compile applies the deferred inputs node by node in Go's map order ([ord]).  At
   every point of every call sequence (whatever orders earlier Compiles took), whether the
   next Compile ACCEPTS does not depend on the orders its two loops take ([ord]: deferred inputs, [sord]: static values); and whether its node phase
   meets a deferred error depends only on the set of nodes, not on the order.  (Which
   error a rejected Compile reports, and what it leaves behind, does depend on the order:
   [two_failing_orders].) *)
Theorem workflow_compile_order_independent :
  (forall st cs o ord1 sord1 ord2 sord2,
      let w := final (wstep fixed) (w_init st) cs in
      is_compiled (snd (wstep fixed w (WCompile o ord1 sord1))) = is_compiled (snd (wstep fixed w (WCompile o ord2 sord2))))
  /\ (forall w L1 L2, (forall k, In k L1 <-> In k L2) ->
      (snd (run_nodes w L1) = None <-> snd (run_nodes w L2) = None)).
Proof.
  split.
  - intros st cs o ord1 sord1 ord2 sord2 w. apply w_compile_order_independent. apply reachable_wf_ok.
  - exact run_nodes_verdict_order_independent.
Qed.
Print Assumptions workflow_compile_order_independent.

Example workflow_compile_order_nonvacuous :
  let w := final (wstep fixed) (w_init false) two_failing in
  snd (w_compile fixed w opt_default ["a"] []) = OErr EEdgeStartUnknown /\
  snd (w_compile fixed w opt_default ["b"] []) = OErr EMapped.
Proof. exact two_failing_orders. Qed.

(* "the same construction sequence gives the same outcome on every attempt", for a Workflow, in
   full: two complete executions of one call sequence — every Compile of either execution visiting
   the nodes in its own orders ([same_call]: equal calls up to the [ord] / [sord] arguments of
   WCompile) — agree call by call on the kind of outcome: ok, error, compiled ([okind]).  The
   states of the two executions do differ (edge lists in other orders; after a failed attempt other
   nodes consumed and another deferred error met: the Example), the proof is a simulation
   (Proofs/BuilderAgree.v): both workflows doomed, or equal up to list order ([weq] / [geq]), or
   compiled and agreeing on what is still waiting ([ceq]). *)
Theorem workflow_executions_agree :
  forall st cs1 cs2,
    Forall2 same_call cs1 cs2 ->
    Forall2 (fun o1 o2 => okind o1 = okind o2)
            (snd (run_calls (wstep fixed) (w_init st) cs1)) (snd (run_calls (wstep fixed) (w_init st) cs2)).
Proof. exact Proofs.BuilderAgree.workflow_executions_agree. Qed.
Print Assumptions workflow_executions_agree.

Example workflow_executions_agree_nonvacuous :
  forall cs1 cs2, two_failing_then cs1 cs2 ->
    Forall2 same_call cs1 cs2 /\
    map okind (snd (run_calls (wstep fixed) (w_init false) cs1)) = map okind (snd (run_calls (wstep fixed) (w_init false) cs2)) /\
    w_nodes (final (wstep fixed) (w_init false) cs1) <> w_nodes (final (wstep fixed) (w_init false) cs2).
Proof.
  intros cs1 cs2 H. split; [exact (two_failing_then_same cs1 cs2 H)|exact (two_failing_then_outcomes cs1 cs2 H)].
Qed.

(* no_modification_after_compile, continued (F-C20e): a static value set on a node of a
   compiled Workflow is not applied by the next Compile — it fails, for every pair of orders *)
Theorem static_value_after_compile_refused :
  forall w o ord sord k n,
    g_compiled (w_g w) = true -> alist_get k (w_nodes w) = Some n -> wn_static n <> [] ->
    is_err (snd (wstep fixed w (WCompile o ord sord))).
Proof. exact static_after_compile_refused. Qed.
Print Assumptions static_value_after_compile_refused.

Example static_value_after_compile_nonvacuous :
  match snd (run_calls (wstep fixed) (w_init false) static_after_compile) with
  | [OOk; OOk; OOk; OCompiled _; OOk; OErr ECompiled] => True
  | _ => False
  end.
Proof. exact static_after_compile_fixed. Qed.

(* no_modification_after_compile, continued, for the declarations a Workflow only records:
   1. a successful Compile leaves nothing waiting — every deferred declaration and every static
      value has been applied, exactly once (the next Compile finds none);
   2. a declaration made on a compiled Workflow (AddInput / AddInputWithOptions / AddDependency /
      AddEnd on any handle) is never applied: while it is waiting every Compile fails, for every
      option and pair of orders (for static values: static_value_after_compile_refused). *)
Theorem compiled_workflow_declarations :
  (forall w o ord sord w1 r,
      wstep fixed w (WCompile o ord sord) = (w1, OCompiled r) ->
      forall k n, alist_get k (w_nodes w1) = Some n -> wn_pending n = [] /\ wn_static n = [])
  /\ (forall w o ord sord k n,
      g_compiled (w_g w) = true -> alist_get k (w_nodes w) = Some n -> wn_pending n <> [] ->
      is_err (snd (wstep fixed w (WCompile o ord sord)))).
Proof. exact (conj compile_consumes_everything declaration_after_compile_refused). Qed.
Print Assumptions compiled_workflow_declarations.

Example compiled_workflow_declarations_nonvacuous :
  let w1 := fst (w_compile fixed (final (wstep fixed) (w_init false) wf_consumed) opt_default [] []) in
  okind (snd (w_compile fixed (final (wstep fixed) (w_init false) wf_consumed) opt_default [] [])) = 3%nat /\
  okind (snd (w_compile fixed (fst (wstep fixed w1 (WAddInput "a" START WDepOnly []))) opt_default [] [])) = 1%nat.
Proof. exact wf_consumed_run. Qed.

(* ------------------------------------------------------------------ builders compiled as nodes of another builder *)
(* "After a successful Compile the graph can no longer be modified", for a Graph that is compiled as a NODE of
   another Graph (AddGraphNode; Model/BuilderNested.v: the outer graph, the inner Graph / Chain values and the calls made
   on either, the children compiled in the order of their keys): after a successful Compile of the outer graph,
   every inner builder held by one of its nodes is compiled; whatever is called afterwards on the outer graph or on
   any inner builder (Add* / Append*, further Compiles of either), the graph of that inner builder stays exactly what it
   is, and every Add* on an inner Graph is answered with ErrGraphCompiled. *)
Theorem nested_children_frozen : forall s o s1 r k id oc i cs,
  nstep s (NOuter (GCompile o)) = (s1, OCompiled r) ->
  In k (map fst (g_nodes (ns_out s))) -> nlookup k (ns_att s) = Some (id, oc) -> nlookup id (ns_inn s1) = Some i ->
  let s2 := final nstep s1 cs in
  child_frozen s2 id (inner_graph i)
  /\ (forall gi c, nlookup id (ns_inn s2) = Some (IG gi) -> g_err gi = None -> is_add c = true ->
        nstep s2 (NInner id (KG c)) = (s2, OErr ECompiled)).
Proof. exact nested_no_modification_after_compile. Qed.
Print Assumptions nested_children_frozen.

(* the same for the states the correspondence replays — whatever was called before the Compile: every attachment
   names a node of the outer graph ([att_inv], an invariant of [nstep]) *)
Theorem nested_children_frozen_reachable : forall st cs0 o s1 r k id oc i cs,
  let s := final nstep (n_init st) cs0 in
  nstep s (NOuter (GCompile o)) = (s1, OCompiled r) ->
  nlookup k (ns_att s) = Some (id, oc) -> nlookup id (ns_inn s1) = Some i ->
  let s2 := final nstep s1 cs in
  child_frozen s2 id (inner_graph i)
  /\ (forall gi c, nlookup id (ns_inn s2) = Some (IG gi) -> g_err gi = None -> is_add c = true ->
        nstep s2 (NInner id (KG c)) = (s2, OErr ECompiled)).
Proof. exact nested_no_modification_after_compile_reachable. Qed.
Print Assumptions nested_children_frozen_reachable.

(* a Chain child: an Append* made on a compiled Chain cannot return an error; it leaves the chain's graph alone and
   records ErrChainCompiled, which the chain's compile — the function its parent's Compile calls — returns from then on *)
Theorem nested_frozen_chain_child_reports : forall s id ch nk key ns,
  nlookup id (ns_inn s) = Some (IC ch) -> g_compiled (c_g ch) = true ->
  exists ch', nlookup id (ns_inn (fst (nstep s (NInner id (KC (CAppend nk key ns)))))) = Some (IC ch')
    /\ c_g ch' = c_g ch /\ exists e, c_err ch' = Some e /\ forall oc, inner_compile (IC ch') oc = (IC ch', OErr e).
Proof. exact BuilderNested.nested_frozen_chain_child_reports. Qed.
Print Assumptions nested_frozen_chain_child_reports.

Example nested_children_frozen_nonvacuous :
  match snd (run_calls nstep (n_init false) one_child_run) with
  | [OOk; OOk; OOk; OOk; OOk; OCompiled _; OErr ECompiled; OErr ECompiled; OCompiled _; OOk; OErr EChainCompiled; OErr EChainCompiled] => True
  | _ => False
  end.
Proof. exact one_child_run_outcomes. Qed.

(* … and through a Chain child the compiled outer graph cannot be modified either: in every state reached from the empty
   builder, once a Chain held by a node of the outer graph is compiled, an Append* on it makes EVERY later Compile of the
   outer graph fail, whatever is called in between (the error is the chain's ErrChainCompiled or an earlier child's) *)
Theorem nested_chain_child_append_blocks : forall st cs0 k id oc ch nk key ns cs o r,
  let s := final nstep (n_init st) cs0 in
  nlookup k (ns_att s) = Some (id, oc) -> nlookup id (ns_inn s) = Some (IC ch) -> g_compiled (c_g ch) = true ->
  let s1 := fst (nstep s (NInner id (KC (CAppend nk key ns)))) in
  snd (nstep (final nstep s1 cs) (NOuter (GCompile o))) <> OCompiled r.
Proof. exact BuilderNested.nested_chain_child_append_blocks. Qed.
Print Assumptions nested_chain_child_append_blocks.

(* "invalid option combinations" on the nested entry: the options of a node (WithGraphCompileOptions) are what its child is
   compiled with — a Chain child refuses a trigger mode, a Graph child compiled in all-predecessor mode refuses its cycle,
   and the parent's Compile returns that error (the rules are those of rejects_each_kind / rejects_deferred: [inner_compile]
   is [g_compile] / [c_compile]) *)
Example nested_child_options_nonvacuous :
  match snd (run_calls nstep (n_init false) child_options_run), snd (run_calls nstep (n_init false) child_options_run2) with
  | [OOk; OOk; OOk; OErr ETriggerUnsupported; OOk], [OOk; OOk; OOk; OOk; OErr EDagLoop; OCompiled _] => True
  | _, _ => False
  end.
Proof. exact child_options_run_outcomes. Qed.

(* ------------------------------------------------------------------ the repaired defects *)
(* F-C20a: on the original code a Workflow branch to a node that was never added made
   Compile panic: "never a panic" is false for version v0. *)
Theorem never_panics_v0_refuted :
  ~ (forall w call, snd (wstep v0 w call) <> OPanic).
Proof. exact never_panics_v0_false. Qed.

(* F-C20b: on the original code a second Compile changed what the first runner computes with *)
Theorem runner_unaffected_v0_refuted :
  ~ (forall w o ord sord w1 r cs, wstep v0 w (WCompile o ord sord) = (w1, OCompiled r) ->
      runner_view (w_g (final (wstep v0) w1 cs)) r = runner_view (w_g w1) r).
Proof. exact runner_unaffected_v0_false. Qed.

(* F-C20c: an unconnected pass-through node made Graph.Compile panic *)
Theorem uninferable_node_panics_v0_refuted :
  ~ (forall g c, snd (gstep v0 g c) <> OPanic).
Proof. exact gstep_panics_v0. Qed.

(* F-C20d: a Chain dropped its deferred error after a failed Compile attempt *)
Theorem chain_error_sticks_v0_refuted :
  ~ (forall c e cs, c_err c = Some e ->
       Forall2 (fun call o => c_is_compile call = true -> o = OErr e) cs (snd (run_calls (cstep v0) c cs))).
Proof. exact chain_sticks_v0_false. Qed.

(* F-C20e: on the original code a static value set after a successful Compile was applied
   by the next Compile, which returned a different runnable *)
Theorem static_value_after_compile_v0_refuted :
  ~ (forall w o ord sord k n, g_compiled (w_g w) = true -> alist_get k (w_nodes w) = Some n -> wn_static n <> [] ->
       is_err (snd (w_compile v0 w o ord sord))).
Proof. exact static_after_compile_v0_false. Qed.

(* F-C20g: on the original code graph.compile compiled the child graphs in Go's map order; when one child fails,
   which of the others have been frozen — the outcome of a later Add* on them — depends on that order *)
Theorem nested_compile_order_v0_refuted :
  ~ (forall keys1 keys2 s o id c, Permutation keys1 keys2 ->
       snd (nstep (fst (n_compile_in keys1 s o)) (NInner id c)) = snd (nstep (fst (n_compile_in keys2 s o)) (NInner id c))).
Proof. exact child_order_v0_false. Qed.
