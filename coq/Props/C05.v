(* Props/C05.v — property C05: interrupting and resuming a run is equivalent to running it
   uninterrupted.  Statements only; the lemmas are in Proofs/RunLoop.v (generic run loop:
   any channel discipline [fold]/[getr], any node bodies [exec] — lambdas, nested graphs, nodes
   asking for a rerun —, any pre-handlers, any interrupt sets) and Proofs/Interrupt.v (the
   instance the correspondence check evaluates: Pregel and DAG channels of Model/Graph.v). *)
From Eino Require Import Base.Util Model.Graph Model.RunLoop Model.Interrupt Model.IntrObs
     Proofs.DagInv Proofs.InterruptChanDagSkip Proofs.RunLoopSusp Proofs.InterruptNested Proofs.InterruptNestedDag
     Proofs.RunLoop Proofs.RunLoopRerun Proofs.Interrupt Proofs.InterruptRerun Proofs.InterruptRerunProgress Proofs.InterruptWitness
     Proofs.RunLoopEagerSerial Proofs.InterruptEagerSerial
     Model.CheckpointStreamLib Model.CheckpointStream Proofs.CheckpointStream.
From Coq Require Import Permutation.
Open Scope N_scope.

Section Generic.
  Context {V CS GS ENV SCP SINFO : Type}.
  Variable zero : V.
  Variable fold : CS -> list (N * V) -> res CS.
  Variable getr : CS -> res (CS * list (N * V)).
  Variable pre : N -> V -> GS -> V * GS.
  Variable exec : N -> option SCP -> V -> ENV -> @texec V SCP SINFO * ENV.
  Variable before after : list N.

  (* loop_split (1): a checkpoint that holds exactly a loop state (channels, the inputs of the
     not-yet-started tasks, the graph state) is resumed by continuing the loop from that state;
     the state modifier only touches the graph state. *)
  Theorem loop_split_resume : forall fuel sm (s : @lstate V CS GS SCP) env,
    fresh_state s ->
    resume zero fold getr pre exec before after fuel sm (save s) env =
    iterate zero fold getr pre exec before after fuel (with_gs s (sm (ls_gs s))) env [].
  Proof. exact (resume_save zero fold getr pre exec before after). Qed.

  (* what the theorems below ask of the channel layer, relative to an invariant of the channel state *)
  Variable Inv : CS -> Prop.
  Hypothesis H_fold_inv : forall cs l cs', Inv cs -> fold cs l = Ok cs' -> Inv cs'.
  Hypothesis H_getr_inv : forall cs cs' r, Inv cs -> getr cs = Ok (cs', r) -> Inv cs'.
  Hypothesis H_fold_nil : forall cs, Inv cs -> fold cs [] = Ok cs.
  Hypothesis H_getr_idem : forall cs cs' r, Inv cs -> getr cs = Ok (cs', r) -> getr cs' = Ok (cs', []).

  (* loop_split (2): a run segment with interrupt points, against the loop without interrupt points
     from the same loop state: either it runs to the same end (same outcome, same execution log, same
     environment), or it stops at an interrupt point, and then the checkpoint holds exactly the loop
     state the uninterrupted loop is in at that moment, the log so far is a prefix of the
     uninterrupted log and the uninterrupted loop completes from that state with the rest. *)
  Theorem loop_split_interrupt : forall fuelU (s : @lstate V CS GS SCP) env oU logU envU,
    Inv (ls_cs s) ->
    iterate zero fold getr pre exec [] [] fuelU s env [] = (oU, logU, envU) -> final oU ->
    forall fuelR, (fuelU <= fuelR)%nat ->
      iterate zero fold getr pre exec before after fuelR s env [] = (oU, logU, envU) \/
      exists s' i l1 env1 l2 fuelU',
        iterate zero fold getr pre exec before after fuelR s env [] = (OInterrupted i (save s'), l1, env1) /\
        fresh_state s' /\ Inv (ls_cs s') /\ (fuelU' < fuelU)%nat /\
        iterate zero fold getr pre exec [] [] fuelU' s' env1 [] = (oU, l2, envU) /\ logU = l1 ++ l2.
  Proof. exact (iter_segment zero fold getr pre exec before after Inv H_fold_inv H_getr_inv H_fold_nil H_getr_idem). Qed.

  (* resume_equiv: run the graph with interrupt-before/after sets through a store that keeps only
     what [ser] produces, resuming as many times as it takes; if the same graph without interrupt
     points completes (Done or Failed) within the step limit, then the interrupted run ends with
     the same outcome and the same environment, every earlier call ended with an interrupt and wrote
     a checkpoint, and the execution logs of the calls, concatenated, are exactly the execution log
     of the uninterrupted run: same node executions, same inputs, same order — nothing completed
     before an interrupt is executed again, nothing is lost. (The implementation restarts the step
     counter on every resume: the hypothesis is on the uninterrupted run.) *)
  Theorem resume_equiv : forall {B : Type} (ser : @checkpoint V CS GS SCP -> B) deser,
    (forall c, deser (ser c) = Some c) ->
    forall fuelR cs0 gs0 x fuelU env oU logU envU n,
      Inv cs0 ->
      start zero fold getr pre exec [] [] fuelU cs0 gs0 x env = (oU, logU, envU) -> final oU ->
      (fuelU <= fuelR)%nat -> (fuelU <= n)%nat ->
      exists cos lastlog,
        drive ser deser (start zero fold getr pre exec before after fuelR cs0 gs0 x)
              (resume zero fold getr pre exec before after fuelR)
              (fun _ e => e) true n 0 (fun _ g => g) None env =
          (cos ++ [{| co_out := oU; co_log := lastlog; co_written := false |}], envU) /\
        Forall interrupted_call cos /\
        List.concat (map co_log cos) ++ lastlog = logU.
  Proof.
    intros B ser deser Hser.
    exact (resume_equiv_l zero fold getr pre exec before after Inv H_fold_inv H_getr_inv H_fold_nil H_getr_idem ser deser Hser).
  Qed.

  (* sub_checkpoint_used_once: the tasks restored from a checkpoint are handed the nested checkpoints
     (and the skip-pre-handler flags) of that checkpoint; every task of every later loop state of the
     resumed run is a fresh execution: no nested checkpoint, pre-handler not skipped. *)
  Theorem sub_checkpoint_used_once : forall (c : @checkpoint V CS GS SCP),
    (forall t, In t (ls_next (restore c)) ->
       t_cp t = nlist_get (t_key t) (cp_subs c) /\ t_skip t = memN (t_key t) (cp_skip c)) /\
    (forall s env s' env', reach zero fold getr pre exec before after s env s' env' ->
       forall t, In t (ls_next s') -> t_cp t = None /\ t_skip t = false).
  Proof. exact (sub_checkpoint_used_once_l zero fold getr pre exec before after). Qed.
End Generic.

(* ---------------------------------------------------------------------------------------------
   The same for the model the correspondence check evaluates (Model/Interrupt.v): the run segments
   [seg_fresh] / [seg_resumed] of a Graph in any-predecessor mode (Pregel channels of Model/Graph.v)
   or all-predecessor mode (DAG channels), any node bodies [ex] — in particular [node_exec d F g]:
   lambdas, rerun tables, nested graphs with their own interrupt points. The channel hypotheses of
   [resume_equiv] are discharged in Proofs/InterruptChan.v; END having a predecessor is guaranteed by
   Compile. *)
Theorem resume_equiv_flat :
  forall (ex : N -> option ncp -> value -> env -> tex * env) (gi : N) (g : gspec) x e n fuelU cs0 oU logU eU,
    g_eager (gs_graph g) = false ->
    (g_mode (gs_graph g) = Dag -> cpreds (gs_graph g) kEND <> [] \/ dpreds (gs_graph g) kEND <> []) ->
    init_chans value (gs_graph g) = Ok cs0 ->
    start VNil (ifold (gs_graph g)) (igetr (gs_graph g)) (pre_fn g) ex [] [] fuelU cs0 (gs0 g) x e = (oU, logU, eU) ->
    final oU ->
    (fuelU <= seg_fuel (gs_graph g))%nat -> (fuelU <= n)%nat ->
    exists cos lastlog,
      drive (fun c : cpt => c) (fun c => Some c) (seg_fresh ex gi g x) (seg_resumed ex gi g)
            (fun _ e => e) true n 0 (fun _ s => s) None e =
        (cos ++ [{| co_out := oU; co_log := lastlog; co_written := false |}], eU) /\
      Forall interrupted_call cos /\
      List.concat (map co_log cos) ++ lastlog = logU.
Proof. exact resume_equiv_model_l. Qed.

(* non-vacuity: a chain with interrupt-after 2 and interrupt-before 3; the uninterrupted run completes
   in two steps, the run with interrupt points is interrupted once and completes on the resume *)
Example resume_equiv_flat_hypotheses_hold : exists cs0 v l e,
  init_chans value w_chain_gr = Ok cs0 /\
  start VNil (ifold w_chain_gr) (igetr w_chain_gr) (pre_fn w_chain_cfg) w_chain_ex [] [] 2 cs0 (gs0 w_chain_cfg) x1 (env0 [])
    = (ODone v, l, e) /\ List.length l = 2%nat.
Proof. exact w_chain_uninterrupted. Qed.

Example resume_equiv_flat_interrupts_happen : exists co1 co2 e,
  drive (fun c : cpt => c) (fun c => Some c) (seg_fresh w_chain_ex 0 w_chain_cfg x1) (seg_resumed w_chain_ex 0 w_chain_cfg)
        (fun _ e => e) true 2 0 (fun _ s => s) None (env0 []) = ([co1; co2], e) /\
  co_written co1 = true /\ (exists v, co_out co2 = ODone v) /\ List.length (co_log co1 ++ co_log co2) = 2%nat.
Proof. exact w_chain_interrupted. Qed.

(* F-C05 (fixed 589dc14): [resume_v0] is the loop before the repair (createTasks forwarded the run's
   checkpoint to every task). START -> sub -> c -> (branch back to sub | END), sub interrupts inside:
   the repaired loop starts the nested graph fresh on the next iteration (its node 4 runs on the new
   input, it interrupts again before node 5); the old loop re-applies the stale nested checkpoint on
   every iteration — node 5 runs again and again on the input saved at the first interrupt, node 4
   never runs — until the step limit. *)
Theorem sub_checkpoint_used_once_v0_refuted :
  (* the nodes executed by the second call, in order *)
  w_loop_call1 false = Some (cInterrupt, [5; 3; 4]) /\
  (exists l, w_loop_call1 true = Some (cStepLimit, l) /\
     (List.length (filter (N.eqb 5) l) > 1)%nat /\ filter (N.eqb 4) l = []).
Proof. exact (conj w_loop_repaired resume_v0_reuses_stale_checkpoint). Qed.

(* F-C05c (fixed bd5fb24): eager mode, [estep_v0] is the loop before the repair. Node 5 completes first,
   its successor 6 is an interrupt-before node, while waiting for the others node 3 asks for a rerun:
   the repaired loop keeps the task created for node 6 pending and the resumed run completes; the old
   loop dropped it, and the resumed run dies with "no tasks to execute". *)
Theorem resume_equiv_eager_v0_refuted :
  w_eager_run false = Some cDone /\ w_eager_run true = Some cFail.
Proof. exact (conj w_eager_repaired estep_v0_loses_pending_tasks). Qed.

(* ---------------------------------------------------------------------------------------------
   Nodes that ask for InterruptAndRerun. Generic statement: a flat graph in batch mode whose nodes
   either complete with [body k input] or — if [rerunnable] — abort the attempt; the uninterrupted run
   is the loop in which every body completes at once, without interrupt points. Asked of the
   surroundings: the channel layer folds completed tasks compositionally and, for the distinct nodes
   of one step, independently of their order; the pre-handler of a rerunnable node rebuilds, from the
   state it left, the input it handed to the aborted attempt and leaves the state alone (the property's
   own proviso). Then, for ANY interrupt-before/after sets, ANY pattern of aborted attempts and ANY
   number of calls: whenever the run driven through the store completes, it completes with the output of
   the uninterrupted run, and the completed (non-aborted) executions of all its calls are — as a
   multiset of (node, input) — exactly the executions of the uninterrupted run: nothing completed before
   an interrupt is executed again, nothing is lost, the re-run starts from the rebuilt input. *)
Section GenericRerun.
  Context {V CS GS ENV SCP SINFO : Type}.
  Variable zero : V.
  Variable fold : CS -> list (N * V) -> res CS.
  Variable getr : CS -> res (CS * list (N * V)).
  Variable pre : N -> V -> GS -> V * GS.
  Variable body : N -> V -> V.
  Variable rerunnable : N -> Prop.
  Variable execR : N -> option SCP -> V -> ENV -> @texec V SCP SINFO * ENV.
  Variable before after : list N.
  Hypothesis H_execR : forall k v e,
    (exists e', execR k None v e = (TDone (body k v), e')) \/
    (rerunnable k /\ exists e', execR k None v e = (TRerun, e')).
  Variable Inv : CS -> Prop.
  Hypothesis H_fold_inv : forall cs l cs', Inv cs -> fold cs l = Ok cs' -> Inv cs'.
  Hypothesis H_getr_inv : forall cs cs' r, Inv cs -> getr cs = Ok (cs', r) -> Inv cs'.
  Hypothesis H_fold_nil : forall cs, Inv cs -> fold cs [] = Ok cs.
  Hypothesis H_getr_idem : forall cs cs' r, Inv cs -> getr cs = Ok (cs', r) -> getr cs' = Ok (cs', []).
  Hypothesis H_getr_nodup : forall cs cs' r, Inv cs -> getr cs = Ok (cs', r) -> NoDup (map fst r).
  Hypothesis H_fold_app : forall cs A B cs1, Inv cs -> fold cs A = Ok cs1 -> fold cs (A ++ B) = fold cs1 B.
  Hypothesis H_fold_prefix : forall cs A B r, Inv cs -> fold cs (A ++ B) = Ok r -> exists cs1, fold cs A = Ok cs1.
  Hypothesis H_fold_perm : forall cs A B r, Inv cs -> NoDup (map fst A) -> Permutation A B ->
    fold cs A = Ok r -> fold cs B = Ok r.
  Variable GOK : GS -> Prop.
  Hypothesis H_pre_ok : forall k v gs, GOK gs -> GOK (snd (pre k v gs)).
  Hypothesis H_rebuild : forall (ts : list (@task V SCP)) gs,
    GOK gs -> NoDup (map t_key ts) -> Forall fresh_task ts ->
    forall t', In t' (fst (run_pres pre ts gs)) -> rerunnable (t_key t') ->
      pre (t_key t') zero (snd (run_pres pre ts gs)) = (t_in t', snd (run_pres pre ts gs)).

  Theorem rerun_equiv : forall {B : Type} (ser : @checkpoint V CS GS SCP -> B) deser,
    (forall c, deser (ser c) = Some c) ->
    forall fuelR cs0 gs0 x fuelU vU lU n env cos env' cos' co,
      Inv cs0 -> GOK gs0 ->
      start zero fold getr pre (execU (SCP := SCP) (SINFO := SINFO) body) [] [] fuelU cs0 gs0 x tt = (ODone vU, lU, tt) ->
      (fuelU <= fuelR)%nat ->
      drive ser deser (start zero fold getr pre execR before after fuelR cs0 gs0 x)
            (resume zero fold getr pre execR before after fuelR)
            (fun _ e => e) true n 0 (fun _ g => g) None env = (cos, env') ->
      cos = cos' ++ [co] ->
      is_interrupt (co_out co) \/
      (co_out co = ODone vU /\ Permutation (good (all_logs cos)) lU).
  Proof.
    intros B ser deser Hser.
    exact (rerun_equiv_l zero fold getr pre body rerunnable execR before after H_execR Inv
             H_fold_inv H_getr_inv H_fold_nil H_getr_idem H_getr_nodup H_fold_app H_fold_prefix H_fold_perm
             GOK H_pre_ok H_rebuild ser deser Hser).
  Qed.

  (* PROGRESS (round 5). The environment carries a BUDGET of aborted attempts: an attempt that asks for a rerun uses
     up at least one unit, a completed one none. Every call of the driven run executes at least one node (a resumed
     call starts from pending tasks); a completed execution is an execution of the uninterrupted run, counted once.
     So a driven run whose last call is still interrupted has made at most
         (number of executions of the uninterrupted run) + (budget)
     further calls — and with more calls than that it completes, with the output and the executions of the
     uninterrupted run (total correctness of the run with rerun nodes). *)
  Variable budget : ENV -> nat.
  Hypothesis H_budget : forall k cp v e r e', execR k cp v e = (r, e') ->
    (budget e' + (if is_rerun r then 1 else 0) <= budget e)%nat.

  Theorem rerun_progress : forall {B : Type} (ser : @checkpoint V CS GS SCP -> B) deser,
    (forall c, deser (ser c) = Some c) ->
    forall fuelR cs0 gs0 x fuelU vU lU n env cos env' cos' co,
      Inv cs0 -> GOK gs0 ->
      start zero fold getr pre (execU (SCP := SCP) (SINFO := SINFO) body) [] [] fuelU cs0 gs0 x tt = (ODone vU, lU, tt) ->
      (fuelU <= fuelR)%nat ->
      drive ser deser (start zero fold getr pre execR before after fuelR cs0 gs0 x)
            (resume zero fold getr pre execR before after fuelR)
            (fun _ e => e) true n 0 (fun _ g => g) None env = (cos, env') ->
      cos = cos' ++ [co] ->
      is_interrupt (co_out co) ->
      (n <= List.length lU + budget env)%nat.
  Proof.
    intros B ser deser Hser fuelR cs0 gs0 x.
    exact (rerun_progress_l zero fold getr pre body rerunnable execR before after H_execR Inv
             H_fold_inv H_getr_inv H_fold_nil H_getr_idem H_getr_nodup H_fold_app H_fold_prefix H_fold_perm
             GOK H_pre_ok H_rebuild ser deser Hser fuelR cs0 gs0 x budget H_budget).
  Qed.

  Theorem rerun_total : forall {B : Type} (ser : @checkpoint V CS GS SCP -> B) deser,
    (forall c, deser (ser c) = Some c) ->
    forall fuelR cs0 gs0 x fuelU vU lU n env cos env' cos' co,
      Inv cs0 -> GOK gs0 ->
      start zero fold getr pre (execU (SCP := SCP) (SINFO := SINFO) body) [] [] fuelU cs0 gs0 x tt = (ODone vU, lU, tt) ->
      (fuelU <= fuelR)%nat ->
      drive ser deser (start zero fold getr pre execR before after fuelR cs0 gs0 x)
            (resume zero fold getr pre execR before after fuelR)
            (fun _ e => e) true n 0 (fun _ g => g) None env = (cos, env') ->
      cos = cos' ++ [co] ->
      (List.length lU + budget env < n)%nat ->
      co_out co = ODone vU /\ Permutation (good (all_logs cos)) lU.
  Proof.
    intros B ser deser Hser fuelR cs0 gs0 x fuelU vU lU n env cos env' cos' co Hi Hg HU Hle Hd Hcos Hn.
    destruct (rerun_equiv ser deser Hser fuelR cs0 gs0 x fuelU vU lU n env cos env' cos' co Hi Hg HU Hle Hd Hcos)
      as [Hint|Hdone]; [|exact Hdone].
    pose proof (rerun_progress ser deser Hser fuelR cs0 gs0 x fuelU vU lU n env cos env' cos' co Hi Hg HU Hle Hd Hcos Hint).
    lia.
  Qed.
End GenericRerun.

(* The same for the model the correspondence evaluates: a flat Graph in any-predecessor mode (Pregel
   channels of Model/Graph.v — all channel hypotheses discharged in Proofs/InterruptChanPregel.v),
   lambda nodes with arbitrary rerun tables ([lam_ex g] = [lambda_exec], which is what [node_exec]
   runs on a lambda node), the harness's state pre-handler [pre_fn] (rebuild hypothesis discharged:
   [rerun_ok g] = the graph has a state and every node with a rerun table has the stamping/rebuilding
   pre-handler), any interrupt-before/after sets. *)
Theorem rerun_equiv_flat_pregel :
  forall (g : gspec), rerun_ok g ->
  forall gi x e n fuelU cs0 vU lU cos e' cos' co,
    g_mode (gs_graph g) = Pregel -> g_eager (gs_graph g) = false ->
    init_chans value (gs_graph g) = Ok cs0 ->
    start VNil (ifold (gs_graph g)) (igetr (gs_graph g)) (pre_fn g)
          (execU (SCP := ncp) (SINFO := ninfo) (lam_body g)) [] [] fuelU cs0 (gs0 g) x tt = (ODone vU, lU, tt) ->
    (fuelU <= seg_fuel (gs_graph g))%nat ->
    drive (fun c : cpt => c) (fun c => Some c) (seg_fresh (lam_ex g) gi g x) (seg_resumed (lam_ex g) gi g)
          (fun _ e => e) true n 0 (fun _ s => s) None e = (cos, e') ->
    cos = cos' ++ [co] ->
    is_interrupt (co_out co) \/
    (co_out co = ODone vU /\ Permutation (good (all_logs cos)) lU).
Proof. exact rerun_equiv_model_l. Qed.

(* PROGRESS for the model (round 5): the budget is what the rerun tables still hold — for every node the listed
   attempt numbers greater than the number of its executions so far ([mbudget]); a run of the model that is still
   interrupted after its last call has made at most (executions of the uninterrupted run) + (that budget) further
   calls, and with more calls it completes like the uninterrupted run *)
Theorem rerun_progress_flat_pregel :
  forall (g : gspec), rerun_ok g ->
  forall gi x e n fuelU cs0 vU lU cos e' cos' co,
    g_mode (gs_graph g) = Pregel -> g_eager (gs_graph g) = false ->
    init_chans value (gs_graph g) = Ok cs0 ->
    start VNil (ifold (gs_graph g)) (igetr (gs_graph g)) (pre_fn g)
          (execU (SCP := ncp) (SINFO := ninfo) (lam_body g)) [] [] fuelU cs0 (gs0 g) x tt = (ODone vU, lU, tt) ->
    (fuelU <= seg_fuel (gs_graph g))%nat ->
    drive (fun c : cpt => c) (fun c => Some c) (seg_fresh (lam_ex g) gi g x) (seg_resumed (lam_ex g) gi g)
          (fun _ e => e) true n 0 (fun _ s => s) None e = (cos, e') ->
    cos = cos' ++ [co] ->
    is_interrupt (co_out co) ->
    (n <= List.length lU + mbudget g e)%nat.
Proof. exact rerun_progress_model_l. Qed.

Theorem rerun_total_flat_pregel :
  forall (g : gspec), rerun_ok g ->
  forall gi x e n fuelU cs0 vU lU cos e' cos' co,
    g_mode (gs_graph g) = Pregel -> g_eager (gs_graph g) = false ->
    init_chans value (gs_graph g) = Ok cs0 ->
    start VNil (ifold (gs_graph g)) (igetr (gs_graph g)) (pre_fn g)
          (execU (SCP := ncp) (SINFO := ninfo) (lam_body g)) [] [] fuelU cs0 (gs0 g) x tt = (ODone vU, lU, tt) ->
    (fuelU <= seg_fuel (gs_graph g))%nat ->
    drive (fun c : cpt => c) (fun c => Some c) (seg_fresh (lam_ex g) gi g x) (seg_resumed (lam_ex g) gi g)
          (fun _ e => e) true n 0 (fun _ s => s) None e = (cos, e') ->
    cos = cos' ++ [co] ->
    (List.length lU + mbudget g e < n)%nat ->
    co_out co = ODone vU /\ Permutation (good (all_logs cos)) lU.
Proof.
  intros g Hok gi x e n fuelU cs0 vU lU cos e' cos' co Hm He Hi HU Hle Hd Hcos Hn.
  destruct (rerun_equiv_flat_pregel g Hok gi x e n fuelU cs0 vU lU cos e' cos' co Hm He Hi HU Hle Hd Hcos)
    as [Hint|Hdone]; [|exact Hdone].
  pose proof (rerun_progress_flat_pregel g Hok gi x e n fuelU cs0 vU lU cos e' cos' co Hm He Hi HU Hle Hd Hcos Hint).
  lia.
Qed.

(* non-vacuity of the bound: the witness below has 2 executions and a budget of 3 (node 2: attempts 1, 2; node 3:
   attempt 1); it is driven with 6 further calls (> 2 + 3) and completes on the fourth call *)
Example rerun_total_flat_pregel_bound_holds : mbudget w_rerun (env0 []) = 3%nat.
Proof. vm_compute. reflexivity. Qed.

(* non-vacuity: node 2 aborts its first two attempts, node 3 its first (interrupt-after 3 configured):
   the hypotheses hold, the run takes three interrupted calls and completes on the fourth *)
Example rerun_equiv_flat_pregel_hypotheses_hold :
  rerun_ok w_rerun /\
  (exists cs0 v l, init_chans value w_rerun_gr = Ok cs0 /\
     start VNil (ifold w_rerun_gr) (igetr w_rerun_gr) (pre_fn w_rerun)
           (execU (SCP := ncp) (SINFO := ninfo) (lam_body w_rerun)) [] [] 2 cs0 (gs0 w_rerun) x1 tt = (ODone v, l, tt) /\
     List.length l = 2%nat) /\
  (exists cos e,
     drive (fun c : cpt => c) (fun c => Some c) (seg_fresh (lam_ex w_rerun) 0 w_rerun x1) (seg_resumed (lam_ex w_rerun) 0 w_rerun)
           (fun _ e => e) true 6 0 (fun _ s => s) None (env0 []) = (cos, e) /\
     map (fun co => class_of w_rerun_gr (co_out co)) cos = [cInterrupt; cInterrupt; cInterrupt; cDone] /\
     List.length (filter (fun ev => ev_abort ev) (all_logs cos)) = 3%nat).
Proof. exact (conj w_rerun_ok (conj w_rerun_uninterrupted w_rerun_completes)). Qed.

(* ---------------------------------------------------------------------------------------------
   Interrupts raised INSIDE nested graphs. Generic statement (Proofs/RunLoopSusp.v): a graph in batch mode
   whose node bodies follow a protocol relative to the uninterrupted bodies [body] (partial: None = the
   body fails) — started on v a body completes with [body k v], or, if [rerunnable], aborts the attempt
   (InterruptAndRerun), or SUSPENDS with a residual c (a nested graph that was interrupted inside:
   subGraphInterruptError carrying the nested checkpoint); continued from c, whatever placeholder input it
   is handed, it completes with [body k v] or suspends again; what it emits over all its segments ([tr]:
   the executions inside it) is, when it completes, the trace [trU k v] of the uninterrupted body. Asked of
   the channel layer ([chan_layer], relative to a joint invariant of the channel table and the tasks
   handed out): folding completed tasks is compositional and order-independent; of the state handlers
   ([state_layer]): the pre-handler of a rerunnable node rebuilds its input; [geq] relates the states the
   pre-handlers cannot tell apart — what the state modifiers of the calls may change. Then, for ANY interrupt
   sets, ANY pattern of suspensions and aborted attempts, ANY state modifiers within [geq] and ANY number of
   calls: whenever the run driven
   through the store completes, it completes with the output of the uninterrupted run, its completed first
   attempts are — as a multiset of (node, input) — the executions of the uninterrupted run, and everything
   its bodies emitted is — as a multiset — what the bodies of the uninterrupted run emit. The same theorem
   is proved for a single run segment ([seg_fresh_ok] / [seg_resumed_ok]): a graph whose bodies follow the
   protocol follows the protocol itself, which is what carries the induction over the nesting depth. *)
Section GenericSusp.
  Context {V CS GS ENV SCP SINFO X : Type}.
  Variable zero : V.
  Variable fold : CS -> list (N * V) -> res CS.
  Variable getr : CS -> res (CS * list (N * V)).
  Variable pre : N -> V -> GS -> V * GS.
  Variable body : N -> V -> option V.
  Variable rerunnable : N -> Prop.
  Variable execR : N -> option SCP -> V -> ENV -> @texec V SCP SINFO * ENV.
  Variable before after : list N.
  Variable tr : ENV -> list X.
  Variable trU : N -> V -> list X.
  Variable EOK : ENV -> Prop.
  Variable Susp : N -> V -> SCP -> list X -> Prop.
  Hypothesis H_proto : body_protocol body rerunnable execR tr trU EOK Susp.
  Variable J : CS -> list N -> Prop.
  Hypothesis H_chan : chan_layer fold getr J.
  Variable GOK : GS -> Prop.
  Variable geq : GS -> GS -> Prop.
  Hypothesis H_state : state_layer (SCP := SCP) zero pre rerunnable GOK geq.

  Theorem susp_equiv : forall {B : Type} (ser : @checkpoint V CS GS SCP -> B) deser,
    (forall c, deser (ser c) = Some c) ->
    forall tick : nat -> ENV -> ENV, (forall k e, EOK e -> EOK (tick k e) /\ tr (tick k e) = tr e) ->
    forall mods : nat -> GS -> GS, (forall k g, geq (mods k g) g) ->
    forall fuelR cs0 gs0 x fuelU vU lU n env cos env' cos' co,
      J cs0 [kStart] -> GOK gs0 -> EOK env ->
      start zero fold getr pre (RunLoopSusp.execU (SCP := SCP) (SINFO := SINFO) body) [] [] fuelU cs0 gs0 x tt = (ODone vU, lU, tt) ->
      (fuelU <= fuelR)%nat ->
      drive ser deser (start zero fold getr pre execR before after fuelR cs0 gs0 x)
            (resume zero fold getr pre execR before after fuelR)
            tick true n 0 mods None env = (cos, env') ->
      cos = cos' ++ [co] ->
      RunLoopSusp.is_interrupt (co_out co) \/
      (co_out co = ODone vU /\ Permutation (RunLoopSusp.good (RunLoopSusp.all_logs cos)) lU /\
       exists Lnew, tr env' = tr env ++ Lnew /\ Permutation Lnew (TU trU lU)).
  Proof.
    intros B ser deser Hser tick Htick mods Hmods fuelR cs0 gs0 x fuelU vU lU n env cos env' cos' co Hj Hg He HU Hle Hd Hcos.
    exact (susp_equiv_l zero fold getr pre body rerunnable execR before after tr trU EOK Susp H_proto J H_chan GOK geq H_state
             fuelR vU lU cs0 gs0 x Hj Hg fuelU HU Hle ser deser Hser tick Htick mods Hmods n env cos env' cos' co He Hd Hcos).
  Qed.
End GenericSusp.

(* resume_equiv_nested, for the model the correspondence evaluates: a forest F of Graphs (batch mode) — every
   graph in any-predecessor mode or in all-predecessor mode ([batch_graph]: what the Graph API builds — every
   edge carries data and control, branches carry data; END has a predecessor: Compile guarantees it) —
   nested to any depth, interrupt-before/after sets and rerun tables at
   EVERY level (every node with a rerun table has the stamping/rebuilding pre-handler: [rerun_ok'], the
   property's proviso), input keys, state handlers — driven by [run_drive] through the store, the calls
   carrying a state modifier or not ([mods]: the harness's modifier bumps a counter of the state, at the top
   level and in every resumed nested graph), against the reference run of the same forest without any interrupt configuration
   ([map strip F], one call: what [ref_ok] of the correspondence evaluates). Whenever the driven run
   completes, it completes with the output of the reference run; its top-level executions are those of the
   reference run; and the lambda executions of ALL nesting levels (node, input) are, as a multiset, those of
   the reference run: nothing completed before an interrupt — raised inside a nested graph or not — is
   executed again or lost, a continued nested graph does not start over, an aborted attempt is re-run on the
   rebuilt input. (A flat graph is the forest [g]: this is also the rerun theorem for all-predecessor graphs.)
   For all-predecessor graphs the channel hypotheses of [susp_equiv] are discharged in
   Proofs/InterruptChanDag.v and Proofs/InterruptChanDagSkip.v relative to the joint invariant of C02
   (Proofs/DagInv.v): a task that has been handed out has not reported to any channel, and the skip
   propagation of reportBranch computes a least fixpoint — the table after resolving completed tasks is
   described entry by entry by the marks performed, which are the base marks plus the successor marks of the
   least set of channels all of whose control entries are skipped or marked — so it does not depend on the
   order of the completed tasks. *)
Theorem resume_equiv_nested : forall F, Forall batch_graph F ->
  forall mods x eU0 coU eU' vU e cos e' cos' co,
    run_drive (map strip F) false [] x eU0 = ([coU], eU') -> co_out coU = ODone vU ->
    run_drive F true mods x e = (cos, e') -> cos = cos' ++ [co] ->
    RunLoopSusp.is_interrupt (co_out co) \/
    (co_out co = ODone vU /\
     Permutation (RunLoopSusp.good (RunLoopSusp.all_logs cos)) (co_log coU) /\
     exists LU LI, trE eU' = trE eU0 ++ LU /\ trE e' = trE e ++ LI /\ Permutation LI LU).
Proof. exact nested_equiv_batch_l. Qed.

(* The all-predecessor channel layer (Proofs/InterruptChanDag.v, Proofs/InterruptChanDagSkip.v). (1) Resolving the
   completed tasks of a step in another order ends in the SAME channel table: the skip propagation of
   reportBranch (report_skip_to + the work list) computes a least fixpoint. Stated for [resolve_all] of
   Model/Graph.v over the joint invariant of C02 (R = resolved, G = handed out; the tasks are handed out and are
   no predecessor of a channel that has been read). (2) The channels of a Graph-built all-predecessor graph
   satisfy everything [susp_equiv] asks of a channel layer, relative to [dagJ2]. *)
Theorem dag_skip_propagation_order_independent :
  forall (g : graph), g_mode g = Dag ->
  forall cs R G A B csA wA dA,
    DagInv.Inv value g cs R G [] -> akeys cs = akeys (init_chans_v0 value g) ->
    (forall k, In k (akeys A) -> In k R /\ DagInv.npred g G k) ->
    Permutation A B ->
    resolve_all value tree_ops g A cs = Ok (csA, wA, dA) ->
    exists wB dB, resolve_all value tree_ops g B cs = Ok (csA, wB, dB) /\ Permutation wA wB /\ Permutation dA dB.
Proof. exact resolve_all_perm. Qed.

Theorem dag_channel_layer :
  forall (g : graph), g_mode g = Dag -> (exists q, DagInv.gpred g kEND q) -> graph_built g ->
  chan_layer (ifold g) (igetr g) (dagJ2 g).
Proof. exact chan_layer_dag. Qed.

(* non-vacuity (1): START -> 2 (nested graph) -> 3 -> END, the nested graph START -> 4 -> 5 -> END has
   interrupt-after 4, node 3 aborts its first attempt: the hypotheses hold, the reference run completes
   (three lambda executions), the driven run takes three calls — the nested graph interrupts inside
   (nested info under node 2), node 3 asks for a rerun, the third call completes — with three completed
   lambda executions *)
Example resume_equiv_nested_hypotheses_hold :
  Forall batch_graph wn_F /\
  (exists coU eU v, run_drive (map strip wn_F) false [] wn_x (env0 []) = ([coU], eU) /\ co_out coU = ODone v /\
                    List.length (trE eU) = 3%nat) /\
  (exists co1 co2 co3 e i1 c1 v,
     run_drive wn_F true [] wn_x (env0 []) = ([co1; co2; co3], e) /\
     co_out co1 = OInterrupted i1 c1 /\ map fst (ii_subs i1) = [2] /\
     (exists i2 c2, co_out co2 = OInterrupted i2 c2 /\ ii_rerun i2 = [3]) /\
     co_out co3 = ODone v /\ List.length (trE e) = 3%nat).
Proof.
  exact (conj (Forall_impl batch_graph pregel_batch wn_pregel) (conj wn_reference wn_interrupted)).
Qed.

(* non-vacuity (4), calls with a state modifier: the forest of (1), every call carrying the modifier (the
   second interrupt reports a top-level state whose counter the modifier has bumped once) *)
Example resume_equiv_nested_modifier_hypotheses_hold : exists co1 co2 co3 e v st,
  run_drive wn_F true [true] wn_x (env0 []) = ([co1; co2; co3], e) /\
  (exists i2 c2, co_out co2 = OInterrupted i2 c2 /\ ii_gs i2 = Some st /\ st_mods st = 1) /\
  co_out co3 = ODone v /\ List.length (trE e) = 3%nat.
Proof. exact wn_interrupted_mod. Qed.

(* non-vacuity (3), all-predecessor mode with a branch: START -> {2, 6}; node 2 selects 3 of its branch ends
   {3, 4} (4 is skipped and the skip propagated to the join 5 of 3, 4, 6); node 6 aborts its first attempt
   while 2 completes: the mid-step checkpoint holds the skip reports of 2; the second call completes (four
   lambda executions on both sides); (2), below: the diamond *)
(* non-vacuity (2), all-predecessor mode: the diamond START -> {2, 3} -> 4 -> END; node 2 aborts its first
   attempt while node 3 completes (mid-step checkpoint: 3's output folded into the channel of 4), the second
   call re-runs 2 and stops before the interrupt-before node 4, the third call completes *)
Example resume_equiv_nested_dag_branch_hypotheses_hold :
  Forall batch_graph wb_F /\
  (exists coU eU v, run_drive (map strip wb_F) false [] wn_x (env0 []) = ([coU], eU) /\ co_out coU = ODone v /\
                    List.length (trE eU) = 4%nat) /\
  (exists co1 co2 e v,
     run_drive wb_F true [] wn_x (env0 []) = ([co1; co2], e) /\
     (exists i1 c1, co_out co1 = OInterrupted i1 c1 /\ ii_rerun i1 = [6]) /\
     co_out co2 = ODone v /\ List.length (trE e) = 4%nat).
Proof. exact (conj wb_batch (conj wb_reference wb_interrupted)). Qed.

Example resume_equiv_nested_dag_hypotheses_hold :
  Forall batch_graph wd_F /\
  (exists coU eU v, run_drive (map strip wd_F) false [] wn_x (env0 []) = ([coU], eU) /\ co_out coU = ODone v /\
                    List.length (trE eU) = 3%nat) /\
  (exists co1 co2 co3 e v,
     run_drive wd_F true [] wn_x (env0 []) = ([co1; co2; co3], e) /\
     (exists i1 c1, co_out co1 = OInterrupted i1 c1 /\ ii_rerun i1 = [2]) /\
     (exists i2 c2, co_out co2 = OInterrupted i2 c2 /\ ii_before i2 = [4]) /\
     co_out co3 = ODone v /\ List.length (trE e) = 3%nat).
Proof. exact (conj wd_batch (conj wd_reference wd_interrupted)). Qed.

(* ---------------------------------------------------------------------------------------------
   Eager mode (Workflow: taskManager.wait hands over ONE completed task while the others keep running; the
   collection order is an input of the model), the SERIAL fragment (round 4). [serial fuel s env]: at this loop
   state and at every later one of the run at most one task is pending and nothing is running — what a linear
   workflow performs (also through nested graphs, rerun nodes, interrupt points). On such a run the eager loop IS
   the batch loop, for every schedule; hence the schedule does not matter, the run driven through the store with
   eager segments is the run driven with batch segments, and [resume_equiv] holds for it: same outcome, same
   environment, identical execution log. The general eager case (several tasks in flight) is not proved: it needs
   the confluence of the channel layer under reordering of single-task folds. *)
Section GenericEager.
  Context {V CS GS ENV SCP SINFO : Type}.
  Variable zero : V.
  Variable fold : CS -> list (N * V) -> res CS.
  Variable getr : CS -> res (CS * list (N * V)).
  Variable pre : N -> V -> GS -> V * GS.
  Variable exec : N -> option SCP -> V -> ENV -> @texec V SCP SINFO * ENV.
  Variable before after : list N.

  Theorem eager_serial_is_batch : forall fuel (s : @lstate V CS GS SCP) sched env log,
    serial zero fold getr pre exec before after fuel s env ->
    eiterate zero fold getr pre exec before after false fuel (to_estate s) sched env log =
    iterate zero fold getr pre exec before after fuel s env log.
  Proof. exact (eager_serial_is_batch_l zero fold getr pre exec before after). Qed.

  Theorem eager_serial_schedule_independent : forall fuel (s : @lstate V CS GS SCP) sched1 sched2 env log,
    serial zero fold getr pre exec before after fuel s env ->
    eiterate zero fold getr pre exec before after false fuel (to_estate s) sched1 env log =
    eiterate zero fold getr pre exec before after false fuel (to_estate s) sched2 env log.
  Proof. exact (eager_serial_schedule_independent_l zero fold getr pre exec before after). Qed.

  (* [drive_serial]: every segment the driven run performs (from the caller's input, or from the checkpoint the
     store holds) is serial; [freshE] / [resumedE]: the eager segments under the collection order [sched_of env] *)
  Theorem eager_drive_serial_is_batch_drive : forall {B : Type} (ser : @checkpoint V CS GS SCP -> B) deser
      fuelR cs0 gs0 x (sched_of : ENV -> list N) tick with_id n k mods store env,
    drive_serial zero fold getr pre exec before after ser deser fuelR cs0 gs0 x tick with_id n k mods store env ->
    drive ser deser (freshE zero fold getr pre exec before after fuelR cs0 gs0 x sched_of)
          (resumedE zero fold getr pre exec before after fuelR sched_of) tick with_id n k mods store env =
    drive ser deser (start zero fold getr pre exec before after fuelR cs0 gs0 x)
          (resume zero fold getr pre exec before after fuelR) tick with_id n k mods store env.
  Proof.
    intros B ser deser fuelR cs0 gs0 x sched_of tick.
    exact (eager_drive_serial_is_batch_drive_l zero fold getr pre exec before after ser deser fuelR cs0 gs0 x sched_of tick).
  Qed.

  Variable Inv : CS -> Prop.
  Hypothesis H_fold_inv : forall cs l cs', Inv cs -> fold cs l = Ok cs' -> Inv cs'.
  Hypothesis H_getr_inv : forall cs cs' r, Inv cs -> getr cs = Ok (cs', r) -> Inv cs'.
  Hypothesis H_fold_nil : forall cs, Inv cs -> fold cs [] = Ok cs.
  Hypothesis H_getr_idem : forall cs cs' r, Inv cs -> getr cs = Ok (cs', r) -> getr cs' = Ok (cs', []).

  Theorem resume_equiv_eager_serial : forall {B : Type} (ser : @checkpoint V CS GS SCP -> B) deser,
    (forall c, deser (ser c) = Some c) ->
    forall (sched_of : ENV -> list N) fuelR cs0 gs0 x fuelU env oU logU envU n,
      Inv cs0 ->
      start zero fold getr pre exec [] [] fuelU cs0 gs0 x env = (oU, logU, envU) -> final oU ->
      (fuelU <= fuelR)%nat -> (fuelU <= n)%nat ->
      drive_serial zero fold getr pre exec before after ser deser fuelR cs0 gs0 x (fun _ e => e)
                   true n 0 (fun _ g => g) None env ->
      exists cos lastlog,
        drive ser deser (freshE zero fold getr pre exec before after fuelR cs0 gs0 x sched_of)
              (resumedE zero fold getr pre exec before after fuelR sched_of)
              (fun _ e => e) true n 0 (fun _ g => g) None env =
          (cos ++ [{| co_out := oU; co_log := lastlog; co_written := false |}], envU) /\
        Forall interrupted_call cos /\
        List.concat (map co_log cos) ++ lastlog = logU.
  Proof.
    intros B ser deser Hser.
    exact (resume_equiv_eager_serial_l zero fold getr pre exec before after Inv H_fold_inv H_getr_inv H_fold_nil H_getr_idem
             ser deser Hser).
  Qed.
End GenericEager.

(* non-vacuity on the model: the linear Workflow START -> 2 -> 3 -> END (all-predecessor channels, eager loop),
   interrupt-after 2 and interrupt-before 3: every segment of the driven run is serial; driven with eager segments
   under a collection order naming the nodes backwards it is interrupted once and completes on the resume *)
Example resume_equiv_eager_serial_hypotheses_hold : exists cs0,
  init_chans value ws_gr = Ok cs0 /\
  drive_serial VNil (ifold ws_gr) (igetr ws_gr) (pre_fn ws_cfg) ws_ex [3] [2] (fun c : cpt => c) (fun c => Some c)
               6 cs0 (gs0 ws_cfg) ws_x (fun _ e => e) true 2 0 (fun _ s => s) None (env0 []).
Proof. exact ws_serial. Qed.

Example resume_equiv_eager_serial_interrupts_happen : exists cs0 co1 co2 e,
  init_chans value ws_gr = Ok cs0 /\
  drive (fun c : cpt => c) (fun c => Some c)
        (freshE VNil (ifold ws_gr) (igetr ws_gr) (pre_fn ws_cfg) ws_ex [3] [2] 6 cs0 (gs0 ws_cfg) ws_x ws_sched)
        (resumedE VNil (ifold ws_gr) (igetr ws_gr) (pre_fn ws_cfg) ws_ex [3] [2] 6 ws_sched)
        (fun _ e => e) true 2 0 (fun _ s => s) None (env0 []) = ([co1; co2], e) /\
  co_written co1 = true /\ (exists v, co_out co2 = ODone v) /\ List.length (co_log co1 ++ co_log co2) = 2%nat.
Proof. exact ws_eager_run. Qed.

(* ---------------------------------------------------------------------------------------------
   Mixing the calling paradigms (round 4). What is checkpointed — a pending input, a channel value — is written by
   a run with streams (Stream / Transform / Collect: the stream is concatenated) or without (Invoke: the value
   itself) and read back by a run of either kind (the value is made a one-chunk stream again, or taken as it is).
   Model/CheckpointStream.v is that conversion per entry (convert / restore of compose/checkpoint.go, the convert
   pair of generic_helper.go, concatStreamReader), tied to the source by translation (Proofs/GenAgreeC05Stream.v).
   A live entry [v] of the interrupted run (paradigm w) denoting the chunks [items], written as [s]: the resumed
   run, of ANY paradigm r, finds a live entry of its own kind whose chunks concatenate to exactly what [items]
   concatenate to — the same chunk, the nil value of an interface type included, or no chunk at all. Excluded is
   the one combination without a counterpart: a stream without chunks read by a run without streams. *)
Theorem paradigm_roundtrip : forall (V : Type) (concat_items : list (option V) -> res (option V))
    (w r : bool) (v s : dyn V) items,
  live V w v -> den V v = Some items -> m_convert_entry V concat_items w v = Ok s ->
  (r = false -> items <> []) ->
  exists v' items', m_restore_entry V r s = Ok v' /\ live V r v' /\ den V v' = Some items' /\
                    cat V concat_items items' = cat V concat_items items.
Proof. exact paradigm_roundtrip_l. Qed.

(* F-C05g (fixed fb04a24): before the repair a run without streams wrote the nil value of an interface type (a node
   of output type any that answered nil) as a plain nil; a resume through Stream reads that as a stream WITHOUT
   chunks, and the node's input concatenates to nothing ("stream reader is empty") instead of the nil value *)
Theorem paradigm_roundtrip_v0_refuted : forall (V : Type) (concat_items : list (option V) -> res (option V)),
  m_convert_entry_v0 V concat_items false DNil = Ok DNil /\
  m_restore_entry V true DNil = Ok (DStream []) /\
  cat V concat_items [] = CEmpty /\ cat V concat_items [None] = COk None.
Proof. exact paradigm_roundtrip_v0_refuted_l. Qed.

(* F-C05h (fixed 57995e9): before the repair a run without streams did not pass the entries of a CHANNEL through
   restore (streamConverter.restoreOutputs returned early; pending inputs were passed through it): the nil answer of a
   node of output type any, folded into its successor's channel when the checkpoint is assembled mid-step (a sibling
   asked for a rerun, a nested graph interrupted) and written as the marker, came back to a resume through Invoke as the
   marker itself - not a value a run without streams can hold: the successor was handed a compose.nilChunk - whereas
   restore turns it back into nil. That every wrapper reaches convert / restore on every path is now an obligation of the
   translator tie (gen_wrappers_reach_entry, Proofs/GenAgreeC05Stream.v) *)
Theorem paradigm_roundtrip_channel_v0_refuted : forall (V : Type) (concat_items : list (option V) -> res (option V)),
  live V false DNil /\ (m_convert_entry V concat_items false DNil = Ok DNilChunk) /\
  (m_restore_channel_entry_v0 V false DNilChunk = Ok DNilChunk) /\ (~ live V false DNilChunk) /\
  (m_restore_entry V false DNilChunk = Ok DNil).
Proof. exact paradigm_roundtrip_channel_v0_refuted_l. Qed.

(* non-vacuity: the nil value written by Invoke, read by Stream; three chunks written by Stream, read by Invoke *)
Example paradigm_roundtrip_hypotheses_hold :
  (live nat false DNil /\ den nat DNil = Some [None] /\
   m_convert_entry nat (fun _ => Ok (Some 7%nat)) false DNil = Ok DNilChunk /\
   m_restore_entry nat true DNilChunk = Ok (DStream [None])) /\
  (live nat true (DStream [Some 1; Some 2; Some 4])%nat /\
   m_convert_entry nat (fun _ => Ok (Some 7%nat)) true (DStream [Some 1; Some 2; Some 4])%nat = Ok (DVal 7%nat) /\
   m_restore_entry nat false (DVal 7%nat) = Ok (DVal 7%nat)).
Proof.
  split; [ split; [left; reflexivity | repeat split] | split; [eexists; reflexivity | split; reflexivity] ].
Qed.

Print Assumptions loop_split_resume.
Print Assumptions loop_split_interrupt.
Print Assumptions resume_equiv.
Print Assumptions sub_checkpoint_used_once.
Print Assumptions resume_equiv_flat.
Print Assumptions resume_equiv_flat_hypotheses_hold.
Print Assumptions resume_equiv_flat_interrupts_happen.
Print Assumptions sub_checkpoint_used_once_v0_refuted.
Print Assumptions resume_equiv_eager_v0_refuted.
Print Assumptions rerun_equiv.
Print Assumptions rerun_equiv_flat_pregel.
Print Assumptions rerun_equiv_flat_pregel_hypotheses_hold.
Print Assumptions rerun_progress.
Print Assumptions rerun_total.
Print Assumptions rerun_progress_flat_pregel.
Print Assumptions rerun_total_flat_pregel.
Print Assumptions rerun_total_flat_pregel_bound_holds.
Print Assumptions susp_equiv.
Print Assumptions resume_equiv_nested.
Print Assumptions resume_equiv_nested_hypotheses_hold.
Print Assumptions resume_equiv_nested_dag_hypotheses_hold.
Print Assumptions resume_equiv_nested_modifier_hypotheses_hold.
Print Assumptions resume_equiv_nested_dag_branch_hypotheses_hold.
Print Assumptions dag_skip_propagation_order_independent.
Print Assumptions dag_channel_layer.
Print Assumptions eager_serial_is_batch.
Print Assumptions eager_serial_schedule_independent.
Print Assumptions eager_drive_serial_is_batch_drive.
Print Assumptions resume_equiv_eager_serial.
Print Assumptions resume_equiv_eager_serial_hypotheses_hold.
Print Assumptions resume_equiv_eager_serial_interrupts_happen.
Print Assumptions paradigm_roundtrip.
Print Assumptions paradigm_roundtrip_v0_refuted.
Print Assumptions paradigm_roundtrip_channel_v0_refuted.
Print Assumptions paradigm_roundtrip_hypotheses_hold.
