(* Props/C13.v — property C13 (placeholder while the pipeline is brought up). *)
From Eino Require Import Base.Util Model.Errors Proofs.Errors.

Theorem chain_starts_with_error : forall b e, exists l, chain_gen b e = e :: l.
Proof. exact chain_head. Qed.
Print Assumptions chain_starts_with_error.
