(* Props/C13.v — property C13: node failures surface as identifiable, unwrappable errors naming
   the failing node path through nested graphs; the step-limit sentinel and context cancellation
   are matchable the same way; interrupts are not wrapped; panics in node bodies, tool calls and
   stream forwarders are errors of the run / error items.  Statements only; proofs in
   Proofs/Errors.v (wrapper algebra), ErrorsRun.v (run loop), ErrorsMsg.v (message path),
   ErrorsOrigin.v (leaf origins), ErrorsE2E.v (end to end, nesting fuel), ErrorsFwd.v (panic
   containment in the graph model), ErrorsFwdStream.v (forwarders on their own), ErrorsGuard.v
   (self-panicking streams behind forwarders and copies, end to end), ErrorsKeep.v (what a stream
   holds is never swallowed), ErrorsHandlers.v (state pre/post handlers of a node).
   Models: Model/Errors.v (error terms, errors.Is / errors.As, the wrappers of compose/error.go,
   the run loop's error paths over a forest of nested graphs, the public paradigms) and
   Model/ErrorsFwd.v (MergeStreamReaders over forwarded sources) — both evaluated by Corr/C13.v. *)
From Eino Require Import Base.Util Model.Errors Model.ErrorsFwd Model.ErrorsNilPanic Model.ErrorsResume Proofs.ErrorsResume Proofs.Errors Proofs.ErrorsRun Proofs.ErrorsFwd Proofs.ErrorsMsg Proofs.ErrorsOrigin Proofs.ErrorsE2E Proofs.ErrorsFwdStream Proofs.ErrorsGuard Proofs.ErrorsKeep Proofs.ErrorsHandlers.
Open Scope string_scope.

(* ------------------------------------------------------------------ the path *)

(* Every error a run may return, at every nesting depth d, for every graph of the forest, every
   input and every completion order (es is the set of legal answers), is the origin r wrapped
   along a real path p of nodes (sub-graph nodes through the forest, ending at a failing leaf or
   at the sub-graph whose own loop failed: [reported]); the node path the caller reads off it —
   in every paradigm — is p followed by whatever path the origin already carried (a node body
   that ran a graph of its own); p exactly when it carried none. *)
Theorem node_error_path : forall F stream d g items canc es e,
  run_graph F stream d g items canc = GFail es -> In e es ->
  exists p r, reported F stream g e p r /\ e = wrap_path p r /\
              (is_interrupt_error r = false ->
               forall par, np_of (top_error par e) = (p ++ np_of r)%list).
Proof. exact node_error_path_lemma. Qed.
Print Assumptions node_error_path.

(* The same through the public API alone (the wrapper type is private: the message is the only
   public carrier of the path): whenever a node failed (p is not empty), in every paradigm of the
   caller the node path printed last in err.Error() is the path of the failing node. *)
Theorem node_named_in_message : forall F stream g e p r,
  reported F stream g e p r -> p <> [] -> is_interrupt_error r = false ->
  forall par, msg_path (top_error par e) = (p ++ np_of r)%list.
Proof. exact node_named_in_message_lemma. Qed.
Print Assumptions node_named_in_message.

(* ... and conversely a task that ends with an error is not swallowed: the step fails and that
   error, wrapped under the node's key, is among the legal answers (whatever the other tasks of
   the step did).  (The tasks of a step start only when no state pre-handler of the step fails,
   [pre_fails] = []; a failing pre-handler is itself reported under its node's key:
   [pre_handler_failure_reported] below.) *)
Theorem node_failure_reported : forall F stream rec all loop br k st rest items n es' e',
  In n st -> exec_node F stream rec items false n = NErr es' -> In e' es' ->
  is_interrupt_task e' = false ->
  any_fuel (map (fun n => (node_key n, exec_node F stream rec items false n)) st) = false ->
  pre_fails stream items st = [] ->
  exists es, steps F stream rec all loop br (S k) (st :: rest) items false = GFail es /\
             In (wrap_node (node_key n) e') es.
Proof. exact step_reports_failure. Qed.
Print Assumptions node_failure_reported.

(* The state handlers of a node are part of the node.  A failing PRE-handler (they run on the run
   loop's goroutine before any task of the step starts) fails the run with exactly the failing
   pre-handlers' errors as legal answers, each wrapped under the key of ITS node (repair of
   F-C13e; the input stream of the step holding nothing that panics on the run loop) ... *)
Theorem pre_handler_failure_reported : forall F stream rec all loop br k st rest items key f u,
  In (NLam key f (BPreFail u)) st -> pre_panic stream items = None ->
  exists es, steps F stream rec all loop br (S k) (st :: rest) items false = GFail es /\
    In (wrap_node key (Wrapf (pre_error stream items u))) es /\
    (forall e, In e es -> exists key' f' u', In (NLam key' f' (BPreFail u')) st /\
                                             e = wrap_node key' (Wrapf (pre_error stream items u'))).
Proof. exact pre_handler_failure_lemma. Qed.
Print Assumptions pre_handler_failure_reported.

(* ... the error is the handler's own error under key-free wrappers (recoverable by
   [orig_recoverable]) and the path read off it is the node's key followed by what the handler's
   error itself carried ... *)
Theorem pre_handler_error_shape : forall stream key u,
  (exists ws, Wrapf (pre_error stream [] u) = apply_ws ws u /\ keys_of ws = []) /\
  (is_interrupt_error u = false -> np_of (wrap_node key (Wrapf (pre_error stream [] u))) = key :: np_of u).
Proof. intros. split; [apply pre_error_shape|apply pre_failure_names_node]. Qed.

(* ... and a failing POST-handler (run when the task is collected) makes the task end with the
   handler's error under key-free wrappers: [node_failure_reported] / [failing_node_reported] then
   report it under the node's key like a failure of the body. *)
Theorem post_handler_failure_shape : forall stream f u,
  exists ws, with_post stream (BPostFail u) (exec_lambda stream [] f (BPostFail u)) = NErr [apply_ws ws u] /\ keys_of ws = [].
Proof. exact post_failure_shape. Qed.

(* End to end a failing pre-handler is a failing node like any other: [fails_at] has the case
   ([fa_pre]: the node is reached through quietly passed stages, its pre-handler fails with a
   non-interrupt error), so [failing_node_reported] gives, for every nesting depth and paradigm, the
   answer naming exactly the path of the node. *)
Example pre_handler_e2e_nonvacuous :
  let top := mkGraph false [[NLam "first" FI BOk]; [NSub "a" 1]] false 0 BrNone in
  let F := [ top; mkGraph true [[NLam "k" FC (BPreFail (Custom 1 3)); NLam "b" FI (BFail (Leaf 0))]] false 0 BrNone ] in
  forward F /\ post_ok F /\
  fails_at F true (S (List.length F)) top ["a"; "k"] (Wrapf (pre_error true [] (Custom 1 3))) /\
  map (fun a => match a with AErr e => (msg_path e, as_custom 1 e) | _ => ([], None) end) (answers F PCollect false None)
  = [ (["a"; "k"], Some 3%N) ].
Proof.
  cbv zeta. split; [apply forwardb_sound; vm_compute; reflexivity|].
  split; [apply post_okb_sound; vm_compute; reflexivity|]. split; [|vm_compute; reflexivity].
  eapply (fa_sub _ _ _ _ [[NLam "first" FI BOk]] [NSub "a" 1%nat] [] "a" 1%nat);
    [reflexivity| |cbn; lia|reflexivity|left; reflexivity|reflexivity|].
  { intros st n [<-|[]] [<-|[]]; vm_compute; split; reflexivity. }
  eapply (fa_pre _ _ _ _ [] _ [] "k" FC (Custom 1 3)); [reflexivity|intros st n []|cbn; lia|left; reflexivity|reflexivity].
Qed.

(* Before the repair of F-C13e a failing pre-handler came back as a graph-level error: no node
   named, at any depth only the enclosing sub-graph nodes. *)
Theorem pre_handler_v4_refuted :
  np_of (pre_fail_v4 false [] (Custom 1 3)) = [] /\ msg_path (wrap_node "sub" (pre_fail_v4 false [] (Custom 1 3))) = ["sub"] /\
  let F := [ mkGraph false [[NSub "sub" 1]] false 0 BrNone;
             mkGraph true [[NLam "a" FI BOk]; [NLam "k" FS (BPreFail (Custom 1 3)); NLam "b" FI (BFail (Leaf 0))]] false 0 BrNone ] in
  map (fun a => match a with AErr e => (msg_path e, as_custom 1 e) | _ => ([], None) end)
      (answers F PInvoke false None ++ answers F PStream false None)%list
  = [ (["sub"; "k"], Some 3%N); (["sub"; "k"], Some 3%N) ].
Proof. repeat split; vm_compute; reflexivity. Qed.

(* non-vacuity: nesting depth 3, two parallel failures at the innermost level *)
Definition ex_forest : forest :=
  [ mkGraph false [[NLam "first" FI BOk]; [NSub "a" 1]] false 0 BrNone;
    mkGraph true  [[NSub "b" 2; NLam "side" FT BOk]] false 0 BrNone;
    mkGraph false [[NSub "c" 3]] false 0 BrNone;
    mkGraph false [[NLam "n" FS (BFail (Wrapf (Leaf 0))); NLam "m" FI (BFail (Custom 1 7))]] false 0 BrNone ].

Example node_error_path_nonvacuous :
  map (fun a => match a with AErr e => (np_of e, msg_path e, is_ (Leaf 0) e, as_custom 1 e) | _ => ([], [], false, None) end)
      (answers ex_forest PStream false None)
  = [ (["a"; "b"; "c"; "n"], ["a"; "b"; "c"; "n"], true, None);
      (["a"; "b"; "c"; "m"], ["a"; "b"; "c"; "m"], false, Some 7%N) ].
Proof. vm_compute. reflexivity. Qed.

(* End to end, by induction on the nesting depth: in every well-nested forest ([forward]: sub-graph
   indices point forward, decided by [forwardb]), if going down from the top graph through
   sub-graph nodes every graph reaches the stage of the next node of p (the stages before it are
   passed quietly — every task of them ends without error, leaves nothing on its stream and does
   not cancel, whatever kind of node it is, [quiet_stages]; plain successful lambdas are,
   [ok_quiet] — and the step limit leaves a step) and the last node is a leaf whose task ends with the
   non-interrupt error r ([fails_at]) — whatever the sibling nodes at every level do — then the
   public call, in every paradigm, has among its legal answers the error r wrapped along exactly
   p: the node path read off the wrapper and the one printed in the message are p (followed by
   the path r itself carried, if it is the error of a graph the node body ran). *)
Theorem failing_node_reported : forall g F' par p r,
  forward (g :: F') -> post_ok (g :: F') -> fails_at (g :: F') (stream_of par) (S (List.length (g :: F'))) g p r ->
  In (AErr (top_error par (wrap_path p r))) (answers (g :: F') par false None) /\
  (is_interrupt_error r = false ->
     msg_path (top_error par (wrap_path p r)) = (p ++ np_of r)%list /\
     np_of (top_error par (wrap_path p r)) = (p ++ np_of r)%list).
Proof. exact failing_node_reported_lemma. Qed.
Print Assumptions failing_node_reported.

Theorem plain_lambdas_are_quiet : forall F stream rec pre,
  forallb (forallb ok_node) pre = true -> quiet_stages F stream rec pre.
Proof. exact ok_quiet. Qed.

(* a well-nested forest never runs out of nesting fuel: the distinguished out-of-fuel answer is
   not an answer of the public call (the hypothesis any_fuel = false of the per-step theorems
   holds on every stage of such a run, [stage_no_fuel]) *)
Theorem answers_no_fuel : forall g F' par cb ii,
  forward (g :: F') -> post_ok (g :: F') -> ~ In AFuel (answers (g :: F') par cb ii).
Proof. exact answers_no_fuel_lemma. Qed.

Theorem forwardb_decides : forall F, forwardb F = true -> forward F.
Proof. exact forwardb_sound. Qed.

(* [post_ok]: no state post-handler sits on a lazily transforming lambda — the one combination the
   model leaves out (there the run loop itself reads the node's input stream; answer NFuel) *)
Theorem post_okb_decides : forall F, post_okb F = true -> post_ok F.
Proof. exact post_okb_sound. Qed.

Example failing_node_reported_nonvacuous :
  (* the path to the failing node passes, at the top level, a stage with a sub-graph that succeeds
     and a ToolsNode whose calls succeed: quiet stages need not be plain lambdas *)
  let top := mkGraph false [[NLam "first" FI BOk; NSub "fine" 4; NTools "tools" [TOk; TOk]]; [NSub "a" 1]] false 0 BrNone in
  let F := [ top;
             mkGraph true  [[NSub "b" 2; NLam "side" FT BOk]] false 0 BrNone;
             mkGraph false [[NSub "c" 3]] false 0 BrNone;
             mkGraph false [[NLam "n" FS (BFail (Wrapf (Leaf 0))); NLam "m" FI (BFail (Custom 1 7))]] false 0 BrNone;
             mkGraph false [[NLam "x" FC BOk]; [NLam "y" FT BOk]] false 0 BrNone ] in
  forward F /\ post_ok F /\
  fails_at F true (S (List.length F)) top ["a"; "b"; "c"; "n"] (wrap_stream TransformByStream (Wrapf (Leaf 0))).
Proof.
  cbv zeta. split; [apply forwardb_sound; vm_compute; reflexivity|].
  split; [apply post_okb_sound; vm_compute; reflexivity|].
  eapply (fa_sub _ _ _ _ [[NLam "first" FI BOk; NSub "fine" 4%nat; NTools "tools" [TOk; TOk]]] [NSub "a" 1%nat] [] "a" 1%nat);
    [reflexivity| |cbn; lia|reflexivity|left; reflexivity|reflexivity|].
  { intros st n [<-|[]] [<-|[<-|[<-|[]]]]; vm_compute; split; reflexivity. }
  eapply (fa_sub _ _ _ _ [] [NSub "b" 2%nat; NLam "side" FT BOk] [] "b" 2%nat);
    [reflexivity|intros st n []|cbn; lia|reflexivity|left; reflexivity|reflexivity|].
  eapply (fa_sub _ _ _ _ [] [NSub "c" 3%nat] [] "c" 3%nat);
    [reflexivity|intros st n []|cbn; lia|reflexivity|left; reflexivity|reflexivity|].
  eapply (fa_leaf _ _ _ _ [] _ [] (NLam "n" FS (BFail (Wrapf (Leaf 0)))));
    [reflexivity|intros st n []|cbn; lia|reflexivity|left; reflexivity|reflexivity|reflexivity|left; reflexivity|reflexivity].
Qed.

(* Before the repair of F-C13c the two wrapping functions extended the wrapper they were given in
   place.  An error item that is itself the error of a nested run, on a stream copied for two
   parallel sub-graphs, was extended by both runs: the error returned carried the keys of both,
   [sA; x2; x1; x] — not a path of nodes.  The legal answers name one real path each. *)
Definition f13c_forest : forest :=
  [ mkGraph false [[NLam "src" FS (BItem (Internal NodeRunError [] ["x"] (Leaf 0)))];
                   [NSub "sA" 1; NSub "sB" 2]] false 0 BrNone;
    mkGraph false [[NLam "x1" FC BOk]] false 0 BrNone;
    mkGraph false [[NLam "x2" FC BOk]] false 0 BrNone ].

Theorem shared_wrapper_v2_refuted :
  let legal := map (fun a => match a with AErr e => msg_path e | _ => [] end)
                   (answers f13c_forest PStream false None) in
  legal = [ ["sA"; "x1"; "x"]; ["sB"; "x2"; "x"] ] /\
  existsb (list_eqb String.eqb ["sA"; "x2"; "x1"; "x"]) legal = false.
Proof. split; vm_compute; reflexivity. Qed.

(* Before the repair of F-C13f a panic with a nil value was taken for a normal return by every
   recover handler: the panicking node's task "succeeded" (the run named no node or the successor),
   a forwarder closed its stream without an error item.  Now a panic is a panic whatever its value:
   the run fails naming the node, the payload (of a nil panic: nil_payload) on the chain; the
   forwarded stream ends with the panic as an error item. *)
Theorem nil_panic_v5_refuted :
  of_call_v5 (fun e => e) (CPanic nil_payload) (NOk [] false) = NOk [] false /\
  of_call (fun e => e) (CPanic nil_payload) (NOk [] false) = NErr [PanicErr nil_payload] /\
  fwd_v5 [SVal 1; SBoom nil_payload; SVal 2] = [RVal 1] /\
  fwd [SVal 1; SBoom nil_payload; SVal 2] = [RVal 1; RErr (PanicErr nil_payload)] /\
  let F := [ mkGraph false [[NLam "a" FI BOk]; [NLam "b" FI (BPanic nil_payload)]] false 0 BrNone ] in
  map (fun a => match a with AErr e => (msg_path e, as_panic e) | _ => ([], None) end) (answers F PInvoke false None)
  = [ (["b"], Some nil_payload) ].
Proof. repeat split; vm_compute; reflexivity. Qed.

(* ------------------------------------------------------------------ recovering the original error *)

(* Through any stack of the framework's wrappers (node, stream-wrapper, concat, graph-run, %w
   context) errors.Is for every sentinel / value that is not itself a framework wrapper,
   errors.As for every custom type and the recovered-panic payload give exactly what they give
   on the node's own error e; and e itself stays on the chain (errors.Is(runErr, e)). *)
Theorem orig_recoverable : forall ws e,
  (forall t, leaf_target t -> is_ t (apply_ws ws e) = is_ t e) /\
  (forall ty, as_custom ty (apply_ws ws e) = as_custom ty e) /\
  as_panic (apply_ws ws e) = as_panic e /\
  (transparent e = false \/ (exists x, e = Wrapf x) -> is_ e (apply_ws ws e) = true).
Proof. exact recoverable_lemma. Qed.
Print Assumptions orig_recoverable.

(* End to end: for what a run may return (any depth, any paradigm of the caller), when the origin
   is the user's error u under wrappers — as it is for every failing lambda flavour and tool,
   [failing_lambda_shape], [failing_tool_shape] — the caller recovers u. *)
Theorem orig_recoverable_run : forall F stream g e p r ws u par,
  reported F stream g e p r -> r = apply_ws ws u ->
  (forall t, leaf_target t -> is_ t (top_error par e) = is_ t u) /\
  (forall ty, as_custom ty (top_error par e) = as_custom ty u) /\
  as_panic (top_error par e) = as_panic u /\
  (transparent u = false \/ (exists x, u = Wrapf x) -> is_ u (top_error par e) = true).
Proof. exact recoverable_run_lemma. Qed.
Print Assumptions orig_recoverable_run.

Theorem failing_lambda_shape : forall stream f u,
  exists ws, exec_lambda stream [] f (BFail u) = NErr [apply_ws ws u] /\ keys_of ws = [].
Proof. exact lambda_fail_shape. Qed.

Theorem failing_tool_shape : forall stream u ts,
  exists ws, exec_tools stream [] (TFail u :: ts) = NErr [apply_ws ws u] /\ keys_of ws = [].
Proof. exact tool_fail_shape. Qed.

(* In full generality (every lambda flavour, value and stream mode, every behaviour, any input
   stream, ToolsNode with any calls): whatever a leaf task ends with is one of its [origins] — the
   error the body / a tool returned, a recovered panic, an error item of its input — under
   framework wrappers that add no node key ... *)
Theorem leaf_error_origin : forall stream items n es r,
  is_leaf n = true -> exec_leaf stream items n = NErr es -> In r es ->
  exists ws u, r = apply_ws ws u /\ keys_of ws = [] /\ In u (origins items n).
Proof. exact leaf_origin_lemma. Qed.
Print Assumptions leaf_error_origin.

(* ... hence for every error a run returns because a leaf failed (any depth, any paradigm of the
   caller) errors.Is / errors.As / the panic payload are exactly those of an origin. *)
Theorem any_leaf_failure_recoverable : forall F stream g e p r items n es,
  reported F stream g e p r ->
  is_leaf n = true -> exec_leaf stream items n = NErr es -> In r es ->
  exists u, In u (origins items n) /\
    forall par,
      (forall t, leaf_target t -> is_ t (top_error par e) = is_ t u) /\
      (forall ty, as_custom ty (top_error par e) = as_custom ty u) /\
      as_panic (top_error par e) = as_panic u.
Proof. exact any_leaf_failure_recoverable_lemma. Qed.
Print Assumptions any_leaf_failure_recoverable.

Example leaf_error_origin_nonvacuous :
  (* a collect-native consumer in stream mode whose input holds an error item and a panicking convert *)
  exec_leaf true [IErr (Custom 1 4); ILazy 8] (NLam "c" FC BOk)
    = NErr [wrap_stream TransformByCollect (Custom 1 4); PanicErr 8] /\
  origins [IErr (Custom 1 4); ILazy 8] (NLam "c" FC BOk) = [Custom 1 4; PanicErr 8].
Proof. split; vm_compute; reflexivity. Qed.

Example orig_recoverable_nonvacuous :
  let u := Wrapf (Wrapf (Custom 0 3)) in
  let e := apply_ws [WStream StreamByTransform; WNode "outer"; WNode "sub"; WStream TransformByInvoke] u in
  (is_ u e, as_custom 0 e, np_of e, sp_of e) = (true, Some 3%N, ["outer"; "sub"], [StreamByTransform; TransformByInvoke]).
Proof. vm_compute. reflexivity. Qed.

(* Before the repair of F-C13 (the internalError type had no Unwrap method) the chain stopped at the wrapper. *)
Theorem orig_recoverable_v0_refuted :
  is_v0 (Leaf 0) (wrap_node_gen false "n" (Leaf 0)) = false /\
  is_ (Leaf 0) (wrap_node "n" (Leaf 0)) = true.
Proof. split; vm_compute; reflexivity. Qed.

(* Before the repair of F-C13b the wrapper found by errors.As was returned instead of the error
   itself: what a node had put around a nested run's error was dropped. *)
Theorem wrapper_kept_v1_refuted :
  let u := Wrapf (CustomW 2 6 (Internal NodeRunError [] ["x"] (Leaf 0))) in
  is_ u (wrap_node_v1 "caller" u) = false /\ as_custom 2 (wrap_node_v1 "caller" u) = None /\
  is_ u (wrap_node "caller" u) = true /\ as_custom 2 (wrap_node "caller" u) = Some 6%N /\
  np_of (wrap_node "caller" u) = ["caller"; "x"].
Proof. repeat split; vm_compute; reflexivity. Qed.

(* ------------------------------------------------------------------ sentinels *)

Theorem sentinels_matchable : forall ws,
  is_ (Leaf id_exceed) (apply_ws ws (new_graph_run_error (Leaf id_exceed))) = true /\
  is_ (Leaf id_canceled) (apply_ws ws (new_graph_run_error (Wrapf (Leaf id_canceled)))) = true.
Proof. exact sentinels_lemma. Qed.
Print Assumptions sentinels_matchable.

(* for what a (nested) run returns: whenever the origin is the step-limit / cancellation error of
   some graph on the path, the caller matches the sentinel in every paradigm *)
Theorem sentinels_matchable_run : forall F stream g e p r par,
  reported F stream g e p r ->
  (r = new_graph_run_error (Leaf id_exceed) -> is_ (Leaf id_exceed) (top_error par e) = true) /\
  (r = new_graph_run_error (Wrapf (Leaf id_canceled)) -> is_ (Leaf id_canceled) (top_error par e) = true).
Proof. exact sentinels_run_lemma. Qed.
Print Assumptions sentinels_matchable_run.

(* and these are the errors the loop makes: a cyclic graph whose nodes all succeed runs into the
   limit whatever the limit is; a run whose context is cancelled fails with the cancellation *)
Theorem step_limit_reported : forall F stream d g,
  g_loop g = true -> g_br g = BrOk -> g_stages g <> [] -> forallb (forallb ok_node) (g_stages g) = true ->
  run_graph F stream (S d) g [] false = GFail [new_graph_run_error (Leaf id_exceed)].
Proof. exact cyclic_run_hits_limit. Qed.

Theorem cancellation_reported : forall F stream d g items,
  g_stages g <> [] ->
  run_graph F stream (S d) g items true = GFail [new_graph_run_error (Wrapf (Leaf id_canceled))].
Proof. exact cancelled_run. Qed.

(* End to end for the step limit of a NESTED graph: [fails_at] has the case ([fa_limit]: the
   graph's own loop runs into its limit — by [step_limit_reported] every cyclic graph of succeeding
   nodes does), so by [failing_node_reported] the public call, in every paradigm and at every
   nesting depth, has the answer that names exactly the path of sub-graph nodes down to the graph
   whose limit was exceeded, and the sentinel is matchable on it. *)
Theorem nested_step_limit_reported : forall g F' par p,
  forward (g :: F') -> post_ok (g :: F') ->
  fails_at (g :: F') (stream_of par) (S (List.length (g :: F'))) g p (new_graph_run_error (Leaf id_exceed)) ->
  let e := top_error par (wrap_path p (new_graph_run_error (Leaf id_exceed))) in
  In (AErr e) (answers (g :: F') par false None) /\
  is_ (Leaf id_exceed) e = true /\ np_of e = p /\ msg_path e = p.
Proof.
  intros g F' par p HF HP Hfa e.
  destruct (failing_node_reported g F' par p _ HF HP Hfa) as [Hin Hpaths].
  destruct (Hpaths eq_refl) as [Hm Hn]. rewrite app_nil_r in Hm, Hn.
  split; [exact Hin|]. split; [|split; assumption].
  unfold e. destruct (top_error_is_wrapper par (wrap_path p (new_graph_run_error (Leaf id_exceed)))) as [wt [-> _]].
  rewrite wrap_path_is_apply_ws, <- apply_ws_app. apply sentinels_matchable.
Qed.
Print Assumptions nested_step_limit_reported.

Example nested_step_limit_nonvacuous :
  (* two levels down a cyclic graph of two succeeding nodes with limit 5; reached through a quiet stage *)
  let top := mkGraph false [[NLam "first" FS BOk]; [NSub "a" 1; NLam "side" FI BOk]] false 0 BrNone in
  let F := [ top; mkGraph true [[NSub "b" 2]] false 0 BrNone;
             mkGraph false [[NLam "x" FI BOk]; [NLam "y" FT BOk]] true 5 BrOk ] in
  forward F /\ post_ok F /\
  fails_at F true (S (List.length F)) top ["a"; "b"] (new_graph_run_error (Leaf id_exceed)).
Proof.
  cbv zeta. split; [apply forwardb_sound; vm_compute; reflexivity|].
  split; [apply post_okb_sound; vm_compute; reflexivity|].
  eapply (fa_sub _ _ _ _ [[NLam "first" FS BOk]] [NSub "a" 1%nat; NLam "side" FI BOk] [] "a" 1%nat);
    [reflexivity| |cbn; lia|reflexivity|left; reflexivity|reflexivity|].
  { intros st n [<-|[]] [<-|[]]; vm_compute; split; reflexivity. }
  eapply (fa_sub _ _ _ _ [] [NSub "b" 2%nat] [] "b" 2%nat);
    [reflexivity|intros st n []|cbn; lia|reflexivity|left; reflexivity|reflexivity|].
  apply fa_limit. apply step_limit_reported; [reflexivity|reflexivity|discriminate|reflexivity].
Qed.

(* the other error the loop makes on behalf of user code: the condition of the branch after the
   last stage fails with u (all tasks of the stage having succeeded quietly).  The run fails with
   u under key-free framework wrappers — so u is recoverable by [orig_recoverable] — and names no
   node (a branch is not a node). *)
Theorem branch_failure_reported : forall F stream rec all loop k st u,
  (forall n, In n st -> exec_node F stream rec [] false n = NOk [] false) ->
  pre_fails stream [] st = [] ->
  steps F stream rec all loop (BrFail u) (S k) [st] [] false = GFail [branch_error (branch_origin stream u)] /\
  exists ws, branch_error (branch_origin stream u) = apply_ws ws u /\ keys_of ws = [].
Proof. exact branch_failure_lemma. Qed.

Example branch_failure_nonvacuous :
  let F := [ mkGraph false [[NSub "s" 1]] false 0 BrNone;
             mkGraph false [[NLam "x" FS BOk]; [NLam "y" FI BOk]] false 0 (BrFail (Wrapf (Custom 1 3))) ] in
  map (fun a => match a with AErr e => (np_of e, msg_path e, as_custom 1 e) | _ => ([], [], None) end)
      (answers F PStream false None ++ answers F PInvoke false None)%list
  = [ (["s"], ["s"], Some 3%N); (["s"], ["s"], Some 3%N) ].
Proof. vm_compute. reflexivity. Qed.

Example sentinels_nonvacuous :
  let F := [ mkGraph false [[NSub "s" 1]] false 0 BrNone;
             mkGraph false [[NLam "x" FI BOk]; [NLam "y" FT BOk]] true 5 BrOk ] in
  map (fun a => match a with AErr e => (np_of e, is_ (Leaf id_exceed) e, is_ (Leaf id_canceled) e) | _ => ([], false, false) end)
      (answers F PCollect false None ++ answers F PInvoke true None)%list
  = [ (["s"], true, false); ([], false, true) ].
Proof. vm_compute. reflexivity. Qed.

Theorem sentinels_matchable_v0_refuted :
  is_v0 (Leaf id_exceed) (new_graph_run_error (Leaf id_exceed)) = false /\
  is_v0 (Leaf id_canceled) (new_graph_run_error (Wrapf (Leaf id_canceled))) = false.
Proof. split; vm_compute; reflexivity. Qed.

(* ------------------------------------------------------------------ interrupts *)

(* an interrupt (top-level, sub-graph, interrupt-and-rerun — anywhere on the chain) is handed on
   as it is by both wrapping functions ... *)
Theorem interrupts_pass_unwrapped : forall e, is_interrupt_error e = true ->
  (forall k, wrap_node k e = e) /\ (forall a, wrap_stream a e = e).
Proof. exact interrupt_not_wrapped_lemma. Qed.
Print Assumptions interrupts_pass_unwrapped.

(* ... and a step in which a task asks for an interrupt while no task fails ends the run
   interrupted, not failed *)
Theorem interrupt_is_not_failure : forall F stream rec all loop br k st rest items,
  let rs := map (fun n => (node_key n, exec_node F stream rec items false n)) st in
  any_fuel rs = false -> all_fails rs = [] -> any_int rs = true -> all_items rs = [] ->
  pre_fails stream items st = [] ->
  steps F stream rec all loop br (S k) (st :: rest) items false = GInt.
Proof. exact step_interrupts. Qed.

Example interrupts_nonvacuous :
  let F := [ mkGraph false [[NSub "s" 1; NLam "p" FI BOk]] false 0 BrNone;
             mkGraph false [[NLam "x" FC BRerun]] false 0 BrNone ] in
  map (fun a => match a with AErr e => (as_internal e, extract_interrupt_gen true e) | _ => (None, false) end)
      (answers F PStream false None)
  = [ (None, true) ].
Proof. vm_compute. reflexivity. Qed.

(* ------------------------------------------------------------------ panics *)

(* A panic in a node body is the task's error (executor's recover), in every flavour and mode;
   whatever the input, the task never succeeds. *)
Theorem panic_contained_node : forall stream f i,
  exec_lambda stream [] f (BPanic i) = NErr [PanicErr i] /\
  forall items, exists es, exec_lambda stream items f (BPanic i) = NErr es /\ es <> [].
Proof. intros. split; [apply lambda_panic_is_error|intros; apply lambda_panic_never_ok]. Qed.

(* A panic in any tool call makes the ToolsNode's task fail. *)
Theorem panic_contained_tool : forall stream ts i, In (TPanic i) ts ->
  exists es, exec_tools stream [] ts = NErr es /\ es <> [].
Proof. exact tool_panic_is_error. Qed.

(* Hence the run fails (the loop function is total: it ends after at most the step limit), with an
   error carrying the panic and naming the node. *)
Theorem panic_contained : forall F stream rec all loop br k st rest key f i,
  In (NLam key f (BPanic i)) st ->
  any_fuel (map (fun n => (node_key n, exec_node F stream rec [] false n)) st) = false ->
  pre_fails stream [] st = [] ->
  exists es e, steps F stream rec all loop br (S k) (st :: rest) [] false = GFail es /\ In e es /\
               as_panic e = Some i /\ np_of e = [key].
Proof. exact panicking_node_fails_run. Qed.
Print Assumptions panic_contained.

Theorem panic_contained_tools_run : forall F stream rec all loop br k st rest key ts i,
  In (NTools key ts) st -> In (TPanic i) ts ->
  any_fuel (map (fun n => (node_key n, exec_node F stream rec [] false n)) st) = false ->
  (forall es e, exec_tools stream [] ts = NErr es -> In e es -> is_interrupt_task e = false) ->
  pre_fails stream [] st = [] ->
  exists es, steps F stream rec all loop br (S k) (st :: rest) [] false = GFail es /\ es <> [].
Proof. exact panicking_tool_fails_run. Qed.

(* A panic in a stream-forwarding goroutine (schema/stream.go toStream: every merge of two or more
   streams puts convert readers and copy children behind one) becomes an error item: nothing that
   panics when read comes out of a merge, the panic's payload is on the item, and ordinary error
   items are handed on as they are. *)
Theorem panic_contained_forwarder : forall m its, (2 <= m)%nat ->
  no_lazy (fanin m its) /\
  (forall i, In (ILazy i) its -> In (IErr (PanicErr i)) (fanin m its)) /\
  (forall e, In (IErr e) its -> In (IErr e) (fanin m its)).
Proof.
  intros m its Hm. split; [apply fanin_contains_lemma; exact Hm|]. split.
  - intros i. apply fanin_panic_item_lemma. exact Hm.
  - intros e. apply fanin_keeps_items_lemma.
Qed.
Print Assumptions panic_contained_forwarder.

(* The same for a stream copied for two or more readers (the output of a node with several
   successors): no copy panics when read, every copy carries the panic of the source as an error
   item with the payload, ordinary error items are handed on (repair of F-C13d). *)
Theorem panic_contained_copies : forall n its, (2 <= n)%nat ->
  no_lazy (fanout n its) /\
  (forall i, In (ILazy i) its -> In (IErr (PanicErr i)) (fanout n its)) /\
  (forall e, In (IErr e) its -> In (IErr e) (fanout n its)).
Proof.
  intros n its Hn. split; [apply fanout_contains_lemma; exact Hn|]. split.
  - intros i. apply fanout_panic_item_lemma. exact Hn.
  - intros e. apply fanout_keeps_items_lemma.
Qed.
Print Assumptions panic_contained_copies.

(* Before the repair of F-C13d the panic left the shared element of the copies empty: one copy
   panicked, the others found ErrRecvAfterClosed — an error that does not carry the panic.  A run
   whose only fault is the panicking stream could fail with that error; now every legal answer
   carries the payload. *)
Theorem copied_panic_v3_refuted :
  (exists e, In (IErr e) (fanout_v3 2 [ILazy 5]) /\ as_panic e = None) /\
  fanout 2 [ILazy 5] = [IErr (PanicErr 5)] /\
  let F := [ mkGraph false [[NLam "src" FS (BConvPanic 5)]; [NLam "a" FI BOk; NLam "b" FC BOk]] false 0 BrNone ] in
  map (fun a => match a with AErr e => (msg_path e, as_panic e) | _ => ([], None) end) (answers F PStream false None)
  = [ (["a"], Some 5%N); (["b"], Some 5%N) ].
Proof.
  split; [exists (Leaf id_recv_closed); split; [right; left; reflexivity|reflexivity]|].
  split; vm_compute; reflexivity.
Qed.

(* the same for the merged output of ToolsNode.Stream with two or more tool calls *)
Theorem panic_contained_tool_forwarder : forall ts, (2 <= List.length ts)%nat ->
  no_lazy (tool_conv_panics ts) /\
  forall i, In (TConvPanic i) ts -> In (IErr (PanicErr i)) (tool_conv_panics ts).
Proof. exact tools_forwarder_lemma. Qed.

(* The forwarders on their own (Model/ErrorsFwd.v, driven directly by the FwdCase cases of the
   correspondence: MergeStreamReaders over convert readers, pipes, arrays and copy children).
   Behind a forwarder a reader finds exactly what it would find reading the source directly, with
   the panic replaced by ONE error item carrying the payload, after which the stream ends ... *)
Theorem forwarder_contains_panic : forall src, fwd src = contained (direct src).
Proof. exact fwd_is_direct_contained_lemma. Qed.

Theorem forwarder_panic_item : forall pre i post, existsb is_boom pre = false ->
  fwd (pre ++ SBoom i :: post) = (fwd pre ++ [RErr (PanicErr i)])%list /\
  direct (pre ++ SBoom i :: post) = DPanic (fwd pre) i.
Proof. exact fwd_boom_lemma. Qed.

(* the same for one child of a copied source read directly, without any forwarder (F-C13d: the
   shared element of the copies records the panic) *)
Theorem copy_child_contains_panic : forall src, child_read src = contained (direct src).
Proof. exact fwd_is_direct_contained_lemma. Qed.

(* ... and whatever the interleaving the scheduler produces, the merged stream delivers the panic
   of every panicking source as an error item, every item of every member, each member in its
   own order, and nothing else: it ends after exactly that many items (no hang, nothing
   swallowed). *)
Theorem merged_forwarders : forall srcs out, interleaving (map fwd srcs) out ->
  (forall s pre i post, In s srcs -> s = (pre ++ SBoom i :: post)%list -> existsb is_boom pre = false ->
     In (RErr (PanicErr i)) out) /\
  (forall s x, In s srcs -> In x (fwd s) -> In x out) /\
  (forall s, In s srcs -> subseq (fwd s) out) /\
  List.length out = total_length (map fwd srcs).
Proof. exact merged_forwarders_lemma. Qed.
Print Assumptions merged_forwarders.

(* the boolean the correspondence evaluates on every forwarder case implies the relation above *)
Theorem merge_checker_sound : forall out ls, is_interleaving ls out = true -> interleaving ls out.
Proof. exact is_interleaving_sound. Qed.

Example merged_forwarders_nonvacuous :
  let s1 := [SVal 1; SItem (Custom 0 2); SBoom 3; SVal 4] in
  let s2 := [SVal 10; SSkip; SVal 12] in
  let out := [RVal 10; RVal 1; RErr (Custom 0 2); RVal 12; RErr (PanicErr 3)] in
  fwd_legal [s1; s2] (FOut out) = true /\ direct s1 = DPanic [RVal 1; RErr (Custom 0 2)] 3 /\
  fwd_legal [s1; s2] (FOut [RVal 10; RVal 1; RErr (Custom 0 2); RVal 12]) = false.
Proof. repeat split; vm_compute; reflexivity. Qed.

(* Globally: in every forest of nested graphs, for every paradigm, input and cancellation,
   whichever node bodies and tool calls panic (any number, any depth), no panic reaches the caller
   of the run and no stream the caller gets panics when read.  (The hypothesis [conv_free] excludes
   only user code that runs outside the three places the property names: streams whose own convert
   function panics on the goroutine of whoever reads them, and a panicking branch condition of the
   TOP graph — below the top level a panicking condition is allowed: the parent contains it.) *)
Theorem no_panic_escapes : forall F p cancel_before in_item,
  conv_free F = true -> ~ In APanic (answers F p cancel_before in_item).
Proof. exact no_panic_escapes_lemma. Qed.
Print Assumptions no_panic_escapes.

(* two parallel stream-native nodes, one with a panicking convert function, merged into END: the
   caller reads an error item carrying the payload; with a single node the same stream panics on
   the caller's goroutine (described by the model, outside the property, excluded above); the
   nested example forest of the first section satisfies the hypothesis of [no_panic_escapes] *)
Example forwarder_nonvacuous :
  let F2 := [ mkGraph false [[NLam "a" FS (BConvPanic 5); NLam "b" FS BOk]] false 0 BrNone ] in
  let F1 := [ mkGraph false [[NLam "a" FS (BConvPanic 5)]] false 0 BrNone ] in
  let F3 := [ mkGraph false [[NSub "s" 1; NLam "p" FI (BPanic 2)]] false 0 BrNone;
              mkGraph false [[NLam "x" FI BOk]] true 0 (BrPanic 7) ] in
  (map (fun a => match a with AItem e => as_panic e | _ => None end) (answers F2 PStream false None),
   answers F1 PStream false None, conv_free F2, conv_free ex_forest, conv_free F3)
  = ([Some 5%N], [APanic], false, true, true).
Proof. vm_compute. reflexivity. Qed.

(* The same with self-panicking streams ALLOWED wherever the engine puts a forwarding goroutine or a
   copy between the stream and whoever reads it outside a task ([guarded], decidable: a node may hand
   back a stream whose convert function panics when its stage has two or more nodes — the outputs
   are merged behind toStream forwarders — or the next stage has two or more nodes — the output is
   copied, the shared element records the panic — and no branch condition reads that stage's
   output), in forests where no node asks for an interrupt (converting an interrupt's checkpoint
   reads the finished siblings' streams on the run loop's own goroutine) and no error value is an
   interrupt: in every paradigm, for every input, at every nesting depth, no panic reaches the
   caller and no result stream panics when read — the panic inside the stream-forwarding goroutine
   is an error item / the error of the run. *)
Theorem forwarded_panics_contained : forall F p cancel_before in_item,
  guarded F in_item = true -> ~ In APanic (answers F p cancel_before in_item).
Proof. exact guarded_panics_contained_lemma. Qed.
Print Assumptions forwarded_panics_contained.

(* [no_panic_escapes]'s condition is the special case without any self-panicking stream *)
Theorem conv_free_is_guarded : forall g, conv_free_stages (g_stages g) = true -> guarded_graph g = true.
Proof. exact conv_free_guarded_graph. Qed.

(* non-vacuity: nested, the self-panicking streams sit (q) in a stage of two whose outputs are
   merged, (a) in a single node whose output is copied for two successors, (tn) in a ToolsNode with
   two calls; the hypothesis holds, conv_free does not, and the callers get errors carrying the
   payloads (stream mode: the copies of a's stream reach the consumer "pre" of the tools graph as
   error items; value mode: a and q read their own streams inside their tasks); one stream-native
   node alone before END is not guarded *)
Example forwarded_panics_nonvacuous :
  let F := [ mkGraph false [[NSub "s" 1; NLam "q" FS (BConvPanic 1)]] false 0 BrNone;
             mkGraph false [[NLam "a" FS (BConvPanic 2)]; [NLam "b" FT BOk; NLam "c" FT BOk]; [NSub "t" 2]] false 0 BrNone;
             mkGraph false [[NLam "pre" FI BOk]; [NTools "tn" [TOk; TConvPanic 3]]; [NLam "post" FI BOk]] false 0 BrNone ] in
  let F1 := [ mkGraph false [[NLam "a" FS (BConvPanic 5)]] false 0 BrNone ] in
  (guarded F None, conv_free F, guarded F1 None,
   map (fun a => match a with AItem e => as_panic e | AErr e => as_panic e | _ => None end) (answers F PStream false None),
   map (fun a => match a with AErr e => (msg_path e, as_panic e) | _ => ([], None) end) (answers F PInvoke false None))
  = (true, false, false, [Some 2%N; Some 2%N], [(["s"; "a"], Some 2%N); (["q"], Some 1%N)]).
Proof. vm_compute. reflexivity. Qed.

(* ------------------------------------------------------------------ nothing on a stream is swallowed *)

(* In stream mode, whatever a stream between the nodes holds — an error item, a convert function
   that panics — is never dropped: a node handed such a stream fails (it read it inside its task)
   or hands it on, copies and merges keep it.  So a run of ANY graph of any forest (stages not
   empty) whose input stream holds something never ends cleanly: it fails with a non-empty set of
   legal errors, is interrupted, or returns a stream that still holds something ... *)
Theorem stream_content_never_swallowed : forall F d g items canc,
  forallb nonempty_graph F = true -> nonempty_graph g = true -> items <> [] ->
  kept (run_graph F true d g items canc).
Proof. intros F d g items canc HF. apply run_graph_keeps. exact HF. Qed.
Print Assumptions stream_content_never_swallowed.

(* ... the same from the moment some task hands back a stream that holds something (an error item
   emitted by a stream-native node, a self-panicking stream), at any nesting depth ... *)
Theorem produced_item_never_swallowed : forall F d all loop br k st rest items n it c,
  forallb nonempty_graph F = true ->
  forallb nonempty_stage all = true -> forallb nonempty_stage (st :: rest) = true ->
  In n st -> exec_node F true (run_graph F true d) items false n = NOk it c -> it <> [] ->
  kept (steps F true (run_graph F true d) all loop br k (st :: rest) items false).
Proof.
  intros F d all loop br k st rest items n it c HF Hall Hcur Hn Hex Hne.
  eapply produced_item_kept; eauto. apply run_graph_keeps. exact HF.
Qed.

(* ... and through the public API: an error item on the input stream of Collect / Transform always
   comes back to the caller — the call never succeeds cleanly (and it has an answer) *)
Theorem input_item_not_swallowed : forall F p cb e,
  (p = PCollect \/ p = PTransform) -> forallb nonempty_graph F = true ->
  ~ In AOk (answers F p cb (Some e)) /\ answers F p cb (Some e) <> [].
Proof. exact input_item_not_swallowed_lemma. Qed.
Print Assumptions input_item_not_swallowed.

Example not_swallowed_nonvacuous :
  (* the input's error item passes two lazy transformers and a sub-graph of transformers and comes
     out of Transform as an error item; with a collecting node on the way it is that node's error *)
  let F := [ mkGraph false [[NLam "t1" FT BOk]; [NSub "s" 1; NLam "t2" FT BOk]] false 0 BrNone;
             mkGraph true [[NLam "u" FT BOk]] false 0 BrNone ] in
  let F' := [ mkGraph false [[NLam "t1" FT BOk]; [NLam "c" FC BOk]] false 0 BrNone ] in
  (forallb nonempty_graph F,
   map (fun a => match a with AItem e => as_custom 1 e | _ => None end) (answers F PTransform false (Some (Custom 1 4))),
   map (fun a => match a with AErr e => (msg_path e, as_custom 1 e) | _ => ([], None) end) (answers F' PCollect false (Some (Custom 1 4))))
  = (true, [Some 4%N; Some 4%N], [(["c"], Some 4%N)]).
Proof. vm_compute. reflexivity. Qed.

(* a panic that leaves the run of a sub-graph (a panicking branch condition, a panicking stream the
   run loop itself reads) is contained one level up: the executor of the sub-graph's node turns
   it into that node's error (in stream mode the payload is that of a second panic raised by the
   deferred function of runner.run, [masked_payload]) *)
Theorem sub_run_panic_contained : forall F stream rec items canc k gi g' i,
  nth_error F gi = Some g' -> rec g' items canc = GPanic i ->
  exists j, exec_node F stream rec items canc (NSub k gi) = NErr [PanicErr j].
Proof. exact sub_run_panic_contained_lemma. Qed.

Example sub_run_panic_nonvacuous :
  let F := [ mkGraph false [[NSub "s" 1]] false 0 BrNone;
             mkGraph false [[NLam "x" FI BOk]] true 0 (BrPanic 7) ] in
  map (fun a => match a with AErr e => (np_of e, as_panic e) | _ => ([], None) end)
      (answers F PInvoke false None ++ answers F PTransform false None)%list
  = [ (["s"], Some 7%N); (["s"], Some masked_payload) ].
Proof. vm_compute. reflexivity. Qed.

Example panic_nonvacuous :
  let F := [ mkGraph false [[NSub "t" 1; NLam "q" FS (BPanic 4)]] false 0 BrNone;
             mkGraph false [[NLam "pre" FI BOk]; [NTools "tn" [TOk; TPanic 9]]; [NLam "post" FI BOk]] false 0 BrNone ] in
  map (fun a => match a with AErr e => (np_of e, as_panic e) | _ => ([], None) end)
      (answers F PInvoke false None)
  = [ (["t"; "tn"], Some 9%N); (["q"], Some 4%N) ].
Proof. vm_compute. reflexivity. Qed.

(* ------------------------------------------------------------------ runs resumed from a checkpoint *)

(* A run that is interrupted (a node asked for interrupt-and-rerun) and resumed from its checkpoint
   until it no longer interrupts (at most n times) is a run: its legal answers are the answers of the
   forest after k <= n resumes, and when fewer than n resumes were needed that answer is not an
   interrupt.  Every theorem above about [answers] / [run_graph] of an arbitrary forest therefore
   speaks about resumed runs ([resumed_answers] is what the correspondence evaluates on resumed cases). *)
Theorem resumed_run_is_a_run : forall n F p cb ii,
  exists k, (k <= n)%nat /\
    resumed_answers_n n F p cb ii = answers (Nat.iter k round F) p cb ii /\
    ((k < n)%nat -> is_interrupt_answer (answers (Nat.iter k round F) p cb ii) = false).
Proof. exact resumed_is_answers. Qed.
Print Assumptions resumed_run_is_a_run.

(* A resume changes no key, no flavour, no sub-graph index, no trigger mode, limit or branch: the node
   paths a resumed run can name are paths of the forest the caller built. *)
Theorem resume_keeps_shape : forall k F, map graph_shape (Nat.iter k round F) = map graph_shape F.
Proof. exact iter_round_shape. Qed.
Print Assumptions resume_keeps_shape.

(* non-vacuity: two successive interrupts two levels down, then a failure behind them: the resumed
   run names [sub; x] and carries x's error; without the resumes the answer is the interrupt *)
Example resumed_run_nonvacuous :
  let F := [ mkGraph false [[NLam "a" FI BOk]; [NSub "sub" 1]] false 0 BrNone;
             mkGraph true [[NLam "r1" FI BRerun]; [NLam "r2" FC BRerun; NLam "side" FI BOk]; [NLam "x" FI (BFail (Custom 1 3))]] false 0 BrNone ] in
  answers F PStream false None = [AErr InterruptE] /\
  map (fun a => match a with AErr e => (msg_path e, as_custom 1 e) | _ => ([], None) end) (resumed_answers F PStream false None)
  = [ (["sub"; "x"], Some 3%N) ] /\
  resumed_answers_n 1 F PStream false None = [AErr InterruptE].
Proof. repeat split; vm_compute; reflexivity. Qed.

