(* Props/C13.v — property C13: node failures surface as identifiable, unwrappable errors naming
   the failing node path through nested graphs; the step-limit sentinel and context cancellation
   are matchable the same way; interrupts are not wrapped; panics in node bodies and tool calls
   are errors of the run.  Statements only; proofs in Proofs/Errors.v, Proofs/ErrorsRun.v and
   Proofs/ErrorsFwd.v.  Model: Model/Errors.v (error terms, errors.Is / errors.As, the wrappers of
   compose/error.go, the run loop's error paths over a forest of nested graphs). *)
From Eino Require Import Base.Util Model.Errors Proofs.Errors Proofs.ErrorsRun.
Open Scope string_scope.

(* ------------------------------------------------------------------ the path *)

(* Every error a run may return, at every nesting depth d, for every graph of the forest, every
   input and every completion order (es is the set of legal answers), is the origin r wrapped
   along a real path p of nodes (sub-graph nodes through the forest, ending at a failing leaf or
   at the sub-graph whose own loop failed: [reported]); the node path the caller reads off it —
   in every paradigm — is p followed by whatever path the origin already carried (a node body
   that ran a graph of its own); p exactly when it carried none. *)
Theorem node_error_path : forall F stream d g items canc es e,
  run_graph F stream d g items canc = GFail es -> In e es ->
  exists p r, reported F stream g e p r /\ e = wrap_path p r /\
              (is_interrupt_error r = false ->
               forall par, np_of (top_error par e) = (p ++ np_of r)%list).
Proof. exact node_error_path_lemma. Qed.
Print Assumptions node_error_path.

(* ... and conversely a task that ends with an error is not swallowed: the step fails and that
   error, wrapped under the node's key, is among the legal answers (whatever the other tasks of
   the step did). *)
Theorem node_failure_reported : forall F stream rec all loop k st rest items n es' e',
  In n st -> exec_node F stream rec items false n = NErr es' -> In e' es' ->
  is_interrupt_task e' = false ->
  any_fuel (map (fun n => (node_key n, exec_node F stream rec items false n)) st) = false ->
  exists es, steps F stream rec all loop (S k) (st :: rest) items false = GFail es /\
             In (wrap_node (node_key n) e') es.
Proof. exact step_reports_failure. Qed.
Print Assumptions node_failure_reported.

(* non-vacuity: nesting depth 3, two parallel failures at the innermost level *)
Definition ex_forest : forest :=
  [ mkGraph false [[NLam "first" FI BOk]; [NSub "a" 1]] false 0;
    mkGraph true  [[NSub "b" 2; NLam "side" FT BOk]] false 0;
    mkGraph false [[NSub "c" 3]] false 0;
    mkGraph false [[NLam "n" FS (BFail (Wrapf (Leaf 0))); NLam "m" FI (BFail (Custom 1 7))]] false 0 ].

Example node_error_path_nonvacuous :
  map (fun a => match a with AErr e => (np_of e, is_ (Leaf 0) e, as_custom 1 e) | _ => ([], false, None) end)
      (answers ex_forest PStream false None)
  = [ (["a"; "b"; "c"; "n"], true, None); (["a"; "b"; "c"; "m"], false, Some 7%N) ].
Proof. vm_compute. reflexivity. Qed.

(* ------------------------------------------------------------------ recovering the original error *)

(* Through any stack of the framework's wrappers (node, stream-wrapper, concat, graph-run, %w
   context) errors.Is for every sentinel / value that is not itself a framework wrapper,
   errors.As for every custom type and the recovered-panic payload give exactly what they give
   on the node's own error e; and e itself stays on the chain (errors.Is(runErr, e)). *)
Theorem orig_recoverable : forall ws e,
  (forall t, leaf_target t -> is_ t (apply_ws ws e) = is_ t e) /\
  (forall ty, as_custom ty (apply_ws ws e) = as_custom ty e) /\
  as_panic (apply_ws ws e) = as_panic e /\
  (transparent e = false \/ (exists x, e = Wrapf x) -> is_ e (apply_ws ws e) = true).
Proof. exact recoverable_lemma. Qed.
Print Assumptions orig_recoverable.

(* End to end: for what a run may return (any depth, any paradigm of the caller), when the origin
   is the user's error u under wrappers — as it is for every failing lambda flavour and tool,
   [failing_lambda_shape], [failing_tool_shape] — the caller recovers u. *)
Theorem orig_recoverable_run : forall F stream g e p r ws u par,
  reported F stream g e p r -> r = apply_ws ws u ->
  (forall t, leaf_target t -> is_ t (top_error par e) = is_ t u) /\
  (forall ty, as_custom ty (top_error par e) = as_custom ty u) /\
  as_panic (top_error par e) = as_panic u /\
  (transparent u = false \/ (exists x, u = Wrapf x) -> is_ u (top_error par e) = true).
Proof. exact recoverable_run_lemma. Qed.
Print Assumptions orig_recoverable_run.

Theorem failing_lambda_shape : forall stream f u,
  exists ws, exec_lambda stream [] f (BFail u) = NErr [apply_ws ws u] /\ keys_of ws = [].
Proof. exact lambda_fail_shape. Qed.

Theorem failing_tool_shape : forall stream u ts,
  exists ws, exec_tools stream [] (TFail u :: ts) = NErr [apply_ws ws u] /\ keys_of ws = [].
Proof. exact tool_fail_shape. Qed.

Example orig_recoverable_nonvacuous :
  let u := Wrapf (Wrapf (Custom 0 3)) in
  let e := apply_ws [WStream StreamByTransform; WNode "outer"; WNode "sub"; WStream TransformByInvoke] u in
  (is_ u e, as_custom 0 e, np_of e, sp_of e) = (true, Some 3%N, ["outer"; "sub"], [StreamByTransform; TransformByInvoke]).
Proof. vm_compute. reflexivity. Qed.

(* Before the repair of F-C13 (the internalError type had no Unwrap method) the chain stopped at the wrapper. *)
Theorem orig_recoverable_v0_refuted :
  is_v0 (Leaf 0) (wrap_node_gen false "n" (Leaf 0)) = false /\
  is_ (Leaf 0) (wrap_node "n" (Leaf 0)) = true.
Proof. split; vm_compute; reflexivity. Qed.

(* Before the repair of F-C13b the wrapper found by errors.As was returned instead of the error
   itself: what a node had put around a nested run's error was dropped. *)
Theorem wrapper_kept_v1_refuted :
  let u := Wrapf (CustomW 2 6 (Internal NodeRunError [] ["x"] (Leaf 0))) in
  is_ u (wrap_node_v1 "caller" u) = false /\ as_custom 2 (wrap_node_v1 "caller" u) = None /\
  is_ u (wrap_node "caller" u) = true /\ as_custom 2 (wrap_node "caller" u) = Some 6%N /\
  np_of (wrap_node "caller" u) = ["caller"; "x"].
Proof. repeat split; vm_compute; reflexivity. Qed.

(* ------------------------------------------------------------------ sentinels *)

Theorem sentinels_matchable : forall ws,
  is_ (Leaf id_exceed) (apply_ws ws (new_graph_run_error (Leaf id_exceed))) = true /\
  is_ (Leaf id_canceled) (apply_ws ws (new_graph_run_error (Wrapf (Leaf id_canceled)))) = true.
Proof. exact sentinels_lemma. Qed.
Print Assumptions sentinels_matchable.

(* for what a (nested) run returns: whenever the origin is the step-limit / cancellation error of
   some graph on the path, the caller matches the sentinel in every paradigm *)
Theorem sentinels_matchable_run : forall F stream g e p r par,
  reported F stream g e p r ->
  (r = new_graph_run_error (Leaf id_exceed) -> is_ (Leaf id_exceed) (top_error par e) = true) /\
  (r = new_graph_run_error (Wrapf (Leaf id_canceled)) -> is_ (Leaf id_canceled) (top_error par e) = true).
Proof. exact sentinels_run_lemma. Qed.
Print Assumptions sentinels_matchable_run.

(* and these are the errors the loop makes: a cyclic graph whose nodes all succeed runs into the
   limit whatever the limit is; a run whose context is cancelled fails with the cancellation *)
Theorem step_limit_reported : forall F stream d g,
  g_loop g = true -> g_stages g <> [] -> forallb (forallb ok_node) (g_stages g) = true ->
  run_graph F stream (S d) g [] false = GFail [new_graph_run_error (Leaf id_exceed)].
Proof. exact cyclic_run_hits_limit. Qed.

Theorem cancellation_reported : forall F stream d g items,
  g_stages g <> [] ->
  run_graph F stream (S d) g items true = GFail [new_graph_run_error (Wrapf (Leaf id_canceled))].
Proof. exact cancelled_run. Qed.

Example sentinels_nonvacuous :
  let F := [ mkGraph false [[NSub "s" 1]] false 0;
             mkGraph false [[NLam "x" FI BOk]; [NLam "y" FT BOk]] true 5 ] in
  map (fun a => match a with AErr e => (np_of e, is_ (Leaf id_exceed) e, is_ (Leaf id_canceled) e) | _ => ([], false, false) end)
      (answers F PCollect false None ++ answers F PInvoke true None)%list
  = [ (["s"], true, false); ([], false, true) ].
Proof. vm_compute. reflexivity. Qed.

Theorem sentinels_matchable_v0_refuted :
  is_v0 (Leaf id_exceed) (new_graph_run_error (Leaf id_exceed)) = false /\
  is_v0 (Leaf id_canceled) (new_graph_run_error (Wrapf (Leaf id_canceled))) = false.
Proof. split; vm_compute; reflexivity. Qed.

(* ------------------------------------------------------------------ interrupts *)

(* an interrupt (top-level, sub-graph, interrupt-and-rerun — anywhere on the chain) is handed on
   as it is by both wrapping functions ... *)
Theorem interrupts_pass_unwrapped : forall e, is_interrupt_error e = true ->
  (forall k, wrap_node k e = e) /\ (forall a, wrap_stream a e = e).
Proof. exact interrupt_not_wrapped_lemma. Qed.
Print Assumptions interrupts_pass_unwrapped.

(* ... and a step in which a task asks for an interrupt while no task fails ends the run
   interrupted, not failed *)
Theorem interrupt_is_not_failure : forall F stream rec all loop k st rest items,
  let rs := map (fun n => (node_key n, exec_node F stream rec items false n)) st in
  any_fuel rs = false -> all_fails rs = [] -> any_int rs = true -> all_items rs = [] ->
  steps F stream rec all loop (S k) (st :: rest) items false = GInt.
Proof. exact step_interrupts. Qed.

Example interrupts_nonvacuous :
  let F := [ mkGraph false [[NSub "s" 1; NLam "p" FI BOk]] false 0;
             mkGraph false [[NLam "x" FC BRerun]] false 0 ] in
  map (fun a => match a with AErr e => (as_internal e, extract_interrupt_gen true e) | _ => (None, false) end)
      (answers F PStream false None)
  = [ (None, true) ].
Proof. vm_compute. reflexivity. Qed.

(* ------------------------------------------------------------------ panics *)

(* A panic in a node body is the task's error (executor's recover), in every flavour and mode;
   whatever the input, the task never succeeds. *)
Theorem panic_contained_node : forall stream f i,
  exec_lambda stream [] f (BPanic i) = NErr [PanicErr i] /\
  forall items, exists es, exec_lambda stream items f (BPanic i) = NErr es /\ es <> [].
Proof. intros. split; [apply lambda_panic_is_error|intros; apply lambda_panic_never_ok]. Qed.

(* A panic in any tool call makes the ToolsNode's task fail. *)
Theorem panic_contained_tool : forall stream ts i, In (TPanic i) ts ->
  exists es, exec_tools stream [] ts = NErr es /\ es <> [].
Proof. exact tool_panic_is_error. Qed.

(* Hence the run fails (the loop function is total: it ends after at most the step limit), with an
   error carrying the panic and naming the node. *)
Theorem panic_contained : forall F stream rec all loop k st rest key f i,
  In (NLam key f (BPanic i)) st ->
  any_fuel (map (fun n => (node_key n, exec_node F stream rec [] false n)) st) = false ->
  exists es e, steps F stream rec all loop (S k) (st :: rest) [] false = GFail es /\ In e es /\
               as_panic e = Some i /\ np_of e = [key].
Proof. exact panicking_node_fails_run. Qed.
Print Assumptions panic_contained.

Theorem panic_contained_tools_run : forall F stream rec all loop k st rest key ts i,
  In (NTools key ts) st -> In (TPanic i) ts ->
  any_fuel (map (fun n => (node_key n, exec_node F stream rec [] false n)) st) = false ->
  (forall es e, exec_tools stream [] ts = NErr es -> In e es -> is_interrupt_task e = false) ->
  exists es, steps F stream rec all loop (S k) (st :: rest) [] false = GFail es /\ es <> [].
Proof. exact panicking_tool_fails_run. Qed.

Example panic_nonvacuous :
  let F := [ mkGraph false [[NSub "t" 1; NLam "q" FS (BPanic 4)]] false 0;
             mkGraph false [[NLam "pre" FI BOk]; [NTools "tn" [TOk; TPanic 9]]; [NLam "post" FI BOk]] false 0 ] in
  map (fun a => match a with AErr e => (np_of e, as_panic e) | _ => ([], None) end)
      (answers F PInvoke false None)
  = [ (["t"; "tn"], Some 9%N); (["q"], Some 4%N) ].
Proof. vm_compute. reflexivity. Qed.
