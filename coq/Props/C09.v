(* Props/C09.v — A compiled runnable is safe for concurrent use; runs are isolated.

   LABELLED PARTIAL (DESIGN §5 C09).  The theorems below cover the LOGIC: in the product of
   n runs that only read one compiled record and own all the state they mutate, every
   interleaving projects, for each run, to that run alone, with the same result.  That the
   Go code has this structure (nothing reachable from the compiled `runner`, from the
   agent's closures or from the caller's options is written by a run) is the HYPOTHESIS;
   it is what the model cannot see in Go.  It is tied to the implementation on every run
   by the direct oracle "concurrent = solo" on a zoo of compiled objects and by the race
   detector (both tiers are built with -race).  Data-race freedom itself is observed, not
   proved.  The *_refuted / *_necessary theorems show that the hypothesis cannot be dropped:
   the system in which a run writes one shared cell is exactly defect F-C09. *)
From Eino Require Import Base.Util Model.Isolation Model.IsolationEngine Proofs.Isolation Proofs.IsolationDriver Proofs.IsolationEngine Proofs.IsolationEngineRec Proofs.IsolationSlice Proofs.IsolationCtx Proofs.IsolationCancel Model.IsolationPool Proofs.IsolationPool.

(* ---- core: runs_non_interfering (system of the property: the record is immutable) ---- *)

(* For every compiled record, every number of runs, every per-run state and EVERY schedule
   (list of indices of enabled steps): the record is unchanged, no run appears or disappears,
   and run i ends where it ends after [count i sched] steps alone, having gone through exactly
   the states it goes through alone. *)
Theorem runs_non_interfering :
  forall (C R : Type) (step : C -> R -> option R) (c c' : C) (sched : list nat) (rs rs' : list R),
    grun (lift step) sched (c, rs) = Some (c', rs') ->
    c' = c /\ List.length rs' = List.length rs /\
    forall i r, nth_error rs i = Some r ->
      exists r', nth_error rs' i = Some r'
                 /\ iter step c (count i sched) r = Some r'
                 /\ gproj (lift step) i sched (c, rs) = trace C R step c (count i sched) r.
Proof. exact runs_non_interfering_pure. Qed.
Print Assumptions runs_non_interfering.

(* each run of a complete interleaving returns what it returns when it runs alone
   (out-of-fuel of [run_alone] is None, never a value) *)
Theorem concurrent_result_is_solo_result :
  forall (C R : Type) (step : C -> R -> option R) (c c' : C) sched rs rs',
    grun (lift step) sched (c, rs) = Some (c', rs') ->
    all_final (lift step) (c', rs') = true ->
    forall i r, nth_error rs i = Some r ->
      exists r', nth_error rs' i = Some r' /\
                 forall fuel, count i sched <= fuel -> run_alone step c fuel r = Some r'.
Proof. exact complete_runs_equal_solo. Qed.
Print Assumptions concurrent_result_is_solo_result.

Theorem schedule_independent :
  forall (C R : Type) (step : C -> R -> option R) (c c1 c2 : C) s1 s2 rs rs1 rs2,
    grun (lift step) s1 (c, rs) = Some (c1, rs1) -> all_final (lift step) (c1, rs1) = true ->
    grun (lift step) s2 (c, rs) = Some (c2, rs2) -> all_final (lift step) (c2, rs2) = true ->
    rs1 = rs2.
Proof. exact Proofs.Isolation.schedule_independent. Qed.
Print Assumptions schedule_independent.

(* isolation as an INDUCTIVE INVARIANT: in every state reachable by any schedule, the compiled
   record is the initial one and every run is in a state it can reach alone from its own initial
   state ([solo_reach]) — no step of any run can bring another run (or itself) anywhere else *)
Theorem isolation_is_invariant :
  forall (C R : Type) (step : C -> R -> option R) (c : C) (rs0 : list R) (sched : list nat) g',
    grun (lift step) sched (c, rs0) = Some g' ->
    fst g' = c /\ Forall2 (fun r0 r => exists n, iter step c n r0 = Some r) rs0 (snd g').
Proof. exact isolated_invariant. Qed.
Print Assumptions isolation_is_invariant.

Theorem isolation_preserved_by_every_step :
  forall (C R : Type) (step : C -> R -> option R) (c : C) (rs0 : list R) g i g',
    isolated C R step c rs0 g -> gstep (lift step) i g = Some g' -> isolated C R step c rs0 g'.
Proof. exact isolated_step. Qed.
Print Assumptions isolation_preserved_by_every_step.

(* the driver of the correspondence check (Corr/C09.v): the observed interleaving is followed
   where the model has a step ([gdrive]), the runs are completed ([gfinish]); the steps taken
   are a schedule, and every run ends where it ends alone *)
Theorem driver_follows_a_schedule :
  forall (Sh R : Type) (stepw : Sh -> R -> option (Sh * R)) sched g gf tk,
    gdrive stepw sched g = (gf, tk) -> grun stepw tk g = Some gf /\ subseq tk sched.
Proof. intros; split; [eapply gdrive_is_grun|eapply gdrive_subseq]; eauto. Qed.
Print Assumptions driver_follows_a_schedule.

Theorem driver_result_is_solo_result :
  forall (C R : Type) (step : C -> R -> option R) (c : C) (rs : list R) sched fuel runs g1 t1 g2 t2,
    gdrive (lift step) sched (c, rs) = (g1, t1) ->
    gfinish (lift step) fuel runs g1 = (g2, t2) ->
    all_final (lift step) g2 = true ->
    fst g2 = c /\
    forall i r, nth_error rs i = Some r ->
      exists r', nth_error (snd g2) i = Some r' /\
                 forall f, count i (t1 ++ t2) <= f -> run_alone step c f r = Some r'.
Proof. exact driver_result_is_solo. Qed.
Print Assumptions driver_result_is_solo_result.

(* ---- the engine (Model/IsolationEngine.v): what the correspondence check evaluates ---- *)

(* any compiled object (graph description), any number of calls (input, options, step limit),
   any interleaving of their supersteps: when all have returned, each call has the observable
   (rendered result, node-level events, message future) of the same call made alone *)
Theorem engine_concurrent_result_is_solo_result :
  forall (c : cobj) (ks : list call) sched c' rs',
    grun (lift estep) sched (c, map (einit c) ks) = Some (c', rs') ->
    all_final (lift estep) (c', rs') = true ->
    c' = c /\
    forall i k, nth_error ks i = Some k ->
      exists r', nth_error rs' i = Some r' /\
                 forall fuel, count i sched <= fuel ->
                   erun c (S fuel) k = cobs k r' /\ erun c (S fuel) k <> None.
Proof. exact engine_concurrent_equals_solo. Qed.
Print Assumptions engine_concurrent_result_is_solo_result.

(* "runs do not share channels, state, options": at EVERY moment of EVERY interleaving (complete
   or not) the whole per-run state of call i — channels, local state, option map, step counter,
   events — is the state the call reaches alone after as many supersteps, it went through the
   same states, and the compiled record is the one before: also in the projection that
   Corr/C09.v [rec_ok] compares with what the hook compose/verif_c09.go reads off the
   implementation's *runner before the first and after the last call *)
Theorem engine_runs_own_their_state :
  forall (c : cobj) (ks : list call) sched c' rs',
    grun (lift estep) sched (c, map (einit c) ks) = Some (c', rs') ->
    c' = c /\ crec_proj c' = crec_proj c /\
    forall i k, nth_error ks i = Some k ->
      exists r', nth_error rs' i = Some r' /\
                 iter estep c (count i sched) (einit c k) = Some r' /\
                 gproj (lift estep) i sched (c, map (einit c) ks) = trace _ _ estep c (count i sched) (einit c k).
Proof. exact Proofs.IsolationEngineRec.engine_runs_own_their_state. Qed.
Print Assumptions engine_runs_own_their_state.

(* exactly what Corr/C09.v [model_runs_engine] computes equals the solo predictions *)
Theorem engine_check_compares_with_solo :
  forall (c : cobj) (ks : list call) sched fuel g1 t1 g2 t2,
    gdrive (lift estep) sched (c, map (einit c) ks) = (g1, t1) ->
    gfinish (lift estep) fuel (seq 0 (List.length ks)) g1 = (g2, t2) ->
    all_final (lift estep) g2 = true ->
    forall i k, nth_error ks i = Some k ->
      exists r', nth_error (snd g2) i = Some r' /\
                 forall f, count i (t1 ++ t2) <= f -> erun c (S f) k = cobs k r'.
Proof. exact engine_driver_is_solo. Qed.
Print Assumptions engine_check_compares_with_solo.

(* a run has no step enabled exactly when it has returned: a complete interleaving is one in
   which every call has a result (no run can be stuck without one) *)
Theorem engine_final_iff_returned : forall c r, estep c r = None <-> rs_res r <> None.
Proof. exact estep_none_iff. Qed.
Print Assumptions engine_final_iff_returned.

(* the option map and the step limit a call brought are the ones it keeps, whatever runs beside it *)
Theorem engine_call_options_fixed :
  forall (c : cobj) (ks : list call) sched c' rs',
    grun (lift estep) sched (c, map (einit c) ks) = Some (c', rs') ->
    forall i k r', nth_error ks i = Some k -> nth_error rs' i = Some r' ->
      rs_opts r' = rs_opts (einit c k) /\ rs_max r' = rs_max (einit c k).
Proof. exact engine_options_fixed. Qed.
Print Assumptions engine_call_options_fixed.

(* any-predecessor graphs: every call returns within (its step limit + 1) supersteps, so the
   fuel of the solo prediction is never the reason for an answer *)
Theorem engine_any_predecessor_terminates :
  forall (c : cobj), g_dag (co_graph c) = false -> forall k, erun c (S (rs_max (einit c k))) k <> None.
Proof. exact engine_pregel_terminates. Qed.
Print Assumptions engine_any_predecessor_terminates.

(* clause "runs do not share … callback context" (round 4): the context of a call is the call's
   own.  The moment at which run i finds its context cancelled (checked at the top of every
   iteration of the main loop, compose/graph_run.go:273) is the one call i brought, at every moment
   of every interleaving — whatever the other runs do: cancel their own contexts, fail, return *)
Theorem engine_call_context_fixed :
  forall (c : cobj) (ks : list call) sched c' rs',
    grun (lift estep) sched (c, map (einit c) ks) = Some (c', rs') ->
    forall i k r', nth_error ks i = Some k -> nth_error rs' i = Some r' ->
      rs_cancel r' = rs_cancel (einit c k).
Proof. exact engine_context_fixed. Qed.
Print Assumptions engine_call_context_fixed.

(* a call whose own context is cancelled during its superstep n-1 has returned after n+1
   supersteps — any compiled object, ANY trigger mode (all-predecessor graphs and workflows have
   no step limit): for such calls the fuel of the solo prediction is never the reason for an answer *)
Theorem engine_cancelled_call_terminates :
  forall (c : cobj) k n, ca_cancel k = Some n -> erun c (S n) k <> None.
Proof. exact engine_cancelled_call_returns. Qed.
Print Assumptions engine_cancelled_call_terminates.

(* non-vacuity: three calls of the zoo's pregel shape interleaved superstep by superstep, the middle
   one cancels its own context in its first superstep: it returns the error of the cancelled
   context, the other two are the calls they are alone *)
Example engine_cancelled_call_interleaved :
  exists rs', grun (lift estep) [0; 1; 2; 1; 0; 2; 0; 2; 0; 2; 0; 2; 0; 2]%nat
                   (ex_obj, map (einit ex_obj) [ex_call1; ex_call_cancelled; ex_call3]) = Some (ex_obj, rs') /\
    all_final (lift estep) (ex_obj, rs') = true /\
    map (fun r => option_map fst (eobs false r)) rs' =
      [Some "ok:V{<tSELF> n=2 lim=2 h=({p0=V{<tSELF> n=2 lim=2 h=in2>a[o=d0]>w>w>f>p0}})>j}"%string;
       Some "err:other"%string; Some "err:maxsteps"%string] /\
    map rs_cancel rs' = [None; Some 1%nat; None] /\
    erun ex_obj 2 ex_call_cancelled = Some ("err:other"%string, ["n:a"%string]).
Proof. exact ex_cancel_interleaved. Qed.


(* ---- a per-run object recycled across runs + a run that returns while one of its tasks is
   still executing (round 4; seeded change C09-taskmanager-pool-recycled, own mutant N30) ---- *)

(* task managers drawn from a pool and put back when the run returns: run 0 faults and returns
   while its task (output 7) is still running, run 1 is healthy (output 1); under the schedule
   0,0,1,0,1,1 run 1 draws the recycled manager, the abandoned task of run 0 completes into it, and
   run 1 returns 7 — alone it returns 1 *)
Theorem recycled_manager_refuted :
  exists g',
    grun pstep_pool pool_sched (pstore0, [pinit 7 true; pinit 1 false]) = Some g' /\
    all_final pstep_pool g' = true /\
    exists r1' s rs,
      nth_error (snd g') 1 = Some r1' /\
      solo_run pstep_pool 3 pstore0 (pinit 1 false) = Some (s, rs) /\
      p_ret rs = Some (Some 1%N) /\ p_ret r1' = Some (Some 7%N).
Proof. exact pool_late_completion_is_delivered_to_another_run. Qed.
Print Assumptions recycled_manager_refuted.

(* … and the two calls need not overlap: the faulted call has returned to its caller before the
   healthy call makes its first step (why the check has a SEQUENTIAL fault scenario) *)
Theorem recycled_manager_needs_no_overlap :
  exists g1, grun pstep_pool (firstn 2 pool_sched) (pstore0, [pinit 7 true; pinit 1 false]) = Some g1 /\
             (exists r0, nth_error (snd g1) 0 = Some r0 /\ p_ret r0 = Some None) /\
             (exists r1, nth_error (snd g1) 1 = Some r1 /\ p_pc r1 = 0%N).
Proof. exact pool_no_overlap_needed. Qed.
Print Assumptions recycled_manager_needs_no_overlap.

(* the code as it is (`&taskManager{…}` per run: gen_managers_fresh_or_linked reads that off the
   source): any number of runs, faulted and healthy, ANY interleaving — the store is never written,
   and a run that has made its three steps has returned what it returns alone: a healthy run its
   own task's output, whatever abandoned tasks complete in the meantime (their completion lands in
   the mailbox of the run that abandoned them) *)
Theorem fresh_manager_late_completion_goes_nowhere :
  forall sched g g',
    grun pstep_fresh sched g = Some g' ->
    fst g' = fst g /\
    forall i v fault, nth_error (snd g) i = Some (pinit v fault) -> count i sched = 3%nat ->
      exists r', nth_error (snd g') i = Some r' /\
                 p_ret r' = Some (if fault then None else Some v) /\ p_own r' = [v].
Proof. exact fresh_managers_isolated. Qed.
Print Assumptions fresh_manager_late_completion_goes_nowhere.

(* non-vacuity: the schedule that breaks the pooled variant is a schedule of the code as it is *)
Example fresh_manager_same_schedule :
  exists g', grun pstep_fresh pool_sched (pstore0, [pinit 7 true; pinit 1 false]) = Some g' /\
             map p_ret (snd g') = [Some None; Some (Some 1%N)].
Proof. exact fresh_same_schedule. Qed.

(* ---- the general system: steps MAY write a shared store ---- *)

(* shared_record_unchanged: if no step writes the part of the store that is the compiled
   record ([view]), no interleaving of any number of runs changes it *)
Theorem shared_record_unchanged :
  forall (Sh R C : Type) (stepw : Sh -> R -> option (Sh * R)) (view : Sh -> C),
    (forall s r s' r', stepw s r = Some (s', r') -> view s' = view s) ->
    forall sched g g', grun stepw sched g = Some g' -> view (fst g') = view (fst g).
Proof. exact grun_view. Qed.
Print Assumptions shared_record_unchanged.

(* non-interference under the two stated hypotheses: (H1) no run writes the compiled record,
   (H2) a run's next state depends only on the compiled record and its own state.  Then run i
   behaves, inside any interleaving, as it behaves alone from ANY store showing the same record
   (the rest of the store — other runs' leftovers, counters, caches — is irrelevant). *)
Theorem runs_non_interfering_general :
  forall (Sh R C : Type) (stepw : Sh -> R -> option (Sh * R)) (view : Sh -> C),
    (forall s r s' r', stepw s r = Some (s', r') -> view s' = view s) ->
    (forall s1 s2 r, view s1 = view s2 -> option_map snd (stepw s1 r) = option_map snd (stepw s2 r)) ->
    forall sched g g', grun stepw sched g = Some g' ->
    forall i r, nth_error (snd g) i = Some r ->
    forall s0, view s0 = view (fst g) ->
      exists s0' r', solo stepw (count i sched) s0 r = Some (s0', r')
                     /\ nth_error (snd g') i = Some r'
                     /\ gproj stepw i sched g = solo_trace stepw (count i sched) s0 r.
Proof. exact project_run. Qed.
Print Assumptions runs_non_interfering_general.

(* ---- the hypothesis is necessary: the shape of defect F-C09 ---- *)
(* react.go:253-273 before commit 9209127: the converter closure of every run assigns and then
   reads `err`, a variable of the constructor.  Two runs, one whose ProcessState succeeds and
   one whose ProcessState fails with error 7: *)

(* ... run 0 returns nil alone, error 7 under the schedule 0,1,0,1 *)
Theorem shared_write_refuted :
  exists sched g g',
    grun wstep_shared sched g = Some g' /\ all_final wstep_shared g' = true /\
    exists r r' s rs,
      nth_error (snd g) 0 = Some r /\ nth_error (snd g') 0 = Some r' /\
      solo_run wstep_shared 2 (fst g) r = Some (s, rs) /\
      w_ret rs = Some None /\ w_ret r' = Some (Some 7%N).
Proof. exact shared_write_foreign_error. Qed.
Print Assumptions shared_write_refuted.

(* ... run 1 returns error 7 alone, nil under the schedule 1,0,1,0 (its error is swallowed) *)
Theorem shared_write_swallows_error_refuted :
  exists sched g g',
    grun wstep_shared sched g = Some g' /\ all_final wstep_shared g' = true /\
    exists r r' s rs,
      nth_error (snd g) 1 = Some r /\ nth_error (snd g') 1 = Some r' /\
      solo_run wstep_shared 2 (fst g) r = Some (s, rs) /\
      w_ret rs = Some (Some 7%N) /\ w_ret r' = Some None.
Proof. exact shared_write_swallowed_error. Qed.
Print Assumptions shared_write_swallows_error_refuted.

(* the conclusion of runs_non_interfering_general is false for that system, although it
   satisfies H2 with view = identity (then H1 fails: it writes the view) and H1 with the empty
   view (then H2 fails: it reads outside the view): neither hypothesis can be dropped *)
Theorem no_write_hypothesis_necessary :
  (forall s1 s2 r, (fun x : option N => x) s1 = (fun x : option N => x) s2 ->
      option_map snd (wstep_shared s1 r) = option_map snd (wstep_shared s2 r)) /\
  (forall s r s' r', wstep_shared s r = Some (s', r') ->
      (fun _ : option N => tt) s' = (fun _ : option N => tt) s) /\
  ~ (forall sched g g', grun wstep_shared sched g = Some g' ->
       forall i r, nth_error (snd g) i = Some r ->
       exists s' r', solo wstep_shared (count i sched) (fst g) r = Some (s', r')
                     /\ nth_error (snd g') i = Some r').
Proof.
  exact (conj shared_write_reads_only_view_id
          (conj shared_write_preserves_view_tt shared_write_breaks_projection)).
Qed.
Print Assumptions no_write_hypothesis_necessary.

(* defect F-C09b (flow/agent/react/react.go:224 before 69dbab3): the tool-call checker of every
   run was handed the context of the CONSTRUCTOR.  A run whose own context is live gets the
   verdict "live" alone, and "cancelled" when the owner of the constructor's context — who is
   entitled to cancel it once NewAgent has returned — does so first (schedule 1,0) *)
Theorem constructor_context_refuted :
  exists sched g g',
    grun cstep_ctor sched g = Some g' /\ all_final cstep_ctor g' = true /\
    exists r r' s rs,
      nth_error (snd g) 0 = Some r /\ nth_error (snd g') 0 = Some r' /\
      c_owner r = false /\ c_own_cancelled r = false /\
      solo_run cstep_ctor 1 (fst g) r = Some (s, rs) /\
      c_verdict rs = Some true /\ c_verdict r' = Some false.
Proof. exact ctor_context_foreign_cancel. Qed.
Print Assumptions constructor_context_refuted.

(* the repaired condition passes on the context it is called with: the verdict of a run is a
   function of ITS context in every interleaving with any number of runs and with the owner of
   the constructor's context (who does write the store: only H2 is needed here) *)
Theorem run_context_verdict_is_own :
  forall sched g g',
    grun cstep_own sched g = Some g' ->
    forall i r, nth_error (snd g) i = Some r -> c_pc r = 0%N -> c_owner r = false ->
    forall r', nth_error (snd g') i = Some r' -> final cstep_own (fst g') r' = true ->
    c_verdict r' = Some (negb (c_own_cancelled r)).
Proof. exact cstep_own_verdict. Qed.
Print Assumptions run_context_verdict_is_own.

(* two more shapes of shared mutable state that a refactoring can introduce into a compiled
   object (self mutation tests, notes/C09.md §5), each refuted by a witness: *)

(* a buffer kept in the compiled object and reused by every run: under the schedule 0,1,0,1 the
   node of run 0 is handed the options of run 1 *)
Theorem buffer_reuse_refuted :
  exists sched g g',
    grun bstep_shared sched g = Some g' /\ all_final bstep_shared g' = true /\
    exists r r' s rs,
      nth_error (snd g) 0 = Some r /\ nth_error (snd g') 0 = Some r' /\
      solo_run bstep_shared 2 (fst g) r = Some (s, rs) /\
      b_seen rs = Some (b_opts r) /\ b_seen r' <> Some (b_opts r).
Proof. exact buffer_reuse_foreign_options. Qed.
Print Assumptions buffer_reuse_refuted.

(* a per-call step limit written into the compiled object: even WITHOUT overlap (schedule
   0,0,1,1) the later call runs under the limit of the earlier one, and the record has changed *)
Theorem sticky_option_refuted :
  exists g g',
    grun lstep_sticky [0; 0; 1; 1]%nat g = Some g' /\ all_final lstep_sticky g' = true /\
    exists r r' s rs,
      nth_error (snd g) 1 = Some r /\ nth_error (snd g') 1 = Some r' /\
      solo_run lstep_sticky 2 (fst g) r = Some (s, rs) /\
      l_used rs = Some 30%N /\ l_used r' = Some 5%N /\ fst g' <> fst g.
Proof. exact sticky_limit_inherited. Qed.
Print Assumptions sticky_option_refuted.

(* the successor list built by appending the run's branch selection ONTO the compiled edge slice,
   whose backing array has spare capacity (seeded change C09-successors-appended-onto-shared-edge-slice):
   run 0, whose branch selects 7, goes on with 9 — the selection of run 1 — under the schedule
   0,1,0,1; alone it goes on with its own; and the record is not what it was *)
Theorem spare_capacity_append_refuted :
  exists sched g g',
    grun astep_shared sched g = Some g' /\ all_final astep_shared g' = true /\
    exists r r' s rs,
      nth_error (snd g) 0 = Some r /\ nth_error (snd g') 0 = Some r' /\
      solo_run astep_shared 2 (fst g) r = Some (s, rs) /\
      a_used rs = Some (as_edges (fst g) ++ [a_sel r]) /\
      a_used r' = Some (as_edges (fst g) ++ [9%N]) /\ a_sel r = 7%N /\ fst g' <> fst g.
Proof. exact spare_append_foreign_selection. Qed.
Print Assumptions spare_capacity_append_refuted.

(* why the direct oracle "the compiled record, spare slice capacity included, is the same before
   the first and after the last call" sees that shape without any collision: ONE step of ONE run
   already changes the store, for every store and every selection other than what the slot holds *)
Theorem spare_capacity_append_writes_record_alone :
  forall s r, a_pc r = 0%N -> a_sel r <> as_spare s ->
    exists s' r', astep_shared s r = Some (s', r') /\ s' <> s /\ as_edges s' = as_edges s.
Proof. exact spare_append_one_run_writes_record. Qed.
Print Assumptions spare_capacity_append_writes_record_alone.

(* the code as it is (graph_run.go:680 append(nextNodeKeys, t.call.writeTo...): the list is the
   run's own): every run goes on with the compiled edges and its OWN selection, in every
   interleaving with any number of runs, and the record is never written *)
Theorem copy_then_append_uses_own_selection :
  forall sched g g',
    grun astep_local sched g = Some g' ->
    fst g' = fst g /\
    forall i r, nth_error (snd g) i = Some r -> a_pc r = 0%N ->
    forall r', nth_error (snd g') i = Some r' -> final astep_local (fst g') r' = true ->
    a_used r' = Some (as_edges (fst g) ++ [a_sel r]).
Proof. exact astep_local_uses_own_selection. Qed.
Print Assumptions copy_then_append_uses_own_selection.

(* the code as it is (graph_run.go:129-143: the limit of the call is a local of the run): every
   call runs under its own override or the compiled limit, in every interleaving, and the
   compiled limit is never changed *)
Theorem per_call_limit_is_local :
  forall sched g g',
    grun lstep_local sched g = Some g' ->
    fst g' = fst g /\
    forall i r, nth_error (snd g) i = Some r -> l_pc r = 0%N ->
    forall r', nth_error (snd g') i = Some r' -> final lstep_local (fst g') r' = true ->
    l_used r' = Some (match l_override r with Some m => m | None => fst g end).
Proof. exact lstep_local_uses_own_limit. Qed.
Print Assumptions per_call_limit_is_local.

(* the repaired converter (error local to the closure, i.e. per-run state): every run returns
   its own error in every interleaving with any number of other runs *)
Theorem repaired_converter_returns_own_error :
  forall sched g g',
    grun wstep_local sched g = Some g' ->
    forall i r, nth_error (snd g) i = Some r -> w_pc r = 0%N ->
    forall r', nth_error (snd g') i = Some r' -> final wstep_local (fst g') r' = true ->
    w_ret r' = Some (w_mine r).
Proof. exact wstep_local_returns_own. Qed.
Print Assumptions repaired_converter_returns_own_error.

(* ---- non-vacuity ---- *)

(* the small engine (per-run channels, local state, options, step counter; compiled record =
   node table, successors, step limit): two runs with different inputs and options, interleaved
   step by step, end exactly where they end alone — and in different states *)
Example engine_two_runs_interleaved :
  exists a b,
    grun (lift superstep) mini_sched (mini, [rinit mini 5 0; rinit mini 11 3]) = Some (mini, [a; b]) /\
    all_final (lift superstep) (mini, [a; b]) = true /\
    run_alone superstep mini 10 (rinit mini 5 0) = Some a /\
    run_alone superstep mini 10 (rinit mini 11 3) = Some b /\
    r_result a = Some (Ok 97%N) /\ r_result b = Some (Ok 226%N) /\ r_state a <> r_state b.
Proof. exact mini_interleaved. Qed.

(* a cyclic graph stopped by the step limit in both runs *)
Example engine_two_runs_step_limit :
  exists a b,
    grun (lift superstep) [1; 0; 0; 1; 0; 1; 1; 0]%nat (mini_loop, [rinit mini_loop 1 0; rinit mini_loop 2 0])
      = Some (mini_loop, [a; b]) /\
    all_final (lift superstep) (mini_loop, [a; b]) = true /\
    r_result a = Some (Err 1%N) /\ r_result b = Some (Err 1%N) /\
    run_alone superstep mini_loop 10 (rinit mini_loop 1 0) = Some a.
Proof. exact mini_loop_interleaved. Qed.

(* the hypotheses of runs_non_interfering_general are satisfiable by a system that really
   has a store: the repaired converter *)
Example general_hypotheses_satisfiable :
  (forall s r s' r', wstep_local s r = Some (s', r') -> (fun _ : option N => tt) s' = (fun _ : option N => tt) s) /\
  (forall s1 s2 r, (fun _ : option N => tt) s1 = (fun _ : option N => tt) s2 ->
      option_map snd (wstep_local s1 r) = option_map snd (wstep_local s2 r)).
Proof. exact (conj wstep_local_view_tt wstep_local_reads_nothing). Qed.

(* the engine: three concurrent calls of one compiled graph (a loop with a branch, a failing
   node, fan-out and join), interleaved superstep by superstep: one succeeds with its own
   option, one fails in node f, one hits its own runtime step limit — each as it does alone *)
Example engine_three_calls_interleaved :
  exists rs', grun (lift estep) ex_sched (ex_obj, map (einit ex_obj) [ex_call1; ex_call2; ex_call3]) = Some (ex_obj, rs') /\
    all_final (lift estep) (ex_obj, rs') = true /\
    map (fun r => option_map fst (eobs false r)) rs' =
      [Some "ok:V{<tSELF> n=2 lim=2 h=({p0=V{<tSELF> n=2 lim=2 h=in2>a[o=d0]>w>w>f>p0}})>j}"%string;
       Some "err:node:f"%string; Some "err:maxsteps"%string] /\
    erun ex_obj 31 ex_call1 = option_map (fun r => match eobs false r with Some o => o | None => (""%string, []) end) (nth_error rs' 0).
Proof. exact ex_interleaved. Qed.

(* the driver of the check on an observed interleaving that is longer than the model's runs
   (entries of runs that have returned are skipped) and stops before they are complete (the
   rest is finished): the hypotheses of driver_result_is_solo_result / engine_check_compares_with_solo
   are satisfiable, with three different outcomes *)
Example engine_driver_on_observed_interleaving :
  exists g1 t1 g2 t2,
    gdrive (lift estep) [2; 2; 0; 1; 2; 2; 2; 2; 2; 2; 0; 1; 1; 0]%nat (ex_obj, map (einit ex_obj) [ex_call1; ex_call2; ex_call3]) = (g1, t1) /\
    gfinish (lift estep) 80 (seq 0 3) g1 = (g2, t2) /\
    all_final (lift estep) g2 = true /\
    t1 = [2; 2; 0; 1; 2; 2; 2; 2; 0; 1; 1; 0]%nat /\ t2 = [0; 0; 0; 1; 1]%nat /\
    map (fun r => option_map fst (eobs false r)) (snd g2) =
      [Some "ok:V{<tSELF> n=2 lim=2 h=({p0=V{<tSELF> n=2 lim=2 h=in2>a[o=d0]>w>w>f>p0}})>j}"%string;
       Some "err:node:f"%string; Some "err:maxsteps"%string].
Proof. exact ex_driver. Qed.

(* engine_runs_own_their_state on an interleaving that is NOT complete: after five supersteps of
   three calls no call has returned, each is where it is alone after its share of the steps *)
Example engine_partial_interleaving :
  exists rs', grun (lift estep) (firstn 5 ex_sched) (ex_obj, map (einit ex_obj) [ex_call1; ex_call2; ex_call3]) = Some (ex_obj, rs') /\
    forallb (fun r => match rs_res r with None => true | Some _ => false end) rs' = true /\
    map (fun i => count i (firstn 5 ex_sched)) [0; 1; 2]%nat <> [0; 0; 0]%nat /\
    crec_proj ex_obj <> ""%string.
Proof.
  eexists. split; [vm_compute; reflexivity|]. split; [vm_compute; reflexivity|]. split; vm_compute; discriminate.
Qed.
