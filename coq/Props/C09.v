(* Props/C09.v — A compiled runnable is safe for concurrent use; runs are isolated.

   LABELLED PARTIAL (DESIGN §5 C09).  The theorems below cover the LOGIC: in the product of
   n runs that only read one compiled record and own all the state they mutate, every
   interleaving projects, for each run, to that run alone, with the same result.  That the
   Go code has this structure (nothing reachable from the compiled `runner`, from the
   agent's closures or from the caller's options is written by a run) is the HYPOTHESIS;
   it is what the model cannot see in Go.  It is tied to the implementation on every run
   by the direct oracle "concurrent = solo" on a zoo of compiled objects and by the race
   detector (both tiers are built with -race).  Data-race freedom itself is observed, not
   proved.  The *_refuted / *_necessary theorems show that the hypothesis cannot be dropped:
   the system in which a run writes one shared cell is exactly defect F-C09. *)
From Eino Require Import Base.Util Model.Isolation Proofs.Isolation.

(* ---- core: runs_non_interfering (system of the property: the record is immutable) ---- *)

(* For every compiled record, every number of runs, every per-run state and EVERY schedule
   (list of indices of enabled steps): the record is unchanged, no run appears or disappears,
   and run i ends where it ends after [count i sched] steps alone, having gone through exactly
   the states it goes through alone. *)
Theorem runs_non_interfering :
  forall (C R : Type) (step : C -> R -> option R) (c c' : C) (sched : list nat) (rs rs' : list R),
    grun (lift step) sched (c, rs) = Some (c', rs') ->
    c' = c /\ List.length rs' = List.length rs /\
    forall i r, nth_error rs i = Some r ->
      exists r', nth_error rs' i = Some r'
                 /\ iter step c (count i sched) r = Some r'
                 /\ gproj (lift step) i sched (c, rs) = trace C R step c (count i sched) r.
Proof. exact runs_non_interfering_pure. Qed.
Print Assumptions runs_non_interfering.

(* each run of a complete interleaving returns what it returns when it runs alone
   (out-of-fuel of [run_alone] is None, never a value) *)
Theorem concurrent_result_is_solo_result :
  forall (C R : Type) (step : C -> R -> option R) (c c' : C) sched rs rs',
    grun (lift step) sched (c, rs) = Some (c', rs') ->
    all_final (lift step) (c', rs') = true ->
    forall i r, nth_error rs i = Some r ->
      exists r', nth_error rs' i = Some r' /\
                 forall fuel, count i sched <= fuel -> run_alone step c fuel r = Some r'.
Proof. exact complete_runs_equal_solo. Qed.
Print Assumptions concurrent_result_is_solo_result.

Theorem schedule_independent :
  forall (C R : Type) (step : C -> R -> option R) (c c1 c2 : C) s1 s2 rs rs1 rs2,
    grun (lift step) s1 (c, rs) = Some (c1, rs1) -> all_final (lift step) (c1, rs1) = true ->
    grun (lift step) s2 (c, rs) = Some (c2, rs2) -> all_final (lift step) (c2, rs2) = true ->
    rs1 = rs2.
Proof. exact Proofs.Isolation.schedule_independent. Qed.
Print Assumptions schedule_independent.

(* ---- the general system: steps MAY write a shared store ---- *)

(* shared_record_unchanged: if no step writes the part of the store that is the compiled
   record ([view]), no interleaving of any number of runs changes it *)
Theorem shared_record_unchanged :
  forall (Sh R C : Type) (stepw : Sh -> R -> option (Sh * R)) (view : Sh -> C),
    (forall s r s' r', stepw s r = Some (s', r') -> view s' = view s) ->
    forall sched g g', grun stepw sched g = Some g' -> view (fst g') = view (fst g).
Proof. exact grun_view. Qed.
Print Assumptions shared_record_unchanged.

(* non-interference under the two stated hypotheses: (H1) no run writes the compiled record,
   (H2) a run's next state depends only on the compiled record and its own state.  Then run i
   behaves, inside any interleaving, as it behaves alone from ANY store showing the same record
   (the rest of the store — other runs' leftovers, counters, caches — is irrelevant). *)
Theorem runs_non_interfering_general :
  forall (Sh R C : Type) (stepw : Sh -> R -> option (Sh * R)) (view : Sh -> C),
    (forall s r s' r', stepw s r = Some (s', r') -> view s' = view s) ->
    (forall s1 s2 r, view s1 = view s2 -> option_map snd (stepw s1 r) = option_map snd (stepw s2 r)) ->
    forall sched g g', grun stepw sched g = Some g' ->
    forall i r, nth_error (snd g) i = Some r ->
    forall s0, view s0 = view (fst g) ->
      exists s0' r', solo stepw (count i sched) s0 r = Some (s0', r')
                     /\ nth_error (snd g') i = Some r'
                     /\ gproj stepw i sched g = solo_trace stepw (count i sched) s0 r.
Proof. exact project_run. Qed.
Print Assumptions runs_non_interfering_general.

(* ---- the hypothesis is necessary: the shape of defect F-C09 ---- *)
(* react.go:253-273 before commit 9209127: the converter closure of every run assigns and then
   reads `err`, a variable of the constructor.  Two runs, one whose ProcessState succeeds and
   one whose ProcessState fails with error 7: *)

(* ... run 0 returns nil alone, error 7 under the schedule 0,1,0,1 *)
Theorem shared_write_refuted :
  exists sched g g',
    grun wstep_shared sched g = Some g' /\ all_final wstep_shared g' = true /\
    exists r r' s rs,
      nth_error (snd g) 0 = Some r /\ nth_error (snd g') 0 = Some r' /\
      solo_run wstep_shared 2 (fst g) r = Some (s, rs) /\
      w_ret rs = Some None /\ w_ret r' = Some (Some 7%N).
Proof. exact shared_write_foreign_error. Qed.
Print Assumptions shared_write_refuted.

(* ... run 1 returns error 7 alone, nil under the schedule 1,0,1,0 (its error is swallowed) *)
Theorem shared_write_swallows_error_refuted :
  exists sched g g',
    grun wstep_shared sched g = Some g' /\ all_final wstep_shared g' = true /\
    exists r r' s rs,
      nth_error (snd g) 1 = Some r /\ nth_error (snd g') 1 = Some r' /\
      solo_run wstep_shared 2 (fst g) r = Some (s, rs) /\
      w_ret rs = Some (Some 7%N) /\ w_ret r' = Some None.
Proof. exact shared_write_swallowed_error. Qed.
Print Assumptions shared_write_swallows_error_refuted.

(* the conclusion of runs_non_interfering_general is false for that system, although it
   satisfies H2 with view = identity (then H1 fails: it writes the view) and H1 with the empty
   view (then H2 fails: it reads outside the view): neither hypothesis can be dropped *)
Theorem no_write_hypothesis_necessary :
  (forall s1 s2 r, (fun x : option N => x) s1 = (fun x : option N => x) s2 ->
      option_map snd (wstep_shared s1 r) = option_map snd (wstep_shared s2 r)) /\
  (forall s r s' r', wstep_shared s r = Some (s', r') ->
      (fun _ : option N => tt) s' = (fun _ : option N => tt) s) /\
  ~ (forall sched g g', grun wstep_shared sched g = Some g' ->
       forall i r, nth_error (snd g) i = Some r ->
       exists s' r', solo wstep_shared (count i sched) (fst g) r = Some (s', r')
                     /\ nth_error (snd g') i = Some r').
Proof.
  exact (conj shared_write_reads_only_view_id
          (conj shared_write_preserves_view_tt shared_write_breaks_projection)).
Qed.
Print Assumptions no_write_hypothesis_necessary.

(* the repaired converter (error local to the closure, i.e. per-run state): every run returns
   its own error in every interleaving with any number of other runs *)
Theorem repaired_converter_returns_own_error :
  forall sched g g',
    grun wstep_local sched g = Some g' ->
    forall i r, nth_error (snd g) i = Some r -> w_pc r = 0%N ->
    forall r', nth_error (snd g') i = Some r' -> final wstep_local (fst g') r' = true ->
    w_ret r' = Some (w_mine r).
Proof. exact wstep_local_returns_own. Qed.
Print Assumptions repaired_converter_returns_own_error.

(* ---- non-vacuity ---- *)

(* the small engine (per-run channels, local state, options, step counter; compiled record =
   node table, successors, step limit): two runs with different inputs and options, interleaved
   step by step, end exactly where they end alone — and in different states *)
Example engine_two_runs_interleaved :
  exists a b,
    grun (lift superstep) mini_sched (mini, [rinit mini 5 0; rinit mini 11 3]) = Some (mini, [a; b]) /\
    all_final (lift superstep) (mini, [a; b]) = true /\
    run_alone superstep mini 10 (rinit mini 5 0) = Some a /\
    run_alone superstep mini 10 (rinit mini 11 3) = Some b /\
    r_result a = Some (Ok 97%N) /\ r_result b = Some (Ok 226%N) /\ r_state a <> r_state b.
Proof. exact mini_interleaved. Qed.

(* a cyclic graph stopped by the step limit in both runs *)
Example engine_two_runs_step_limit :
  exists a b,
    grun (lift superstep) [1; 0; 0; 1; 0; 1; 1; 0]%nat (mini_loop, [rinit mini_loop 1 0; rinit mini_loop 2 0])
      = Some (mini_loop, [a; b]) /\
    all_final (lift superstep) (mini_loop, [a; b]) = true /\
    r_result a = Some (Err 1%N) /\ r_result b = Some (Err 1%N) /\
    run_alone superstep mini_loop 10 (rinit mini_loop 1 0) = Some a.
Proof. exact mini_loop_interleaved. Qed.

(* the hypotheses of runs_non_interfering_general are satisfiable by a system that really
   has a store: the repaired converter *)
Example general_hypotheses_satisfiable :
  (forall s r s' r', wstep_local s r = Some (s', r') -> (fun _ : option N => tt) s' = (fun _ : option N => tt) s) /\
  (forall s1 s2 r, (fun _ : option N => tt) s1 = (fun _ : option N => tt) s2 ->
      option_map snd (wstep_local s1 r) = option_map snd (wstep_local s2 r)).
Proof. exact (conj wstep_local_view_tt wstep_local_reads_nothing). Qed.
