(* Props/C12.v — property C12: checkpoint serialisation round-trips every supported value
   or fails loudly.  Statements only, each closed by [exact]; models in Model/Ser.v
   (encoder / decoder) over Base/Universe.v (Go type / value universe).

   Reading guide.  [marshal] / [unmarshal] model serialization.Marshal / Unmarshal on the
   intermediate tree (internalStruct); [fixed] selects the current code, [v0] the code
   before the repairs F-C12a / F-C12b.  The JSON encoding of basic values and of map keys
   is external: it enters as the functions jenc/jdec/kenc/kdec with the hypotheses
   [json_roundtrip] / [key_roundtrip] (identity on in-range literals whose strings are
   valid UTF-8, [jsafe]).  [wt env v]: v is a well-typed value of the universe;
   [safe v]: every string literal in v is valid UTF-8 (the carve-out of finding F-C12c);
   [defs_ok reg v]: the defined container types (type T []E, map, array) of v itself and of
   the values directly held by interface positions inside v are registered (the carve-out of
   finding F-C12g; in a typed field / element an unregistered one is fine, behind a pointer
   the encoder refuses it); [fixed]: the current code, [v0] / [without_x]: the code before
   the repairs; [≅]: deep equality with nil and empty containers identified;
   [dyn_ty]: reflect.TypeOf.  The universe covers arrays and defined container types; map key
   types are basic kinds, named basic types, struct types and arrays of those ([key_ty]), the
   key values being key-shaped ([kval], part of [wt]): a key is written as its plain JSON
   ([enc_key]: the text of a value of basic kind, a JSON array, a JSON object), so pointers
   and interfaces inside keys stay outside (finding F-C12j). *)
From Coq Require Import List Bool Arith NArith ZArith String Ascii.
From Eino Require Import Base.Util Base.Universe Model.Ser Model.SerCheckpoint Model.SerLits Model.SerStore
     Proofs.Ser Proofs.SerLoud Proofs.SerTop Proofs.SerReg Proofs.SerRefl Proofs.SerTotal
     Proofs.SerLit Proofs.SerStore Model.SerCanon Proofs.SerCanon Model.SerStream Proofs.SerStream.
Import ListNotations.

(* 1. Round trip: whatever the encoder accepts comes back equivalent, with the identical
      dynamic type.  For every value of the (recursive, unbounded) universe. *)
Theorem enc_dec_roundtrip :
  forall (J JK : Type) (jenc : base -> lit -> res J) (jdec : base -> J -> res lit)
         (kenc : base -> lit -> res JK) (kdec : base -> JK -> res lit) (reg : registry) (env : senv)
         (json_roundtrip : forall b l j,
             lit_in_base b l = true -> jsafe l = true -> jenc b l = Ok j -> jdec b j = Ok l)
         (key_roundtrip : forall b l j,
             lit_in_base b l = true -> jsafe l = true -> kenc b l = Ok j -> kdec b j = Ok l)
         (registry_names_unique : NoDup (map fst reg))
         (field_names_unique : forall n ds, struct_fields env n = Some ds -> NoDup (map fst ds)),
  forall v oi,
    wt env v = true -> is_iface (ty_of v) = false -> safe v -> defs_ok reg v ->
    marshal J JK jenc kenc fixed reg v = Ok oi ->
    exists v', unmarshal J JK jdec kdec fixed reg env oi = Ok v' /\ v' ≅ v /\ dyn_ty v' = dyn_ty v.
Proof. exact enc_dec_roundtrip_lemma. Qed.
Print Assumptions enc_dec_roundtrip.

(* 1b. The same for a value sitting in any position (struct field, element, map value),
       including interface-typed positions and nil interfaces: what the decoder puts into
       the position is equivalent and has the position's static type. *)
Theorem position_roundtrip :
  forall (J JK : Type) (jenc : base -> lit -> res J) (jdec : base -> J -> res lit)
         (kenc : base -> lit -> res JK) (kdec : base -> JK -> res lit) (reg : registry) (env : senv)
         (json_roundtrip : forall b l j,
             lit_in_base b l = true -> jsafe l = true -> jenc b l = Ok j -> jdec b j = Ok l)
         (key_roundtrip : forall b l j,
             lit_in_base b l = true -> jsafe l = true -> kenc b l = Ok j -> kdec b j = Ok l)
         (registry_names_unique : NoDup (map fst reg))
         (field_names_unique : forall n ds, struct_fields env n = Some ds -> NoDup (map fst ds)),
  forall v oi,
    wt env v = true -> safe v -> Forall (fun t => rm_lookup reg t <> None) (boxed_defs v) ->
    enc_at J JK jenc kenc fixed reg 0 v = Ok oi ->
    exists v', hole J JK env (dec J JK jdec kdec fixed reg env) (ty_of v) oi = Ok v' /\
               v' ≅ v /\ ty_of v' = ty_of v.
Proof. exact position_roundtrip_lemma. Qed.
Print Assumptions position_roundtrip.

(* 2. Fails loudly: a type the encoder has to look up and that is not registered makes
      Marshal return an error (for the current and for the old code), at any depth. *)
Theorem unsupported_fails_loudly :
  forall (J JK : Type) (jenc : base -> lit -> res J) (kenc : base -> lit -> res JK)
         (fx : fixes) (reg : registry)
         (json_returns_errors : forall b l, jenc b l <> Panic)
         (key_json_returns_errors : forall b l, kenc b l <> Panic),
  forall v pn t,
    In t (looked_up v) -> rm_lookup reg t = None ->
    exists e, enc_at J JK jenc kenc fx reg pn v = Err e.
Proof. exact unsupported_err. Qed.
Print Assumptions unsupported_fails_loudly.

(* 2b. ... and so does a non-nil pointer to a value of an unregistered defined container type
       (which no position could take back, F-C12i) *)
Theorem ptr_to_unregistered_defined_container_fails_loudly :
  forall (J JK : Type) (jenc : base -> lit -> res J) (kenc : base -> lit -> res JK) (reg : registry) d w pn,
    rm_lookup reg (TDef d (ty_of w)) = None ->
    enc_at J JK jenc kenc fixed reg (S pn) (VDef d w) = Err E_UNKNOWN_TYPE.
Proof. intros. now apply ptr_to_unregistered_def_err. Qed.
Print Assumptions ptr_to_unregistered_defined_container_fails_loudly.

(* 2b'. ... and so does a literal the JSON layer refuses, wherever it sits in the value: as a
        value of basic kind ([val_lits]: handed to json.Marshal) or as a map key ([key_lits]:
        handed to sonic.MarshalString), below any pointers, containers, struct fields, interface
        boxes (for the current and for the old code).  With the JSON layer of the correspondence
        check: NaN, +Inf, -Inf and complex numbers make Marshal return an error - it never
        writes another value in their place. *)
Theorem unencodable_literal_fails_loudly :
  forall (J JK : Type) (jenc : base -> lit -> res J) (kenc : base -> lit -> res JK)
         (fx : fixes) (reg : registry)
         (json_returns_errors : forall b l, jenc b l <> Panic)
         (key_json_returns_errors : forall b l, kenc b l <> Panic),
  forall v pn,
    (exists bl, In bl (val_lits v) /\ exists e, jenc (fst bl) (snd bl) = Err e) \/
    (exists bl, In bl (key_lits v) /\ exists e, kenc (fst bl) (snd bl) = Err e) ->
    exists e, enc_at J JK jenc kenc fx reg pn v = Err e.
Proof. exact lit_err. Qed.
Print Assumptions unencodable_literal_fails_loudly.
Theorem nan_inf_complex_fail_loudly : forall fx reg v pn b l,
  In (b, l) (val_lits v) \/ In (b, l) (key_lits v) -> unencodable_c b l = true ->
  exists e, enc_at lit lit jenc_c kenc_c fx reg pn v = Err e.
Proof. exact nonfinite_complex_err. Qed.
Print Assumptions nan_inf_complex_fail_loudly.

Theorem encoder_never_panics :
  forall (J JK : Type) (jenc : base -> lit -> res J) (kenc : base -> lit -> res JK)
         (fx : fixes) (reg : registry)
         (json_returns_errors : forall b l, jenc b l <> Panic)
         (key_json_returns_errors : forall b l, kenc b l <> Panic),
  forall v pn, enc_at J JK jenc kenc fx reg pn v <> Panic.
Proof. exact enc_no_panic. Qed.
Print Assumptions encoder_never_panics.

(* 2c. Reading back never panics: for EVERY well-typed value that Marshal accepted - also
       outside [safe] / [defs_ok], i.e. the inputs of the known findings F-C12c / F-C12g -
       Unmarshal returns an error or a value of the type that was written (for a value of an
       unregistered defined container type: of its underlying type), never a reflect panic;
       in a typed position the restored value always has the position's type.  Nothing is
       assumed of the JSON decoders except that they return errors instead of panicking. *)
Theorem decoder_never_panics_on_encoder_output :
  forall (J JK : Type) (jenc : base -> lit -> res J) (jdec : base -> J -> res lit)
         (kenc : base -> lit -> res JK) (kdec : base -> JK -> res lit) (reg : registry) (env : senv)
         (json_decoder_returns_errors : forall b j, jdec b j <> Panic)
         (key_decoder_returns_errors : forall b j, kdec b j <> Panic)
         (registry_names_unique : NoDup (map fst reg))
         (field_names_unique : forall n ds, struct_fields env n = Some ds -> NoDup (map fst ds)),
  forall v oi,
    wt env v = true -> is_iface (ty_of v) = false ->
    marshal J JK jenc kenc fixed reg v = Ok oi ->
    unmarshal J JK jdec kdec fixed reg env oi <> Panic /\
    forall v', unmarshal J JK jdec kdec fixed reg env oi = Ok v' ->
      ty_of v' = ty_of v \/ exists d, ty_of v = TDef d (ty_of v').
Proof. exact unmarshal_total_lemma. Qed.
Print Assumptions decoder_never_panics_on_encoder_output.
Theorem position_restore_never_panics :
  forall (J JK : Type) (jenc : base -> lit -> res J) (jdec : base -> J -> res lit)
         (kenc : base -> lit -> res JK) (kdec : base -> JK -> res lit) (reg : registry) (env : senv)
         (json_decoder_returns_errors : forall b j, jdec b j <> Panic)
         (key_decoder_returns_errors : forall b j, kdec b j <> Panic)
         (registry_names_unique : NoDup (map fst reg))
         (field_names_unique : forall n ds, struct_fields env n = Some ds -> NoDup (map fst ds)),
  forall v oi,
    wt env v = true -> enc_at J JK jenc kenc fixed reg 0 v = Ok oi ->
    hole J JK env (dec J JK jdec kdec fixed reg env) (ty_of v) oi <> Panic /\
    forall v', hole J JK env (dec J JK jdec kdec fixed reg env) (ty_of v) oi = Ok v' -> ty_of v' = ty_of v.
Proof. exact position_total_lemma. Qed.
Print Assumptions position_restore_never_panics.

(* 3. Supported values are accepted and round-trip: well-typed, every looked-up type
      registered, every literal accepted by the JSON layer. *)
Theorem supported_roundtrips :
  forall (J JK : Type) (jenc : base -> lit -> res J) (jdec : base -> J -> res lit)
         (kenc : base -> lit -> res JK) (kdec : base -> JK -> res lit) (reg : registry) (env : senv)
         (json_roundtrip : forall b l j,
             lit_in_base b l = true -> jsafe l = true -> jenc b l = Ok j -> jdec b j = Ok l)
         (key_roundtrip : forall b l j,
             lit_in_base b l = true -> jsafe l = true -> kenc b l = Ok j -> kdec b j = Ok l)
         (registry_names_unique : NoDup (map fst reg))
         (field_names_unique : forall n ds, struct_fields env n = Some ds -> NoDup (map fst ds)),
  forall v,
    wt env v = true -> is_iface (ty_of v) = false -> safe v ->
    registered reg v -> defs_registered reg v -> encodable J JK jenc kenc v ->
    exists oi v', marshal J JK jenc kenc fixed reg v = Ok oi /\
                  unmarshal J JK jdec kdec fixed reg env oi = Ok v' /\
                  v' ≅ v /\ dyn_ty v' = dyn_ty v.
Proof. exact supported_roundtrips_lemma. Qed.
Print Assumptions supported_roundtrips.

(* 4. The instance of the model that the correspondence check evaluates against the
      implementation (JSON layer: [jenc_c] …) satisfies the hypotheses above. *)
Theorem enc_dec_roundtrip_model_instance : forall reg env v oi,
  str_nodup (map fst reg) = true -> env_names_ok env = true ->
  wt env v = true -> is_iface (ty_of v) = false -> safe v -> defs_ok reg v ->
  enc_c fixed reg v = Ok oi ->
  exists v', dec_c fixed reg env oi = Ok v' /\ v' ≅ v /\ dyn_ty v' = dyn_ty v.
Proof. exact roundtrip_instance_lemma. Qed.
Print Assumptions enc_dec_roundtrip_model_instance.

(* 5. Checkpoints: with the registry compose builds (built-in types, the checkpoint /
      channel types of Model/SerCheckpoint.v, any user registrations) a well-typed
      *checkpoint that Marshal accepts is read back as an equivalent *checkpoint — the
      type assertion value.( *checkpoint) in checkPointer.get succeeds and channels,
      pending inputs, state, skip flags and nested checkpoints are restored. *)
Theorem checkpoint_roundtrip :
  forall (J JK : Type) (jenc : base -> lit -> res J) (jdec : base -> J -> res lit)
         (kenc : base -> lit -> res JK) (kdec : base -> JK -> res lit) (ureg : registry) (uenv : senv)
         (json_roundtrip : forall b l j,
             lit_in_base b l = true -> jsafe l = true -> jenc b l = Ok j -> jdec b j = Ok l)
         (key_roundtrip : forall b l j,
             lit_in_base b l = true -> jsafe l = true -> kenc b l = Ok j -> kdec b j = Ok l)
         (registry_names_unique : NoDup (map fst (ckpt_reg ureg)))
         (field_names_unique : forall n ds, struct_fields (ckpt_senv uenv) n = Some ds -> NoDup (map fst ds)),
  forall cp oi,
    has_type (ckpt_senv uenv) cp t_checkpoint_ptr = true -> safe cp -> defs_ok (ckpt_reg ureg) cp ->
    marshal J JK jenc kenc fixed (ckpt_reg ureg) cp = Ok oi ->
    exists cp', unmarshal J JK jdec kdec fixed (ckpt_reg ureg) (ckpt_senv uenv) oi = Ok cp' /\
                cp' ≅ cp /\ ty_of cp' = t_checkpoint_ptr.
Proof. exact checkpoint_roundtrip_lemma. Qed.
Print Assumptions checkpoint_roundtrip.

(* 5b. The registry.  [register] models GenericRegister (pointers stripped, a taken key or
       type refused).  Registrations keep names and types unique, so the hypothesis
       [registry_names_unique] holds for every registry a process can have: init() of
       serialization and of compose followed by any sequence of registrations - and 5 holds
       for it without that hypothesis. *)
Theorem registration_keeps_registry_wellformed : forall reg k t reg',
  reg_wf reg -> register reg k t = Ok reg' -> reg_wf reg'.
Proof. exact register_wf. Qed.
Theorem duplicate_registration_refused : forall reg k t,
  In k (map fst reg) \/ In (snd (strip_ptr t)) (map snd reg) -> exists e, register reg k t = Err e.
Proof. exact register_refuses. Qed.
Theorem fresh_registration_accepted : forall reg k t,
  ~ In k (map fst reg) -> ~ In (snd (strip_ptr t)) (map snd reg) ->
  exists reg', register reg k t = Ok reg' /\
               rm_lookup reg' (snd (strip_ptr t)) = Some k /\ m_lookup reg' k = Some (snd (strip_ptr t)) /\
               forall t0 k0, rm_lookup reg t0 = Some k0 -> rm_lookup reg' t0 = Some k0.
Proof. exact register_accepts_fresh. Qed.
Theorem process_registry_wellformed : forall l, reg_wf (register_all (ckpt_reg []) l).
Proof. intro l. exact (register_all_wf l _ ckpt_reg_wf). Qed.
Theorem checkpoint_roundtrip_any_registrations :
  forall (J JK : Type) (jenc : base -> lit -> res J) (jdec : base -> J -> res lit)
         (kenc : base -> lit -> res JK) (kdec : base -> JK -> res lit)
         (registrations : list (string * ty)) (uenv : senv)
         (json_roundtrip : forall b l j,
             lit_in_base b l = true -> jsafe l = true -> jenc b l = Ok j -> jdec b j = Ok l)
         (key_roundtrip : forall b l j,
             lit_in_base b l = true -> jsafe l = true -> kenc b l = Ok j -> kdec b j = Ok l)
         (field_names_unique : forall n ds, struct_fields (ckpt_senv uenv) n = Some ds -> NoDup (map fst ds)),
    let reg := register_all (ckpt_reg []) registrations in
    forall cp oi,
      has_type (ckpt_senv uenv) cp t_checkpoint_ptr = true -> safe cp -> defs_ok reg cp ->
      marshal J JK jenc kenc fixed reg cp = Ok oi ->
      exists cp', unmarshal J JK jdec kdec fixed reg (ckpt_senv uenv) oi = Ok cp' /\
                  cp' ≅ cp /\ ty_of cp' = t_checkpoint_ptr.
Proof. exact checkpoint_roundtrip_registered_lemma. Qed.
Print Assumptions checkpoint_roundtrip_any_registrations.
Theorem checkpoint_types_stay_registered : forall l,
  rm_lookup (register_all (ckpt_reg []) l) (TStruct S_CHECKPOINT) = Some "_eino_checkpoint"%string /\
  rm_lookup (register_all (ckpt_reg []) l) (TStruct S_DAG) = Some "_eino_dag_channel"%string /\
  rm_lookup (register_all (ckpt_reg []) l) (TStruct S_PREGEL) = Some "_eino_pregel_channel"%string.
Proof. exact checkpoint_types_stay_registered. Qed.

(* 5c. checkPointer.set / get over a store (Model/SerStore.v): the checkpoint written under an
       id is what get reads back under that id - whatever the store held before (an earlier
       checkpoint under the same id included) and whatever is written under other ids later -
       as an equivalent *checkpoint: the type assertion in get holds, and every field of the
       record (Channels, Inputs, State, SkipPreHandler, SubGraphs) is restored.  And get never
       panics on what set wrote (no [safe], no [defs_ok]). *)
Theorem checkpoint_store_roundtrip :
  forall (J JK : Type) (jenc : base -> lit -> res J) (jdec : base -> J -> res lit)
         (kenc : base -> lit -> res JK) (kdec : base -> JK -> res lit) (ureg : registry) (uenv : senv)
         (json_roundtrip : forall b l j,
             lit_in_base b l = true -> jsafe l = true -> jenc b l = Ok j -> jdec b j = Ok l)
         (key_roundtrip : forall b l j,
             lit_in_base b l = true -> jsafe l = true -> kenc b l = Ok j -> kdec b j = Ok l)
         (registry_names_unique : NoDup (map fst (ckpt_reg ureg)))
         (field_names_unique : forall n ds, struct_fields (ckpt_senv uenv) n = Some ds -> NoDup (map fst ds)),
  forall s id cp s1 later s2,
    has_type (ckpt_senv uenv) cp t_checkpoint_ptr = true -> safe cp -> defs_ok (ckpt_reg ureg) cp ->
    cp_set J JK jenc kenc (ckpt_reg ureg) s id cp = Ok s1 ->
    Forall (fun w => fst w <> id) later ->
    cp_sets J JK jenc kenc (ckpt_reg ureg) s1 later = Ok s2 ->
    exists cp', cp_get J JK jdec kdec (ckpt_reg ureg) (ckpt_senv uenv) s2 id = Ok (Some cp') /\
                cp' ≅ cp /\ ty_of cp' = t_checkpoint_ptr /\
                forall f x, ckpt_field cp f = Some x -> exists x', ckpt_field cp' f = Some x' /\ x' ≅ x.
Proof. exact store_roundtrip_lemma. Qed.
Print Assumptions checkpoint_store_roundtrip.
Theorem checkpoint_get_never_panics :
  forall (J JK : Type) (jenc : base -> lit -> res J) (jdec : base -> J -> res lit)
         (kenc : base -> lit -> res JK) (kdec : base -> JK -> res lit) (ureg : registry) (uenv : senv)
         (json_decoder_returns_errors : forall b j, jdec b j <> Panic)
         (key_decoder_returns_errors : forall b j, kdec b j <> Panic)
         (registry_names_unique : NoDup (map fst (ckpt_reg ureg)))
         (field_names_unique : forall n ds, struct_fields (ckpt_senv uenv) n = Some ds -> NoDup (map fst ds)),
  forall s id cp s1 later s2,
    has_type (ckpt_senv uenv) cp t_checkpoint_ptr = true ->
    cp_set J JK jenc kenc (ckpt_reg ureg) s id cp = Ok s1 ->
    Forall (fun w => fst w <> id) later ->
    cp_sets J JK jenc kenc (ckpt_reg ureg) s1 later = Ok s2 ->
    cp_get J JK jdec kdec (ckpt_reg ureg) (ckpt_senv uenv) s2 id <> Panic /\
    forall r, cp_get J JK jdec kdec (ckpt_reg ureg) (ckpt_senv uenv) s2 id = Ok r ->
      exists cp', r = Some cp' /\ ty_of cp' = t_checkpoint_ptr.
Proof. exact store_get_total_lemma. Qed.
Print Assumptions checkpoint_get_never_panics.
(* a set that fails is loud and stores nothing: set returns Marshal's error *)
Theorem checkpoint_set_fails_loudly :
  forall (J JK : Type) (jenc : base -> lit -> res J) (kenc : base -> lit -> res JK) (reg : registry) s id cp e,
    marshal J JK jenc kenc fixed reg cp = Err e -> cp_set J JK jenc kenc reg s id cp = Err e.
Proof. exact cp_set_err. Qed.

(* 5d. The tie itself: the correspondence check compares the decoded value the implementation
       returned with the model's by [val_equivb] (exact up to nil ~ empty container); what it
       accepts as equal is equivalent in the sense of the property. *)
Theorem tie_comparison_sound : forall a b, val_equivb a b = true -> a ≅ b.
Proof. exact val_equivb_sound. Qed.
Print Assumptions tie_comparison_sound.

(* 6. Before the repairs the round trip was false ([rt_statement fx] is statement 4 for
      the code variant fx; it holds for [fixed]). *)
Theorem enc_dec_roundtrip_holds_fixed : rt_statement fixed.
Proof. exact rt_statement_fixed. Qed.
Print Assumptions enc_dec_roundtrip_holds_fixed.
Theorem enc_dec_roundtrip_v0_refuted_ptr_to_container : ~ rt_statement v0.   (* F-C12a *)
Proof. exact rt_v0_refuted_a. Qed.
Theorem decode_v0_panics_ptr_to_map_field :                                 (* F-C12a *)
  wt w_a_env w_a2 = true /\ safe w_a2 /\
  exists oi, enc_c v0 w_a_reg w_a2 = Ok oi /\ dec_c v0 w_a_reg w_a_env oi = Panic.
Proof. exact dec_v0_panics_a. Qed.
Theorem enc_dec_roundtrip_v0_refuted_inner_nil : ~ rt_statement v0.          (* F-C12b *)
Proof. exact rt_v0_refuted_b. Qed.
Theorem enc_dec_roundtrip_v0_refuted_outer_nil_type : ~ rt_statement v0.     (* F-C12b *)
Proof. exact rt_v0_refuted_b2. Qed.
(* F-C12c, not repaired: the hypothesis [safe] cannot be dropped *)
Theorem invalid_utf8_refuted :
  wt [] w_c = true /\ ~ safe w_c /\
  exists oi v', enc_c fixed builtin_registry w_c = Ok oi /\
                dec_c fixed builtin_registry [] oi = Ok v' /\ ~ (v' ≅ w_c).
Proof. exact invalid_utf8_refuted. Qed.
Print Assumptions invalid_utf8_refuted.

(* 7. Round 2 repairs (F-C12e arrays, F-C12f registered defined containers, F-C12i pointer to
      an unregistered defined container): the code without the repair fails on the witness,
      the current code handles it. *)
Theorem array_field_v0_refuted :
  wt w_e_env w_e = true /\ safe w_e /\ defs_ok w_a_reg w_e /\
  (exists oi, enc_c without_e w_a_reg w_e = Ok oi /\ dec_c without_e w_a_reg w_e_env oi = Panic) /\
  (exists oi, enc_c fixed w_a_reg w_e = Ok oi /\ dec_c fixed w_a_reg w_e_env oi = Ok w_e).
Proof. exact array_field_panicked_before_e. Qed.
Theorem array_top_level_v0_refuted :
  wt [] w_e2 = true /\
  (exists oi v', enc_c without_e builtin_registry w_e2 = Ok oi /\
                 dec_c without_e builtin_registry [] oi = Ok v' /\ dyn_ty v' <> dyn_ty w_e2) /\
  (exists oi, enc_c fixed builtin_registry w_e2 = Ok oi /\ dec_c fixed builtin_registry [] oi = Ok w_e2).
Proof. exact array_retyped_before_e. Qed.
Theorem registered_defined_container_v0_refuted :
  wt [] w_f = true /\ defs_ok w_f_reg w_f /\
  (exists oi v', enc_c without_f w_f_reg w_f = Ok oi /\
                 dec_c without_f w_f_reg [] oi = Ok v' /\ dyn_ty v' <> dyn_ty w_f) /\
  (exists oi, enc_c fixed w_f_reg w_f = Ok oi /\ dec_c fixed w_f_reg [] oi = Ok w_f).
Proof. exact defined_container_retyped_before_f. Qed.
Theorem ptr_to_unregistered_defined_container_v0_refuted :
  wt w_i_env w_i = true /\ safe w_i /\ defs_ok w_a_reg w_i /\
  (exists oi, enc_c without_i w_a_reg w_i = Ok oi /\ dec_c without_i w_a_reg w_i_env oi = Panic) /\
  enc_c fixed w_a_reg w_i = Err E_UNKNOWN_TYPE.
Proof. exact ptr_to_unregistered_def_panicked_before_i. Qed.
(* F-C12g, not repaired: the hypothesis [defs_ok] cannot be dropped (at top level, in an interface) *)
Theorem unregistered_defined_container_refuted :
  wt [] w_g = true /\ safe w_g /\ ~ defs_ok builtin_registry w_g /\
  (exists oi v', enc_c fixed builtin_registry w_g = Ok oi /\
                 dec_c fixed builtin_registry [] oi = Ok v' /\ dyn_ty v' <> dyn_ty w_g) /\
  wt [] w_g2 = true /\ safe w_g2 /\ ~ defs_ok builtin_registry w_g2 /\
  (exists oi v', enc_c fixed builtin_registry w_g2 = Ok oi /\
                 dec_c fixed builtin_registry [] oi = Ok v' /\ ~ v' ≅ w_g2).
Proof. exact unregistered_def_refuted. Qed.
Print Assumptions unregistered_defined_container_refuted.

(* ------------------------------------------------------------------ non-vacuity *)
(* (each side condition is decided by a closed boolean computation; see Proofs/SerRefl.v) *)
(* the hypotheses of 1, 3, 4 and 5 hold together for a checkpoint with a DAG channel, a
   Pregel channel, a pending input, a state behind a pointer in [any], and a nested
   checkpoint; the encoder accepts it and the decoder returns it (up to nil ~ empty) *)
Example checkpoint_names_unique : str_nodup (map fst (ckpt_reg [])) = true.
Proof. vm_compute. reflexivity. Qed.
Example checkpoint_field_names_unique : env_names_ok (ckpt_senv []) = true.
Proof. vm_compute. reflexivity. Qed.
Example checkpoint_sample_typed : has_type (ckpt_senv []) sample_checkpoint t_checkpoint_ptr = true.
Proof. vm_compute. reflexivity. Qed.
Example checkpoint_sample_accepted :
  is_ok (enc_c fixed (ckpt_reg []) sample_checkpoint) = true /\
  is_ok (do oi <- enc_c fixed (ckpt_reg []) sample_checkpoint; dec_c fixed (ckpt_reg []) (ckpt_senv []) oi) = true.
Proof. split; vm_compute; reflexivity. Qed.
Example checkpoint_sample_safe : safe sample_checkpoint.
Proof. apply safeb_safe. vm_compute. reflexivity. Qed.
Example checkpoint_sample_registered : registered (ckpt_reg []) sample_checkpoint.
Proof. apply registeredb_registered. vm_compute. reflexivity. Qed.
Example checkpoint_sample_encodable : encodable lit lit jenc_c kenc_c sample_checkpoint.
Proof. apply encodableb_c_encodable. vm_compute. reflexivity. Qed.
Example checkpoint_sample_defs_ok : defs_ok (ckpt_reg []) sample_checkpoint.
Proof. apply defs_okb_ok. vm_compute. reflexivity. Qed.
Example checkpoint_sample_defs_registered : defs_registered (ckpt_reg []) sample_checkpoint.
Proof. apply defs_registeredb_ok. vm_compute. reflexivity. Qed.
(* a value with an array, a registered defined slice in an interface and an unregistered
   defined map in a typed field satisfies the hypotheses of 1 and is accepted *)
Example extended_universe_nonvacuous :
  let reg := (w_f_reg ++ [("s0"%string, TStruct 0)])%list in
  let env := [(0%N, [("A"%string, TArray 2 t_int); ("I"%string, TAny); ("M"%string, TDef 2 t_umap)])] in
  let v := VStruct 0 [("A"%string, VArray t_int [vint 1; vint 2]);
                      ("I"%string, VIface TAny (Some w_f));
                      ("M"%string, VDef 2 (VMap (TBase BString) t_int None))] in
  wt env v = true /\ safe v /\ defs_ok reg v /\ ~ defs_registered reg v /\
  is_ok (do oi <- enc_c fixed reg v; dec_c fixed reg env oi) = true.
Proof.
  cbv zeta. split; [vm_compute; reflexivity|]. split; [apply safeb_safe; vm_compute; reflexivity|].
  split; [apply defs_okb_ok; vm_compute; reflexivity|]. split; [|vm_compute; reflexivity].
  intro H. unfold defs_registered in H. simpl in H. inversion H as [|? ? _ H2]; subst.
  inversion H2 as [|? ? H3 _]; subst. now apply H3.
Qed.
(* 2c is not vacuous, and says something beyond 1: its hypotheses hold for the witnesses of
   the known findings (which 1 excludes), the encoder accepts them *)
Example never_panics_nonvacuous :
  wt [] w_c = true /\ is_ok (enc_c fixed builtin_registry w_c) = true /\
  wt [] w_g2 = true /\ is_ok (enc_c fixed builtin_registry w_g2) = true.
Proof. vm_compute. repeat split. Qed.
(* 5b is not vacuous: a registration that succeeds, one that is refused *)
Example registration_nonvacuous :
  is_ok (register (ckpt_reg []) "user_state" (TPtr (TStruct 7))) = true /\
  register (ckpt_reg []) "_eino_int" (TStruct 7) = Err E_DUP /\
  register (ckpt_reg []) "fresh" (TPtr (TBase BInt)) = Err E_DUP.
Proof. vm_compute. repeat split. Qed.
(* the hypotheses of 2: a registered struct holding a slice of an unregistered named type *)
Example unsupported_nonvacuous :
  let v := VStruct 0 [("F"%string, VSlice (TNamed 8 BInt) None)] in
  In (TNamed 8 BInt) (looked_up v) /\ rm_lookup w_a_reg (TNamed 8 BInt) = None /\
  enc_c fixed w_a_reg v = Err E_UNKNOWN_TYPE.
Proof.
  cbv zeta. split; [cbn [looked_up flat_map snd app stripped strip_ptr]; right; left; reflexivity|].
  split; vm_compute; reflexivity.
Qed.
(* 2b' is not vacuous: +Inf as a float32 behind a pointer in a slice of pointers behind a pointer,
   a NaN map key inside a struct field inside an interface; both refused.  5c is not vacuous:
   the sample checkpoint written over an earlier one, followed by a write under another id, is
   read back (the second half is the scenario the correspondence check runs) *)
Example nan_inf_nonvacuous :
  In (BFloat32, LFloat 2139095040) (val_lits w_inf) /\ unencodable_c BFloat32 (LFloat 2139095040) = true /\
  enc_c fixed builtin_registry w_inf = Err E_JSON /\
  In (BFloat64, LFloat 9221120237041090560) (key_lits w_nankey) /\
  unencodable_c BFloat64 (LFloat 9221120237041090560) = true /\
  enc_c fixed w_a_reg w_nankey = Err E_JSON.
Proof.
  split; [simpl; tauto|]. split; [vm_compute; reflexivity|]. split; [vm_compute; reflexivity|].
  split; [simpl; tauto|]. split; vm_compute; reflexivity.
Qed.
Example checkpoint_store_nonvacuous :
  is_ok (do s1 <- cp_set lit lit jenc_c kenc_c (ckpt_reg []) [("a"%string, None)] "a" sample_checkpoint;
         do s2 <- cp_sets lit lit jenc_c kenc_c (ckpt_reg []) s1 [("b"%string, ckpt_other)];
         cp_get lit lit jdec_c kdec_c (ckpt_reg []) (ckpt_senv []) s2 "a") = true /\
  match store_scenario_c (ckpt_reg []) (ckpt_senv []) sample_checkpoint with
  | Ok (Some cp') => ty_eqb (ty_of cp') t_checkpoint_ptr
  | _ => false
  end = true.
Proof. split; vm_compute; reflexivity. Qed.
(* map keys beyond the basic kinds: a struct key type and an array key type satisfy the
   hypotheses of 1, are accepted and come back *)
Example composite_keys_nonvacuous :
  let env := [(0%N, [("A"%string, TBase BInt); ("B"%string, TBase BString)])] in
  let reg := (builtin_registry ++ [("ks"%string, TStruct 0); ("arr2"%string, TArray 2 (TBase BInt))])%list in
  let k1 := VStruct 0 [("A"%string, VBase BInt (LInt 1)); ("B"%string, VBase BString (LStr "x"))] in
  let k2 := VStruct 0 [("A"%string, VBase BInt (LInt 1)); ("B"%string, VBase BString (LStr "y"))] in
  let v := VSlice TAny (Some
     [VIface TAny (Some (VMap (TStruct 0) (TBase BString)
                           (Some [(k1, VBase BString (LStr "one")); (k2, VBase BString (LStr "two"))])));
      VIface TAny (Some (VMap (TArray 2 (TBase BInt)) TAny
                           (Some [(VArray (TBase BInt) [VBase BInt (LInt 1); VBase BInt (LInt 2)],
                                   VIface TAny (Some (VBase BUint64 (LInt 18446744073709551615))))])))]) in
  wt env v = true /\ safe v /\ defs_ok reg v /\
  (do oi <- enc_c fixed reg v; dec_c fixed reg env oi) = Ok v.
Proof.
  cbv zeta. split; [vm_compute; reflexivity|]. split; [apply safeb_safe; vm_compute; reflexivity|].
  split; [apply defs_okb_ok; vm_compute; reflexivity|]. vm_compute. reflexivity.
Qed.

(* 9. A value that sits in a checkpoint as a stream (pending input / channel value of a streaming
      run; compose/checkpoint.go convertCheckPoint / restoreCheckPoint, Model/SerStream.v): what the
      successor is handed after the resume is what it would have been handed without the interrupt.
      A stream without chunks comes back without chunks; a stream with chunks comes back as the
      one-chunk stream of its concatenation - in particular a stream of at most one chunk (what a
      non-streaming predecessor leaves) comes back as itself, the one chunk nil included (F-C12l).
      For every concatenation function that is the identity on one chunk. *)
Theorem stream_checkpoint_conversion_roundtrip :
  forall (concat : list chunk -> res chunk) s st,
    convert concat true s = Ok st ->
    match s with
    | [] => restore_stream st = []
    | _ => exists c, concat s = Ok c /\ restore_stream st = [c]
    end.
Proof. exact convert_restore. Qed.
Print Assumptions stream_checkpoint_conversion_roundtrip.
Theorem stream_checkpoint_conversion_short_streams :
  forall (concat : list chunk -> res chunk) (concat_single : forall c, concat [c] = Ok c) s st,
    List.length s <= 1 -> convert concat true s = Ok st -> restore_stream st = s.
Proof. exact convert_restore_short. Qed.
Print Assumptions stream_checkpoint_conversion_short_streams.
(* resumed without streams (Invoke) the successor is handed the concatenation *)
Theorem stream_checkpoint_conversion_value :
  forall (concat : list chunk -> res chunk) s st c,
    s <> [] -> convert concat true s = Ok st -> concat s = Ok c -> restore_value st = c.
Proof. exact convert_restore_value. Qed.
Print Assumptions stream_checkpoint_conversion_value.
(* a pending input written by a run without streams (the value itself; a nil one is written as the
   marker since fix fb04a24): resumed through Stream the successor gets the one-chunk stream of the
   value, resumed through Invoke the value *)
Theorem value_checkpoint_conversion_roundtrip : forall c : chunk,
  restore_stream (convert_value true c) = [c] /\ restore_value (convert_value true c) = c.
Proof. exact (convert_value_restore (fun _ => Panic)). Qed.
Print Assumptions value_checkpoint_conversion_roundtrip.
Theorem value_checkpoint_conversion_v0_refuted :
  restore_stream (convert_value false None) = [] /\ [@None val] <> [].
Proof. exact convert_value_v0_counterexample. Qed.
Print Assumptions value_checkpoint_conversion_v0_refuted.
(* before fix 5464095 the stream of the one chunk nil came back as a stream without chunks *)
Theorem stream_checkpoint_conversion_v0_refuted :
  convert concat_c false [None] = Ok SNil /\ restore_stream SNil = [] /\ [@None val] <> [].
Proof. exact convert_restore_v0_counterexample. Qed.
Print Assumptions stream_checkpoint_conversion_v0_refuted.
(* non-vacuity: the three stored forms are well typed under compose's registrations, accepted by
   the encoder and read back; the conversion of [nil], [] and ["x"] with the concatenation the
   correspondence check uses *)
Example stream_conversion_nonvacuous :
  wt (ckpt_senv []) (stored_val SNilChunk) = true /\
  (do oi <- enc_c fixed (ckpt_reg []) (stored_val SNilChunk); dec_c fixed (ckpt_reg []) (ckpt_senv []) oi) = Ok nil_chunk_val /\
  (do st <- convert concat_c true [None]; Ok (restore_stream st)) = Ok [None] /\
  (do st <- convert concat_c true []; Ok (restore_stream st)) = Ok [] /\
  (do st <- convert concat_c true [Some (vstr "x")]; Ok (restore_stream st)) = Ok [Some (vstr "x")].
Proof. repeat split; vm_compute; reflexivity. Qed.
