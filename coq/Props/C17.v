(* Props/C17.v — placeholder while the theorems are being written (see Proofs/Tools.v). *)
From Eino Require Import Base.Util Model.Tools.
