(* Props/C17.v — property C17: the tools node answers every tool call, in call order, whatever
   the completion order; the streamed form concatenates to the same list; failures, panics and
   unknown tool names.  Statements only; proofs in Proofs/Tools.v; model in Model/Tools.v.

   Reading guide.  [kind_of], [inv], [str], [handler] are the configured tools (kind by name,
   what InvokableRun / StreamableRun compute as pure functions of name and arguments) and the
   optional unknown-tool handler — arbitrary.  [pi] is the order in which the concurrently
   executed calls complete; [sched] the order in which the merged output stream delivers the
   tools' chunks.  [answer c] is what the tool named by call [c] returns on [c]'s arguments
   (through the handler for an unknown name; [Err] if the name does not resolve). *)
From Coq Require Import Permutation.
From Eino Require Import Base.Util Model.Tools Proofs.Tools.
Local Open Scope string_scope.

(* N calls => exactly N messages, the i-th = (output of the i-th call's tool on its arguments,
   i-th call's id), for every completion order *)
Theorem tools_invoke_spec :
  forall kind_of inv str handler pi calls outs,
    calls <> [] ->
    Permutation pi (seq 0 (List.length calls)) ->
    Forall2 (fun c o => answer kind_of inv str handler c = Ok (TOk o)) calls outs ->
    tools_invoke kind_of inv str handler pi true calls = Ok (combine outs (map c_id calls)).
Proof. exact invoke_spec. Qed.
Print Assumptions tools_invoke_spec.

Theorem tools_invoke_length :
  forall kind_of inv str handler calls outs,
    Forall2 (fun c o => answer kind_of inv str handler c = Ok (TOk o)) calls outs ->
    List.length (combine outs (map c_id calls)) = List.length calls.
Proof. exact invoke_spec_length. Qed.
Print Assumptions tools_invoke_length.

(* the answer of a call is its tool's: a known invokable tool is run on the call's arguments, a
   streamable-only one is run and its stream concatenated *)
Theorem tools_answer_known :
  forall kind_of inv str handler c k,
    kind_of (c_name c) = Some k ->
    answer kind_of inv str handler c =
    Ok (match k with
        | KStr => invoke_by_stream (str (c_name c) (c_args c))
        | _ => inv (c_name c) (c_args c)
        end).
Proof. exact answer_known. Qed.
Print Assumptions tools_answer_known.

(* the result does not depend on the completion order at all (Invoke and the call-time part of Stream) *)
Theorem tools_schedule_independent :
  forall kind_of inv str handler pi pi' role_ok calls,
    Permutation pi (seq 0 (List.length calls)) -> Permutation pi' (seq 0 (List.length calls)) ->
    tools_invoke kind_of inv str handler pi role_ok calls = tools_invoke kind_of inv str handler pi' role_ok calls
    /\ tools_stream_open kind_of inv str handler pi role_ok calls = tools_stream_open kind_of inv str handler pi' role_ok calls.
Proof. exact schedule_independent. Qed.
Print Assumptions tools_schedule_independent.

(* a failing tool makes the whole call fail with that tool's error — the lowest failing index
   when several fail — for every completion order.  A panic of a call other than the first is
   reported as the panic error; a panic of the first call (which runs inline on the caller's
   goroutine) is not recovered by the node and reaches the caller as a panic. *)
Theorem tools_fail :
  forall kind_of inv str handler pi calls pre c post outs r,
    Permutation pi (seq 0 (List.length calls)) ->
    calls = (pre ++ c :: post)%list ->
    (forall c', In c' calls -> exists r', answer kind_of inv str handler c' = Ok r') ->
    Forall2 (fun c o => answer kind_of inv str handler c = Ok (TOk o)) pre outs ->
    answer kind_of inv str handler c = Ok r ->
    (forall o, r <> TOk o) ->
    tools_invoke kind_of inv str handler pi true calls =
    match r with
    | TErr e => Err e
    | _ => match pre with [] => Panic | _ => Err E_PANIC end
    end.
Proof. exact invoke_first_failure. Qed.
Print Assumptions tools_fail.

(* inside a graph run a panicking tool makes the run fail with an error, never crash *)
Theorem tools_panic_contained :
  forall kind_of inv str handler pi calls pre c post outs,
    Permutation pi (seq 0 (List.length calls)) ->
    calls = (pre ++ c :: post)%list ->
    (forall c', In c' calls -> exists r', answer kind_of inv str handler c' = Ok r') ->
    Forall2 (fun c o => answer kind_of inv str handler c = Ok (TOk o)) pre outs ->
    answer kind_of inv str handler c = Ok TPanic ->
    in_graph (tools_invoke kind_of inv str handler pi true calls) = Err E_PANIC.
Proof. exact panic_is_error_in_graph. Qed.
Print Assumptions tools_panic_contained.

Theorem tools_never_panic_in_graph :
  forall kind_of inv str handler pi role_ok calls,
    in_graph (tools_invoke kind_of inv str handler pi role_ok calls) <> Panic
    /\ in_graph (tools_stream_open kind_of inv str handler pi role_ok calls) <> Panic.
Proof. exact panic_contained. Qed.
Print Assumptions tools_never_panic_in_graph.

(* unknown tool name, no handler: an error (Invoke and Stream), and no tool runs *)
Theorem tools_unknown :
  forall kind_of inv str handler pi calls c,
    In c calls -> kind_of (c_name c) = None -> handler = None ->
    tools_invoke kind_of inv str handler pi true calls = Err E_UNKNOWN
    /\ tools_stream_open kind_of inv str handler pi true calls = Err E_UNKNOWN
    /\ tools_executed kind_of handler true calls = [].
Proof. exact unknown_without_handler. Qed.
Print Assumptions tools_unknown.

(* unknown tool name, handler configured: the handler's answer is that call's answer
   (so, by tools_invoke_spec / tools_fail, it is used at that call's position) *)
Theorem tools_unknown_handler :
  forall kind_of inv str handler c h,
    kind_of (c_name c) = None -> handler = Some h ->
    answer kind_of inv str handler c = Ok (h (c_name c) (c_args c)).
Proof. exact unknown_with_handler. Qed.
Print Assumptions tools_unknown_handler.

(* streamed form: for every completion order, every chunking (non-empty, no error item) and
   every complete interleaving of the tool streams, the position-wise concatenation of the
   merged stream is the Invoke answer *)
Theorem tools_stream_concat :
  forall kind_of inv str handler pi pi' calls css,
    calls <> [] ->
    Permutation pi (seq 0 (List.length calls)) ->
    Permutation pi' (seq 0 (List.length calls)) ->
    Forall2 (fun c cs => s_answer kind_of inv str handler c = Ok (SOk cs None) /\ cs <> []) calls css ->
    Forall2 (fun c cs => answer kind_of inv str handler c = Ok (TOk (concat_strings cs))) calls css ->
    exists ss msgs,
      tools_stream_open kind_of inv str handler pi true calls = Ok ss
      /\ tools_invoke kind_of inv str handler pi' true calls = Ok msgs
      /\ List.length msgs = List.length calls
      /\ forall sched,
           drained (merge_rest sched (stream_srcs ss)) = true ->
           concat_pos (stream_ids ss) (fst (merge_run sched (stream_srcs ss))) = Ok (map Some msgs).
Proof. exact stream_concat_eq_invoke. Qed.
Print Assumptions tools_stream_concat.

(* the consistency hypothesis of tools_stream_concat is automatic unless the tool implements
   both interfaces itself *)
Theorem tools_derived_consistent :
  forall kind_of inv str handler c cs,
    s_answer kind_of inv str handler c = Ok (SOk cs None) -> cs <> [] ->
    kind_of (c_name c) <> Some KBoth ->
    answer kind_of inv str handler c = Ok (TOk (concat_strings cs)).
Proof. exact derived_consistent. Qed.
Print Assumptions tools_derived_consistent.

(* ---- non-vacuity ----------------------------------------------------------------------- *)
Definition ex_kind (n : string) : option tkind :=
  if String.eqb n "ta" then Some KInv else if String.eqb n "tb" then Some KStr
  else if String.eqb n "tc" then Some KBoth else None.
Definition ex_inv (n a : string) : tres :=
  if String.eqb a "boom" then TErr 101 else if String.eqb a "panic" then TPanic else TOk (n ++ ":" ++ a).
Definition ex_str (n a : string) : sres :=
  if String.eqb a "boom" then SErr 101 else if String.eqb a "panic" then SPanic else SOk [n; ":"; a] None.
Definition ex_handler : option (string -> string -> tres) := Some (fun n a => TOk ("unk:" ++ n)).
Definition ex_calls : list call :=
  [mkCall "c0" "ta" "x"; mkCall "c1" "tb" "y"; mkCall "c2" "zz" "z"; mkCall "c3" "tc" "w"].

(* hypotheses of tools_invoke_spec / tools_stream_concat hold for a mixed call list ... *)
Example invoke_spec_hyp :
  Forall2 (fun c o => answer ex_kind ex_inv ex_str ex_handler c = Ok (TOk o)) ex_calls
          ["ta:x"; "tb:y"; "unk:zz"; "tc:w"].
Proof. repeat constructor. Qed.
Example stream_concat_hyp :
  Forall2 (fun c cs => s_answer ex_kind ex_inv ex_str ex_handler c = Ok (SOk cs None) /\ cs <> []) ex_calls
          [["ta:x"]; ["tb"; ":"; "y"]; ["unk:zz"]; ["tc"; ":"; "w"]].
Proof. repeat constructor; discriminate. Qed.
(* ... and the conclusions are the expected concrete values, for a scrambled completion order
   and a scrambled complete interleaving *)
Example invoke_spec_nonvacuous :
  tools_invoke ex_kind ex_inv ex_str ex_handler [3; 1; 0; 2]%nat true ex_calls
  = Ok [("ta:x", "c0"); ("tb:y", "c1"); ("unk:zz", "c2"); ("tc:w", "c3")].
Proof. vm_compute. reflexivity. Qed.
Example stream_concat_nonvacuous :
  match tools_stream_open ex_kind ex_inv ex_str ex_handler [2; 3; 1; 0]%nat true ex_calls with
  | Ok ss =>
      let sched := [3; 1; 0; 3; 2; 1; 3; 1]%nat in
      drained (merge_rest sched (stream_srcs ss)) = true
      /\ concat_pos (stream_ids ss) (fst (merge_run sched (stream_srcs ss)))
         = Ok [Some ("ta:x", "c0"); Some ("tb:y", "c1"); Some ("unk:zz", "c2"); Some ("tc:w", "c3")]
  | _ => False
  end.
Proof. vm_compute. split; reflexivity. Qed.
(* failure: calls 1 and 2 fail, call 2 finishing first; the error of call 1 is reported *)
Example fail_nonvacuous :
  tools_invoke ex_kind ex_inv ex_str None [2; 0; 1]%nat true
    [mkCall "c0" "ta" "x"; mkCall "c1" "tb" "boom"; mkCall "c2" "ta" "panic"] = Err 101.
Proof. vm_compute. reflexivity. Qed.
Example panic_inline_nonvacuous :
  tools_invoke ex_kind ex_inv ex_str None [1; 0]%nat true [mkCall "c0" "ta" "panic"; mkCall "c1" "tb" "y"] = Panic
  /\ in_graph (tools_invoke ex_kind ex_inv ex_str None [1; 0]%nat true [mkCall "c0" "ta" "panic"; mkCall "c1" "tb" "y"]) = Err E_PANIC.
Proof. vm_compute. split; reflexivity. Qed.
Example unknown_nonvacuous :
  tools_invoke ex_kind ex_inv ex_str None [0; 1]%nat true [mkCall "c0" "ta" "x"; mkCall "c1" "zz" "y"] = Err E_UNKNOWN.
Proof. vm_compute. reflexivity. Qed.
(* outside the domain of tools_stream_concat: a streamable-only tool that emits no chunk —
   Invoke fails (empty stream), the streamed form has a nil message at that position *)
Example zero_chunk_outside_domain :
  let str0 := fun (_ _ : string) => SOk [] None in
  tools_invoke ex_kind ex_inv str0 None [0]%nat true [mkCall "c0" "tb" "y"] = Err E_EMPTY
  /\ tools_stream_open ex_kind ex_inv str0 None [0]%nat true [mkCall "c0" "tb" "y"] = Ok [("c0", [], None)].
Proof. vm_compute. split; reflexivity. Qed.
