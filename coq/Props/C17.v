(* Props/C17.v — property C17: the tools node answers every tool call, in call order, whatever
   the completion order; the streamed form concatenates to the same list; failures, panics and
   unknown tool names.  Statements only; proofs in Proofs/Tools.v; model in Model/Tools.v.

   Reading guide.  [kind_of], [inv], [str], [handler] are the configured tools (kind by name,
   what InvokableRun / StreamableRun compute as pure functions of name and arguments) and the
   optional unknown-tool handler — arbitrary.  [pi] is the order in which the concurrently
   executed calls complete; [sched] the order in which the merged output stream delivers the
   tools' chunks.  [answer c] is what the tool named by call [c] returns on [c]'s arguments
   (through the handler for an unknown name; [Err] if the name does not resolve). *)
From Coq Require Import Permutation.
From Eino Require Import Base.Util Model.Concat Model.ConcatMsg Model.Tools Model.ToolsMsg Model.ToolsOpts Model.ToolsPar Proofs.Tools Proofs.ToolsMore Proofs.ToolsConcat Proofs.ToolsOpts Proofs.ToolsAgree Proofs.ToolsPar Proofs.ToolsParProg.
Local Open Scope string_scope.

(* N calls => exactly N messages, the i-th = (output of the i-th call's tool on its arguments,
   i-th call's id), for every completion order *)
Theorem tools_invoke_spec :
  forall kind_of inv str handler pi calls outs,
    calls <> [] ->
    Permutation pi (seq 0 (List.length calls)) ->
    Forall2 (fun c o => answer kind_of inv str handler c = Ok (TOk o)) calls outs ->
    tools_invoke kind_of inv str handler pi true calls = Ok (combine outs (map c_id calls)).
Proof. exact invoke_spec. Qed.
Print Assumptions tools_invoke_spec.

Theorem tools_invoke_length :
  forall kind_of inv str handler calls outs,
    Forall2 (fun c o => answer kind_of inv str handler c = Ok (TOk o)) calls outs ->
    List.length (combine outs (map c_id calls)) = List.length calls.
Proof. exact invoke_spec_length. Qed.
Print Assumptions tools_invoke_length.

(* the answer of a call is its tool's: a known invokable tool is run on the call's arguments, a
   streamable-only one is run and its stream concatenated *)
Theorem tools_answer_known :
  forall kind_of inv str handler c k,
    kind_of (c_name c) = Some k ->
    answer kind_of inv str handler c =
    Ok (match k with
        | KStr => invoke_by_stream (str (c_name c) (c_args c))
        | _ => inv (c_name c) (c_args c)
        end).
Proof. exact answer_known. Qed.
Print Assumptions tools_answer_known.

(* the result does not depend on the completion order at all (Invoke and the call-time part of Stream) *)
Theorem tools_schedule_independent :
  forall kind_of inv str handler pi pi' role_ok calls,
    Permutation pi (seq 0 (List.length calls)) -> Permutation pi' (seq 0 (List.length calls)) ->
    tools_invoke kind_of inv str handler pi role_ok calls = tools_invoke kind_of inv str handler pi' role_ok calls
    /\ tools_stream_open kind_of inv str handler pi role_ok calls = tools_stream_open kind_of inv str handler pi' role_ok calls.
Proof. exact schedule_independent. Qed.
Print Assumptions tools_schedule_independent.

(* a failing tool makes the whole call fail with that tool's error — the lowest failing index
   when several fail — for every completion order.  A panic of a call other than the first is
   reported as the panic error; a panic of the first call (which runs inline on the caller's
   goroutine) is not recovered by the node and reaches the caller as a panic. *)
Theorem tools_fail :
  forall kind_of inv str handler pi calls pre c post outs r,
    Permutation pi (seq 0 (List.length calls)) ->
    calls = (pre ++ c :: post)%list ->
    (forall c', In c' calls -> exists r', answer kind_of inv str handler c' = Ok r') ->
    Forall2 (fun c o => answer kind_of inv str handler c = Ok (TOk o)) pre outs ->
    answer kind_of inv str handler c = Ok r ->
    (forall o, r <> TOk o) ->
    tools_invoke kind_of inv str handler pi true calls =
    match r with
    | TErr e => Err e
    | _ => match pre with [] => Panic | _ => Err E_PANIC end
    end.
Proof. exact invoke_first_failure. Qed.
Print Assumptions tools_fail.

(* inside a graph run a panicking tool makes the run fail with an error, never crash *)
Theorem tools_panic_contained :
  forall kind_of inv str handler pi calls pre c post outs,
    Permutation pi (seq 0 (List.length calls)) ->
    calls = (pre ++ c :: post)%list ->
    (forall c', In c' calls -> exists r', answer kind_of inv str handler c' = Ok r') ->
    Forall2 (fun c o => answer kind_of inv str handler c = Ok (TOk o)) pre outs ->
    answer kind_of inv str handler c = Ok TPanic ->
    in_graph (tools_invoke kind_of inv str handler pi true calls) = Err E_PANIC.
Proof. exact panic_is_error_in_graph. Qed.
Print Assumptions tools_panic_contained.

Theorem tools_never_panic_in_graph :
  forall kind_of inv str handler pi role_ok calls,
    in_graph (tools_invoke kind_of inv str handler pi role_ok calls) <> Panic
    /\ in_graph (tools_stream_open kind_of inv str handler pi role_ok calls) <> Panic.
Proof. exact panic_contained. Qed.
Print Assumptions tools_never_panic_in_graph.

(* unknown tool name, no handler: an error (Invoke and Stream), and no tool runs *)
Theorem tools_unknown :
  forall kind_of inv str handler pi calls c,
    In c calls -> kind_of (c_name c) = None -> handler = None ->
    tools_invoke kind_of inv str handler pi true calls = Err E_UNKNOWN
    /\ tools_stream_open kind_of inv str handler pi true calls = Err E_UNKNOWN
    /\ tools_executed kind_of handler true calls = [].
Proof. exact unknown_without_handler. Qed.
Print Assumptions tools_unknown.

(* unknown tool name, handler configured: the handler's answer is that call's answer
   (so, by tools_invoke_spec / tools_fail, it is used at that call's position) *)
Theorem tools_unknown_handler :
  forall kind_of inv str handler c h,
    kind_of (c_name c) = None -> handler = Some h ->
    answer kind_of inv str handler c = Ok (h (c_name c) (c_args c)).
Proof. exact unknown_with_handler. Qed.
Print Assumptions tools_unknown_handler.

(* streamed form: for every completion order, every chunking (non-empty, no error item) and
   every complete interleaving of the tool streams, the position-wise concatenation of the
   merged stream is the Invoke answer *)
Theorem tools_stream_concat :
  forall kind_of inv str handler pi pi' calls css,
    calls <> [] ->
    Permutation pi (seq 0 (List.length calls)) ->
    Permutation pi' (seq 0 (List.length calls)) ->
    Forall2 (fun c cs => s_answer kind_of inv str handler c = Ok (SOk cs None) /\ cs <> []) calls css ->
    Forall2 (fun c cs => answer kind_of inv str handler c = Ok (TOk (concat_strings cs))) calls css ->
    exists ss msgs,
      tools_stream_open kind_of inv str handler pi true calls = Ok ss
      /\ tools_invoke kind_of inv str handler pi' true calls = Ok msgs
      /\ List.length msgs = List.length calls
      /\ forall sched,
           drained (merge_rest sched (stream_srcs ss)) = true ->
           concat_pos (stream_ids ss) (fst (merge_run sched (stream_srcs ss))) = Ok (map Some msgs).
Proof. exact stream_concat_eq_invoke. Qed.
Print Assumptions tools_stream_concat.

(* the consistency hypothesis of tools_stream_concat is automatic unless the tool implements
   both interfaces itself *)
Theorem tools_derived_consistent :
  forall kind_of inv str handler c cs,
    s_answer kind_of inv str handler c = Ok (SOk cs None) -> cs <> [] ->
    kind_of (c_name c) <> Some KBoth ->
    answer kind_of inv str handler c = Ok (TOk (concat_strings cs)).
Proof. exact derived_consistent. Qed.
Print Assumptions tools_derived_consistent.

(* non-vacuity of "every complete interleaving", for all inputs: a complete interleaving always
   exists when no tool stream carries an error item — tool 0's stream to its end, then tool
   1's, ... (the schedule the correspondence check uses for the graph-concatenated run) *)
Theorem tools_complete_schedule_exists :
  forall srcs, tails_none srcs -> drained (merge_rest (seq_sched srcs) srcs) = true.
Proof. exact seq_sched_complete. Qed.
Print Assumptions tools_complete_schedule_exists.

(* ---- failures of the streamed form ------------------------------------------------------ *)

(* a call that fails when its tool is called makes Stream fail with that tool's error, for every
   completion order (the earlier calls having opened their streams); panics as in tools_fail *)
Theorem tools_stream_fail :
  forall kind_of inv str handler pi calls pre c post r,
    Permutation pi (seq 0 (List.length calls)) ->
    calls = (pre ++ c :: post)%list ->
    (forall c', In c' calls -> exists r', s_answer kind_of inv str handler c' = Ok r') ->
    Forall (fun c => exists cs tl, s_answer kind_of inv str handler c = Ok (SOk cs tl)) pre ->
    s_answer kind_of inv str handler c = Ok r ->
    (forall cs tl, r <> SOk cs tl) ->
    tools_stream_open kind_of inv str handler pi true calls =
    match r with
    | SErr e => Err e
    | _ => match pre with [] => Panic | _ => Err E_PANIC end
    end.
Proof. exact stream_first_failure. Qed.
Print Assumptions tools_stream_fail.

(* no call fails when called: Stream opens one stream per call, in call order, tagged with the
   call's id, carrying exactly that tool's chunks and error item — for every completion order *)
Theorem tools_stream_open_spec :
  forall kind_of inv str handler pi calls sts,
    calls <> [] ->
    Permutation pi (seq 0 (List.length calls)) ->
    Forall2 (fun c s => s_answer kind_of inv str handler c = Ok (SOk (fst s) (snd s))) calls sts ->
    tools_stream_open kind_of inv str handler pi true calls = Ok (opened calls sts)
    /\ stream_srcs (opened calls sts) = sts
    /\ stream_ids (opened calls sts) = map c_id calls.
Proof. exact stream_open_spec. Qed.
Print Assumptions tools_stream_open_spec.

(* the merged stream, for every interleaving [sched] (complete or not) of arbitrary tool
   streams: what has been delivered for position j is an in-order prefix of tool j's chunks *)
Theorem tools_stream_prefix :
  forall sched srcs j, list_prefix (proj j (fst (merge_run sched srcs))) (chunks_at j srcs).
Proof. exact merge_prefix. Qed.
Print Assumptions tools_stream_prefix.

(* a tool that fails in the middle of its stream: if the merged stream ends with an error it is
   the error item of some tool, delivered after all of that tool's chunks ... *)
Theorem tools_stream_error_item :
  forall sched srcs e,
    snd (merge_run sched srcs) = Some e ->
    exists i cs, nth_error srcs i = Some (cs, Some e) /\ proj i (fst (merge_run sched srcs)) = cs.
Proof. exact merge_error_item. Qed.
Print Assumptions tools_stream_error_item.

(* ... and the merged stream can never reach its normal end (a reader sees the failure) *)
Theorem tools_stream_no_eof_after_error :
  forall sched srcs i cs e,
    nth_error srcs i = Some (cs, Some e) -> drained (merge_rest sched srcs) = false.
Proof. exact merge_no_eof_with_error_item. Qed.
Print Assumptions tools_stream_no_eof_after_error.

(* ---- rejection, exactly-once ----------------------------------------------------------- *)
Theorem tools_reject_role :
  forall kind_of inv str handler pi calls,
    tools_invoke kind_of inv str handler pi false calls = Err E_ROLE
    /\ tools_stream_open kind_of inv str handler pi false calls = Err E_ROLE
    /\ tools_executed kind_of handler false calls = [].
Proof. exact reject_role. Qed.
Print Assumptions tools_reject_role.

Theorem tools_reject_nocall :
  forall kind_of inv str handler pi role_ok,
    (exists e, tools_invoke kind_of inv str handler pi role_ok [] = Err e)
    /\ (exists e, tools_stream_open kind_of inv str handler pi role_ok [] = Err e)
    /\ tools_executed kind_of handler role_ok [] = [].
Proof. exact reject_nocall. Qed.
Print Assumptions tools_reject_nocall.

(* every call is executed exactly once (whatever fails later) as soon as every name resolves *)
Theorem tools_executed_once :
  forall kind_of handler calls,
    calls <> [] ->
    (forall c, In c calls -> kind_of (c_name c) <> None \/ handler <> None) ->
    tools_executed kind_of handler true calls = calls.
Proof. exact executed_once. Qed.
Print Assumptions tools_executed_once.

(* ---- call options ---------------------------------------------------------------------- *)
(* the answer under call options: the tool set in force (the call's own list if one is given,
   otherwise the configured one) evaluated on this call's tool-option values *)
Theorem tools_invoke_with_spec :
  forall (O : Type) (cfg : toolset O) handler o pi calls outs,
    calls <> [] ->
    Permutation pi (seq 0 (List.length calls)) ->
    Forall2 (fun c out => answer_with O cfg handler o c = Ok (TOk out)) calls outs ->
    tools_invoke_with cfg handler o pi true calls = Ok (combine outs (map c_id calls)).
Proof. exact invoke_with_spec. Qed.
Print Assumptions tools_invoke_with_spec.

Theorem tools_call_list_replaces :
  forall (O : Type) (cfg : toolset O) handler (cfg' : toolset O) ts x pi role_ok calls,
    tools_invoke_with cfg handler (mkCO (Some ts) x) pi role_ok calls
    = tools_invoke_with cfg' handler (mkCO (Some ts) x) pi role_ok calls
    /\ tools_stream_open_with cfg handler (mkCO (Some ts) x) pi role_ok calls
       = tools_stream_open_with cfg' handler (mkCO (Some ts) x) pi role_ok calls.
Proof. exact call_list_replaces. Qed.
Print Assumptions tools_call_list_replaces.

Theorem tools_call_list_unknown :
  forall (O : Type) (cfg : toolset O) handler ts x pi calls c,
    In c calls -> ts_kind ts (c_name c) = None -> handler = None ->
    tools_invoke_with cfg handler (mkCO (Some ts) x) pi true calls = Err E_UNKNOWN
    /\ tools_stream_open_with cfg handler (mkCO (Some ts) x) pi true calls = Err E_UNKNOWN
    /\ tools_executed_with cfg handler (mkCO (Some ts) x) true calls = [].
Proof. exact call_list_unknown. Qed.
Print Assumptions tools_call_list_unknown.

(* ---- convTools / NewToolNode (the definitions the correspondence check runs) -------------- *)
(* [node_invoke handler cfg cl opts] = NewToolNode on the tool list cfg, then Invoke with the
   call options (WithToolList cl, tool options opts) *)
Theorem tools_conv_ok_iff :
  forall (O : Type) (l : list (tooldecl O)),
    (exists tl, conv_tools l = Ok tl) <-> Forall (takeable O) l.
Proof. exact conv_tools_ok_iff. Qed.
Print Assumptions tools_conv_ok_iff.

(* a tool that cannot be taken (its Info fails, or it implements neither run interface), in the
   configuration or in the call's list: an error, and nothing runs *)
Theorem tools_node_bad_tool :
  forall (O : Type) handler (cfg : list (tooldecl O)) cl opts pi role_ok calls,
    ~ Forall (takeable O) cfg \/ (exists l, cl = Some l /\ ~ Forall (takeable O) l) ->
    (exists e, node_invoke handler cfg cl opts pi role_ok calls = Err e)
    /\ (exists e, node_stream_open handler cfg cl opts pi role_ok calls = Err e)
    /\ node_executed handler cfg cl opts role_ok calls = [].
Proof. exact node_bad_tool. Qed.
Print Assumptions tools_node_bad_tool.

(* otherwise the node is the tools node of the converted lists (to which every theorem above
   applies: tools_invoke_with is tools_invoke on the tool set in force) *)
Theorem tools_node_good_tools :
  forall (O : Type) handler (cfg : list (tooldecl O)) cl opts pi role_ok calls,
    Forall (takeable O) cfg -> (forall l, cl = Some l -> Forall (takeable O) l) ->
    exists c l,
      conv_tools cfg = Ok c /\ conv_call_list cl = Ok l
      /\ node_invoke handler cfg cl opts pi role_ok calls
         = tools_invoke_with (toolset_of_conv c) handler (mkCO l opts) pi role_ok calls
      /\ node_stream_open handler cfg cl opts pi role_ok calls
         = tools_stream_open_with (toolset_of_conv c) handler (mkCO l opts) pi role_ok calls.
Proof. exact node_good_tools. Qed.
Print Assumptions tools_node_good_tools.

(* "the tool named by that call": the last tool of that name in the list; none => unknown *)
Theorem tools_index_last_wins :
  forall A (l1 l2 : list (string * A)) n a,
    (forall a', ~ In (n, a') l2) -> index_lookup (l1 ++ (n, a) :: l2) n = Some a.
Proof. exact index_last_wins. Qed.
Print Assumptions tools_index_last_wins.

Theorem tools_index_unknown :
  forall A (l : list (string * A)) n, (forall a, ~ In (n, a) l) -> index_lookup l n = None.
Proof. exact index_unknown. Qed.
Print Assumptions tools_index_unknown.

(* ---- converses, and agreement of Invoke and Stream on failure ------------------------------ *)
(* Invoke returns messages ONLY IF the message is accepted and every call's tool answers (with
   tools_invoke_spec: if and only if), and they are then the messages of tools_invoke_spec *)
Theorem tools_invoke_only_if :
  forall kind_of inv str handler pi calls msgs,
    Permutation pi (seq 0 (List.length calls)) ->
    tools_invoke kind_of inv str handler pi true calls = Ok msgs ->
    calls <> []
    /\ exists outs, Forall2 (fun c o => answer kind_of inv str handler c = Ok (TOk o)) calls outs
                    /\ msgs = combine outs (map c_id calls).
Proof. exact invoke_ok_only_if. Qed.
Print Assumptions tools_invoke_only_if.

Theorem tools_stream_open_only_if :
  forall kind_of inv str handler pi calls ss,
    Permutation pi (seq 0 (List.length calls)) ->
    tools_stream_open kind_of inv str handler pi true calls = Ok ss ->
    calls <> []
    /\ exists sts, Forall2 (fun c s => s_answer kind_of inv str handler c = Ok (SOk (fst s) (snd s))) calls sts
                   /\ ss = opened calls sts.
Proof. exact stream_open_only_if. Qed.
Print Assumptions tools_stream_open_only_if.

(* tools that do not implement both run interfaces themselves: Invoke succeeds exactly when Stream
   opens and every tool stream is non-empty and free of error items (then its concatenation is the
   Invoke answer: tools_stream_concat; a stream with an error item never ends normally:
   tools_stream_no_eof_after_error) — for every two completion orders *)
Theorem tools_invoke_stream_agree :
  forall kind_of inv str handler pi pi' calls,
    Permutation pi (seq 0 (List.length calls)) ->
    Permutation pi' (seq 0 (List.length calls)) ->
    (forall c, In c calls -> kind_of (c_name c) <> Some KBoth) ->
    ((exists msgs, tools_invoke kind_of inv str handler pi true calls = Ok msgs)
     <-> (exists ss, tools_stream_open kind_of inv str handler pi' true calls = Ok ss
                     /\ Forall (fun s : tstream => snd s = None /\ snd (fst s) <> []) ss)).
Proof. exact invoke_stream_agree. Qed.
Print Assumptions tools_invoke_stream_agree.

(* ---- the protocol of parallelRunToolCall (Model/ToolsPar.v): caller, one goroutine per task
   1..N-1, the WaitGroup, the result cells.  [par_invoke prog tasks sch st0] runs the schedule
   [sch] (which thread takes the next step; wg.Wait only passes at counter zero) where every
   goroutine executes [prog]; [prog_ok] = the code's order: the tool, the deferred recover handler,
   the deferred wg.Done.  [par_result] = what Invoke / Stream make of the cells once the caller is
   through (None while it is still running).
   For EVERY schedule the result is the model's tools_invoke / tools_stream_open (which the
   theorems above are about; it does not depend on [pi]), and no goroutine ends while panicking
   (the process does not die): the assumption "every slot is written before the scan" of
   Model/Tools.v is a theorem about the protocol. ------------------------------------------- *)
Theorem tools_par_invoke_refines :
  forall kind_of inv str handler pi calls tasks sch st r,
    gen_tasks kind_of handler true calls = Ok tasks ->
    Permutation pi (seq 0 (List.length calls)) ->
    par_invoke inv str prog_ok tasks sch (pinit tasks) = Some st ->
    par_result assemble_invoke tasks st = Some r ->
    r = tools_invoke kind_of inv str handler pi true calls /\ p_crash st = false.
Proof. exact par_invoke_refines. Qed.
Print Assumptions tools_par_invoke_refines.

Theorem tools_par_stream_refines :
  forall kind_of inv str handler pi calls tasks sch st r,
    gen_tasks kind_of handler true calls = Ok tasks ->
    Permutation pi (seq 0 (List.length calls)) ->
    par_stream inv str prog_ok tasks sch (pinit tasks) = Some st ->
    par_result assemble_stream tasks st = Some r ->
    r = tools_stream_open kind_of inv str handler pi true calls /\ p_crash st = false.
Proof. exact par_stream_refines. Qed.
Print Assumptions tools_par_stream_refines.

(* ... and the protocol cannot deadlock: whatever has happened so far, some continuation of the
   schedule lets the caller pass wg.Wait and finish with a result (provided the tools return) *)
Theorem tools_par_invoke_no_deadlock :
  forall inv str tasks sch st,
    tasks <> [] ->
    par_invoke inv str prog_ok tasks sch (pinit tasks) = Some st ->
    exists sch' st' r,
      par_invoke inv str prog_ok tasks (sch ++ sch') (pinit tasks) = Some st'
      /\ par_result assemble_invoke tasks st' = Some r.
Proof. exact par_invoke_no_deadlock. Qed.
Print Assumptions tools_par_invoke_no_deadlock.

Theorem tools_par_stream_no_deadlock :
  forall inv str tasks sch st,
    tasks <> [] ->
    par_stream inv str prog_ok tasks sch (pinit tasks) = Some st ->
    exists sch' st' r,
      par_stream inv str prog_ok tasks (sch ++ sch') (pinit tasks) = Some st'
      /\ par_result assemble_stream tasks st' = Some r.
Proof. exact par_stream_no_deadlock. Qed.
Print Assumptions tools_par_stream_no_deadlock.

(* with wg.Done deferred AFTER the recover handler (so that it runs BEFORE it: [prog_v0]) there is
   a schedule in which the caller passes wg.Wait and scans before the panic error of call 1 is
   stored: the result is not the model's (which is the panic error) *)
Theorem tools_par_v0_refuted :
  exists kind_of inv str handler calls tasks sch st r,
    gen_tasks kind_of handler true calls = Ok tasks
    /\ par_invoke inv str prog_v0 tasks sch (pinit tasks) = Some st
    /\ par_result assemble_invoke tasks st = Some r
    /\ r <> tools_invoke kind_of inv str handler [0; 1]%nat true calls
    /\ tools_invoke kind_of inv str handler [0; 1]%nat true calls = Err E_PANIC.
Proof.
  destruct par_v0_refuted as [tasks [sch [st [r H]]]].
  eexists. eexists. eexists. eexists. eexists. exists tasks, sch, st, r. exact H.
Qed.
Print Assumptions tools_par_v0_refuted.

(* ---- the call's option list (getToolsNodeOptions) and the per-implementation options ------- *)
(* [get_node_opts l] = (the tool list the call brings, the tool options every execution is handed)
   after the options [l], in the order given.  Every WithToolOption counts, in order ... *)
Theorem tools_node_opts_tool_options :
  forall (P D : Type) (l : list (nodeopt P D)), snd (get_node_opts l) = flat_map tool_options_of l.
Proof. exact node_opts_tool_options. Qed.
Print Assumptions tools_node_opts_tool_options.

(* ... the last WithToolList decides (None = WithToolList() without argument: no list) ... *)
Theorem tools_node_opts_list_last :
  forall (P D : Type) (l1 l2 : list (nodeopt P D)) x,
    Forall is_tool_option l2 -> fst (get_node_opts (l1 ++ WithToolList x :: l2)) = x.
Proof. exact node_opts_list_last. Qed.
Print Assumptions tools_node_opts_list_last.

Theorem tools_node_opts_no_list :
  forall (P D : Type) (l : list (nodeopt P D)), Forall is_tool_option l -> fst (get_node_opts l) = None.
Proof. exact node_opts_no_list. Qed.
Print Assumptions tools_node_opts_no_list.

(* ... and a tool reads, in the order given, exactly the options of its own implementation's type *)
Theorem tools_impl_specific_own :
  forall (P : Type) ty (a b : list (topt P)) p,
    impl_specific ty (a ++ (ty, p) :: b) = (impl_specific ty a ++ p :: impl_specific ty b)%list.
Proof. exact impl_specific_own. Qed.
Print Assumptions tools_impl_specific_own.

Theorem tools_impl_specific_foreign :
  forall (P : Type) ty (a b : list (topt P)) o,
    fst o <> ty -> impl_specific ty (a ++ o :: b) = impl_specific ty (a ++ b).
Proof. exact impl_specific_foreign. Qed.
Print Assumptions tools_impl_specific_foreign.

(* ---- end to end on the DECLARED tools: NewToolNode, the option list, convTools of the call's
   list, name resolution, execution — stated on call_invoke / call_stream_open / call_executed,
   the definitions the correspondence check evaluates.
   [call_decls cfg nopts] = the tool list in force, [call_topts nopts] = the tool options handed
   to every execution, [decl_answer] / [decl_s_answer] = what the LAST tool declared under the
   call's name in that list returns on the call's arguments and those options when invoked /
   streamed (the unknown-tool handler for a name no tool carries); [call_lists_ok] = convTools
   can take the configuration and the call's list. ------------------------------------------ *)
Theorem tools_call_invoke_spec :
  forall (P : Type) handler (cfg : list (tooldecl (list (topt P)))) nopts pi calls outs,
    call_lists_ok P cfg nopts ->
    calls <> [] ->
    Permutation pi (seq 0 (List.length calls)) ->
    Forall2 (fun c o => decl_answer _ handler (call_decls P cfg nopts) (call_topts P nopts) c = Ok (TOk o)) calls outs ->
    call_invoke handler cfg nopts pi true calls = Ok (combine outs (map c_id calls))
    /\ List.length (combine outs (map c_id calls)) = List.length calls
    /\ call_executed handler cfg nopts true calls = calls.
Proof. exact call_invoke_spec. Qed.
Print Assumptions tools_call_invoke_spec.

Theorem tools_call_stream_concat :
  forall (P : Type) handler (cfg : list (tooldecl (list (topt P)))) nopts pi pi' calls css,
    call_lists_ok P cfg nopts ->
    calls <> [] ->
    Permutation pi (seq 0 (List.length calls)) ->
    Permutation pi' (seq 0 (List.length calls)) ->
    Forall2 (fun c cs => decl_s_answer _ handler (call_decls P cfg nopts) (call_topts P nopts) c = Ok (SOk cs None) /\ cs <> []) calls css ->
    Forall2 (fun c cs => decl_answer _ handler (call_decls P cfg nopts) (call_topts P nopts) c = Ok (TOk (concat_strings cs))) calls css ->
    exists ss msgs,
      call_stream_open handler cfg nopts pi true calls = Ok ss
      /\ call_invoke handler cfg nopts pi' true calls = Ok msgs
      /\ List.length msgs = List.length calls
      /\ forall sched,
           drained (merge_rest sched (stream_srcs ss)) = true ->
           concat_pos (stream_ids ss) (fst (merge_run sched (stream_srcs ss))) = Ok (map Some msgs).
Proof. exact call_stream_concat. Qed.
Print Assumptions tools_call_stream_concat.

Theorem tools_call_derived_consistent :
  forall (P : Type) handler (cfg : list (tooldecl (list (topt P)))) nopts c cs,
    call_lists_ok P cfg nopts ->
    decl_s_answer _ handler (call_decls P cfg nopts) (call_topts P nopts) c = Ok (SOk cs None) -> cs <> [] ->
    (forall d, decl_lookup _ (call_decls P cfg nopts) (c_name c) = Some d -> td_kind d <> Some KBoth) ->
    decl_answer _ handler (call_decls P cfg nopts) (call_topts P nopts) c = Ok (TOk (concat_strings cs)).
Proof. exact call_derived_consistent. Qed.
Print Assumptions tools_call_derived_consistent.

Theorem tools_call_fail :
  forall (P : Type) handler (cfg : list (tooldecl (list (topt P)))) nopts pi calls pre c post outs r,
    call_lists_ok P cfg nopts ->
    Permutation pi (seq 0 (List.length calls)) ->
    calls = (pre ++ c :: post)%list ->
    (forall c', In c' calls -> exists r', decl_answer _ handler (call_decls P cfg nopts) (call_topts P nopts) c' = Ok r') ->
    Forall2 (fun c o => decl_answer _ handler (call_decls P cfg nopts) (call_topts P nopts) c = Ok (TOk o)) pre outs ->
    decl_answer _ handler (call_decls P cfg nopts) (call_topts P nopts) c = Ok r ->
    (forall o, r <> TOk o) ->
    call_invoke handler cfg nopts pi true calls =
    match r with
    | TErr e => Err e
    | _ => match pre with [] => Panic | _ => Err E_PANIC end
    end.
Proof. exact call_fail. Qed.
Print Assumptions tools_call_fail.

Theorem tools_call_stream_fail :
  forall (P : Type) handler (cfg : list (tooldecl (list (topt P)))) nopts pi calls pre c post r,
    call_lists_ok P cfg nopts ->
    Permutation pi (seq 0 (List.length calls)) ->
    calls = (pre ++ c :: post)%list ->
    (forall c', In c' calls -> exists r', decl_s_answer _ handler (call_decls P cfg nopts) (call_topts P nopts) c' = Ok r') ->
    Forall (fun c => exists cs tl, decl_s_answer _ handler (call_decls P cfg nopts) (call_topts P nopts) c = Ok (SOk cs tl)) pre ->
    decl_s_answer _ handler (call_decls P cfg nopts) (call_topts P nopts) c = Ok r ->
    (forall cs tl, r <> SOk cs tl) ->
    call_stream_open handler cfg nopts pi true calls =
    match r with
    | SErr e => Err e
    | _ => match pre with [] => Panic | _ => Err E_PANIC end
    end.
Proof. exact call_stream_fail. Qed.
Print Assumptions tools_call_stream_fail.

Theorem tools_call_unknown :
  forall (P : Type) handler (cfg : list (tooldecl (list (topt P)))) nopts pi calls c,
    call_lists_ok P cfg nopts ->
    In c calls -> decl_lookup _ (call_decls P cfg nopts) (c_name c) = None -> handler = None ->
    call_invoke handler cfg nopts pi true calls = Err E_UNKNOWN
    /\ call_stream_open handler cfg nopts pi true calls = Err E_UNKNOWN
    /\ call_executed handler cfg nopts true calls = [].
Proof. exact call_unknown. Qed.
Print Assumptions tools_call_unknown.

Theorem tools_call_bad_tool :
  forall (P : Type) handler (cfg : list (tooldecl (list (topt P)))) nopts pi role_ok calls,
    ~ call_lists_ok P cfg nopts ->
    (exists e, call_invoke handler cfg nopts pi role_ok calls = Err e)
    /\ (exists e, call_stream_open handler cfg nopts pi role_ok calls = Err e)
    /\ call_executed handler cfg nopts role_ok calls = [].
Proof. exact call_bad_tool. Qed.
Print Assumptions tools_call_bad_tool.

(* WithToolList() without argument withdraws a list given before it; a later list replaces an earlier one *)
Theorem tools_call_list_withdrawn :
  forall (P : Type) (cfg : list (tooldecl (list (topt P)))) l1 l2,
    Forall is_tool_option l2 -> call_decls P cfg (l1 ++ WithToolList None :: l2) = cfg.
Proof. exact call_list_withdrawn. Qed.
Print Assumptions tools_call_list_withdrawn.

Theorem tools_call_list_last_wins :
  forall (P : Type) (cfg : list (tooldecl (list (topt P)))) l1 l2 l,
    Forall is_tool_option l2 -> call_decls P cfg (l1 ++ WithToolList (Some l) :: l2) = l.
Proof. exact call_list_last_wins. Qed.
Print Assumptions tools_call_list_last_wins.

(* ---- the concatenation is the framework's own (property C14's model) --------------------- *)
(* [U] = the concat functions the application registered (C14's model is generic in them; tool
   messages never reach one).  [framework_concat ids em] = C14's model of concatStreamReader / concatMessageArray /
   ConcatMessages applied to the sparse tool-message lists the node emitted; it is concat_pos,
   message for message, for every chunk sequence *)
Theorem tools_concat_is_framework_concat :
  forall (U : UserFn) ids em,
    framework_concat ids em =
    match concat_pos ids em with
    | Ok l => Ok (map (option_map tool_msg) l)
    | _ => Err Concat.E_EMPTY
    end.
Proof. exact @concat_pos_is_msglist_stream. Qed.
Print Assumptions tools_concat_is_framework_concat.

Theorem tools_stream_concat_framework :
  forall (U : UserFn) kind_of inv str handler pi pi' calls css,
    calls <> [] ->
    Permutation pi (seq 0 (List.length calls)) ->
    Permutation pi' (seq 0 (List.length calls)) ->
    Forall2 (fun c cs => s_answer kind_of inv str handler c = Ok (SOk cs None) /\ cs <> []) calls css ->
    Forall2 (fun c cs => answer kind_of inv str handler c = Ok (TOk (concat_strings cs))) calls css ->
    exists ss msgs,
      tools_stream_open kind_of inv str handler pi true calls = Ok ss
      /\ tools_invoke kind_of inv str handler pi' true calls = Ok msgs
      /\ forall sched,
           drained (merge_rest sched (stream_srcs ss)) = true ->
           framework_concat (stream_ids ss) (fst (merge_run sched (stream_srcs ss)))
           = Ok (map (fun m => Some (tool_msg m)) msgs).
Proof. exact @stream_concat_framework. Qed.
Print Assumptions tools_stream_concat_framework.

(* ---- non-vacuity ----------------------------------------------------------------------- *)
Definition ex_kind (n : string) : option tkind :=
  if String.eqb n "ta" then Some KInv else if String.eqb n "tb" then Some KStr
  else if String.eqb n "tc" then Some KBoth else None.
Definition ex_inv (n a : string) : tres :=
  if String.eqb a "boom" then TErr 101 else if String.eqb a "panic" then TPanic else TOk (n ++ ":" ++ a).
Definition ex_str (n a : string) : sres :=
  if String.eqb a "boom" then SErr 101 else if String.eqb a "panic" then SPanic else SOk [n; ":"; a] None.
Definition ex_handler : option (string -> string -> tres) := Some (fun n a => TOk ("unk:" ++ n)).
Definition ex_calls : list call :=
  [mkCall "c0" "ta" "x"; mkCall "c1" "tb" "y"; mkCall "c2" "zz" "z"; mkCall "c3" "tc" "w"].

(* hypotheses of tools_invoke_spec / tools_stream_concat hold for a mixed call list ... *)
Example invoke_spec_hyp :
  Forall2 (fun c o => answer ex_kind ex_inv ex_str ex_handler c = Ok (TOk o)) ex_calls
          ["ta:x"; "tb:y"; "unk:zz"; "tc:w"].
Proof. repeat constructor. Qed.
Example stream_concat_hyp :
  Forall2 (fun c cs => s_answer ex_kind ex_inv ex_str ex_handler c = Ok (SOk cs None) /\ cs <> []) ex_calls
          [["ta:x"]; ["tb"; ":"; "y"]; ["unk:zz"]; ["tc"; ":"; "w"]].
Proof. repeat constructor; discriminate. Qed.
(* ... and the conclusions are the expected concrete values, for a scrambled completion order
   and a scrambled complete interleaving *)
Example invoke_spec_nonvacuous :
  tools_invoke ex_kind ex_inv ex_str ex_handler [3; 1; 0; 2]%nat true ex_calls
  = Ok [("ta:x", "c0"); ("tb:y", "c1"); ("unk:zz", "c2"); ("tc:w", "c3")].
Proof. vm_compute. reflexivity. Qed.
Example stream_concat_nonvacuous :
  match tools_stream_open ex_kind ex_inv ex_str ex_handler [2; 3; 1; 0]%nat true ex_calls with
  | Ok ss =>
      let sched := [3; 1; 0; 3; 2; 1; 3; 1]%nat in
      drained (merge_rest sched (stream_srcs ss)) = true
      /\ concat_pos (stream_ids ss) (fst (merge_run sched (stream_srcs ss)))
         = Ok [Some ("ta:x", "c0"); Some ("tb:y", "c1"); Some ("unk:zz", "c2"); Some ("tc:w", "c3")]
  | _ => False
  end.
Proof. vm_compute. split; reflexivity. Qed.
(* failure: calls 1 and 2 fail, call 2 finishing first; the error of call 1 is reported *)
Example fail_nonvacuous :
  tools_invoke ex_kind ex_inv ex_str None [2; 0; 1]%nat true
    [mkCall "c0" "ta" "x"; mkCall "c1" "tb" "boom"; mkCall "c2" "ta" "panic"] = Err 101.
Proof. vm_compute. reflexivity. Qed.
Example panic_inline_nonvacuous :
  tools_invoke ex_kind ex_inv ex_str None [1; 0]%nat true [mkCall "c0" "ta" "panic"; mkCall "c1" "tb" "y"] = Panic
  /\ in_graph (tools_invoke ex_kind ex_inv ex_str None [1; 0]%nat true [mkCall "c0" "ta" "panic"; mkCall "c1" "tb" "y"]) = Err E_PANIC.
Proof. vm_compute. split; reflexivity. Qed.
Example unknown_nonvacuous :
  tools_invoke ex_kind ex_inv ex_str None [0; 1]%nat true [mkCall "c0" "ta" "x"; mkCall "c1" "zz" "y"] = Err E_UNKNOWN.
Proof. vm_compute. reflexivity. Qed.
(* outside the domain of tools_stream_concat: a streamable-only tool that emits no chunk —
   Invoke fails (empty stream), the streamed form has a nil message at that position *)
Example zero_chunk_outside_domain :
  let str0 := fun (_ _ : string) => SOk [] None in
  tools_invoke ex_kind ex_inv str0 None [0]%nat true [mkCall "c0" "tb" "y"] = Err E_EMPTY
  /\ tools_stream_open ex_kind ex_inv str0 None [0]%nat true [mkCall "c0" "tb" "y"] = Ok [("c0", [], None)].
Proof. vm_compute. split; reflexivity. Qed.

(* streamed form, failures: call 1 fails when called although call 2 (finishing first) streams *)
Example stream_fail_nonvacuous :
  tools_stream_open ex_kind ex_inv ex_str None [2; 0; 1]%nat true
    [mkCall "c0" "ta" "x"; mkCall "c1" "tb" "boom"; mkCall "c2" "tc" "y"] = Err 101.
Proof. vm_compute. reflexivity. Qed.
(* an error item in the middle of tool 1's stream: the merged stream ends with it after tool 1's
   chunk; what was delivered are prefixes *)
Example error_item_nonvacuous :
  let srcs := [(["a"; "b"], None); (["c"], Some 101%N); (["d"], None)] in
  merge_run [0; 1; 2; 1; 0]%nat srcs = ([(0, "a"); (1, "c"); (2, "d")]%nat, Some 101%N)
  /\ drained (merge_rest [0; 1; 2; 1; 0]%nat srcs) = false.
Proof. vm_compute. split; reflexivity. Qed.
(* call options: the call's own list knows "tz" only; options reach the tool *)
Example call_options_nonvacuous :
  let cfg := mkTS ex_kind (fun (o : string) n a => TOk (o ++ n ++ ":" ++ a)) (fun (o : string) n a => SOk [o; n; a] None) in
  let ts := mkTS (fun n => if String.eqb n "tz" then Some KInv else None)
                 (fun (o : string) n a => TOk (o ++ "!" ++ n)) (fun (o : string) n a => SErr 9) in
  tools_invoke_with cfg None (mkCO None "<o>") [0]%nat true [mkCall "c0" "ta" "x"] = Ok [("<o>ta:x", "c0")]
  /\ tools_invoke_with cfg None (mkCO (Some ts) "<o>") [0]%nat true [mkCall "c0" "tz" "x"] = Ok [("<o>!tz", "c0")]
  /\ tools_invoke_with cfg None (mkCO (Some ts) "<o>") [0]%nat true [mkCall "c0" "ta" "x"] = Err E_UNKNOWN.
Proof. vm_compute. repeat split; reflexivity. Qed.

(* convTools: a configuration with a tool that implements neither interface / whose Info fails *)
Example conv_nonvacuous :
  let impl := mkTI (fun (o : string) a => TOk (o ++ a)) (fun (o : string) a => SOk [o; a] None) in
  let good := [mkTD true "ta" (Some KInv) impl; mkTD true "tb" (Some KStr) impl] in
  let bad := [mkTD true "ta" (Some KInv) impl; mkTD true "tb" None impl] in
  node_invoke None good None "<o>" [1; 0]%nat true [mkCall "c0" "tb" "x"; mkCall "c1" "ta" "y"]
    = Ok [("<o>x", "c0"); ("<o>y", "c1")]
  /\ node_invoke None bad None "<o>" [0]%nat true [mkCall "c0" "ta" "x"] = Err E_NOTRUNNABLE
  /\ node_invoke None good (Some bad) "<o>" [0]%nat true [mkCall "c0" "ta" "x"] = Err E_NOTRUNNABLE
  /\ node_invoke None good (Some [mkTD false "ta" (Some KInv) impl]) "<o>" [0]%nat false [] = Err E_TOOLINFO.
Proof. vm_compute. repeat split; reflexivity. Qed.

(* the option list: a list given and withdrawn, tool options of two implementation types around
   it; "ta" reads the options of type 1, "tb" those of type 2, the call list's "tz" is not in force *)
Example call_option_list_nonvacuous :
  let impl (ty : N) (n : string) := mkTI (fun (os : list (topt string)) a => TOk (concat_strings (impl_specific ty os) ++ n ++ ":" ++ a))
                                         (fun (os : list (topt string)) a => SOk [concat_strings (impl_specific ty os); n; a] None) in
  let cfg := [mkTD true "ta" (Some KInv) (impl 1%N "ta"); mkTD true "tb" (Some KStr) (impl 2%N "tb")] in
  let tz := [mkTD true "tz" (Some KInv) (impl 1%N "tz")] in
  let nopts := [WithToolOption [(1%N, "<a>"); (2%N, "<b>")]; WithToolList (Some tz); WithToolOption [(1%N, "<c>")];
                WithToolList None; WithToolOption [(2%N, "<d>")]] in
  let calls := [mkCall "c0" "ta" "x"; mkCall "c1" "tb" "y"] in
  call_lists_ok string cfg nopts
  /\ Forall2 (fun c o => decl_answer _ None (call_decls string cfg nopts) (call_topts string nopts) c = Ok (TOk o)) calls ["<a><c>ta:x"; "<b><d>tby"]
  /\ call_invoke None cfg nopts [1; 0]%nat true calls = Ok [("<a><c>ta:x", "c0"); ("<b><d>tby", "c1")]
  /\ call_invoke None cfg (firstn 3 nopts) [0]%nat true [mkCall "c0" "tz" "x"] = Ok [("<a><c>tz:x", "c0")]
  /\ call_invoke None cfg (firstn 3 nopts) [0]%nat true [mkCall "c0" "ta" "x"] = Err E_UNKNOWN.
Proof.
  vm_compute. repeat split; try reflexivity.
  - repeat constructor; discriminate.
  - intros l H; discriminate.
  - repeat constructor.
Qed.

(* agreement on failure, both sides false: "tb" fails in the middle of its stream *)
Example agree_nonvacuous :
  let str1 := fun (n a : string) => if String.eqb a "mid" then SOk ["x"] (Some 101%N) else SOk [n; a] None in
  let calls := [mkCall "c0" "ta" "x"; mkCall "c1" "tb" "mid"] in
  tools_invoke ex_kind ex_inv str1 None [1; 0]%nat true calls = Err 101
  /\ tools_stream_open ex_kind ex_inv str1 None [0; 1]%nat true calls = Ok [("c0", ["ta:x"], None); ("c1", ["x"], Some 101%N)]
  /\ (forall c, In c calls -> ex_kind (c_name c) <> Some KBoth).
Proof.
  vm_compute. repeat split; try reflexivity.
  intros c [<-|[<-|[]]]; discriminate.
Qed.

(* the protocol: with the code's order the caller cannot pass wg.Wait before the goroutine of the
   panicking call 1 has stored the panic error and called wg.Done (first schedule: stuck = None);
   once it has, the scan sees the panic error; nothing crashes *)
Example par_refines_nonvacuous :
  let calls := [mkCall "c0" "ta" "x"; mkCall "c1" "ta" "panic"] in
  match gen_tasks ex_kind None true calls with
  | Ok tasks =>
      par_invoke ex_inv ex_str prog_ok tasks [0; 0; 1; 1; 0]%nat (pinit tasks) = None
      /\ match par_invoke ex_inv ex_str prog_ok tasks [0; 0; 1; 1; 1; 0]%nat (pinit tasks) with
         | Some st => par_result assemble_invoke tasks st = Some (Err E_PANIC) /\ p_crash st = false
         | None => False
         end
      /\ tools_invoke ex_kind ex_inv ex_str None [1; 0]%nat true calls = Err E_PANIC
  | _ => False
  end.
Proof. vm_compute. repeat split; reflexivity. Qed.
