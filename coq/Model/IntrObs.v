(* Model/IntrObs.v — what the C05/C06 harness observes of a run, and its comparison with the
   model of Model/Interrupt.v (owner: C05/C06). Executable definitions only.

   Projected observables (canonical on both sides):
     per call:  outcome class; final output; the InterruptInfo tree (state, before/after/rerun node
                lists as sorted lists, nested infos by node); whether a checkpoint was written;
                the multiset of lambda executions (node, input, aborted) of every nesting level;
     reference: outcome class, output and execution multiset of the run without interrupt configuration.
   Not compared: error messages, order of executions inside a call (goroutine scheduling), timing. *)
From Eino Require Import Base.Util Model.Graph Model.RunLoop Model.Interrupt.
Open Scope N_scope.

(* nil map and empty map are the same canonical value *)
Fixpoint vnorm (v : value) : value :=
  match v with
  | VNil => VMap []
  | VAtom a => VAtom a
  | VMap kvs => VMap ((fix go (l : list (N * value)) : list (N * value) :=
                         match l with [] => [] | kv :: l' => (fst kv, vnorm (snd kv)) :: go l' end) kvs)
  end.
Definition veq (a b : value) : bool := value_eqb (vnorm a) (vnorm b).

Fixpoint list_eqb {A} (eqb : A -> A -> bool) (x y : list A) : bool :=
  match x, y with
  | [], [] => true
  | a :: x', b :: y' => eqb a b && list_eqb eqb x' y'
  | _, _ => false
  end.

Definition nsort (l : list N) : list N := sort_by N.ltb l.
(* a reported node list as a sorted SET: the property speaks of which nodes are reported; getHitKey
   reports a node once per occurrence in the configured list (a name configured twice is reported
   twice), [hits] once: the multiplicity is not an observable *)
Fixpoint nuniq (l : list N) : list N :=
  match l with
  | [] => []
  | x :: l' => match l' with
               | y :: _ => if N.eqb x y then nuniq l' else x :: nuniq l'
               | [] => [x]
               end
  end.
Definition nset (l : list N) : list N := nuniq (nsort l).
Definition ksort {A} (l : list (N * A)) : list (N * A) := sort_by (fun a b => N.ltb (fst a) (fst b)) l.

Definition gstate_eqb (a b : gstate) : bool :=
  list_eqb (fun x y => N.eqb (fst x) (fst y) && N.eqb (snd x) (snd y)) (ksort (st_seen a)) (ksort (st_seen b))
  && list_eqb (fun x y => N.eqb (fst x) (fst y) && veq (snd x) (snd y)) (ksort (st_saved a)) (ksort (st_saved b))
  && N.eqb (st_mods a) (st_mods b).

Definition gst_eqb (a b : gst) : bool :=
  match a, b with
  | Some x, Some y => gstate_eqb x y
  | None, None => true
  | _, _ => false
  end.

(* canonical InterruptInfo *)
Inductive oinfo := OInfo (st : gst) (before after rerun : list N) (subs : list (N * oinfo)).

Fixpoint proj_ninfo (ni : ninfo) : oinfo :=
  match ni with
  | NInfo i =>
    OInfo (ii_gs i) (nset (ii_before i)) (nset (ii_after i)) (nset (ii_rerun i))
          (ksort (map (fun kv => (fst kv, proj_ninfo (snd kv))) (ii_subs i)))
  end.
Definition proj_info (i : inf) : oinfo := proj_ninfo (NInfo i).

Fixpoint oinfo_eqb (a b : oinfo) : bool :=
  match a, b with
  | OInfo s1 b1 a1 r1 subs1, OInfo s2 b2 a2 r2 subs2 =>
    gst_eqb s1 s2 && list_eqb N.eqb b1 b2 && list_eqb N.eqb a1 a2 && list_eqb N.eqb r1 r2
    && (fix go (x y : list (N * oinfo)) : bool :=
          match x, y with
          | [], [] => true
          | (k, i) :: x', (k', i') :: y' => N.eqb k k' && oinfo_eqb i i' && go x' y'
          | _, _ => false
          end) subs1 subs2
  end.

(* multiset equality of execution logs: (node, input, aborted) *)
Definition xevt := (N * value * bool)%type.
Definition evt_eqb (a b : xevt) : bool :=
  let '(k, v, ab) := a in let '(k', v', ab') := b in N.eqb k k' && veq v v' && Bool.eqb ab ab'.
Fixpoint remove_first (x : xevt) (l : list xevt) : option (list xevt) :=
  match l with
  | [] => None
  | y :: l' => if evt_eqb x y then Some l'
               else match remove_first x l' with Some r => Some (y :: r) | None => None end
  end.
Fixpoint mset_eqb (a b : list xevt) : bool :=
  match a with
  | [] => match b with [] => true | _ => false end
  | x :: a' => match remove_first x b with Some b' => mset_eqb a' b' | None => false end
  end.

Definition execs_of (l : list lentry) : list xevt :=
  flat_map (fun en => match en with LExec k v ab => [(k, v, ab)] | _ => [] end) l.
Definition pres_in (l : list lentry) : list N :=
  flat_map (fun en => match en with LPre k => [k] | _ => [] end) l.

(* outcome classes *)
Definition cDone : N := 0. Definition cInterrupt : N := 1. Definition cStepLimit : N := 2.
Definition cFail : N := 3. Definition cArtefact : N := 8. Definition cOther : N := 9.

Record oseg := {
  os_class : N;
  os_out   : value;             (* class done *)
  os_info  : option oinfo;      (* class interrupt *)
  os_execs : list xevt;
  os_pres  : list N;            (* nodes whose state pre-handler ran in this call, every level (with multiplicity) *)
  os_execs_cmp : bool;          (* false: a failing call of a case with eager graphs — which of the abandoned
                                   tasks got to start is a matter of scheduling *)
  os_written : bool;            (* the call made exactly one store write (false: none) *)
  os_sets_ok : bool;            (* the number of store writes was 0 or 1 *)
}.

Definition class_of (top : graph) (o : outc) : N :=
  match o with
  | ODone _ => cDone
  | OInterrupted _ _ => cInterrupt
  | OLimit => match g_mode top with Pregel => cStepLimit | Dag => cArtefact end
  | OFailed e => if N.eqb e eMaxSteps then cStepLimit
                 else if N.eqb e eLoopFuel || N.eqb e eNestFuel then cArtefact else cFail
  end.

Definition seg_ok (top : gspec) (co : cobs) (log : list lentry) (o : oseg) : bool :=
  N.eqb (class_of (gs_graph top) (co_out co)) (os_class o)
  && match co_out co with
     | ODone v => veq v (os_out o)
     | OInterrupted i _ => match os_info o with Some oi => oinfo_eqb (proj_info i) oi | None => false end
     | _ => true
     end
  && Bool.eqb (co_written co) (os_written o) && os_sets_ok o
  && (negb (os_execs_cmp o)
      || (mset_eqb (execs_of log) (os_execs o)
          && list_eqb N.eqb (nsort (pres_of top (co_log co) ++ pres_in log)) (nsort (os_pres o)))).

Fixpoint segs_ok (top : gspec) (cos : list cobs) (logs : list (list lentry)) (os : list oseg) : bool :=
  match cos, logs, os with
  | [], [], [] => true
  | co :: cos', l :: logs', o :: os' => seg_ok top co l o && segs_ok top cos' logs' os'
  | _, _, _ => false
  end.

Record icase := {
  ic_forest : list gspec;
  ic_input  : value;
  ic_noid   : bool;
  ic_mods   : list bool;                        (* per call spec: WithStateModifier *)
  ic_ref_scheds : list (N * list (list N));
  ic_scheds : list (N * list (list N));
  ic_ref    : oseg;
  ic_segs   : list oseg;
}.

Definition top_spec (F : list gspec) : gspec :=
  match F with
  | g :: _ => g
  | [] => {| gs_graph := {| g_nodes := []; g_mode := Pregel; g_eager := false; g_max := 0 |};
             gs_state := false; gs_st := []; gs_rerun := []; gs_before := []; gs_after := [];
             gs_leaf := []; gs_inkey := [] |}
  end.
Definition top_graph (F : list gspec) : graph := gs_graph (top_spec F).

(* the interrupted run, driven through the store until it completes *)
Definition run_ok (c : icase) : bool :=
  let '(cos, e) := run_drive (ic_forest c) (negb (ic_noid c)) (ic_mods c) (ic_input c) (env0 (ic_scheds c)) in
  segs_ok (top_spec (ic_forest c)) cos (call_logs e) (ic_segs c).

(* the reference run: no interrupt configuration, rerun tables off, no checkpoint id *)
Definition ref_ok (c : icase) : bool :=
  let F := map strip (ic_forest c) in
  let '(cos, e) := run_drive F false [] (ic_input c) (env0 (ic_ref_scheds c)) in
  segs_ok (top_spec F) cos (call_logs e) [ic_ref c].

Definition icase_bad (c : icase) : bool := negb (run_ok c && ref_ok c).

(* ---------- the observables property C05 itself constrains ----------
   Whole-run view (independent of where the run was interrupted): how the run ends (class, output), the
   multiset of lambda executions (node, input, aborted) of all calls and all nesting levels, and the
   multiset of state pre-handler runs of all calls — against the model driven until it completes,
   plus the reference run. A run that has not completed after the maximal number of resumes (on either
   side) is not compared. *)
Definition is_intr (n : N) : bool := N.eqb n cInterrupt.

Definition whole_ok (c : icase) : bool :=
  let top := top_spec (ic_forest c) in
  let '(cos, e) := run_drive (ic_forest c) (negb (ic_noid c)) (ic_mods c) (ic_input c) (env0 (ic_scheds c)) in
  match rev cos, rev (ic_segs c) with
  | co :: _, o :: _ =>
    let mcl := class_of (gs_graph top) (co_out co) in
    if is_intr mcl || is_intr (os_class o) then true
    else
      N.eqb mcl (os_class o)
      && match co_out co with ODone v => veq v (os_out o) | _ => true end
      && (negb (forallb os_execs_cmp (ic_segs c))
          || (mset_eqb (execs_of (e_log e)) (flat_map os_execs (ic_segs c))
              && list_eqb N.eqb (nsort (flat_map (fun co => pres_of top (co_log co)) cos ++ pres_in (e_log e)))
                                (nsort (flat_map os_pres (ic_segs c)))))
  | _, _ => false
  end.

Definition icase_bad_c05 (c : icase) : bool := negb (whole_ok c && ref_ok c).

(* debugging aid for replays: what the model computes *)
Definition model_segs (c : icase) :=
  let '(cos, e) := run_drive (ic_forest c) (negb (ic_noid c)) (ic_mods c) (ic_input c) (env0 (ic_scheds c)) in
  (map (fun co => (class_of (top_graph (ic_forest c)) (co_out co),
                   match co_out co with ODone v => Some (vnorm v) | _ => None end,
                   match co_out co with OInterrupted i _ => Some (proj_info i) | _ => None end,
                   co_written co, pres_of (top_spec (ic_forest c)) (co_log co))) cos, call_logs e).
