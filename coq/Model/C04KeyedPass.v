(* Model/C04KeyedPass.v — property C04 (round 6): the witness graph with passthrough nodes that carry a key
   (AddPassthroughNode with WithInputKey / WithOutputKey), as the harness prints it for the model: a wrapper
   around the identity, [SSub w SId].  corpus/C04/pass_inkey_typed_from_successor.json is this graph built
   through the Graph API and run on these chunks. *)
From Eino Require Import Base.Util Model.Paradigm Model.StreamOps Model.ParadigmProg Model.ParadigmSpec.
From Coq Require Import List String NArith.
Import ListNotations.
Local Open Scope string_scope.

(* n1 = passthrough behind the input key aa (picks a string; in Go its type comes from its successor n2, a
   lambda string -> map); n2 = Invoke-native producer of {af, ag}; n3 = passthrough under the output key ah;
   n4 = passthrough behind the input key ah (picks the nested map again); n5 = Collect-native map -> string *)
Definition keyed_pass_prog : sprog :=
  SSeq (SSub (Build_swrap None (Some 0%N) None None) SId)
 (SSeq (SNode (Build_swrap None None None None) 2%N
          (Build_nspec 2%N "n2" 5%N 6%N true false false false 1%N 0%N false))
 (SSeq (SSub (Build_swrap None None (Some 7%N) None) SId)
 (SSeq (SSub (Build_swrap None (Some 7%N) None None) SId)
       (SNode (Build_swrap None None None None) 5%N
          (Build_nspec 1%N "n5" 0%N 0%N false false true false 0%N 0%N false))))).

(* the caller's chunks: fragments of the string under aa in the first and the third chunk, a chunk that
   lacks the key in between, a nested map under ac *)
Definition keyed_pass_chunks : list val :=
  [VM [((0%N, KStr), "he")];
   VM [((1%N, KStr), "q")];
   VM [((0%N, KStr), "llo"); ((2%N, KMap), ""); ((2%N, KSub 3%N KStr), "x")];
   VM [((2%N, KMap), ""); ((2%N, KSub 3%N KStr), "yz")]].

(* their concatenation: what Invoke is called with *)
Definition keyed_pass_input : val :=
  VM [((0%N, KStr), "hello"); ((1%N, KStr), "q"); ((2%N, KMap), ""); ((2%N, KSub 3%N KStr), "xyz")].
