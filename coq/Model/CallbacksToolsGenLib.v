(* Model/CallbacksToolsGenLib.v — the vocabulary of the translator tie "c10_tools" (property C10): what the
   tables that tools/go2v reads off compose/tool_node.go (coq/Gen/CallbacksToolCalls.v) MEAN on the model's
   data.  Proofs/GenAgreeCallbacksTools.v proves that with this meaning the code is the model's [call_ops] /
   the [GTools] case of [node_ops] (Model/Callbacks.v).

   Definitions only. *)
From Coq Require Import List String NArith Bool.
From Eino Require Import Base.Util Base.GoSlice Model.Callbacks.
Import ListNotations.
Local Open Scope string_scope.

Fixpoint slist_eqb {A} (eqb : A -> A -> bool) (a b : list A) : bool :=
  match a, b with
  | [], [] => true
  | x :: a', y :: b' => eqb x y && slist_eqb eqb a' b'
  | _, _ => false
  end.
Definition spair_eqb (a b : string * string) : bool := String.eqb (fst a) (fst b) && String.eqb (snd a) (snd b).

(* one entry function of a tool call, as read off the source: (the function that derives the callback context
   from the context it is given, the fields of the run info literal sorted by name, the method of the tool's
   runnable packer that is called, what it is called on) *)
Definition tc_entry := (string * list (string * string) * string * string)%type.

(* the run info is the TOOL's own: the name of the tool that is called, its implementation type, its component
   kind (the fields of the task filled by genToolCallTasks / newUnknownToolTask from the tool's executorMeta) *)
Definition tool_run_info : list (string * string) :=
  [("Component", "task.meta.component"); ("Name", "task.name"); ("Type", "task.meta.componentImplType")].

(* Meaning of an entry on the model's contexts: for the tool call unit [cu] with the tool's run info [cinf] of the
   ToolsNode unit [tn]: the operation that creates the call's context, and the mode (false = Invoke, true =
   Stream / transform side) in which the tool's runnable packer is then called on that context.  Anything else
   (another deriving function, another run info, a call on another context) has no meaning here. *)
Definition tc_sem (e : tc_entry) (tn cu : ukey) (cinf : info) : option (op * bool) :=
  let '(derive, fields, method, on) := e in
  if String.eqb derive "callbacks.ReuseHandlers" && slist_eqb spair_eqb fields tool_run_info
     && String.eqb on "task.r(ctx,task.arg,opts...)"
  then if String.eqb method "Invoke" then Some (OReuse tn cu cinf, false)
       else if String.eqb method "Stream" then Some (OReuse tn cu cinf, true)
       else None
  else None.

Fixpoint slookup {B} (k : string) (l : list (string * B)) : option B :=
  match l with
  | [] => None
  | (k', v) :: l' => if String.eqb k k' then Some v else slookup k l'
  end.

(* what a ToolsNode called in mode [is_stream] does per tool call: the entry its method (Invoke / Stream) hands to
   parallelRunToolCall, on the method's own context *)
Definition tn_call_sem (modes : list (string * (string * string))) (entries : list (string * tc_entry))
           (is_stream : bool) (tn cu : ukey) (cinf : info) : option (op * bool) :=
  match slookup (if is_stream then "Stream" else "Invoke") modes with
  | Some (c, entry) =>
      if String.eqb c "ctx" then
        match slookup entry entries with
        | Some e => tc_sem e tn cu cinf
        | None => None
        end
      else None
  | None => None
  end.

(* a newRunnablePacker call of tool_node.go: (enclosing function, enableCallback argument, the
   isComponentCallbackEnabled field of the executorMeta literal of that function).  The graph injects the
   callbacks around a tool exactly when the tool does not fire them itself: the argument is the negation of the
   meta's flag, as an expression or - where the meta is a literal of the same function - as the two literals. *)
Definition packer_injects_iff_not_self (p : string * string * string) : bool :=
  let '(_, arg, enabled) := p in
  (String.eqb arg "!meta.isComponentCallbackEnabled" && String.eqb enabled "")
  || (String.eqb arg "true" && String.eqb enabled "false")
  || (String.eqb arg "false" && String.eqb enabled "true").

(* parallelRunToolCall: a call run(c, t, …) is made on the context the function was given (directly, or through the
   goroutine's parameter ctx_ bound to it) and on one element of tasks (directly, or through the parameter t) *)
Definition run_call_on_own_ctx (go_args : list string) (ct : string * string) : bool :=
  let '(c, t) := ct in
  (String.eqb c "ctx" || (String.eqb c "ctx_" && String.eqb (nth 0 go_args "") "ctx"))
  && (String.eqb t "&tasks[0]" || (String.eqb t "t" && String.eqb (nth 1 go_args "") "&tasks[i]")).
