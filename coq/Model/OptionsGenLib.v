(* Model/OptionsGenLib.v — property C16: the vocabulary of the translator tie.

   tools/go2v (extractors "optextract", "optcallbacks", "optdesignate") re-reads
     compose/utils.go               extractOption, initGraphCallbacks, initNodeCallbacks
     compose/graph_call_options.go  Option.DesignateNodeWithPath, Option.DesignateNode, Option.deepCopy
   with go/ast on every run and translates them statement by statement into Gallina
   (coq/Gen/OptExtract.v, Gen/OptCallbacks.v, Gen/OptDesignate.v). This file says what the Go
   operations of that imperative fragment mean on the data of Model/Options.v:

     control     a block is an expression of type [ctl A] (A = the one variable the block
                 mutates: optMap / cbs): fall through or `continue` = [Next], `break` = [Break],
                 `return acc, nil` = [Return], `return nil, fmt.Errorf(..)` = [Fail code];
                 `for .. range l` = [go_range]
     partiality  s[0], s[1:] on an empty slice panic in Go: [go_first], [go_rest] are
                 option-valued and the translation ends in [Crash] (= [Panic] of Base/Util.v) on
                 None; the agreement theorems (Proofs/GenAgreeC16.v) show the translated functions
                 equal to the model's, which never panic: no index of these functions is out of range
     maps        nodes (map[string]*chanCall) = the graph's node list (iterated in list order;
                 Props/C16.v map_order_irrelevant: the order is invisible), a two-value lookup =
                 [find_node]; optMap (map[string][]any) = the association list [optmap],
                 `optMap[k] = append(optMap[k], xs...)` = [om_append]
     types       c.action.optionType = [option_type] (nil for a sub graph),
                 reflect.TypeOf(opt.options[0]) = the type id of the first item

   Executable definitions only. *)
From Eino Require Import Base.Util Model.Options.

Definition E_NORETURN : N := 94.   (* control reached the end of a function that returns values *)
Definition E_MESSAGE : N := 93.    (* an error whose message the translator has no code for *)

Inductive ctl (A : Type) : Type :=
| Next (a : A)
| Break (a : A)
| Return (a : A)
| Fail (e : N)
| Crash.           (* index out of range *)
Arguments Next {A} a.
Arguments Break {A} a.
Arguments Return {A} a.
Arguments Fail {A} e.
Arguments Crash {A}.

(* for _, x := range l { body } ; the result is what the statements after the loop start from *)
Fixpoint go_range {X A} (body : X -> A -> ctl A) (l : list X) (a : A) : ctl A :=
  match l with
  | [] => Next a
  | x :: l' =>
      match body x a with
      | Next a' => go_range body l' a'
      | Break a' => Next a'
      | Return a' => Return a'
      | Fail e => Fail e
      | Crash => Crash
      end
  end.

(* a loop followed by the rest of the block *)
Definition go_seq {A} (c : ctl A) (k : A -> ctl A) : ctl A :=
  match c with
  | Next a | Break a => k a
  | Return a => Return a
  | Fail e => Fail e
  | Crash => Crash
  end.

(* the result of a function whose body is the block [c] *)
Definition go_result {A} (c : ctl A) : res A :=
  match c with
  | Return a => Ok a
  | Fail e => Err e
  | Crash => Panic
  | Next _ | Break _ => Err E_NORETURN
  end.

(* a function that returns one value: falls off the end never (Go rejects it) *)
Definition go_value {A} (c : ctl A) (dflt : A) : A :=
  match c with
  | Return a | Next a | Break a => a
  | Fail _ | Crash => dflt
  end.

(* s[0] and s[1:] *)
Definition go_first {X} (s : list X) : option X := hd_error s.
Definition go_rest {X} (s : list X) : option (list X) :=
  match s with [] => None | _ :: r => Some r end.
Definition go_len {X} (s : list X) : nat := List.length s.

(* c.action.optionType: nil for a sub graph *)
Definition option_type (nd : node) : option N :=
  match n_kind nd with KSub _ => None | KComp ty => Some ty end.
(* c.action == nil: every node of a compiled graph has an action; c.action.checkOption == nil: only
   runner.toComposableRunnable (a graph used as a node) installs one *)
Definition action_nil (nd : node) : bool := false.
Definition check_nil (nd : node) : bool :=
  match n_kind nd with KSub _ => false | KComp _ => true end.
Definition rt_nil (t : option N) : bool := match t with None => true | Some _ => false end.
(* reflect.TypeOf(v) == t for a non-nil interface value v of dynamic type [tv] *)
Definition rt_eq (tv : N) (t : option N) : bool :=
  match t with Some t' => N.eqb tv t' | None => false end.
(* the dynamic type of one element of Option.options *)
Definition item_type (i : item) : N := fst i.

(* Option values: field updates and the value-level reading of deepCopy *)
Definition set_paths (o : copt) (ps : list path) : copt := mkOpt (o_items o) (o_handlers o) ps.
Definition mk_option (its : list item) (hs : list N) (ps : list path) : copt := mkOpt its hs ps.

(* what is appended to optMap[k] *)
Definition ent_opt (o : copt) : list entry := [EOpt o].
Definition ent_items (its : list item) : list entry := map EItem its.

Definition key_eqb (a b : key) : bool := N.eqb a b.
