(* Model/StreamRunV0.v — property C19: the run loop of Model/StreamRun.v with the two channel
   operations dagChannel.reportSkip / reportValues as parameters, and the operations as they were
   BEFORE the repairs 14672f6 (F-C19b: a stream reported to a skipped channel was dropped) and
   760a968 (the streams already stored in a channel that becomes skipped were kept unclosed).
   [run_g report_skip report_value] is the current model ([run_g_current] in Proofs/StreamRunV0.v).
   Executable definitions only. *)
From Eino Require Import Base.Util Model.StreamAcct Model.StreamRun.
Open Scope N_scope.

Section Gen.
Variable rs : graph -> key -> key -> rstate -> res (bool * rstate).            (* reportSkip([k]) on x *)
Variable rv : graph -> key -> key -> handle -> rstate -> res rstate.           (* reportValues({from: h}) on x *)

Fixpoint skip_each_g (g : graph) (from : key) (xs : list key) (queued : list key) (st : rstate)
  : res (list key * list key * rstate) :=
  match xs with
  | [] => Ok ([], queued, st)
  | x :: xs' =>
      do r <- rs g x from st;
      let '(sk, st1) := r in
      let isnew := sk && negb (memb x queued) in
      do r2 <- skip_each_g g from xs' (if isnew then x :: queued else queued) st1;
      let '(ks, q2, st2) := r2 in
      Ok (if isnew then x :: ks else ks, q2, st2)
  end.

Fixpoint cascade_g (g : graph) (fuel : nat) (work : list key) (queued : list key) (st : rstate) : res rstate :=
  match work with
  | [] => Ok st
  | k :: rest =>
      match fuel with
      | O => Err E_FUEL
      | S f =>
          match call_of g k with
          | None => Err E_UNKNOWN_NODE
          | Some c =>
              do r <- skip_each_g g k (succs c) queued st;
              let '(ks, q1, st1) := r in
              cascade_g g f (rest ++ ks) q1 st1
          end
      end
  end.

Definition report_branch_g (g : graph) (from : key) (skipped : list key) (st : rstate) : res rstate :=
  do r <- skip_each_g g from skipped [] st;
  let '(ks, q, st1) := r in
  cascade_g g CASCADE_FUEL ks q st1.

Definition resolve_one_g (g : graph) (c : call) (t : task) (out : handle) (st : rstate) : res (resolved * rstate) :=
  do r <- resolve_task t out (rs_store st);
  let st1 := set_store st (r_store r) in
  do s2 <- consume_all (r_branch_in r) (rs_store st1);
  let st2 := set_store st1 s2 in
  do st3 <- report_branch_g g (t_node t) (skipped_ends c t) st2;
  do st4 <- close_all OResolve (r_closed r) st3;
  Ok (r, st4).

Fixpoint report_values_g (g : graph) (from : key) (ws : list (key * handle)) (st : rstate) : res rstate :=
  match ws with
  | [] => Ok st
  | (x, h) :: ws' => do st1 <- rv g x from h st; report_values_g g from ws' st1
  end.

Definition update_one_g (g : graph) (t : task) (r : resolved) (st : rstate) : res rstate :=
  let u := update_values t (r_writes r) in
  do st1 <- close_all OUpdate (u_closed u) st;
  report_values_g g (t_node t) (u_chan u) st1.

Fixpoint phase1_g (g : graph) (b : batch) (st : rstate) : res (list (call * task * resolved) * rstate) :=
  match b with
  | [] => Ok ([], st)
  | (k, outs) :: b' =>
      match call_of g k with
      | None => Err E_BAD_SCHEDULE
      | Some c =>
          do t <- mk_task k c outs;
          let '(out, s1) := fresh (rs_store st) in
          do r <- resolve_one_g g c t out (set_store st s1);
          let '(rv', st1) := r in
          do r2 <- phase1_g g b' st1;
          let '(l, st2) := r2 in
          Ok ((c, t, rv') :: l, st2)
      end
  end.

Fixpoint phase2_g (g : graph) (l : list (call * task * resolved)) (st : rstate) : res rstate :=
  match l with
  | [] => Ok st
  | (c, t, r) :: l' => do st1 <- update_one_g g t r st; phase2_g g l' st1
  end.

Definition resolve_phases_g (g : graph) (b : batch) (st : rstate) : res rstate :=
  do r1 <- phase1_g g b st;
  let '(l, st1) := r1 in
  do st2 <- phase2_g g l st1;
  do st3 <- phase3 g l st2;
  Ok (mark_resolved (map fst b) st3).

Definition calc_next_g (g : graph) (b : batch) (st : rstate) : res (list (key * handle) * rstate) :=
  if negb (batch_fits g b (rs_pending st)) then Err E_BAD_SCHEDULE else
  do st3' <- resolve_phases_g g b st;
  get_ready g (chan_keys g) st3'.

Definition superstep_g (g : graph) (b : batch) (st : rstate) : res outcome :=
  do r4 <- calc_next_g g b st;
  let '(ready, st4) := r4 in
  match nlist_get kEND ready with
  | Some out => Ok (Done out (filter (fun kh => negb (N.eqb (fst kh) kEND)) ready) st4)
  | None =>
      do s <- consume_all (map snd ready) (rs_store st4);
      Ok (Running (set_store st4 s))
  end.

Definition init_state_g (g : graph) : res rstate :=
  if g_dag g then report_branch_g g kSTART (unreachable g) state0 else Ok state0.

Fixpoint run_from_g (g : graph) (sched : list batch) (st : rstate) : res outcome :=
  match sched with
  | [] => Ok (Running st)
  | b :: rest =>
      do o <- superstep_g g b st;
      match o with
      | Running st' => run_from_g g rest st'
      | Done _ _ _ => match rest with [] => Ok o | _ :: _ => Err E_BAD_SCHEDULE end
      end
  end.

Definition run_g (g : graph) (sched : list batch) : res outcome :=
  do st <- init_state_g g; run_from_g g sched st.
End Gen.

(* dagChannel.reportValues before 14672f6:  if ch.Skipped { return nil }  — the value is dropped *)
Definition report_value_v0 (g : graph) (x from : key) (h : handle) (st : rstate) : res rstate :=
  if negb (is_chan g x) then Err E_UNKNOWN_NODE else
  let c := rs_chans st x in
  if g_dag g then
    if ch_skipped c then Ok st
    else if is_data_pred_g g from x then
      Ok (set_chan st x {| ch_ctrl := ch_ctrl c; ch_data := upd (ch_data c) from true;
                           ch_vals := upd (ch_vals c) from (Some h); ch_skipped := false |})
    else Ok st
  else
    Ok (set_chan st x {| ch_ctrl := ch_ctrl c; ch_data := ch_data c;
                         ch_vals := upd (ch_vals c) from (Some h); ch_skipped := ch_skipped c |}).

(* dagChannel.reportSkip before 760a968:  ch.Skipped = allSkipped; return allSkipped  — the stored
   values are neither closed nor deleted *)
Definition report_skip_v0 (g : graph) (x k : key) (st : rstate) : res (bool * rstate) :=
  if negb (g_dag g) then Ok (false, st) else
  if negb (is_chan g x) then Panic else
  let c := rs_chans st x in
  let ctrl := if is_ctrl_pred g k x then upd (ch_ctrl c) k DSkip else ch_ctrl c in
  let data := if is_data_pred_g g k x then upd (ch_data c) k true else ch_data c in
  let all := forallb (fun p => negb (is_ctrl_pred g p x) || is_dskip (ctrl p)) (all_keys g) in
  Ok (all, set_chan st x {| ch_ctrl := ctrl; ch_data := data; ch_vals := ch_vals c; ch_skipped := all |}).

Definition run_v0_values : graph -> list batch -> res outcome := run_g report_skip report_value_v0.
Definition run_v0_skip : graph -> list batch -> res outcome := run_g report_skip_v0 report_value.
