(* Model/TypesGenLibP.v — property C07: the panic-aware vocabulary of the translation of
   compose/utils.go:checkAssignable (tools/go2v, extractor "assignable" -> Gen/Assignable.v,
   definition [check_assignable_p]).

   Model/TypesGenLib.v totalises the reflect operations (a method called on the nil reflect.Type
   answers false), so a translation over it cannot see a dropped nil test.  Here a Go boolean
   expression evaluates to [option bool] and the decision function to [option assignable]:
   [None] = the evaluation panics (a method called on the nil reflect.Type, Implements with an
   argument that is nil or not an interface type).  && and || evaluate their right operand only
   when Go does; == between two boolean expressions evaluates both.  The agreement theorem
   (Proofs/GenAgreeTypes.v) says: for every pair of (possibly nil) types the translated function
   returns [Some] of what the model's [check_assignable] returns — it never panics — whatever
   the unknown predicates [unk] answer.
   Definitions only. *)
From Eino Require Import Base.Util Model.Types Model.TypesGenLib.
Local Open Scope string_scope.

Definition pb := option bool.

Definition pb_const (b : bool) : pb := Some b.

(* a && b *)
Definition pb_and (a b : pb) : pb :=
  match a with Some true => b | Some false => Some false | None => None end.

(* a || b *)
Definition pb_or (a b : pb) : pb :=
  match a with Some true => Some true | Some false => b | None => None end.

(* !a *)
Definition pb_not (a : pb) : pb :=
  match a with Some x => Some (negb x) | None => None end.

(* a == b on booleans: both operands are evaluated *)
Definition pb_beq (a b : pb) : pb :=
  match a, b with Some x, Some y => Some (Bool.eqb x y) | _, _ => None end.

(* if c { t } else { e } where both arms return *)
Definition pb_if {A : Type} (c : pb) (t e : option A) : option A :=
  match c with Some true => t | Some false => e | None => None end.

(* x == nil ; x == y : comparisons of interface values holding *rtype pointers never panic *)
Definition rtp_is_nil (x : option ty) : pb := Some (rt_is_nil x).
Definition rtp_eq (x y : option ty) : pb := Some (rt_eq x y).

(* x.Kind() == reflect.K : panics on the nil reflect.Type.  The model knows one kind test:
   Interface.  Another kind K is false for an interface type and unknown for a concrete type. *)
Definition rtp_kind_is (unk : string -> option ty -> option ty -> bool) (k : string) (x : option ty) : pb :=
  match x with
  | None => None
  | Some t =>
      if String.eqb k "Interface" then Some (is_iface t)
      else if is_iface t then Some false
      else Some (unk ("Kind." ++ k) x None)
  end.

(* x.Implements(y) : panics when x is nil (method call on a nil interface value), when y is nil
   ("reflect: nil type passed to Type.Implements") and when y is not an interface type
   ("reflect: non-interface type passed to Type.Implements") *)
Definition rtp_implements (u : univ) (x y : option ty) : pb :=
  match x, y with
  | Some t, Some a => if is_iface a then Some (implements u t a) else None
  | _, _ => None
  end.

(* x.M(y) for a method M the model does not know: panics on a nil receiver, otherwise unknown *)
Definition rtp_unk (unk : string -> option ty -> option ty -> bool) (m : string) (x y : option ty) : pb :=
  match x with
  | None => None
  | Some _ => Some (unk m x y)
  end.
