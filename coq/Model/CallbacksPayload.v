(* Model/CallbacksPayload.v — the payload of a callback invocation (property C10: "... with the
   payload the unit consumed or produced").

   internal/callbacks/inject.go:56-91: On(ctx, inOut, handle, timing) hands the value it was
   called with to the handle function, and OnStartHandle / OnEndHandle / OnErrorHandle invoke
   every selected handler with that same value (handlers return a context only; the value On
   returns to its caller is the one it was given).  [pstep]: the events a step adds to the log
   carry the payload of the operation.

   compose/utils.go:162-178 (runWithCallbacks): onStart is called with the input the component
   is then run on, onEnd with the output it returned, onError with the error it returned;
   compose/graph_run.go:104-116,240: onGraphStart with the input of the run, onGraphEnd with its
   result, onGraphError with its error.  [annot]: the On operations of a graph run carry
   [pin u] (what unit u consumes), [pout u] (what it produced) or [perr u] (the error it ended
   with).  Payloads are identities, not contents: which value, not what is in it.

   Definitions only. *)
From Coq Require Import List NArith Bool.
From Eino Require Import Base.Util Base.GoSlice Model.Callbacks Model.CallbacksSched.
Import ListNotations.
Local Open Scope N_scope.

Definition payload := N.
Definition pop := (op * payload)%type.       (* the payload matters for OOn only *)

Record pstate := { p_st : state; p_log : list (event * payload) }.
Definition pstate0 : pstate := {| p_st := state0; p_log := [] |}.

Definition pstep (fixed : bool) (w : world) (ps : pstate) (po : pop) : pstate :=
  let st' := step fixed w (p_st ps) (fst po) in
  {| p_st := st';
     p_log := p_log ps ++
              map (fun e => (e, snd po)) (skipn (List.length (st_log (p_st ps))) (st_log st')) |}.

Definition prun (fixed : bool) (w : world) (pops : list pop) : pstate := fold_left (pstep fixed w) pops pstate0.

Definition ev_timing (e : event) : timing := match e with Ev _ _ t _ => t end.

(* scripts: the k-th operation is given payload k+1 *)
Fixpoint number_from (k : N) (ops : list op) : list pop :=
  match ops with
  | [] => []
  | o :: ops' => (o, k) :: number_from (k + 1) ops'
  end.
Definition numbered (ops : list op) : list pop := number_from 1 ops.

(* graph runs *)
Definition pin (u : ukey) : payload := 3 * u.
Definition pout (u : ukey) : payload := 3 * u + 1.
Definition perr (u : ukey) : payload := 3 * u + 2.
Definition payload_of (u : ukey) (t : timing) : payload :=
  match t with
  | TStart | TStartStream => pin u
  | TEnd | TEndStream => pout u
  | TError => perr u
  end.
Definition annot (o : op) : pop :=
  (o, match o with OOn u t => payload_of u t | _ => 0 end).

(* what the harness reports per event of a graph run: 0 = the payload the unit consumed,
   1 = the one it produced, 2 = the error it ended with (8 = could not tell) *)
Definition label_of (u : ukey) (p : payload) : N :=
  if N.eqb p (pin u) then 0 else if N.eqb p (pout u) then 1 else if N.eqb p (perr u) then 2 else 9.
