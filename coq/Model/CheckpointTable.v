(* Model/CheckpointTable.v — property C05: what the model takes a checkpoint to consist of, as tables that
   Gen/CheckpointCode.v (re-read from the Go source on every run) must equal (Proofs/GenAgreeC05.v).

   checkpoint_fields          the record [checkpoint] of Model/RunLoop.v, field by field:
                              Channels = cp_cs, Inputs = cp_inputs, State = cp_gs, SkipPreHandler = cp_skip,
                              SubGraphs = cp_subs. A sixth persisted field would be state the model does not carry.
   dag_channel_persisted      the exported (= serialised: the serializer writes exported fields only) fields of
                              dagChannel = the four fields of the record [chan] of Model/Graph.v
                              (ControlPredecessors = c_ctrl, Values = c_vals, DataPredecessors = c_data, Skipped = c_skipped);
   dag_channel_rebuilt        the unexported ones: supplied again by Compile, not part of the checkpoint (the
                              model: v_zero of the value operations)
   pregel_channel_persisted   Values = c_vals (the other three fields of [chan] stay at their initial value)
   restore_steps_ctx/_store   the steps of the two restore blocks of runner.run, in order: the model's
                              [resume] / [seg_resumed] = loadChannels (ls_cs := cp_cs), state modifier applied to the
                              restored state only if there is one ([bump] of None = None), the state handed to the
                              run, restoreTasks on (Inputs, SkipPreHandler) with the nested checkpoints in reach
                              (setCheckPointToCtx before restoreTasks). *)
From Eino Require Import Base.Util.
Open Scope string_scope.

Definition checkpoint_fields : list string := ["Channels"; "Inputs"; "State"; "SkipPreHandler"; "SubGraphs"].
Definition dag_channel_persisted : list string := ["ControlPredecessors"; "Values"; "DataPredecessors"; "Skipped"].
Definition dag_channel_rebuilt : list string := ["zeroValue"; "emptyStream"].
Definition pregel_channel_persisted : list string := ["Values"].
Definition pregel_channel_rebuilt : list string := [].
Definition restore_steps_ctx : list string :=
  ["restoreCheckPoint(cp,isStream)"; "loadChannels(cp.Channels)"; "stateModifier[sm!=nil&&cp.State!=nil]";
   "setState[cp.State!=nil]"; "restoreTasks(cp.Inputs,cp.SkipPreHandler)"].
Definition restore_steps_store : list string :=
  ["restoreCheckPoint(cp,isStream)"; "loadChannels(cp.Channels)"; "setStateModifier"; "setCheckPointToCtx(cp)";
   "stateModifier[sm!=nil&&cp.State!=nil]"; "setState[cp.State!=nil]"; "restoreTasks(cp.Inputs,cp.SkipPreHandler)"].
