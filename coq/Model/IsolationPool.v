(* Model/IsolationPool.v — property C09, instance 6 of the product system of Model/Isolation.v:
   a per-run object RECYCLED across runs, and a run that returns while one of its tasks is still
   executing (eager mode, compose/graph_manager.go: a workflow collects its tasks one by one,
   `taskManager.waitOne`, and `runner.run` returns on the first failing one).

   The shape of the seeded change C09-taskmanager-pool-recycled and of own mutant N30
   (notes/C09.md): `initTaskManager` draws the manager from a pool, `run` puts it back on return;
   the executor goroutine of an abandoned task still holds the manager and pushes its finished
   task into it later — into whichever run drew that manager next.

   A manager is a mailbox of finished tasks (their outputs).  Shared store of the pooled variant:
   the heap of mailboxes and the free list.  A run:
     pc 0  acquire a manager (pooled: pop the free list if it is not empty, else allocate);
     pc 1  healthy run: its task completes and is pushed into the run's manager;
           faulted run: a sibling fails, the run RETURNS now and releases its manager
                        (mailbox cleared, address onto the free list) — its task is still running;
     pc 2  healthy run: collect the first finished task of its manager: that is the result;
                        release the manager;
           faulted run: the abandoned task completes and is pushed into the manager the executor
                        still holds (a late completion).
   In the code as it is (the fresh variant) a manager is allocated by the run and reachable from
   that run and its own executors only: the mailbox is part of the run's state.  Definitions only. *)
From Eino Require Import Base.Util Model.Isolation.

Record prun : Type := {
  p_pc : N;
  p_val : N;                   (* the output of the run's task                     *)
  p_fault : bool;              (* the run returns while its task is still running  *)
  p_box : option nat;          (* pooled: the address of the manager it holds      *)
  p_own : list N;              (* fresh: the run's own mailbox                     *)
  p_ret : option (option N)    (* Some None = returned the sibling's error; Some (Some v) = result v *)
}.

Definition pinit (v : N) (fault : bool) : prun :=
  {| p_pc := 0; p_val := v; p_fault := fault; p_box := None; p_own := []; p_ret := None |}.

Record pstore : Type := { ps_heap : list (list N); ps_free : list nat }.

Fixpoint set_nth {A} (i : nat) (a : A) (l : list A) : list A :=
  match l, i with
  | [], _ => []
  | _ :: l', O => a :: l'
  | x :: l', S i' => x :: set_nth i' a l'
  end.

Definition heap_push (s : pstore) (b : nat) (v : N) : pstore :=
  {| ps_heap := set_nth b (nth b (ps_heap s) [] ++ [v]) (ps_heap s); ps_free := ps_free s |}.

(* release(): what the run has not collected is dropped, the manager goes back to the pool *)
Definition heap_release (s : pstore) (b : nat) : pstore :=
  {| ps_heap := set_nth b [] (ps_heap s); ps_free := b :: ps_free s |}.

Definition with_pc (r : prun) (pc : N) (box : option nat) (ret : option (option N)) : prun :=
  {| p_pc := pc; p_val := p_val r; p_fault := p_fault r; p_box := box; p_own := p_own r; p_ret := ret |}.

(* the pooled variant: managers live in the shared store *)
Definition pstep_pool (s : pstore) (r : prun) : option (pstore * prun) :=
  if N.eqb (p_pc r) 0 then
    match ps_free s with
    | b :: free' => Some ({| ps_heap := ps_heap s; ps_free := free' |}, with_pc r 1 (Some b) None)
    | [] => Some ({| ps_heap := ps_heap s ++ [[]]; ps_free := [] |}, with_pc r 1 (Some (List.length (ps_heap s))) None)
    end
  else match p_box r with
       | None => None
       | Some b =>
           if N.eqb (p_pc r) 1 then
             if p_fault r then Some (heap_release s b, with_pc r 2 (Some b) (Some None))
             else Some (heap_push s b (p_val r), with_pc r 2 (Some b) None)
           else if N.eqb (p_pc r) 2 then
             if p_fault r then Some (heap_push s b (p_val r), with_pc r 3 (Some b) (p_ret r))   (* late completion *)
             else Some (heap_release s b, with_pc r 3 (Some b) (Some (hd_error (nth b (ps_heap s) []))))
           else None
       end.

(* the code as it is: `&taskManager{…}` per run — the mailbox is the run's own *)
Definition pstep_fresh (s : pstore) (r : prun) : option (pstore * prun) :=
  let own (pc : N) (box : list N) (ret : option (option N)) :=
    {| p_pc := pc; p_val := p_val r; p_fault := p_fault r; p_box := None; p_own := box; p_ret := ret |} in
  if N.eqb (p_pc r) 0 then Some (s, own 1%N [] None)
  else if N.eqb (p_pc r) 1 then
    if p_fault r then Some (s, own 2%N (p_own r) (Some None))
    else Some (s, own 2%N (p_own r ++ [p_val r]) None)
  else if N.eqb (p_pc r) 2 then
    if p_fault r then Some (s, own 3%N (p_own r ++ [p_val r]) (p_ret r))                          (* goes nowhere *)
    else Some (s, own 3%N (p_own r) (Some (hd_error (p_own r))))
  else None.

Definition pstore0 : pstore := {| ps_heap := []; ps_free := [] |}.
