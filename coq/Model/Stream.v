(* Model/Stream.v — executable model of schema/stream.go, schema/select.go (property C08).

   Items are [IVal v | IErr e] (a Go (chunk, err) pair with err <> io.EOF).  The state is a
   store of *base streams* (one Go [stream[T]]: bounded item channel + closed-signal channel),
   *copy parents* ([parentStreamReader]: the lazily filled shared linked list of
   [cpStreamElement]s is the list [p_items] plus the flag [p_eof] for the final EOF element;
   child i's pointer into the list is the cursor [p_cur i], [None] = the nil pointer of a
   closed child; [p_closed] = closedNum), *forwarder goroutines* (the goroutine started by
   [toStream] when a convert/child reader is merged) and the table of reader handles that
   user code holds.  Readers are trees: a convert reader owns its source, a copy parent owns
   its source, a forwarder owns its source; only base streams and (parent, index) pairs are
   references — exactly the ownership discipline of the Go API ("the original StreamReader
   becomes unusable after Copy").

   Every API call is one atomic step [do_op]; an operation that would block in Go returns
   [PBlock]/[SBlock] (possibly after partial progress: a convert reader that skipped items,
   a merge reader that retired finished sources) and is simply attempted again later.  The
   choice made by Go's [select] among several ready channels is an explicit argument
   ([ch : list nat]) so that the step function is deterministic and theorems quantify over
   every choice.  What is assumed (not modelled): Go channel / select semantics (FIFO
   buffers, close wakes receivers, a select picks any ready case), that [sync.Once] makes the
   fill of one list element atomic w.r.t. the other children, and atomics on closedNum.
   Capacity 0 (rendezvous) is modelled as a one-slot buffer whose content is taken by the
   receiver at once: every behaviour of the unbuffered channel is a behaviour of that model
   (sound for the safety theorems).

   Fields named "ghost" (s_sent, s_deliv, the [done] part of RArr, cin, cout, p_got, p_sawEOF,
   p_pulls, p_srcclosed, h_closed, h_got, h_eof, f_eof) are history variables: written, never
   read by the operational part. *)
From Eino Require Import Base.Util.

(* ------------------------------------------------------------------ items *)

Inductive item : Type := IVal (v : N) | IErr (e : N).

Definition item_eqb (a b : item) : bool :=
  match a, b with
  | IVal x, IVal y => N.eqb x y
  | IErr x, IErr y => N.eqb x y
  | _, _ => false
  end.

(* error class of ErrRecvAfterClosed *)
Definition err_after_closed : N := 0%N.

(* result of a user conversion function: value, error, or ErrNoValue *)
Inductive cres : Type := CVal (v : N) | CErr (e : N) | CSkip.
Definition cfun := N -> cres.

(* streamReaderWithConvert.recv on one source item: errors of the source pass through
   unconverted; a converted value, a conversion error (delivered as an item, the stream
   goes on) or skip *)
Definition conv_item (f : cfun) (x : item) : option item :=
  match x with
  | IErr e => Some (IErr e)
  | IVal v => match f v with
              | CVal v' => Some (IVal v')
              | CErr e => Some (IErr e)
              | CSkip => None
              end
  end.

Fixpoint filter_map {A B} (f : A -> option B) (l : list A) : list B :=
  match l with
  | [] => []
  | a :: l' => match f a with Some b => b :: filter_map f l' | None => filter_map f l' end
  end.

Fixpoint upd {A} (l : list A) (i : nat) (a : A) : list A :=
  match l, i with
  | [], _ => []
  | _ :: l', O => a :: l'
  | b :: l', S i' => b :: upd l' i' a
  end.

Fixpoint remove_nat (x : nat) (l : list nat) : list nat :=
  match l with
  | [] => []
  | y :: l' => if Nat.eqb x y then l' else y :: remove_nat x l'
  end.

(* ------------------------------------------------------------------ base streams *)

Record stream : Type := mkS {
  s_cap : nat;            (* make(chan, cap) *)
  s_buf : list item;      (* content of the items channel, oldest first *)
  s_sclosed : bool;       (* closeSend happened: close(items) *)
  s_rclosed : nat;        (* number of closeRecv calls: close(closed); a 2nd call panics in Go *)
  s_user : bool;          (* created by Pipe: user code holds the writer *)
  s_sent : list item;     (* ghost: items whose send returned closed=false, in order *)
  s_deliv : list item     (* ghost: items handed to a receiver, in order *)
}.

Definition eff_cap (c : nat) : nat := Nat.max c 1.

Inductive sres : Type := SOk | SClosed | SBlock | SPanic.

(* stream.send: first select on closed; then select {closed | items <- item} *)
Definition stream_send (s : stream) (x : item) : sres * stream :=
  if Nat.ltb 0 (s_rclosed s) then (SClosed, s)
  else if s_sclosed s then (SPanic, s)
  else if Nat.ltb (List.length (s_buf s)) (eff_cap (s_cap s))
       then (SOk, mkS (s_cap s) (s_buf s ++ [x]) (s_sclosed s) (s_rclosed s) (s_user s)
                       (s_sent s ++ [x]) (s_deliv s))
       else (SBlock, s).

(* stream.closeSend: close(items); closing twice panics *)
Definition stream_close_send (s : stream) : sres * stream :=
  if s_sclosed s then (SPanic, s)
  else (SOk, mkS (s_cap s) (s_buf s) true (s_rclosed s) (s_user s) (s_sent s) (s_deliv s)).

Inductive pres : Type :=
| PItem (x : item)   (* Recv returned (chunk, err) with err <> io.EOF *)
| PEOF               (* Recv returned io.EOF *)
| PBlock             (* the call blocks (state may have progressed) *)
| PFuel              (* model fuel exhausted: distinguished, never a normal result *)
| PBad.              (* dangling reference: distinguished, unreachable for states built by do_op *)

(* stream.recv: item, ok := <-items *)
Definition stream_recv (s : stream) : pres * stream :=
  match s_buf s with
  | x :: b => (PItem x, mkS (s_cap s) b (s_sclosed s) (s_rclosed s) (s_user s) (s_sent s) (s_deliv s ++ [x]))
  | [] => if s_sclosed s then (PEOF, s) else (PBlock, s)
  end.

Inductive clres : Type := ClOk | ClPanic | ClFuel | ClBad.

(* stream.closeRecv: close(closed) *)
Definition stream_close_recv (s : stream) : clres * stream :=
  (if Nat.ltb 0 (s_rclosed s) then ClPanic else ClOk,
   mkS (s_cap s) (s_buf s) (s_sclosed s) (S (s_rclosed s)) (s_user s) (s_sent s) (s_deliv s)).

Definition new_stream (cap : nat) (user : bool) : stream := mkS cap [] false 0 user [] [].

(* the stream MergeStreamReaders builds from array sources: filled and send-closed *)
Definition array_stream (arr : list N) : stream :=
  mkS (List.length arr) (map IVal arr) true 0 false (map IVal arr) [].

(* ------------------------------------------------------------------ readers *)

Inductive rd : Type :=
| RArr (done rest : list N)                          (* arrayReader: arr[index:]; ghost: what this reader object delivered *)
| RStr (s : nat)                                     (* readerTypeStream *)
| RMul (sts : list nat) (chosen : list nat)          (* multiStreamReader: sts, chosenList *)
| RConv (f : cfun) (src : rd) (cin cout : list item) (* streamReaderWithConvert; ghost logs *)
| RChild (p i : nat).                                (* childStreamReader *)

Record parent : Type := mkP {
  p_src : rd;                       (* sr *)
  p_items : list item;              (* filled elements of the linked list, in order *)
  p_eof : bool;                     (* the last element has been filled with io.EOF *)
  p_cur : list (option nat);        (* subStreamList: index of child i's element; None = nil *)
  p_closed : nat;                   (* closedNum *)
  p_srcclosed : nat;                (* ghost: number of sr.Close() calls *)
  p_pulls : nat;                    (* ghost: number of completed sr.Recv() calls *)
  p_got : list (list item);         (* ghost: items returned to child i by peek *)
  p_sawEOF : list bool              (* ghost: peek returned io.EOF to child i *)
}.

Record store : Type := mkSt { streams : list stream; parents : list parent }.

Definition set_stream (st : store) (i : nat) (s : stream) : store :=
  mkSt (upd (streams st) i s) (parents st).
Definition set_parent (st : store) (i : nat) (p : parent) : store :=
  mkSt (streams st) (upd (parents st) i p).
Definition add_stream (st : store) (s : stream) : store :=
  mkSt (streams st ++ [s]) (parents st).
Definition add_parent (st : store) (p : parent) : store :=
  mkSt (streams st) (parents st ++ [p]).

Definition stream_ready (st : store) (sid : nat) : bool :=
  match nth_error (streams st) sid with
  | Some s => match s_buf s with _ :: _ => true | [] => s_sclosed s end
  | None => false
  end.

Definition app_at (l : list (list item)) (i : nat) (x : item) : list (list item) :=
  match nth_error l i with Some g => upd l i (g ++ [x]) | None => l end.

(* peek's common tail: hand item x (element c) to child i, move its pointer to the next element *)
Definition deliver (P : parent) (i c : nat) (x : item) : parent :=
  mkP (p_src P) (p_items P) (p_eof P) (upd (p_cur P) i (Some (S c))) (p_closed P)
      (p_srcclosed P) (p_pulls P) (app_at (p_got P) i x) (p_sawEOF P).
Definition mark_eof (P : parent) (i : nat) : parent :=
  mkP (p_src P) (p_items P) (p_eof P) (p_cur P) (p_closed P)
      (p_srcclosed P) (p_pulls P) (p_got P) (upd (p_sawEOF P) i true).
Definition with_src (P : parent) (src : rd) : parent :=
  mkP src (p_items P) (p_eof P) (p_cur P) (p_closed P)
      (p_srcclosed P) (p_pulls P) (p_got P) (p_sawEOF P).
(* inside once.Do: the source returned an item / EOF; the element is filled *)
Definition pulled_item (P : parent) (x : item) : parent :=
  mkP (p_src P) (p_items P ++ [x]) (p_eof P) (p_cur P) (p_closed P)
      (p_srcclosed P) (S (p_pulls P)) (p_got P) (p_sawEOF P).
Definition pulled_eof (P : parent) : parent :=
  mkP (p_src P) (p_items P) true (p_cur P) (p_closed P)
      (p_srcclosed P) (S (p_pulls P)) (p_got P) (p_sawEOF P).

(* StreamReader.Recv.  [ch]: outcomes of the selects performed on the way (consumed left to
   right, 0 when exhausted).  Returns the result, the new store, the new reader, the
   unused choices. *)
Fixpoint recv (fuel : nat) (st : store) (t : rd) (ch : list nat) {struct fuel}
  : pres * store * rd * list nat :=
  match fuel with
  | O => (PFuel, st, t, ch)
  | S fuel' =>
    match t with
    | RArr done rest =>
        match rest with
        | [] => (PEOF, st, t, ch)
        | x :: r => (PItem (IVal x), st, RArr (done ++ [x]) r, ch)
        end
    | RStr sid =>
        match nth_error (streams st) sid with
        | None => (PBad, st, t, ch)
        | Some s => let '(r, s') := stream_recv s in (r, set_stream st sid s', t, ch)
        end
    | RMul sts chosen =>
        (* for len(chosenList) > 0 { select over the chosen sources ... } return EOF.
           The static select (<= maxSelectNum cases, receiveN) and reflect.Select differ only
           in how Go evaluates them: both receive from any one ready source. *)
        match chosen with
        | [] => (PEOF, st, t, ch)
        | _ :: _ =>
          let ready := filter (fun i => match nth_error sts i with
                                        | Some sid => stream_ready st sid
                                        | None => false end) chosen in
          match ready with
          | [] => (PBlock, st, t, ch)
          | i0 :: _ =>
            let i := nth (Nat.modulo (hd 0 ch) (List.length ready)) ready i0 in
            match nth_error sts i with
            | None => (PBad, st, t, ch)
            | Some sid =>
              match nth_error (streams st) sid with
              | None => (PBad, st, t, ch)
              | Some s =>
                match stream_recv s with
                | (PItem x, s') => (PItem x, set_stream st sid s', t, tl ch)
                | (PEOF, _) => recv fuel' st (RMul sts (remove_nat i chosen)) (tl ch)
                | (_, _) => (PBad, st, t, ch)
                end
              end
            end
          end
        end
    | RConv f src cin cout =>
        let '(r, st1, src1, ch1) := recv fuel' st src ch in
        match r with
        | PItem x =>
            match conv_item f x with
            | Some y => (PItem y, st1, RConv f src1 (cin ++ [x]) (cout ++ [y]), ch1)
            | None => recv fuel' st1 (RConv f src1 (cin ++ [x]) cout) ch1   (* ErrNoValue: loop *)
            end
        | _ => (r, st1, RConv f src1 cin cout, ch1)
        end
    | RChild p i =>
        match nth_error (parents st) p with
        | None => (PBad, st, t, ch)
        | Some P =>
          match nth_error (p_cur P) i with
          | None => (PBad, st, t, ch)
          | Some None => (PItem (IErr err_after_closed), st, t, ch)
          | Some (Some c) =>
            match nth_error (p_items P) c with
            | Some x => (PItem x, set_parent st p (deliver P i c x), t, ch)
            | None =>
              if p_eof P then (PEOF, set_parent st p (mark_eof P i), t, ch)
              else
                (* elem.once.Do: t, err = p.sr.Recv() ... *)
                let '(r, st1, src1, ch1) := recv fuel' st (p_src P) ch in
                match r with
                | PItem x =>
                    (PItem x, set_parent st1 p (deliver (pulled_item (with_src P src1) x) i c x), t, ch1)
                | PEOF =>
                    (PEOF, set_parent st1 p (mark_eof (pulled_eof (with_src P src1)) i), t, ch1)
                | _ => (r, set_parent st1 p (with_src P src1), t, ch1)
                end
            end
          end
        end
    end
  end.

(* closeRecv on a list of streams, in order; a panic (double close) aborts the loop as in Go *)
Fixpoint close_streams (st : store) (sids : list nat) : clres * store :=
  match sids with
  | [] => (ClOk, st)
  | sid :: r =>
    match nth_error (streams st) sid with
    | None => (ClBad, st)
    | Some s =>
      let '(c, s') := stream_close_recv s in
      match c with
      | ClOk => close_streams (set_stream st sid s') r
      | _ => (c, set_stream st sid s')
      end
    end
  end.

Definition close_child (P : parent) (i : nat) : parent :=
  mkP (p_src P) (p_items P) (p_eof P) (upd (p_cur P) i None) (S (p_closed P))
      (p_srcclosed P) (p_pulls P) (p_got P) (p_sawEOF P).
Definition src_closed (P : parent) : parent :=
  mkP (p_src P) (p_items P) (p_eof P) (p_cur P) (p_closed P)
      (S (p_srcclosed P)) (p_pulls P) (p_got P) (p_sawEOF P).

(* StreamReader.Close *)
Fixpoint close_rd (fuel : nat) (st : store) (t : rd) {struct fuel} : clres * store :=
  match fuel with
  | O => (ClFuel, st)
  | S fuel' =>
    match t with
    | RArr _ _ => (ClOk, st)
    | RStr sid => close_streams st [sid]
    | RMul sts _ => close_streams st sts
    | RConv _ src _ _ => close_rd fuel' st src
    | RChild p i =>
        match nth_error (parents st) p with
        | None => (ClBad, st)
        | Some P =>
          match nth_error (p_cur P) i with
          | None => (ClBad, st)
          | Some None => (ClOk, st)                     (* avoid close multiple times *)
          | Some (Some _) =>
            let P1 := close_child P i in
            if Nat.eqb (p_closed P1) (List.length (p_cur P1))
            then close_rd fuel' (set_parent st p (src_closed P1)) (p_src P)
            else (ClOk, set_parent st p P1)
          end
        end
    end
  end.

(* ------------------------------------------------------------------ forwarders, handles *)

Inductive fstate : Type :=
| FRecv                 (* about to call src.recv() *)
| FSend (x : item)      (* holds an item, about to call ret.send *)
| FClosing              (* ret.closeSend() done, about to close the source *)
| FDone.

Record fwd : Type := mkF { f_src : rd; f_dst : nat; f_st : fstate;
                           f_eof : bool (* ghost: the loop ended because the source returned io.EOF *) }.

Record handle : Type := mkH {
  h_rd : rd;
  h_live : bool;        (* false: consumed by Copy / Merge / Convert *)
  h_closed : bool;      (* ghost: user code called Close on it *)
  h_got : list item;    (* ghost: items Recv returned on this handle, in order *)
  h_eof : bool          (* ghost: Recv returned io.EOF on this handle *)
}.

Record state : Type := mkState {
  st_store : store;
  st_fwds : list fwd;
  st_handles : list handle
}.

Definition init_state : state := mkState (mkSt [] []) [] [].

Definition maxSelectNum : nat := 5.

Inductive op : Type :=
| OPipe (cap : nat)
| OArray (xs : list N)
| OCopy (h n : nat)
| OMerge (hs : list nat)
| OConv (h : nat) (f : cfun)
| OSend (s : nat) (x : item)
| OCloseSend (s : nat)
| ORecv (h : nat) (ch : list nat)
| OClose (h : nat)
| OFwd (k : nat) (ch : list nat).

Inductive obs : Type :=
| BNew (hs : list nat)        (* handles returned by a constructor (new or existing ids) *)
| BSend (r : sres)
| BRecv (r : pres)
| BClose (r : clres)
| BStep                       (* a forwarder step *)
| BIllegal.                   (* API misuse / dangling id: state unchanged *)

Definition live_rd (G : state) (h : nat) : option rd :=
  match nth_error (st_handles G) h with
  | Some H => if h_live H then Some (h_rd H) else None
  | None => None
  end.

Definition set_handle (G : state) (h : nat) (H : handle) : state :=
  mkState (st_store G) (st_fwds G) (upd (st_handles G) h H).

Definition consume (G : state) (h : nat) : state :=
  match nth_error (st_handles G) h with
  | Some H => set_handle G h (mkH (h_rd H) false (h_closed H) (h_got H) (h_eof H))
  | None => G
  end.

Fixpoint consume_all (G : state) (hs : list nat) : state :=
  match hs with [] => G | h :: r => consume_all (consume G h) r end.

Fixpoint live_rds (G : state) (hs : list nat) : option (list rd) :=
  match hs with
  | [] => Some []
  | h :: r => match live_rd G h, live_rds G r with
              | Some t, Some ts => Some (t :: ts)
              | _, _ => None
              end
  end.

Fixpoint nodupb (l : list nat) : bool :=
  match l with
  | [] => true
  | x :: r => negb (existsb (Nat.eqb x) r) && nodupb r
  end.

(* the loop of MergeStreamReaders over its arguments *)
Fixpoint merge_collect (st : store) (fw : list fwd) (ts : list rd) (ss : list nat) (arr : list N)
  : store * list fwd * list nat * list N :=
  match ts with
  | [] => (st, fw, ss, arr)
  | t :: r =>
    match t with
    | RStr s => merge_collect st fw r (ss ++ [s]) arr
    | RArr _ rest => merge_collect st fw r ss (arr ++ rest)
    | RMul sts _ => merge_collect st fw r (ss ++ sts) arr
    | RConv _ _ _ _ | RChild _ _ =>
        (* toStream(): ret := newStream(5); go forward *)
        let sid := List.length (streams st) in
        merge_collect (add_stream st (new_stream 5 false)) (fw ++ [mkF t sid FRecv false]) r (ss ++ [sid]) arr
    end
  end.

Definition new_parent (src : rd) (n : nat) : parent :=
  mkP src [] false (repeat (Some 0) n) 0 0 0 (repeat [] n) (repeat false n).

Definition do_op (fuel : nat) (G : state) (o : op) : obs * state :=
  match o with
  | OPipe cap =>
      let sid := List.length (streams (st_store G)) in
      let h := List.length (st_handles G) in
      (BNew [h], mkState (add_stream (st_store G) (new_stream cap true)) (st_fwds G)
                         (st_handles G ++ [mkH (RStr sid) true false [] false]))
  | OArray xs =>
      let h := List.length (st_handles G) in
      (BNew [h], mkState (st_store G) (st_fwds G) (st_handles G ++ [mkH (RArr [] xs) true false [] false]))
  | OCopy h n =>
      match live_rd G h with
      | None => (BIllegal, G)
      | Some t =>
        if Nat.ltb n 2 then (BNew [h], G)
        else
          let h0 := List.length (st_handles G) in
          let S1 := consume G h in
          match t with
          | RArr _ rest =>
              (BNew (seq h0 n),
               mkState (st_store S1) (st_fwds S1) (st_handles S1 ++ repeat (mkH (RArr [] rest) true false [] false) n))
          | _ =>
              let p := List.length (parents (st_store S1)) in
              (BNew (seq h0 n),
               mkState (add_parent (st_store S1) (new_parent t n)) (st_fwds S1)
                       (st_handles S1 ++ map (fun i => mkH (RChild p i) true false [] false) (seq 0 n)))
          end
      end
  | OMerge hs =>
      match hs with
      | [] => (BNew [], G)                               (* returns nil *)
      | [h] => match live_rd G h with Some _ => (BNew [h], G) | None => (BIllegal, G) end
      | _ =>
        if negb (nodupb hs) then (BIllegal, G) else
        match live_rds G hs with
        | None => (BIllegal, G)
        | Some ts =>
          let S1 := consume_all G hs in
          let '(st1, fw1, ss, arr) := merge_collect (st_store S1) (st_fwds S1) ts [] [] in
          let h0 := List.length (st_handles S1) in
          match ss, arr with
          | [], _ :: _ =>
              (BNew [h0], mkState st1 fw1 (st_handles S1 ++ [mkH (RArr [] arr) true false [] false]))
          | _, _ :: _ =>
              let sid := List.length (streams st1) in
              let ss' := ss ++ [sid] in
              (BNew [h0], mkState (add_stream st1 (array_stream arr)) fw1
                                  (st_handles S1 ++ [mkH (RMul ss' (seq 0 (List.length ss'))) true false [] false]))
          | _, [] =>
              (BNew [h0], mkState st1 fw1
                                  (st_handles S1 ++ [mkH (RMul ss (seq 0 (List.length ss))) true false [] false]))
          end
        end
      end
  | OConv h f =>
      match live_rd G h with
      | None => (BIllegal, G)
      | Some t =>
          let h0 := List.length (st_handles G) in
          let S1 := consume G h in
          (BNew [h0], mkState (st_store S1) (st_fwds S1) (st_handles S1 ++ [mkH (RConv f t [] []) true false [] false]))
      end
  | OSend sid x =>
      match nth_error (streams (st_store G)) sid with
      | None => (BIllegal, G)
      | Some s =>
          if negb (s_user s) then (BIllegal, G) else
          let '(r, s') := stream_send s x in
          (BSend r, mkState (set_stream (st_store G) sid s') (st_fwds G) (st_handles G))
      end
  | OCloseSend sid =>
      match nth_error (streams (st_store G)) sid with
      | None => (BIllegal, G)
      | Some s =>
          if negb (s_user s) then (BIllegal, G) else
          let '(r, s') := stream_close_send s in
          (BSend r, mkState (set_stream (st_store G) sid s') (st_fwds G) (st_handles G))
      end
  | ORecv h ch =>
      match nth_error (st_handles G) h with
      | None => (BIllegal, G)
      | Some H =>
          if negb (h_live H) then (BIllegal, G) else
          let '(r, st1, t1, _) := recv fuel (st_store G) (h_rd H) ch in
          (BRecv r, mkState st1 (st_fwds G)
                            (upd (st_handles G) h
                                 (mkH t1 true (h_closed H)
                                      (match r with PItem x => h_got H ++ [x] | _ => h_got H end)
                                      (match r with PEOF => true | _ => h_eof H end))))
      end
  | OClose h =>
      match nth_error (st_handles G) h with
      | None => (BIllegal, G)
      | Some H =>
          if negb (h_live H) then (BIllegal, G) else
          let '(r, st1) := close_rd fuel (st_store G) (h_rd H) in
          (BClose r, mkState st1 (st_fwds G) (upd (st_handles G) h (mkH (h_rd H) true true (h_got H) (h_eof H))))
      end
  | OFwd k ch =>
      match nth_error (st_fwds G) k with
      | None => (BIllegal, G)
      | Some F =>
          match f_st F with
          | FDone => (BStep, G)
          | FRecv =>
              let '(r, st1, src1, _) := recv fuel (st_store G) (f_src F) ch in
              match r with
              | PItem x => (BStep, mkState st1 (upd (st_fwds G) k (mkF src1 (f_dst F) (FSend x) (f_eof F))) (st_handles G))
              | PEOF =>
                  (* break; deferred: ret.closeSend() *)
                  match nth_error (streams st1) (f_dst F) with
                  | None => (BIllegal, G)
                  | Some d =>
                      let '(_, d') := stream_close_send d in
                      (BStep, mkState (set_stream st1 (f_dst F) d')
                                      (upd (st_fwds G) k (mkF src1 (f_dst F) FClosing true)) (st_handles G))
                  end
              | _ => (BStep, mkState st1 (upd (st_fwds G) k (mkF src1 (f_dst F) FRecv (f_eof F))) (st_handles G))
              end
          | FSend x =>
              match nth_error (streams (st_store G)) (f_dst F) with
              | None => (BIllegal, G)
              | Some d =>
                  match stream_send d x with
                  | (SOk, d') =>
                      (BStep, mkState (set_stream (st_store G) (f_dst F) d')
                                      (upd (st_fwds G) k (mkF (f_src F) (f_dst F) FRecv (f_eof F))) (st_handles G))
                  | (SClosed, _) =>
                      let '(_, d') := stream_close_send d in
                      (BStep, mkState (set_stream (st_store G) (f_dst F) d')
                                      (upd (st_fwds G) k (mkF (f_src F) (f_dst F) FClosing (f_eof F))) (st_handles G))
                  | (_, _) => (BStep, G)
                  end
              end
          | FClosing =>
              (* deferred: srw.close() / csr.close() *)
              let '(_, st1) := close_rd fuel (st_store G) (f_src F) in
              (BStep, mkState st1 (upd (st_fwds G) k (mkF (f_src F) (f_dst F) FDone (f_eof F))) (st_handles G))
          end
      end
  end.

(* a run: every schedule of the goroutines is one op list *)
Fixpoint run (fuel : nat) (G : state) (ops : list op) : list obs * state :=
  match ops with
  | [] => ([], G)
  | o :: r => let '(b, S1) := do_op fuel G o in
              let '(bs, S2) := run fuel S1 r in (b :: bs, S2)
  end.

Definition reachable (G : state) : Prop := exists fuel ops, snd (run fuel init_state ops) = G.

(* ------------------------------------------------------------------ specification layer:
   decidable trace predicates evaluated by Corr/C08.v on observed histories, and proved of
   the step function in Proofs/Stream*.v *)

Fixpoint is_prefix (a b : list item) : bool :=
  match a, b with
  | [], _ => true
  | x :: a', y :: b' => item_eqb x y && is_prefix a' b'
  | _ :: _, [] => false
  end.

Definition nilb {A} (l : list A) : bool := match l with [] => true | _ => false end.

(* [obs] is an interleaving of prefixes of the strands (of the whole strands if [full]) *)
Fixpoint is_interleaving_of (full : bool) (obs : list item) (strs : list (list item)) {struct obs} : bool :=
  match obs with
  | [] => if full then forallb nilb strs else true
  | x :: obs' =>
      (* if-then-else, not andb/orb: evaluation must stay lazy under vm_compute *)
      (fix try (pre post : list (list item)) {struct post} : bool :=
         match post with
         | [] => false
         | s :: post' =>
             if (match s with
                 | y :: s' => if item_eqb x y
                              then is_interleaving_of full obs' (rev_append pre (s' :: post'))
                              else false
                 | [] => false
                 end)
             then true
             else try (s :: pre) post'
         end) [] strs
  end.

Fixpoint opt_concat {A} (l : list (option (list A))) : option (list A) :=
  match l with
  | [] => Some []
  | None :: _ => None
  | Some a :: r => match opt_concat r with Some b => Some (a ++ b) | None => None end
  end.

Definition find_fwd_to (G : state) (sid : nat) : option fwd :=
  find (fun F => Nat.eqb (f_dst F) sid) (st_fwds G).

(* the item sequences ("strands") a reader's output is an order-preserving interleaving of,
   given what each user pipe accepted ([w sid]) *)
Fixpoint strands (fuel : nat) (G : state) (w : nat -> list item) (t : rd) {struct fuel}
  : option (list (list item)) :=
  match fuel with
  | O => None
  | S fuel' =>
    let of_stream := fun sid =>
      match find_fwd_to G sid with
      | Some F => strands fuel' G w (f_src F)
      | None =>
        match nth_error (streams (st_store G)) sid with
        | Some s => if s_user s then Some [w sid] else Some [s_deliv s ++ s_buf s]
        | None => None
        end
      end in
    match t with
    | RArr done rest => Some [map IVal (done ++ rest)]
    | RStr sid => of_stream sid
    | RMul sts _ => opt_concat (map of_stream sts)
    | RConv f src _ _ =>
        match strands fuel' G w src with
        | Some l => Some (map (filter_map (conv_item f)) l)
        | None => None
        end
    | RChild p _ =>
        match nth_error (parents (st_store G)) p with
        | Some P => strands fuel' G w (p_src P)
        | None => None
        end
    end
  end.

(* user pipes a reader is derived from; [through_fwd]: number of forwarder goroutines on
   the way (0 = close propagates synchronously) *)
Fixpoint feeds (fuel : nat) (G : state) (t : rd) {struct fuel} : option (list (nat * nat)) :=
  match fuel with
  | O => None
  | S fuel' =>
    let of_stream := fun sid =>
      match find_fwd_to G sid with
      | Some F => match feeds fuel' G (f_src F) with
                  | Some l => Some (map (fun sk => (fst sk, Datatypes.S (snd sk))) l)
                  | None => None end
      | None =>
        match nth_error (streams (st_store G)) sid with
        | Some s => if s_user s then Some [(sid, 0)] else Some []
        | None => None
        end
      end in
    match t with
    | RArr _ _ => Some []
    | RStr sid => of_stream sid
    | RMul sts _ => opt_concat (map of_stream sts)
    | RConv _ src _ _ => feeds fuel' G src
    | RChild p _ =>
        match nth_error (parents (st_store G)) p with
        | Some P => feeds fuel' G (p_src P)
        | None => None
        end
    end
  end.
