(* Model/Tools.v — executable model of compose.ToolsNode (compose/tool_node.go).

   What is modelled (line numbers of /repo/compose/tool_node.go):
   * genToolCallTasks (173-203): role test, "no tool call" test, one task per call in call
     order, lookup of the tool by name, unknown name => error unless an unknown-tool handler
     is configured (then a handler task, invokable only).  An error here means NO tool runs.
   * runnablePacker derivations used by a task (compose/runnable.go): an invokable-only tool
     is streamed through streamByInvoke (one chunk); a streamable-only tool is invoked
     through invokeByStream (concatStreamReader: error item => error, no chunk => the
     "empty stream" error, otherwise string concatenation).
   * parallelRunToolCall (245-270): task 0 runs inline on the caller's goroutine (a panic
     there is NOT recovered by the tools node: it escapes to the caller, i.e. to the graph's
     task executor when the node sits in a graph); tasks 1.. run on goroutines with a
     recover that turns a panic into an error stored in the task.  Completion order is
     arbitrary: the model takes it as a parameter [pi] (the sequence in which the tasks'
     result slots are written).
   * Invoke (274-305): after all tasks finished the slots are scanned in index order; the
     first error found is the error of the whole call; otherwise output[i] =
     ToolMessage(tasks[i].output, tasks[i].callID).
   * Stream (309-350): same scan on the call-time results; each opened tool stream is
     converted chunk-wise into a sparse list (length N, only position i set) and the N
     streams are merged (any order-preserving interleaving, parameter [sched]).
   * schema.concatMessageArray (schema/message.go:44-80) restricted to tool messages:
     position-wise concatenation of the sparse lists.

   Tools are pure functions of (tool name, arguments) — this is the model's assumption
   about user code ("the output of the tool named by that call on that call's arguments").
   This version of eino has no sequential-execution option on the tools node. *)
From Eino Require Import Base.Util.
Local Open Scope string_scope.

Inductive tkind : Type := KInv | KStr | KBoth.

(* one InvokableRun *)
Inductive tres : Type := TOk (out : string) | TErr (e : N) | TPanic.
(* one StreamableRun: fails / panics at call time, or returns a stream = chunks followed by
   an optional error item (the consumer stops at an error item) *)
Inductive sres : Type := SOk (chunks : list string) (tail : option N) | SErr (e : N) | SPanic.

Record call : Type := mkCall { c_id : string; c_name : string; c_args : string }.

(* a tool message: (content, tool call id) *)
Definition tmsg : Type := (string * string)%type.

(* error classes of the node itself (tool errors are whatever the tool returns) *)
Definition E_UNKNOWN : N := 1.   (* tool not found, no handler *)
Definition E_ROLE    : N := 2.   (* input message is not an assistant message *)
Definition E_NOCALL  : N := 3.   (* no tool call in the input message *)
Definition E_PANIC   : N := 4.   (* recovered panic *)
Definition E_EMPTY   : N := 5.   (* concatenation of an empty stream *)
Definition E_NOTRUN  : N := 6.   (* model only: a task whose slot was never written *)

(* compose/runnable.go: invokeByStream + concatStreamReader on strings *)
Definition invoke_by_stream (s : sres) : tres :=
  match s with
  | SErr e => TErr e
  | SPanic => TPanic
  | SOk _ (Some e) => TErr e
  | SOk [] None => TErr E_EMPTY
  | SOk cs None => TOk (concat_strings cs)
  end.

(* compose/runnable.go: streamByInvoke *)
Definition stream_by_invoke (t : tres) : sres :=
  match t with
  | TOk o => SOk [o] None
  | TErr e => SErr e
  | TPanic => SPanic
  end.

Fixpoint set_nth {A} (i : nat) (a : A) (l : list A) : list A :=
  match l, i with
  | [], _ => []
  | _ :: l', O => a :: l'
  | x :: l', S i' => x :: set_nth i' a l'
  end.

Section Node.
  (* the configured tools: their kind by name (None = not in the list), what they compute *)
  Variable kind_of : string -> option tkind.
  Variable inv : string -> string -> tres.
  Variable str : string -> string -> sres.
  Variable handler : option (string -> string -> tres).

  Inductive task : Type :=
  | Task (k : tkind) (c : call)
  | Unk (h : string -> string -> tres) (c : call).

  Definition task_call (t : task) : call := match t with Task _ c => c | Unk _ c => c end.

  Definition gen_task (c : call) : res task :=
    match kind_of (c_name c) with
    | Some k => Ok (Task k c)
    | None => match handler with Some h => Ok (Unk h c) | None => Err E_UNKNOWN end
    end.

  (* genToolCallTasks *)
  Definition gen_tasks (role_ok : bool) (calls : list call) : res (list task) :=
    if negb role_ok then Err E_ROLE
    else match calls with
         | [] => Err E_NOCALL
         | _ => res_mapM gen_task calls
         end.

  (* task.r.Invoke / task.r.Stream *)
  Definition exec_invoke (t : task) : tres :=
    match t with
    | Task KStr c => invoke_by_stream (str (c_name c) (c_args c))
    | Task _ c => inv (c_name c) (c_args c)
    | Unk h c => h (c_name c) (c_args c)
    end.

  Definition exec_stream (t : task) : sres :=
    match t with
    | Task KInv c => stream_by_invoke (inv (c_name c) (c_args c))
    | Task _ c => str (c_name c) (c_args c)
    | Unk h c => stream_by_invoke (h (c_name c) (c_args c))
    end.

  (* the deferred recover of the goroutines of tasks 1.. ; task 0 has none *)
  Definition recover_t (i : nat) (r : tres) : tres :=
    match i, r with S _, TPanic => TErr E_PANIC | _, _ => r end.
  Definition recover_s (i : nat) (r : sres) : sres :=
    match i, r with S _, SPanic => SErr E_PANIC | _, _ => r end.

  (* parallelRunToolCall: the tasks complete in the order [pi]; completing task i writes
     slot i.  Indices outside the task list are ignored (there is no such goroutine). *)
  Definition run_slots {R} (exec : nat -> task -> R) (pi : list nat) (tasks : list task)
    : list (option R) :=
    fold_left (fun slots i =>
                 match nth_error tasks i with
                 | Some t => set_nth i (Some (exec i t)) slots
                 | None => slots
                 end) pi (map (fun _ => None) tasks).

  (* Invoke: scan in index order *)
  Fixpoint assemble_invoke (slots : list (option tres)) (tasks : list task) : res (list tmsg) :=
    match slots, tasks with
    | [], _ => Ok []
    | _, [] => Ok []
    | None :: _, _ => Err E_NOTRUN
    | Some TPanic :: _, _ => Panic
    | Some (TErr e) :: _, _ => Err e
    | Some (TOk o) :: s', t :: t' =>
        do r <- assemble_invoke s' t'; Ok ((o, c_id (task_call t)) :: r)
    end.

  Definition tools_invoke (pi : list nat) (role_ok : bool) (calls : list call) : res (list tmsg) :=
    do tasks <- gen_tasks role_ok calls;
    assemble_invoke (run_slots (fun i t => recover_t i (exec_invoke t)) pi tasks) tasks.

  (* Stream, call-time part: the opened streams (call id, chunks, error tail) *)
  Definition tstream : Type := (string * list string * option N)%type.

  Fixpoint assemble_stream (slots : list (option sres)) (tasks : list task) : res (list tstream) :=
    match slots, tasks with
    | [], _ => Ok []
    | _, [] => Ok []
    | None :: _, _ => Err E_NOTRUN
    | Some SPanic :: _, _ => Panic
    | Some (SErr e) :: _, _ => Err e
    | Some (SOk cs tl) :: s', t :: t' =>
        do r <- assemble_stream s' t'; Ok ((c_id (task_call t), cs, tl) :: r)
    end.

  Definition tools_stream_open (pi : list nat) (role_ok : bool) (calls : list call) : res (list tstream) :=
    do tasks <- gen_tasks role_ok calls;
    assemble_stream (run_slots (fun i t => recover_s i (exec_stream t)) pi tasks) tasks.

  (* which tools run at all: none if task generation fails, otherwise every call once *)
  Definition tools_executed (role_ok : bool) (calls : list call) : list call :=
    match gen_tasks role_ok calls with Ok _ => calls | _ => [] end.
End Node.


(* when the node sits in a graph, a panic escaping from Invoke/Stream is recovered by the
   graph's task executor and becomes the error of the run *)
Definition in_graph {A} (r : res A) : res A :=
  match r with Panic => Err E_PANIC | _ => r end.

(* ---- the merged output stream -------------------------------------------------------- *)

(* an emitted chunk: a sparse list with only position [fst] set, to a tool message whose
   content is [snd] (the id is that of call [fst]) *)
Definition emitted : Type := (nat * string)%type.

(* MergeStreamReaders as consumed by a reader that stops at the first error item:
   [sched] says from which source the next item is taken.  A source that is exhausted (or
   does not exist) yields nothing for that schedule entry. *)
Fixpoint merge_run (sched : list nat) (srcs : list (list string * option N))
  : list emitted * option N :=
  match sched with
  | [] => ([], None)
  | i :: sched' =>
      match nth_error srcs i with
      | Some (c :: rest, tl) =>
          let '(em, fin) := merge_run sched' (set_nth i (rest, tl) srcs) in ((i, c) :: em, fin)
      | Some ([], Some e) => ([], Some e)
      | _ => merge_run sched' srcs
      end
  end.

Definition drained (srcs : list (list string * option N)) : bool :=
  forallb (fun s => match s with ([], None) => true | _ => false end) srcs.

(* sources after running a schedule *)
Fixpoint merge_rest (sched : list nat) (srcs : list (list string * option N))
  : list (list string * option N) :=
  match sched with
  | [] => srcs
  | i :: sched' =>
      match nth_error srcs i with
      | Some (c :: rest, tl) => merge_rest sched' (set_nth i (rest, tl) srcs)
      | Some ([], Some e) => srcs
      | _ => merge_rest sched' srcs
      end
  end.

Definition proj (i : nat) (em : list emitted) : list string :=
  map snd (filter (fun e => Nat.eqb (fst e) i) em).

(* schema.concatMessageArray on tool messages: per position no chunk => nil message,
   otherwise content = concatenation in arrival order, id = the call's id.
   An empty stream cannot be concatenated (concatStreamReader). *)
Definition concat_pos (ids : list string) (em : list emitted) : res (list (option tmsg)) :=
  match em with
  | [] => Err E_EMPTY
  | _ => Ok (map (fun p => match proj (fst p) em with
                           | [] => None
                           | cs => Some (concat_strings cs, snd p)
                           end)
                 (combine (seq 0 (List.length ids)) ids))
  end.

Definition stream_srcs (ss : list (string * list string * option N)) : list (list string * option N) :=
  map (fun s => (snd (fst s), snd s)) ss.
Definition stream_ids (ss : list (string * list string * option N)) : list string :=
  map (fun s => fst (fst s)) ss.

(* the canonical schedule: source 0 to the end, then source 1, ... *)
Definition seq_sched (srcs : list (list string * option N)) : list nat :=
  flat_map (fun p => repeat (fst p) (S (List.length (fst (snd p))))) (combine (seq 0 (List.length srcs)) srcs).

(* ---- call options ---------------------------------------------------------------------- *)
(* getToolsNodeOptions and the first lines of Invoke / Stream (277-285, 312-320):
   WithToolList (a non-nil list) replaces, for this call only, the tool set built by
   NewToolNode (convTools on the given list; nothing of the configured set is consulted, the
   unknown-tool handler stays the node's); the WithToolOption values, in the order given, are
   handed to every tool execution — the inline task and the goroutine tasks alike — and not to
   the unknown-tool handler (its function has no option parameter).
   [O] is whatever the tool options carry; a tool is a function of the options it is handed. *)
Section CallOptions.
  Variable O : Type.

  Record toolset : Type := mkTS {
    ts_kind : string -> option tkind;
    ts_inv : O -> string -> string -> tres;
    ts_str : O -> string -> string -> sres }.

  Record callopts : Type := mkCO { co_list : option toolset; co_opts : O }.

  Variable cfg : toolset.
  Variable handler : option (string -> string -> tres).

  Definition eff_tools (o : callopts) : toolset :=
    match co_list o with Some ts => ts | None => cfg end.

  Definition tools_invoke_with (o : callopts) (pi : list nat) (role_ok : bool) (calls : list call)
    : res (list tmsg) :=
    let ts := eff_tools o in
    tools_invoke (ts_kind ts) (ts_inv ts (co_opts o)) (ts_str ts (co_opts o)) handler pi role_ok calls.

  Definition tools_stream_open_with (o : callopts) (pi : list nat) (role_ok : bool) (calls : list call)
    : res (list tstream) :=
    let ts := eff_tools o in
    tools_stream_open (ts_kind ts) (ts_inv ts (co_opts o)) (ts_str ts (co_opts o)) handler pi role_ok calls.

  Definition tools_executed_with (o : callopts) (role_ok : bool) (calls : list call) : list call :=
    tools_executed (ts_kind (eff_tools o)) handler role_ok calls.
End CallOptions.
Arguments mkTS {O} _ _ _.
Arguments ts_kind {O} _ _.
Arguments ts_inv {O} _ _ _ _.
Arguments ts_str {O} _ _ _ _.
Arguments mkCO {O} _ _.
Arguments co_list {O} _.
Arguments co_opts {O} _.
Arguments eff_tools {O} _ _.
Arguments tools_invoke_with {O} _ _ _ _ _ _.
Arguments tools_stream_open_with {O} _ _ _ _ _ _.
Arguments tools_executed_with {O} _ _ _ _ _.

(* ---- convTools (108-157), NewToolNode (90-100) ------------------------------------------ *)
(* A tool as NewToolNode / WithToolList is given it: whether its Info call succeeds, the name
   Info reports, which of the two run interfaces the value implements (None = neither: it
   cannot be run), and its implementation — what InvokableRun / StreamableRun compute from the
   options handed over and the argument string (the one the kind does not provide is never
   called).  convTools walks the list in order and stops at the first tool it cannot take;
   otherwise it fills indexes[name] = idx in list order, so the LAST tool of a name is the one
   a call finds. *)
Definition E_TOOLINFO : N := 7.
Definition E_NOTRUNNABLE : N := 8.

Section ConvTools.
  Variable O : Type.

  Record toolimpl : Type := mkTI { ti_inv : O -> string -> tres; ti_str : O -> string -> sres }.
  Record tooldecl : Type := mkTD {
    td_info_ok : bool; td_name : string; td_kind : option tkind; td_impl : toolimpl }.

  Fixpoint conv_tools (l : list tooldecl) : res (list (string * (tkind * toolimpl))) :=
    match l with
    | [] => Ok []
    | d :: r =>
        if negb (td_info_ok d) then Err E_TOOLINFO
        else match td_kind d with
             | None => Err E_NOTRUNNABLE
             | Some k => do rest <- conv_tools r; Ok ((td_name d, (k, td_impl d)) :: rest)
             end
    end.

  Fixpoint index_lookup {A} (tl : list (string * A)) (name : string) : option A :=
    match tl with
    | [] => None
    | (n, a) :: r =>
        match index_lookup r name with
        | Some a' => Some a'
        | None => if String.eqb n name then Some a else None
        end
    end.

  (* the converted list as the tool set the calls are resolved in (a name that does not
     resolve never reaches the implementation: genToolCallTasks has no task for it) *)
  Definition toolset_of_conv (tl : list (string * (tkind * toolimpl))) : toolset O :=
    mkTS (fun name => option_map fst (index_lookup tl name))
         (fun o name args => match index_lookup tl name with
                             | Some (_, ti) => ti_inv ti o args
                             | None => TErr E_UNKNOWN
                             end)
         (fun o name args => match index_lookup tl name with
                             | Some (_, ti) => ti_str ti o args
                             | None => SErr E_UNKNOWN
                             end).

  Variable handler : option (string -> string -> tres).

  (* the call options after convTools: Invoke / Stream convert the call's list before they
     look at the message *)
  Definition conv_call_list (cl : option (list tooldecl)) : res (option (toolset O)) :=
    match cl with
    | None => Ok None
    | Some l => res_map (fun tl => Some (toolset_of_conv tl)) (conv_tools l)
    end.

  (* NewToolNode(conf) followed by one Invoke / Stream with call options *)
  Definition node_invoke (cfg : list tooldecl) (cl : option (list tooldecl)) (opts : O)
             (pi : list nat) (role_ok : bool) (calls : list call) : res (list tmsg) :=
    do c <- conv_tools cfg;
    do l <- conv_call_list cl;
    tools_invoke_with (toolset_of_conv c) handler (mkCO l opts) pi role_ok calls.

  Definition node_stream_open (cfg : list tooldecl) (cl : option (list tooldecl)) (opts : O)
             (pi : list nat) (role_ok : bool) (calls : list call) : res (list tstream) :=
    do c <- conv_tools cfg;
    do l <- conv_call_list cl;
    tools_stream_open_with (toolset_of_conv c) handler (mkCO l opts) pi role_ok calls.

  Definition node_executed (cfg : list tooldecl) (cl : option (list tooldecl)) (opts : O)
             (role_ok : bool) (calls : list call) : list call :=
    match conv_tools cfg, conv_call_list cl with
    | Ok c, Ok l => tools_executed_with (toolset_of_conv c) handler (mkCO l opts) role_ok calls
    | _, _ => []
    end.
End ConvTools.
Arguments mkTI {O} _ _.
Arguments ti_inv {O} _ _ _.
Arguments ti_str {O} _ _ _.
Arguments mkTD {O} _ _ _ _.
Arguments td_info_ok {O} _.
Arguments td_name {O} _.
Arguments td_kind {O} _.
Arguments td_impl {O} _.
Arguments conv_tools {O} _.
Arguments index_lookup {A} _ _.
Arguments toolset_of_conv {O} _.
Arguments conv_call_list {O} _.
Arguments node_invoke {O} _ _ _ _ _ _ _.
Arguments node_stream_open {O} _ _ _ _ _ _ _.
Arguments node_executed {O} _ _ _ _ _ _.
