(* Model/TaskMgrSubmit.v — property C03: an interpreter for the program of taskManager.submit over the actions of
   Model/TaskMgrCode.v (the vocabulary of the translator tie), so that "what submit does" is a function of the
   program text: a list of new tasks (each: has a state pre-handler? does that handler fail?), the number of
   outstanding tasks and the mode go in; which tasks were started (in which order, which one on the run loop's
   goroutine), how many were counted, which pre-handlers ran and whether submit returned an error come out.
   Only the actions that occur in submit have a meaning here; the tests are the six of submit ([test]).
   Definitions only; Proofs/TaskMgrSubmit.v proves what [model_submit] does for EVERY task list and relates it to
   [enter] of Model/RunHandoff.v. *)
From Eino Require Import Base.Util Model.TaskMgr Model.TaskMgrCode.

Record stask := mkstk { sk_id : nat; sk_pre : bool; sk_prefail : bool }.

Record xs := mkxs {
  x_tasks : list stask;               (* the slice [tasks] *)
  x_sync : option stask;              (* the synchronous task *)
  x_cur : option stask;               (* the loop variable *)
  x_err : bool;                       (* err != nil *)
  x_num : nat;                        (* t.num *)
  x_started : list (stask * bool);    (* the tasks started so far, oldest first; true = on the run loop's goroutine *)
  x_pre : list stask;                 (* the tasks whose pre-handler has run, oldest first *)
  x_ret : option bool;                (* Some = returned; true = with an error *)
}.

Definition x_init (ts : list stask) (num : nat) : xs := mkxs ts None None false num [] [] None.

Definition opt_pre (o : option stask) : bool := match o with Some t => sk_pre t | None => false end.
Definition opt_fail (o : option stask) : bool := match o with Some t => sk_prefail t | None => false end.
Definition is_some {A} (o : option A) : bool := match o with Some _ => true | None => false end.

Section Interp.
Variable sync_cond : nat -> nat -> bool -> bool.
Variable needAll : bool.

Definition test (c : cnd) (s : xs) : bool :=
  match c with
  | CNoTasks => is_nil (x_tasks s)
  | CHasPre => opt_pre (x_cur s)
  | CErrSet => x_err s
  | CSyncCond => sync_cond (x_num s) (List.length (x_tasks s)) needAll
  | CSyncSet => is_some (x_sync s)
  | CNeedAll => needAll
  | _ => false
  end.

Definition set_cur (t : stask) (s : xs) : xs :=
  mkxs (x_tasks s) (x_sync s) (Some t) (x_err s) (x_num s) (x_started s) (x_pre s) (x_ret s).

Fixpoint each (f : xs -> xs) (ts : list stask) (s : xs) : xs :=
  match ts with
  | [] => s
  | t :: ts' => match x_ret s with Some _ => s | None => each f ts' (f (set_cur t s)) end
  end.

Definition prim (a : act) (s : xs) : xs :=
  match a with
  | APre => mkxs (x_tasks s) (x_sync s) (x_cur s) (opt_fail (x_cur s)) (x_num s) (x_started s)
                 (x_pre s ++ match x_cur s with Some t => [t] | None => [] end) (x_ret s)
  | AInc => mkxs (x_tasks s) (x_sync s) (x_cur s) (x_err s) (S (x_num s)) (x_started s) (x_pre s) (x_ret s)
  | AGo => mkxs (x_tasks s) (x_sync s) (x_cur s) (x_err s) (x_num s)
                (x_started s ++ match x_cur s with Some t => [(t, false)] | None => [] end) (x_pre s) (x_ret s)
  | AExec => mkxs (x_tasks s) (x_sync s) (x_cur s) (x_err s) (x_num s)
                  (x_started s ++ match x_sync s with Some t => [(t, true)] | None => [] end) (x_pre s) (x_ret s)
  | APickSync => mkxs (x_tasks s) (hd_error (x_tasks s)) (x_cur s) (x_err s) (x_num s) (x_started s) (x_pre s) (x_ret s)
  | ARest => mkxs (tl (x_tasks s)) (x_sync s) (x_cur s) (x_err s) (x_num s) (x_started s) (x_pre s) (x_ret s)
  | ARet r => mkxs (x_tasks s) (x_sync s) (x_cur s) (x_err s) (x_num s) (x_started s) (x_pre s)
                   (Some (match r with [RNil] => false | _ => true end))
  | _ => s
  end.

Fixpoint exec (a : act) (s : xs) {struct a} : xs :=
  match x_ret s with
  | Some _ => s
  | None =>
      match a with
      | AIf c th el =>
          (fix run (q : list act) (s : xs) : xs := match q with [] => s | x :: r => run r (exec x s) end)
            (if test c s then th else el) s
      | AEach b =>
          each (fun s' => (fix run (q : list act) (s : xs) : xs := match q with [] => s | x :: r => run r (exec x s) end) b s')
               (x_tasks s) s
      | _ => prim a s
      end
  end.

Fixpoint run (q : list act) (s : xs) : xs := match q with [] => s | x :: r => run r (exec x s) end.

End Interp.

