(* Model/C04HelperTable.v — property C04: which converter sits in which slot of a node's
   genericHelper (compose/generic_helper.go) — the stream filter of the input key, the run-time
   type check pair (invoke form / transform form), the field-mapping converter pair, the
   stream <-> value pair of checkpoints, the zero value, the empty stream — for the five ways
   a helper is built:

     newGenericHelper[I, O]       every input slot the default at I, every output slot at O
     forMapInput  (input key)     input slots: the defaults at map[string]any; output slots kept
     forMapOutput (output key)    output slots: the defaults at map[string]any; input slots kept
     forPredecessorPassthrough    input and output slots: the INPUT slots of the helper it is built from
     forSuccessorPassthrough      input and output slots: the OUTPUT slots of the helper it is built from

   [helper_spec] states this as a rule; [helper_table] is the table tools/go2v (extractor
   c04helper) regenerates from the source, entry by entry; Proofs/GenAgreeC04Helper.v proves the
   regenerated table equal to the rule.  The default of the two converter slots pairs the
   invoke form and the transform form of the SAME check at the SAME type (defaultValueChecker[T]
   with defaultStreamConverter[T]: [v_check] / [s_check], related by [concat_check];
   buildFieldMappingConverter[T] with buildStreamFieldMappingConverter[T]).  Definitions only. *)
From Eino Require Import Base.Util.

Inductive hslot : Type :=
| S_inputStreamFilter | S_outputStreamFilter
| S_inputConverter | S_outputConverter
| S_inputFieldMappingConverter | S_outputFieldMappingConverter
| S_inputStreamConvertPair | S_outputStreamConvertPair
| S_inputZeroValue | S_outputZeroValue
| S_inputEmptyStream | S_outputEmptyStream.

Inductive hty : Type := TI | TO | TMap.

(* a slot is filled with the default built at a type, or copied from a slot of the receiver *)
Inductive hsrc : Type :=
| Def (text : string) (ty : hty)
| From (s : hslot).

Definition all_slots : list hslot :=
  [S_inputStreamFilter; S_outputStreamFilter; S_inputConverter; S_outputConverter;
   S_inputFieldMappingConverter; S_outputFieldMappingConverter; S_inputStreamConvertPair; S_outputStreamConvertPair;
   S_inputZeroValue; S_outputZeroValue; S_inputEmptyStream; S_outputEmptyStream].

Definition is_input (s : hslot) : bool :=
  match s with
  | S_inputStreamFilter | S_inputConverter | S_inputFieldMappingConverter
  | S_inputStreamConvertPair | S_inputZeroValue | S_inputEmptyStream => true
  | _ => false
  end.

Definition to_input (s : hslot) : hslot :=
  match s with
  | S_outputStreamFilter => S_inputStreamFilter
  | S_outputConverter => S_inputConverter
  | S_outputFieldMappingConverter => S_inputFieldMappingConverter
  | S_outputStreamConvertPair => S_inputStreamConvertPair
  | S_outputZeroValue => S_inputZeroValue
  | S_outputEmptyStream => S_inputEmptyStream
  | s => s
  end.

Definition to_output (s : hslot) : hslot :=
  match s with
  | S_inputStreamFilter => S_outputStreamFilter
  | S_inputConverter => S_outputConverter
  | S_inputFieldMappingConverter => S_outputFieldMappingConverter
  | S_inputStreamConvertPair => S_outputStreamConvertPair
  | S_inputZeroValue => S_outputZeroValue
  | S_inputEmptyStream => S_outputEmptyStream
  | s => s
  end.

(* the default of a slot, with T for the type it is built at *)
Definition default_text (s : hslot) : string :=
  match to_input s with
  | S_inputStreamFilter => "defaultStreamMapFilter[T]"
  | S_inputConverter => "handlerPair{invoke:defaultValueChecker[T],transform:defaultStreamConverter[T],}"
  | S_inputFieldMappingConverter => "handlerPair{invoke:buildFieldMappingConverter[T](),transform:buildStreamFieldMappingConverter[T](),}"
  | S_inputStreamConvertPair => "defaultStreamConvertPair[T]()"
  | S_inputZeroValue => "zeroValueFromGeneric[T]"
  | _ => "emptyStreamFromGeneric[T]"
  end%string.

Definition helper_spec (variant : string) (s : hslot) : option hsrc :=
  if String.eqb variant "newGenericHelper" then Some (Def (default_text s) (if is_input s then TI else TO))
  else if String.eqb variant "forMapInput" then Some (if is_input s then Def (default_text s) TMap else From s)
  else if String.eqb variant "forMapOutput" then Some (if is_input s then From s else Def (default_text s) TMap)
  else if String.eqb variant "forPredecessorPassthrough" then Some (From (to_input s))
  else if String.eqb variant "forSuccessorPassthrough" then Some (From (to_output s))
  else None.

Definition variants : list string :=
  ["newGenericHelper"; "forMapInput"; "forMapOutput"; "forPredecessorPassthrough"; "forSuccessorPassthrough"]%string.

Definition olist_h {X} (o : option X) : list X := match o with Some x => [x] | None => [] end.

(* the rule as a table (what the neutral Gen file re-exports) *)
Definition helper_table : list (string * list (hslot * hsrc)) :=
  map (fun v => (v, flat_map (fun s => map (fun e => (s, e)) (olist_h (helper_spec v s))) all_slots)) variants.

Definition hslot_eqb (a b : hslot) : bool :=
  match a, b with
  | S_inputStreamFilter, S_inputStreamFilter | S_outputStreamFilter, S_outputStreamFilter
  | S_inputConverter, S_inputConverter | S_outputConverter, S_outputConverter
  | S_inputFieldMappingConverter, S_inputFieldMappingConverter
  | S_outputFieldMappingConverter, S_outputFieldMappingConverter
  | S_inputStreamConvertPair, S_inputStreamConvertPair | S_outputStreamConvertPair, S_outputStreamConvertPair
  | S_inputZeroValue, S_inputZeroValue | S_outputZeroValue, S_outputZeroValue
  | S_inputEmptyStream, S_inputEmptyStream | S_outputEmptyStream, S_outputEmptyStream => true
  | _, _ => false
  end.

Fixpoint slot_lookup (s : hslot) (l : list (hslot * hsrc)) : option hsrc :=
  match l with
  | [] => None
  | (s', e) :: l' => if hslot_eqb s s' then Some e else slot_lookup s l'
  end.

Definition table_lookup (tbl : list (string * list (hslot * hsrc))) (variant : string) (s : hslot) : option hsrc :=
  match alist_get variant tbl with
  | Some l => slot_lookup s l
  | None => None
  end.
