(* Model/ConcatDeep.v — concatMaps on map[string]any chunks whose values, AT ANY NESTING
   DEPTH, may be chat messages (pointers to schema.Message, possibly a typed nil pointer), message
   lists ([]*schema.Message), ordinary values, nil interfaces or again map[string]any maps of
   these ("maps of these" of the property text), through concatStreamReader.  Extends
   Model/ConcatMsgMap.v (one level, no message lists).  Definitions only.

   internal/concat.go, concatMaps: under each key the values are collected in chunk order; nil
   interface values are ignored (all nil: the key stays nil); toSliceValue requires every value
   to have the dynamic type of the first; values of a map type are concatenated by a
   recursive concatMaps call (even a single one); otherwise concatSliceValue: a single value is
   returned as it is, several *Message go to the registered ConcatMessages, several []*Message
   to the registered concatMessageArray, everything else as in Model/Concat.v (concat_key).

   Rendering convention (the harness follows it): a Go map[string]any is ALWAYS a [DMap] (also
   when it holds no message at any depth); a [DVal] holds any other value that contains no
   message (strings, numbers, unregistered / registered types, map[string]string ...). *)
From Eino Require Import Base.Util Model.Concat Model.ConcatMsg Model.ConcatMsgMap.

Inductive dval : Type :=
| DPtrNil                                   (* a typed nil *Message *)
| DMsg (m : msg)                            (* a *Message *)
| DList (l : list (option msg))             (* a []*Message (nil and empty are the same list) *)
| DVal (v : cval)                           (* a value without messages; [DVal CNil] is the nil interface *)
| DMap (m : list (string * dval)).          (* a map[string]any *)

(* the Go types that matter to toSliceValue: *Message, []*Message, map[string]any, and the
   types of Model/Concat.v (told apart there, by concat_key) *)
Inductive dkind : Type := KMsg | KList | KMap | KVal.

Definition dkind_eqb (a b : dkind) : bool :=
  match a, b with
  | KMsg, KMsg | KList, KList | KMap, KMap | KVal, KVal => true
  | _, _ => false
  end.

Definition kind_of (v : dval) : dkind :=
  match v with
  | DPtrNil | DMsg _ => KMsg
  | DList _ => KList
  | DMap _ => KMap
  | DVal _ => KVal
  end.

Definition is_dnil (v : dval) : bool := match v with DVal CNil => true | _ => false end.
Definition d_omsg (v : dval) : option msg := match v with DMsg m => Some m | _ => None end.
Definition d_list (v : dval) : list (option msg) := match v with DList l => l | _ => [] end.
Definition d_cval (v : dval) : cval := match v with DVal c => c | _ => CNil end.
Definition d_map (v : dval) : list (string * dval) := match v with DMap m => m | _ => [] end.

(* nesting depth: the largest depth of a value stored in the maps *)
Fixpoint ddepth (v : dval) : nat :=
  match v with
  | DMap m => S (fold_right (fun kv d => Nat.max (ddepth (snd kv)) d) O m)
  | _ => O
  end.
Definition vdepth (m : list (string * dval)) : nat := fold_right (fun kv d => Nat.max (ddepth (snd kv)) d) O m.
Definition mdepth (ms : list (list (string * dval))) : nat := fold_right (fun m d => Nat.max (vdepth m) d) O ms.

Section User.
Context {U : UserFn}.

Section WithRec.
  (* [rec] is the recursive concatMaps call for nested maps (fuel ties the knot) *)
  Variable rec : list (list (string * dval)) -> res (list (string * dval)).

  (* one kind: concatMaps / concatSliceValue on a non-empty list of non-nil values of that kind *)
  Definition dkind_concat (k : dkind) (nn : list dval) : res dval :=
    match k with
    | KMsg => match nn with
              | [v] => Ok v                                                  (* val.Len() == 1 *)
              | _ => res_map DMsg (concat_msgs (map d_omsg nn))              (* registered: ConcatMessages *)
              end
    | KList => match nn with
               | [v] => Ok v
               | _ => res_map DList (concat_msg_arrays (map d_list nn))      (* registered: concatMessageArray *)
               end
    | KVal => res_map DVal (concat_key concat_maps_top (map d_cval nn))      (* Model/Concat.v (its own type check) *)
    | KMap => res_map DMap (rec (map d_map nn))                              (* concatMaps, even for a single map *)
    end.

  (* one key of concatMaps *)
  Definition dkey (vs : list dval) : res dval :=
    let nn := filter (fun v => negb (is_dnil v)) vs in
    match nn with
    | [] => Ok (DVal CNil)
    | v0 :: _ =>
        if forallb (fun v => dkind_eqb (kind_of v) (kind_of v0)) nn
        then dkind_concat (kind_of v0) nn
        else Err E_TYPE
    end.
End WithRec.

(* concatMaps; out of fuel is the distinguished outcome [Panic]: deep_total (Props/C14.v)
   proves it never happens with the fuel [deep_maps_top] supplies *)
Fixpoint deep_maps (fuel : nat) (ms : list (list (string * dval))) : res (list (string * dval)) :=
  match fuel with
  | O => Panic
  | S f => kstep (dkey (deep_maps f)) ms
  end.

Definition deep_maps_top (ms : list (list (string * dval))) : res (list (string * dval)) :=
  deep_maps (S (mdepth ms)) ms.

(* concatStreamReader[map[string]any] *)
Definition dmap_stream (l : list (list (string * dval))) : res (list (string * dval)) :=
  match l with
  | [] => Err E_EMPTY
  | [x] => Ok x
  | _ => deep_maps_top l
  end.

End User.

(* the one-level values of Model/ConcatMsgMap.v are dvals *)
Definition d_of_mval (v : mval) : dval :=
  match v with MVPtrNil => DPtrNil | MVMsg m => DMsg m | MVVal c => DVal c end.
Definition d_of_mmap (m : list (string * mval)) : list (string * dval) :=
  map (fun kv => (fst kv, d_of_mval (snd kv))) m.
