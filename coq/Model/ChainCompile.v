(* Model/ChainCompile.v — which chains Chain.Compile accepts (C01), as a decidable predicate on the stage list.
   compose/chain.go / chain_parallel.go / chain_branch.go report the first construction error at Compile:
     - nothing appended:                          addEndIfNeeded "pre node keys not set"
     - AppendParallel with fewer than 2 nodes:    "append parallel invalid, not enough nodes"
     - two Parallel nodes with one output key:    Parallel.addNode "duplicate output key"
     - AppendBranch with fewer than 2 nodes:      "nodeList is empty" / "nodeList length = 1"
     - Parallel / Branch after a Parallel/Branch: "multiple previous nodes"
     - a node key used twice (explicit keys):     graph.addNode "node ... already present"
   Everything else the harness builds compiles (all nodes are map -> map, so the type checks of C07 pass).
   [chain_compiles sts = true] implies the hypothesis [chain_wf] of chain_lowering_correct
   (Proofs/PregelChainCompile.v), and Corr/C01.v compares it with what Compile did. *)
From Eino Require Import Base.Util Model.Graph Model.Chain Model.ChainSpec.
Open Scope N_scope.

Fixpoint nodupb (l : list N) : bool :=
  match l with
  | [] => true
  | x :: r => negb (memb x r) && nodupb r
  end.

(* the output keys of a Parallel: every node has one (Parallel.Add* takes it as an argument) *)
Fixpoint par_outkeys (ns : list snode) : option (list N) :=
  match ns with
  | [] => Some []
  | n :: r => match sn_outkey n, par_outkeys r with
              | Some k, Some ks => Some (k :: ks)
              | _, _ => None
              end
  end.

Definition par_ok (ns : list snode) : bool :=
  Nat.leb 2 (List.length ns) && match par_outkeys ns with Some ks => nodupb ks | None => false end.

(* [multi]: the previous stage was a Parallel or a Branch (several previous nodes) *)
Fixpoint stages_compile (multi : bool) (sts : list stage) : bool :=
  match sts with
  | [] => true
  | SNode _ :: rest => stages_compile false rest
  | SPar ns :: rest => negb multi && par_ok ns && stages_compile true rest
  | SBranch ns _ :: rest => negb multi && Nat.leb 2 (List.length ns) && stages_compile true rest
  end.

Definition chain_all_keys (sts : list stage) : list key := flat_map (fun st => map sn_key (stage_snodes st)) sts.

Definition chain_compiles (sts : list stage) : bool :=
  match sts with [] => false | _ => true end
  && nodupb (kSTART :: kEND :: chain_all_keys sts)
  && stages_compile false sts.

(* the forest entries the root reaches through sub-graph nodes (an entry no node refers to is never built) *)
Definition kind_subs (k : nkind) : list nat := match k with KSub i => [i] | _ => [] end.
Definition gdef_subs (d : gdef) : list nat :=
  match d with
  | GGraph g => flat_map (fun n => kind_subs (n_kind n)) (g_nodes g)
  | GChain sts _ => flat_map (fun st => flat_map (fun s => kind_subs (sn_kind s)) (stage_snodes st)) sts
  end.

Fixpoint reach (fuel : nat) (ds : list gdef) (i : nat) : list nat :=
  match fuel with
  | O => []
  | S f => i :: match nth_error ds i with
                | Some d => flat_map (reach f ds) (gdef_subs d)
                | None => []
                end
  end.

(* graphs of the forest are well-formed by construction (generator); chains may be malformed on purpose.
   Compile of the root fails iff a chain it reaches is not accepted. *)
Definition forest_compiles (ds : list gdef) : bool :=
  forallb (fun i => match nth_error ds i with
                    | Some (GChain sts _) => chain_compiles sts
                    | _ => true
                    end) (reach (S (List.length ds)) ds 0).
