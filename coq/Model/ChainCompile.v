(* Model/ChainCompile.v — which chains Chain.Compile accepts (C01), as a decidable predicate on the stage list.
   compose/chain.go / chain_parallel.go / chain_branch.go report the first construction error at Compile:
     - nothing appended:                          addEndIfNeeded "pre node keys not set"
     - AppendParallel with fewer than 2 nodes:    "append parallel invalid, not enough nodes"
     - two Parallel nodes with one output key:    Parallel.addNode "duplicate output key"
     - AppendBranch with fewer than 2 nodes:      "nodeList is empty" / "nodeList length = 1"
     - Parallel / Branch after a Parallel/Branch: "multiple previous nodes"
     - a node key used twice (explicit keys):     graph.addNode "node ... already present"
   Everything else the harness builds compiles (all nodes are map -> map, so the type checks of C07 pass).
   [chain_compiles sts = true] implies the hypothesis [chain_wf] of chain_lowering_correct
   (Proofs/PregelChainCompile.v), and Corr/C01.v compares it with what Compile did. *)
From Eino Require Import Base.Util Model.Graph Model.Chain Model.ChainSpec.
Open Scope N_scope.

Fixpoint nodupb (l : list N) : bool :=
  match l with
  | [] => true
  | x :: r => negb (memb x r) && nodupb r
  end.

(* the output keys of a Parallel: every node has one (Parallel.Add* takes it as an argument) *)
Fixpoint par_outkeys (ns : list snode) : option (list N) :=
  match ns with
  | [] => Some []
  | n :: r => match sn_outkey n, par_outkeys r with
              | Some k, Some ks => Some (k :: ks)
              | _, _ => None
              end
  end.

Definition par_ok (ns : list snode) : bool :=
  Nat.leb 2 (List.length ns) && match par_outkeys ns with Some ks => nodupb ks | None => false end.

(* [multi]: the previous stage was a Parallel or a Branch (several previous nodes) *)
Fixpoint stages_compile (multi : bool) (sts : list stage) : bool :=
  match sts with
  | [] => true
  | SNode _ :: rest => stages_compile false rest
  | SPar ns :: rest => negb multi && par_ok ns && stages_compile true rest
  | SBranch ns _ :: rest => negb multi && Nat.leb 2 (List.length ns) && stages_compile true rest
  end.

Definition chain_all_keys (sts : list stage) : list key := flat_map (fun st => map sn_key (stage_snodes st)) sts.

Definition chain_compiles (sts : list stage) : bool :=
  match sts with [] => false | _ => true end
  && nodupb (kSTART :: kEND :: chain_all_keys sts)
  && stages_compile false sts.

(* graphs of the forest are well-formed by construction (generator); chains may be malformed on purpose *)
Definition forest_compiles (ds : list gdef) : bool :=
  forallb (fun d => match d with GChain sts _ => chain_compiles sts | GGraph _ => true end) ds.
