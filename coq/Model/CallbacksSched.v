(* Model/CallbacksSched.v — schedules of a (nested, layered) graph run and what every
   execution unit is expected to emit (property C10).

   [Model/Callbacks.v] gives the operations of a graph run in ONE canonical order
   ([graph_ops]: the nodes of a stage one after the other).  In the implementation the tasks
   of a stage are goroutines (compose/graph_manager.go submit / executor): the operations of
   parallel nodes, and of everything nested inside them, interleave arbitrarily.  Here the run
   is a program tree ([prog]: sequential and parallel composition of operations), [traces]
   is the set of all its schedules, and [graph_prog] is the tree of a graph run; flattening it
   left to right gives back [graph_ops] (Proofs/CallbacksSched.v, [flatten_graph_prog]).

   [graph_table] is the closed form of the property: the units that execute, each with its
   run info, its handler list (inherited ++ designated, top down) and the timings of its
   start and of its end (end / stream end / error).

   Definitions only. *)
From Coq Require Import List Arith NArith Bool.
From Eino Require Import Base.Util Base.GoSlice Model.Callbacks.
Import ListNotations.

(* ------------------------------------------------------------------ programs and schedules *)

Inductive prog :=
| PNil
| PAtom (o : op)
| PSeq (a b : prog)      (* a, then b *)
| PPar (a b : prog).     (* a and b concurrently *)

(* the left-to-right schedule *)
Fixpoint flatten (p : prog) : list op :=
  match p with
  | PNil => []
  | PAtom o => [o]
  | PSeq a b => flatten a ++ flatten b
  | PPar a b => flatten a ++ flatten b
  end.

(* two other schedules, for examples: parallel branches advance in turn (round robin);
   parallel branches run one after the other, right to left *)
Fixpoint alt {A : Type} (l1 l2 : list A) : list A :=
  match l1, l2 with
  | [], _ => l2
  | _, [] => l1
  | a :: l1', b :: l2' => a :: b :: alt l1' l2'
  end.
Fixpoint flatten_alt (p : prog) : list op :=
  match p with
  | PNil => []
  | PAtom o => [o]
  | PSeq a b => flatten_alt a ++ flatten_alt b
  | PPar a b => alt (flatten_alt a) (flatten_alt b)
  end.
Fixpoint flatten_rl (p : prog) : list op :=
  match p with
  | PNil => []
  | PAtom o => [o]
  | PSeq a b => flatten_rl a ++ flatten_rl b
  | PPar a b => flatten_rl b ++ flatten_rl a
  end.

Definition seq_list (l : list prog) : prog := fold_right PSeq PNil l.
Definition par_list (l : list prog) : prog := fold_right PPar PNil l.   (* n-ary parallel *)
Definition atoms (l : list op) : prog := seq_list (map PAtom l).

(* [l] is an interleaving of [l1] and [l2] *)
Inductive Merge {A : Type} : list A -> list A -> list A -> Prop :=
| M_nil : Merge [] [] []
| M_l : forall a l1 l2 l, Merge l1 l2 l -> Merge (a :: l1) l2 (a :: l)
| M_r : forall a l1 l2 l, Merge l1 l2 l -> Merge l1 (a :: l2) (a :: l).

(* all schedules of a program *)
Inductive traces : prog -> list op -> Prop :=
| T_nil : traces PNil []
| T_atom : forall o, traces (PAtom o) [o]
| T_seq : forall a b ta tb, traces a ta -> traces b tb -> traces (PSeq a b) (ta ++ tb)
| T_par : forall a b ta tb t, traces a ta -> traces b tb -> Merge ta tb t -> traces (PPar a b) t.

(* the unit an operation belongs to: the one it creates, or the one whose On it is *)
Definition op_unit (o : op) : ukey :=
  match o with
  | ORaw n _ _ _ _ => n
  | OAppend _ n _ _ => n
  | OReuse _ n _ => n
  | OOn u _ => u
  | OAlias _ n _ _ _ => n
  end.
Definition touches (U : list ukey) (o : op) : bool := existsb (N.eqb (op_unit o)) U.

(* ------------------------------------------------------------------ the stages that execute *)

(* runner.run: the stages up to and including the first one in which a node fails *)
Fixpoint exec_rs {X : Type} (rs : list (list (X * bool))) : list (list (X * bool)) :=
  match rs with
  | [] => []
  | st :: rs' => st :: (if existsb snd st then [] else exec_rs rs')
  end.
Definition rs_failed {X : Type} (rs : list (list (X * bool))) : bool := existsb (existsb snd) rs.

(* ------------------------------------------------------------------ the program of a graph run *)

Definition stages_prog (rs : list (list (prog * bool))) : prog * bool :=
  (seq_list (map (fun st => par_list (map fst st)) (exec_rs rs)), rs_failed rs).

Definition graph_body_prog (is_stream : bool) (g : ukey) (ok : bool) (rs : list (list (prog * bool)))
  : prog * bool :=
  if negb ok then (atoms [OOn g (graph_start is_stream); OOn g TError], true)
  else
    let b := stages_prog rs in
    (PSeq (PAtom (OOn g (graph_start is_stream)))
          (PSeq (fst b) (PAtom (OOn g (if snd b then TError else graph_end is_stream)))), snd b).

Fixpoint node_prog (is_stream : bool) (parent : ukey) (opts : list copt) (n : gnode) {struct n}
  : prog * bool :=
  match n with
  | GLambda uid key inf natives fails =>
      let p := pick_native is_stream natives in
      (atoms [OAppend (Some parent) uid inf (designated key opts);
              OOn uid (start_timing_of p);
              OOn uid (if fails then TError else end_timing_of p)], fails)
  | GPass uid key => (PAtom (OAppend (Some parent) uid 0%N (designated key opts)), false)
  | GSub uid key inf stages =>
      let sopts := sub_opts key opts in
      let r := graph_body_prog is_stream uid (graph_ok stages sopts)
                               (map (map (node_prog is_stream uid sopts)) stages) in
      (PSeq (PAtom (OAppend (Some parent) uid inf (designated key opts))) (fst r), snd r)
  | GTools uid key inf calls =>
      let p := pick_native is_stream 3 in
      let failed := existsb call_fails calls in
      (PSeq (PAtom (OAppend (Some parent) uid inf (designated key opts)))
         (PSeq (PAtom (OOn uid (start_timing_of p)))
            (PSeq (par_list (map (fun c => atoms (call_ops is_stream uid c)) calls))
                  (PAtom (OOn uid (if failed then TError else end_timing_of p))))), failed)
  | GStop => (PNil, true)
  end.

Definition graph_prog (is_stream : bool) (g : ukey) (ginf : info) (opts : list copt)
           (stages : list (list gnode)) : prog :=
  PSeq (PAtom (OAppend None g ginf (undesignated opts)))
       (fst (graph_body_prog is_stream g (graph_ok stages opts)
                             (map (map (node_prog is_stream g opts)) stages))).

(* all unit names of a node (executed or not) *)
Fixpoint uids (n : gnode) : list ukey :=
  match n with
  | GLambda uid _ _ _ _ => [uid]
  | GPass uid _ => [uid]
  | GSub uid _ _ stages => uid :: flat_map (flat_map uids) stages
  | GTools uid _ _ calls => uid :: map (fun c : ukey * info * N * bool => fst (fst (fst c))) calls
  | GStop => []
  end.
Definition stages_uids (stages : list (list gnode)) : list ukey := flat_map (flat_map uids) stages.

(* ------------------------------------------------------------------ what the property expects *)

(* one executed unit: name, run info, handler list, the timings of its On calls *)
Record uexp := { ue_unit : ukey; ue_info : info; ue_list : list handler; ue_timings : list timing }.

Definition stages_table {X : Type} (rs : list (list (list X * bool))) : list X * bool :=
  (List.concat (map (fun st => List.concat (map fst st)) (exec_rs rs)), rs_failed rs).

Definition body_table {X : Type} (ok : bool) (rs : list (list (list X * bool))) : list X * bool :=
  if negb ok then ([], true) else stages_table rs.

(* a tool call is served the handlers of its ToolsNode (ReuseHandlers), with the tool's run info *)
Definition call_uexp (is_stream : bool) (l : list handler) (c : ukey * info * N * bool) : uexp :=
  let '(cu, cinf, natives, fails) := c in
  let p := pick_native is_stream natives in
  {| ue_unit := cu; ue_info := cinf; ue_list := l;
     ue_timings := [start_timing_of p; if fails then TError else end_timing_of p] |}.

(* [inh] = the handler list of the enclosing graph unit *)
Fixpoint node_table (is_stream : bool) (inh : list handler) (opts : list copt) (n : gnode) {struct n}
  : list uexp * bool :=
  match n with
  | GLambda uid key inf natives fails =>
      let p := pick_native is_stream natives in
      ([{| ue_unit := uid; ue_info := inf; ue_list := inh ++ List.concat (designated key opts);
           ue_timings := [start_timing_of p; if fails then TError else end_timing_of p] |}], fails)
  | GPass uid key =>
      ([{| ue_unit := uid; ue_info := 0%N; ue_list := inh ++ List.concat (designated key opts);
           ue_timings := [] |}], false)
  | GSub uid key inf stages =>
      let l := inh ++ List.concat (designated key opts) in
      let sopts := sub_opts key opts in
      let r := body_table (graph_ok stages sopts) (map (map (node_table is_stream l sopts)) stages) in
      ({| ue_unit := uid; ue_info := inf; ue_list := l;
          ue_timings := [graph_start is_stream; if snd r then TError else graph_end is_stream] |} :: fst r,
       snd r)
  | GTools uid key inf calls =>
      let l := inh ++ List.concat (designated key opts) in
      let p := pick_native is_stream 3 in
      let failed := existsb call_fails calls in
      ({| ue_unit := uid; ue_info := inf; ue_list := l;
          ue_timings := [start_timing_of p; if failed then TError else end_timing_of p] |}
       :: map (call_uexp is_stream l) calls, failed)
  | GStop => ([], true)
  end.

Definition graph_table (is_stream : bool) (g : ukey) (ginf : info) (opts : list copt)
           (stages : list (list gnode)) : list uexp :=
  let l := List.concat (undesignated opts) in
  let r := body_table (graph_ok stages opts) (map (map (node_table is_stream l opts)) stages) in
  {| ue_unit := g; ue_info := ginf; ue_list := l;
     ue_timings := [graph_start is_stream; if snd r then TError else graph_end is_stream] |} :: fst r.

Definition uexp_events (w : world) (e : uexp) : list event :=
  flat_map (served w (ue_unit e) (ue_info e) (ue_list e)) (ue_timings e).

(* ------------------------------------------------------------------ the table with node paths *)

(* the same table, every unit with its node path from the top graph ([] = the graph itself):
   what compose.NewNodePath(keys...) addresses *)
Fixpoint node_table_p (is_stream : bool) (inh : list handler) (opts : list copt) (path : list N)
         (n : gnode) {struct n} : list (uexp * list N) * bool :=
  match n with
  | GLambda uid key inf natives fails =>
      let p := pick_native is_stream natives in
      ([({| ue_unit := uid; ue_info := inf; ue_list := inh ++ List.concat (designated key opts);
            ue_timings := [start_timing_of p; if fails then TError else end_timing_of p] |},
         path ++ [key])], fails)
  | GPass uid key =>
      ([({| ue_unit := uid; ue_info := 0%N; ue_list := inh ++ List.concat (designated key opts);
            ue_timings := [] |}, path ++ [key])], false)
  | GSub uid key inf stages =>
      let l := inh ++ List.concat (designated key opts) in
      let sopts := sub_opts key opts in
      let r := body_table (graph_ok stages sopts)
                          (map (map (node_table_p is_stream l sopts (path ++ [key]))) stages) in
      (({| ue_unit := uid; ue_info := inf; ue_list := l;
           ue_timings := [graph_start is_stream; if snd r then TError else graph_end is_stream] |},
        path ++ [key]) :: fst r,
       snd r)
  | GTools uid key inf calls =>
      (* a tool call has no node path of its own: it is addressed through its ToolsNode *)
      let l := inh ++ List.concat (designated key opts) in
      let p := pick_native is_stream 3 in
      let failed := existsb call_fails calls in
      (({| ue_unit := uid; ue_info := inf; ue_list := l;
           ue_timings := [start_timing_of p; if failed then TError else end_timing_of p] |}, path ++ [key])
       :: map (fun c => (call_uexp is_stream l c, path ++ [key])) calls, failed)
  | GStop => ([], true)
  end.

Definition graph_table_p (is_stream : bool) (g : ukey) (ginf : info) (opts : list copt)
           (stages : list (list gnode)) : list (uexp * list N) :=
  let l := List.concat (undesignated opts) in
  let r := body_table (graph_ok stages opts) (map (map (node_table_p is_stream l opts [])) stages) in
  ({| ue_unit := g; ue_info := ginf; ue_list := l;
      ue_timings := [graph_start is_stream; if snd r then TError else graph_end is_stream] |}, [])
  :: fst r.

(* p is a prefix of q *)
Definition is_prefix (p q : list N) : Prop := exists r, q = p ++ r.

(* the call option o attaches its handlers to the unit at node path q: an option without
   designation is for the whole graph and everything in it; a designated one for the
   designated nodes (and, for a sub graph node, everything in it) *)
Definition attaches (o : copt) (q : list N) : Prop :=
  snd o = [] \/ exists p, In p (snd o) /\ p <> [] /\ is_prefix p q.

