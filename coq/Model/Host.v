(* Model/Host.v — the host multi-agent of flow/agent/multiagent/host (stretch of property C18: the
   same "model reply -> stream tool-call checker -> hand off or answer" mechanism, without a loop).

   compose.go NewMultiAgent builds
     START -> host        chat model; state pre-handler: state.msgs = input, model input =
                          [system prompt] ++ input (SystemPrompt, default prompt when empty)
     host --branch--> {msg2MsgList, END}   StreamToolCallChecker on the host's output stream
     msg2MsgList          compose.ToList
     msg2MsgList --branch--> specialists   exactly one message with exactly one tool call, whose
                          function name is the specialist's name (anything else: error)
     specialist           pre-handler replaces the node input by state.msgs (a chat-model
                          specialist with a system prompt gets [its prompt] ++ state.msgs);
                          specialist -> END
   callback.go: WithAgentCallbacks — OnHandOff(first tool call's name, arguments) fires at the end
   of the host model whenever its (concatenated) reply has tool calls. *)
From Eino Require Import Base.Util Model.Tools Model.React.
Local Open Scope string_scope.

Definition default_host_prompt : string :=
  "decide which tool is best for the task and call only the best tool.".

(* a specialist: its name, and the system prompt of a chat-model specialist (None: an
   Invokable/Streamable lambda, or a chat model without prompt) *)
Record hspec : Type := mkHSpec { hs_name : string; hs_prompt : option string }.

Inductive herr : Type :=
| HModel            (* the host model failed *)
| HConcat           (* its chunks do not concatenate *)
| HNotOneCall       (* hand-off message without exactly one tool call *)
| HUnknown          (* the tool call names no specialist *)
| HSpecialist (e : N). (* the specialist failed *)

Inductive hout : Type := HFinal (m : msg) | HFailed (e : herr).

(* what a run shows: the host model's input, the specialist that ran and its input, the hand-off
   events reported to the callback, the outcome *)
Record htrace : Type := mkHTrace {
  ht_host_input : list msg;
  ht_handoff : option (string * list msg);
  ht_events : list (string * string);
  ht_out : hout }.

Fixpoint find_spec (name : string) (specs : list hspec) : option hspec :=
  match specs with
  | [] => None
  | s :: r => if String.eqb (hs_name s) name then Some s else find_spec name r
  end.

Section Host.
  Variable answer : string -> list msg -> res msg.   (* what the specialist [name] returns on its input *)
  Variable prompt : string.                          (* Host.SystemPrompt *)
  Variable specs : list hspec.

  Definition host_prompt : string := if String.eqb prompt "" then default_host_prompt else prompt.
  Definition host_input (input : list msg) : list msg := mkMsg RSystem host_prompt [] "" :: input.

  Definition spec_input (s : hspec) (input : list msg) : list msg :=
    match hs_prompt s with
    | Some p => if String.eqb p "" then input else mkMsg RSystem p [] "" :: input
    | None => input
    end.

  Definition events_of (calls : list call) : list (string * string) :=
    match calls with
    | [] => []
    | c :: _ => [(c_name c, c_args c)]
    end.

  (* the hand-off once the host's reply was routed to the specialists branch *)
  Definition hand_off (input : list msg) (calls : list call) : option (string * list msg) * hout :=
    match calls with
    | [c] =>
        match find_spec (c_name c) specs with
        | None => (None, HFailed HUnknown)
        | Some s =>
            let sin := spec_input s input in
            (Some (hs_name s, sin),
             match answer (hs_name s) sin with
             | Ok m => HFinal m
             | Err e => HFailed (HSpecialist e)
             | Panic => HFailed (HSpecialist E_PANIC)
             end)
        end
    | _ => (None, HFailed HNotOneCall)
    end.

  (* ---- the specification: answer directly iff the reply has no tool call ---- *)
  Definition host_spec (reply : step) (input : list msg) : htrace :=
    match reply with
    | SFail => mkHTrace (host_input input) None [] (HFailed HModel)
    | SMsg content calls _ =>
        match calls with
        | [] => mkHTrace (host_input input) None [] (HFinal (assistant content []))
        | _ => let '(h, o) := hand_off input calls in
               mkHTrace (host_input input) h (events_of calls) o
        end
    end.

  (* ---- the graph: the branch decides on the emitted chunks ---- *)
  Variable checker : list chunk -> bool.

  Definition host_run (md : mode) (reply : step) (input : list msg) : htrace :=
    match reply with
    | SFail => mkHTrace (host_input input) None [] (HFailed HModel)
    | SMsg content calls chunks =>
        match delivered md content calls chunks with
        | None => mkHTrace (host_input input) None [] (HFailed HConcat)
        | Some m =>
            if checker (emitted_chunks md content calls chunks) then
              let '(h, o) := hand_off input (m_calls m) in
              mkHTrace (host_input input) h (events_of (m_calls m)) o
            else mkHTrace (host_input input) None (events_of (m_calls m)) (HFinal m)
        end
    end.
End Host.
