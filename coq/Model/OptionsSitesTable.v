(* Model/OptionsSitesTable.v — property C16: where the options of a call flow inside runner.run,
   as Model/Options.v and Model/OptionsResume.v assume it (run_graph / run_resume_gen):

     validate ... opts           the option map of a run is computed once per run, from the options
                                 of THIS call, by runner.extractOption (distribution + validation of
                                 what is handed down), whatever the context of the call
                                 (Model/OptionsHosted.v) and before the checkpoint is looked at
     task_of ... m               every task of the run — restored from the checkpoint or created by
                                 a later step, the first or a later execution of a node in the run
                                 (loops) — is built from that one map, which is only read
     node_handlers k opts        the node's callback manager is initialised from the call's list
     convert_items (t_option t)  the node is called with its task's slice

   tools/go2v (extractor "c16tasks") re-checks these data-flow facts on compose/graph_run.go and
   compose/graph_manager.go with go/ast on every run and writes what it finds to
   Gen/OptTasks.v [option_flow]; Proofs/GenAgreeC16.v proves it equal to this table. *)
From Eino Require Import Base.Util.

Definition option_flow : list (string * bool) :=
  [ ("run: the option map is extracted unconditionally by runner.extractOption from the call's own options"%string, true);
    ("run: there is no other extraction"%string, true);
    ("run: neither the option map nor the option list is assigned again"%string, true);
    ("run: every restoreTasks / calculateNextTasks whose tasks are submitted is handed the option map"%string, true);
    ("calculateNextTasks: createTasks is handed the option map"%string, true);
    ("calculateNextTasks / createTasks / restoreTasks only read the option map"%string, true);
    ("run: the task manager is given the call's option list"%string, true);
    ("executor: initNodeCallbacks gets the node's key and the call's option list"%string, true);
    ("executor: the node is called with the task's option slice"%string, true) ].
