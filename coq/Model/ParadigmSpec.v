(* Model/ParadigmSpec.v — property C04, part 4: the graphs the harness builds, as syntax.

   The theorems of the graph level (Proofs/ParadigmProg.v) are about arbitrary [prog]s whose
   node bodies are functions satisfying [node_ok].  The harness's node bodies are the
   lambdas of harness/cmd/c04/nodes.go, mirrored by [node_of_spec]; a harness graph is
   therefore determined by first-order data ([sprog]), and [compile_sprog] is the [prog] it
   stands for.  [sprog_wf] is the decidable condition under which every node body of the
   compiled [prog] satisfies [node_ok] (Proofs/ParadigmSpec.v: [compile_ok]); the
   correspondence evaluates it on every case it is sent. *)
From Eino Require Import Base.Util Model.Paradigm Model.StreamOps Model.ParadigmProg.

Record swrap : Type := {
  sw_pre : option (N * nspec);
  sw_in : option N;
  sw_out : option N;
  sw_post : option (N * nspec)
}.

Inductive sprog : Type :=
| SNode (w : swrap) (id : N) (sp : nspec)
| SSeq (p q : sprog)
| SPar (ps : list sprog)
| SBranch (id : N) (c : cspec) (alts : list sprog)
| SSub (w : swrap) (p : sprog)
| SMap (f : fmap)
| SCheck (want_map : bool)
| SId
| SMulti (id : N) (c : cspec) (alts : list sprog)
| SLoop (id : N) (c : lspec) (body : sprog) (fuel : nat).

Definition compile_handler (h : option (N * nspec)) : option (N * node val val) :=
  match h with Some (i, sp) => Some (i, node_of_spec sp) | None => None end.

Definition compile_wrap (w : swrap) : wrap :=
  {| w_pre := compile_handler (sw_pre w); w_in := sw_in w; w_out := sw_out w;
     w_post := compile_handler (sw_post w) |}.

Fixpoint compile_sprog (p : sprog) : prog :=
  match p with
  | SNode w id sp => PNode (compile_wrap w) id (node_of_spec sp)
  | SSeq p q => PSeq (compile_sprog p) (compile_sprog q)
  | SPar ps => PPar (map compile_sprog ps)
  | SBranch id c alts => PBranch id (cond_of_spec c) (map compile_sprog alts)
  | SSub w p => PSub (compile_wrap w) (compile_sprog p)
  | SMap f => PMap f
  | SCheck m => PCheck m
  | SId => PId
  | SMulti id c alts => PMulti id (mcond_of_spec c) (map compile_sprog alts)
  | SLoop id c body fuel => PLoop id (loop_cond_of_spec c) (compile_sprog body) fuel
  end.

(* a harness lambda: at least one native implementation (AnyLambda rejects none); one of
   the three failure modes; the chunk-by-chunk transformer of kind 2 writes every input chunk under both of its keys,
   which is the function of the whole input only when the two keys differ *)
Definition spec_wf (sp : nspec) : bool :=
  (ns_I sp || ns_S sp || ns_C sp || ns_T sp)
  && N.leb (ns_fail sp) 2
  && (negb (ns_T sp && is_live sp && N.eqb (ns_kind sp) 2) || negb (N.eqb (ns_k1 sp) (ns_k2 sp))).

Definition handler_wf (h : option (N * nspec)) : bool :=
  match h with Some (_, sp) => spec_wf sp | None => true end.

Definition swrap_wf (w : swrap) : bool := handler_wf (sw_pre w) && handler_wf (sw_post w).

Fixpoint sprog_wf (p : sprog) : bool :=
  match p with
  | SNode w _ sp => swrap_wf w && spec_wf sp
  | SSeq p q => sprog_wf p && sprog_wf q
  | SPar ps => negb (match ps with [] => true | _ => false end) && forallb sprog_wf ps
  | SBranch _ c alts => forallb sprog_wf alts
  | SSub w p => swrap_wf w && sprog_wf p
  | SMap f => fmap_wf f
  | SCheck _ => true
  | SId => true
  | SMulti _ _ alts => forallb sprog_wf alts
  | SLoop _ _ body _ => sprog_wf body
  end.

(* the interleaving the model run uses in the correspondence: the sources one after the
   other (the value of an in-domain run does not depend on it: Props/C04.v) *)
Definition seq_mrg (_ : list nat) (ls : list (stream val)) : stream val := merge_seq ls.

(* ------------------------------------------------------------------ concrete graphs *)
(* used as witnesses and non-vacuity examples in Props/C04.v (the first two are the corpus
   cases f_c04_fanin_dupkey.json and f_c04b_inkey_missing.json) *)
Definition sw_none : swrap := {| sw_pre := None; sw_in := None; sw_out := None; sw_post := None |}.
Definition sw_outkey (k : N) : swrap := {| sw_pre := None; sw_in := None; sw_out := Some k; sw_post := None |}.
Definition sw_inkey (k : N) : swrap := {| sw_pre := None; sw_in := Some k; sw_out := None; sw_post := None |}.

Definition spec_simple (kind : N) (tag : string) (k1 k2 : N) (i s c t : bool) (pol : N) (live : bool) : nspec :=
  {| ns_kind := kind; ns_tag := tag; ns_k1 := k1; ns_k2 := k2;
     ns_I := i; ns_S := s; ns_C := c; ns_T := t; ns_pol := pol; ns_fail := 0; ns_live := live |}.

(* two Invoke-native nodes with the same output key feeding an Invoke-native map node *)
Definition dupkey_prog : sprog :=
  SSeq (SPar [SNode (sw_outkey 0) 1 (spec_simple 0 "n1" 0 0 true false false false 0 false);
              SNode (sw_outkey 0) 2 (spec_simple 0 "n2" 0 0 true false false false 0 false)])
       (SNode sw_none 3 (spec_simple 3 "n3" 5 0 true false false false 0 false)).

(* a Transform-native chunk-by-chunk node behind an input key nobody produces *)
Definition nokey_prog : sprog :=
  SNode (sw_inkey 7) 1 (spec_simple 0 "n1" 0 0 false false false true 0 true).

(* fan-out to a Stream-native and a Transform-native producer under different output keys,
   fan-in into a Collect-native node, then a stream branch *)
Definition mixed_prog : sprog :=
  SSeq (SPar [SNode (sw_outkey 0) 1 (spec_simple 0 "n1" 0 0 false true false false 1 false);
              SNode (sw_outkey 1) 2 (spec_simple 0 "n2" 0 0 false false false true 3 true)])
  (SSeq (SNode sw_none 3 (spec_simple 1 "n3" 0 0 false false true false 0 false))
        (SBranch 4 {| cs_collect := true; cs_n := 2; cs_fail := false |}
                 [SNode sw_none 6 (spec_simple 2 "n6" 2 3 false false false true 1 true);
                  SNode sw_none 5 (spec_simple 0 "n5" 0 0 true false false false 2 false)])).

(* Workflow: a map producer, a field mapping from a key it does not produce, a string consumer
   (corpus f_c04c_fieldmap_missing.json) *)
Definition fmiss_prog : sprog :=
  SSeq (SNode sw_none 1 (spec_simple 2 "n1" 0 1 true false false false 0 false))
  (SSeq (SMap (FTake 7 false))
        (SNode sw_none 2 (spec_simple 0 "n2" 0 0 false false false true 0 true))).

(* Workflow: fan-out to a map producer and a string producer, field mappings into distinct
   fields of the consumer's input map *)
Definition wf_prog : sprog :=
  SSeq (SPar [SSeq (SNode sw_none 1 (spec_simple 2 "n1" 0 1 false true false false 1 false))
                   (SMap (FTo [(Some 1%N, 5%N); (Some 0%N, 6%N)]));
              SSeq (SNode sw_none 2 (spec_simple 0 "n2" 0 0 false false false true 3 true))
                   (SMap (FTo [(None, 7%N)]))])
       (SNode sw_none 3 (spec_simple 1 "n3" 0 0 false false true false 0 false)).

(* a cycle: a chunk-by-chunk transformer and a Stream-native node, run again while the
   value is shorter than 20 characters (stream condition) *)
Definition loop_prog : sprog :=
  SSeq (SLoop 9 {| ls_collect := true; ls_bound := 20; ls_fail := false |}
          (SSeq (SNode sw_none 1 (spec_simple 0 "n1" 0 0 false false false true 1 true))
                (SNode sw_none 2 (spec_simple 0 "n2" 0 0 false true false false 3 false)))
          22)
       (SNode sw_none 3 (spec_simple 0 "n3" 0 0 true false false false 0 false)).

(* a multi-branch: on the input "ab" (size 2, mask 1 + 2 mod 7 = 3) the stream condition
   selects alternatives 0 and 1 of three *)
Definition multi_prog : sprog :=
  SSeq (SMulti 9 {| cs_collect := true; cs_n := 3; cs_fail := false |}
          [SNode (sw_outkey 0) 1 (spec_simple 0 "n1" 0 0 false true false false 1 false);
           SNode (sw_outkey 1) 2 (spec_simple 0 "n2" 0 0 false false false true 3 true);
           SNode (sw_outkey 2) 3 (spec_simple 0 "n3" 0 0 true false false false 0 false)])
       (SNode sw_none 4 (spec_simple 1 "n4" 0 0 false false true false 0 false)).

(* nested maps: a Stream-native map producer in two chunks under the output key 0 (the value
   under that key is a map: in Go a map[string]string or a map[string]any) next to a string
   under the key 1; then a Collect-native node behind the input key 0 (it reads the nested
   map) next to a Transform-native map producer under the output key 3 (two levels of
   nesting); a node that renders the whole map *)
Definition nested_prog : sprog :=
  SSeq (SPar [SNode (sw_outkey 0) 1 (spec_simple 2 "n1" 5 6 false true false false 1 false);
              SNode (sw_outkey 1) 2 (spec_simple 0 "n2" 0 0 true false false false 0 false)])
  (SSeq (SPar [SNode {| sw_pre := None; sw_in := Some 0%N; sw_out := Some 2%N; sw_post := None |} 3
                     (spec_simple 1 "n3" 0 0 false false true false 0 false);
               SNode (sw_outkey 3) 4 (spec_simple 3 "n4" 7 0 false false false true 2 false)])
        (SNode sw_none 5 (spec_simple 1 "n5" 0 0 true false false false 0 false))).

(* Workflow over nested maps: MapFields from a field that holds a map (a Stream-native map
   producer in two chunks under the output key 0), ToField of a whole map, fan-in through
   the distinct target fields 5 and 6; then FromField of the nested map under 5 *)
Definition wfn_prog : sprog :=
  SSeq (SPar [SSeq (SNode (sw_outkey 0) 1 (spec_simple 2 "n1" 2 3 false true false false 1 false))
                   (SMap (FTo [(Some 0%N, 5%N)]));
              SSeq (SNode sw_none 2 (spec_simple 2 "n2" 8 9 false false false true 2 true))
                   (SMap (FTo [(None, 6%N)]))])
  (SSeq (SNode sw_none 3 (spec_simple 3 "n3" 7 0 false false true false 0 false))
  (SSeq (SNode (sw_outkey 4) 4 (spec_simple 3 "n4" 10 0 false true false false 2 false))
  (SSeq (SMap (FTake 4 true))
        (SNode sw_none 5 (spec_simple 1 "n5" 0 0 false false false true 0 false))))).

(* a node of kind 4 (the input map under a key) whose only native is the chunk-by-chunk
   transformer, behind a Stream-native map producer that emits its map key by key *)
Definition wrap_prog : sprog :=
  SSeq (SNode sw_none 1 (spec_simple 2 "n1" 2 3 false true false false 1 false))
  (SSeq (SNode sw_none 2 (spec_simple 4 "n2" 5 0 false false false true 0 true))
        (SNode sw_none 3 (spec_simple 1 "n3" 0 0 false false true false 0 false))).
