(* Model/FieldMapGenLib.v — property C15: the vocabulary of the statement-by-statement translations
   of compose/field_mapping.go:extractFieldType and compose/workflow.go:checkAndAddMappedPath,
   canonicalTargetPath (tools/go2v, extractors "c15_fieldtype", "c15_mappedpath", "c15_canonical" ->
   Gen/C15FieldType.v, Gen/C15MappedPath.v, Gen/C15Canonical.v): what the reflect operations and the
   Go map operations used there mean on the model's data (Base/FMUniverse.v, Model/FieldMap.v).
   Definitions only.  A reflect operation that panics in Go is partial here ([None]); the agreement
   theorems (Proofs/GenAgreeC15.v) show that the translated functions never reach such a call. *)
From Eino Require Import Base.Util Base.FMUniverse Model.FieldMap Model.FieldMapPromote.
Local Open Scope string_scope.

(* ------------------------------------------------------------------ reflect.Type *)

Definition kind_name (t : ty) : string :=
  match t with
  | TInt => "Int" | TStr => "String" | TAny => "Interface"
  | TStruct _ => "Struct" | TPtr _ => "Ptr" | TMap _ _ => "Map"
  end.

(* t.Kind() == reflect.K *)
Definition rt_kind_is (k : string) (t : ty) : bool := String.eqb k (kind_name t).

(* t.Elem(): pointer and map types (reflect panics on the other kinds of the universe) *)
Definition rt_elem (t : ty) : option ty :=
  match t with TPtr u => Some u | TMap _ e => Some e | _ => None end.

(* t.Elem().Kind() == reflect.K *)
Definition rt_elem_kind_is (k : string) (t : ty) : option bool :=
  match rt_elem t with Some e => Some (rt_kind_is k e) | None => None end.

(* t.Key() == strType: map types only *)
Definition rt_key_is_string (t : ty) : option bool :=
  match t with TMap ks _ => Some ks | _ => None end.

(* reflect.StructField as far as the translated code looks at it: IsExported(), Type, and the
   embedded fields t.FieldByIndex(f.Index[:j]), 1 <= j < len(f.Index), through which a promoted
   field is reached.  The model resolves DIRECT fields only — promoted names are spelled out before
   (Model/FieldMapPromote.v: expand, tied to canonicalTargetPath below) — so the chain is empty. *)
Record sfield : Type := { sf_exported : bool; sf_type : ty; sf_chain : list (bool * ty) }.

(* the embedded field at step j of the chain: its own IsExported() and Type *)
Definition ef_exported (e : bool * ty) : bool := fst e.
Definition ef_type (e : bool * ty) : ty := snd e.

(* t.FieldByName(name): struct types only (reflect panics otherwise); inner None = not found *)
Definition rt_field_by_name (env : senv) (t : ty) (f : N) : option (option sfield) :=
  match t with
  | TStruct n =>
      Some (match lookup_field env n f with
            | Some (ex, ft) => Some {| sf_exported := ex; sf_type := ft; sf_chain := [] |}
            | None => None
            end)
  | _ => None
  end.

(* len(paths) == 1 && len(paths[0]) == 0: Go spells the path to the whole value [""] (what
   splitFieldPath gives for the empty string); the model spells it [] and its names are never empty *)
Definition rt_single_empty_name (p : path) : bool := false.

(* i < len(paths)-1 inside `for i, field := range paths`: [rest] = the elements after the current one *)
Definition rt_more (rest : path) : bool := match rest with [] => false | _ :: _ => true end.

(* ------------------------------------------------------------------ the trie of mapped target paths

   n.mappedFieldPath[""] holds a map[string]any whose values are struct{}{} (a mapped path ends
   here: [Term]) or nested maps ([Node]).  Go maps are references: the loop of checkAndAddMappedPath
   walks down with `m = v.(map[string]any)` and every later `m[k] = x` is seen from the root.  The
   translation keeps a CURSOR: the content of the map [m] points to, and the way back up (the keys
   and the contents of the maps above, a zipper).  A map created by make() is DETACHED until it is
   stored into the map it is meant for; what is written into a detached map is lost. *)

(* the value of the Go variable v: what m[k] gave / what make() gave, and whether the map the
   cursor is in holds it under the key it was looked up with / stored under *)
Record vref : Type := { v_val : option trie; v_at : option N }.   (* v_at = Some k: attached at m[k] *)

Record cursor : Type := {
  cu_m : list (N * trie);                       (* the content of the map m points to *)
  cu_up : list (N * list (N * trie));           (* innermost first: (key under which m is stored, content of its parent) *)
  cu_detached : bool;                           (* m (or a map above it) is not reachable from the root *)
  cu_nil : bool                                 (* m is the nil map (a failed type assertion): reads find nothing, a write panics *)
}.

Definition cursor_at_root (cs : list (N * trie)) : cursor :=
  {| cu_m := cs; cu_up := []; cu_detached := false; cu_nil := false |}.
Definition cursor_nil : cursor := {| cu_m := []; cu_up := []; cu_detached := true; cu_nil := true |}.

(* the state of n.mappedFieldPath[""]: absent, struct{}{} or a map *)
Definition root_state : Type := option trie.

(* _, ok := n.mappedFieldPath[""] *)
Definition root_present (r : root_state) : bool := match r with Some _ => true | None => false end.

(* m, ok := n.mappedFieldPath[""].(map[string]any) *)
Definition root_as_map (r : root_state) : cursor * bool :=
  match r with
  | Some (Node cs) => (cursor_at_root cs, true)
  | _ => (cursor_nil, false)
  end.

(* v, exist := m[k] *)
Definition cur_lookup (c : cursor) (k : N) : vref * bool :=
  match aget k (cu_m c) with
  | Some t => ({| v_val := Some t; v_at := Some k |}, true)
  | None => ({| v_val := None; v_at := None |}, false)
  end.

(* _, terminal := v.(struct{}) *)
Definition v_is_terminal (v : vref) : bool := match v_val v with Some Term => true | _ => false end.

(* v = make(map[string]any) *)
Definition v_make : vref := {| v_val := Some (Node []); v_at := None |}.

(* m[k] = v  (v a variable).  [None]: a write into the nil map panics; storing a nil interface value
   (v after a failed lookup) is outside what the trie represents *)
Definition cur_store_var (c : cursor) (k : N) (v : vref) : option (cursor * vref) :=
  if cu_nil c then None else
  match v_val v with
  | Some t => Some ({| cu_m := ains k t (cu_m c); cu_up := cu_up c; cu_detached := cu_detached c; cu_nil := false |},
                    {| v_val := Some t; v_at := Some k |})
  | None => None
  end.

(* m[k] = struct{}{} *)
Definition cur_store_term (c : cursor) (k : N) : option cursor :=
  if cu_nil c then None else
  Some {| cu_m := ains k Term (cu_m c); cu_up := cu_up c; cu_detached := cu_detached c; cu_nil := false |}.

(* what the variable v refers to after m[k] = struct{}{}: the map it held is no longer in m under k *)
Definition v_overwritten (v : vref) (k : N) : vref :=
  match v_at v with
  | Some k' => if N.eqb k k' then {| v_val := v_val v; v_at := None |} else v
  | None => v
  end.

(* m = v.(map[string]any): the type assertion panics unless v holds a map ([None]) *)
Definition cur_descend (c : cursor) (v : vref) : option cursor :=
  match v_val v with
  | Some (Node cs) =>
      Some (match v_at v with
            | Some k => {| cu_m := cs; cu_up := (k, cu_m c) :: cu_up c; cu_detached := cu_detached c; cu_nil := false |}
            | None => {| cu_m := cs; cu_up := []; cu_detached := true; cu_nil := false |}
            end)
  | _ => None
  end.

(* len(m) > 0 *)
Definition cur_nonempty (c : cursor) : bool := match cu_m c with [] => false | _ => true end.

(* n.mappedFieldPath[""] = x while m points into the old value: what is written through m from now on
   is not seen from the root *)
Definition cur_detach (c : cursor) : cursor :=
  {| cu_m := cu_m c; cu_up := cu_up c; cu_detached := true; cu_nil := cu_nil c |}.

(* the content of the root map after the writes through the cursor *)
Fixpoint zip_up (m : list (N * trie)) (up : list (N * list (N * trie))) : list (N * trie) :=
  match up with
  | [] => m
  | (k, parent) :: up' => zip_up (ains k (Node m) parent) up'
  end.

(* n.mappedFieldPath[""] as it is when control leaves the scope of m: Go's writes through m were
   visible at once; the translation brings the root up to date here *)
Definition cur_commit (r : root_state) (c : cursor) : root_state :=
  if cu_detached c then r else Some (Node (zip_up (cu_m c) (cu_up c))).

(* len(paths) == 0 , len(targetPath) == 0 *)
Definition list_is_empty {A} (l : list A) : bool := match l with [] => true | _ => false end.

(* ------------------------------------------------------------------ canonicalTargetPath *)

(* typ == nil: the node's input type is unknown to the graph; the model's nodes always have a type *)
Definition oty_is_nil (t : option ty) : bool := match t with None => true | Some _ => false end.

(* t.FieldByName(name) with promotion, as canonicalTargetPath sees it: the names of the embedded
   fields t.FieldByIndex(f.Index[:j]).Name, 1 <= j < len(f.Index), and f.Type — from the promotion
   table [penv] (generated from the Go declarations by reflection, Model/FieldMapPromote.v) *)
Record pfield : Type := { pf_type : ty; pf_chain_names : list N }.

Definition rt_field_by_name_p (env : senv) (pe : penv) (t : ty) (f : N) : option (option pfield) :=
  match t with
  | TStruct n =>
      Some (let c := promoted pe n f in
            match chain_ty env (TStruct n) (c ++ [f]) with
            | Some ft => Some {| pf_type := ft; pf_chain_names := c |}
            | None => None
            end)
  | _ => None
  end.
