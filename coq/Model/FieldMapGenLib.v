(* Model/FieldMapGenLib.v — property C15: the vocabulary of the statement-by-statement translations
   of compose/field_mapping.go:extractFieldType and compose/workflow.go:checkAndAddMappedPath,
   canonicalTargetPath (tools/go2v, extractors "c15_fieldtype", "c15_mappedpath", "c15_canonical" ->
   Gen/C15FieldType.v, Gen/C15MappedPath.v, Gen/C15Canonical.v): what the reflect operations and the
   Go map operations used there mean on the model's data (Base/FMUniverse.v, Model/FieldMap.v).
   Definitions only.  A reflect operation that panics in Go is partial here ([None]); the agreement
   theorems (Proofs/GenAgreeC15.v) show that the translated functions never reach such a call. *)
From Eino Require Import Base.Util Base.FMUniverse Model.FieldMap Model.FieldMapPromote.
Local Open Scope string_scope.

(* ------------------------------------------------------------------ reflect.Type *)

Definition kind_name (t : ty) : string :=
  match t with
  | TInt => "Int" | TStr => "String" | TAny => "Interface"
  | TStruct _ => "Struct" | TPtr _ => "Ptr" | TMap _ _ => "Map"
  end.

(* t.Kind() == reflect.K *)
Definition rt_kind_is (k : string) (t : ty) : bool := String.eqb k (kind_name t).

(* t.Elem(): pointer and map types (reflect panics on the other kinds of the universe) *)
Definition rt_elem (t : ty) : option ty :=
  match t with TPtr u => Some u | TMap _ e => Some e | _ => None end.

(* t.Elem().Kind() == reflect.K *)
Definition rt_elem_kind_is (k : string) (t : ty) : option bool :=
  match rt_elem t with Some e => Some (rt_kind_is k e) | None => None end.

(* t.Key() == strType: map types only *)
Definition rt_key_is_string (t : ty) : option bool :=
  match t with TMap ks _ => Some ks | _ => None end.

(* reflect.StructField as far as the translated code looks at it: IsExported(), Type, and the
   embedded fields t.FieldByIndex(f.Index[:j]), 1 <= j < len(f.Index), through which a promoted
   field is reached.  The model resolves DIRECT fields only — promoted names are spelled out before
   (Model/FieldMapPromote.v: expand, tied to canonicalTargetPath below) — so the chain is empty. *)
Record sfield : Type := { sf_exported : bool; sf_type : ty; sf_chain : list (bool * ty) }.

(* the embedded field at step j of the chain: its own IsExported() and Type *)
Definition ef_exported (e : bool * ty) : bool := fst e.
Definition ef_type (e : bool * ty) : ty := snd e.

(* t.FieldByName(name): struct types only (reflect panics otherwise); inner None = not found *)
Definition rt_field_by_name (env : senv) (t : ty) (f : N) : option (option sfield) :=
  match t with
  | TStruct n =>
      Some (match lookup_field env n f with
            | Some (ex, ft) => Some {| sf_exported := ex; sf_type := ft; sf_chain := [] |}
            | None => None
            end)
  | _ => None
  end.

(* len(paths) == 1 && len(paths[0]) == 0: Go spells the path to the whole value [""] (what
   splitFieldPath gives for the empty string); the model spells it [] and its names are never empty *)
Definition rt_single_empty_name (p : path) : bool := false.

(* i < len(paths)-1 inside `for i, field := range paths`: [rest] = the elements after the current one *)
Definition rt_more (rest : path) : bool := match rest with [] => false | _ :: _ => true end.

(* ------------------------------------------------------------------ the trie of mapped target paths

   n.mappedFieldPath[""] holds a map[string]any whose values are struct{}{} (a mapped path ends
   here: [Term]) or nested maps ([Node]).  Go maps are references: the loop of checkAndAddMappedPath
   walks down with `m = v.(map[string]any)` and every later `m[k] = x` is seen from the root.  The
   translation keeps a CURSOR: the content of the map [m] points to, and the way back up (the keys
   and the contents of the maps above, a zipper).  A map created by make() is DETACHED until it is
   stored into the map it is meant for; what is written into a detached map is lost. *)

(* the value of the Go variable v: what m[k] gave / what make() gave, and whether the map the
   cursor is in holds it under the key it was looked up with / stored under *)
Record vref : Type := { v_val : option trie; v_at : option N }.   (* v_at = Some k: attached at m[k] *)

Record cursor : Type := {
  cu_m : list (N * trie);                       (* the content of the map m points to *)
  cu_up : list (N * list (N * trie));           (* innermost first: (key under which m is stored, content of its parent) *)
  cu_detached : bool;                           (* m (or a map above it) is not reachable from the root *)
  cu_nil : bool                                 (* m is the nil map (a failed type assertion): reads find nothing, a write panics *)
}.

Definition cursor_at_root (cs : list (N * trie)) : cursor :=
  {| cu_m := cs; cu_up := []; cu_detached := false; cu_nil := false |}.
Definition cursor_nil : cursor := {| cu_m := []; cu_up := []; cu_detached := true; cu_nil := true |}.

(* the state of n.mappedFieldPath[""]: absent, struct{}{} or a map *)
Definition root_state : Type := option trie.

(* _, ok := n.mappedFieldPath[""] *)
Definition root_present (r : root_state) : bool := match r with Some _ => true | None => false end.

(* m, ok := n.mappedFieldPath[""].(map[string]any) *)
Definition root_as_map (r : root_state) : cursor * bool :=
  match r with
  | Some (Node cs) => (cursor_at_root cs, true)
  | _ => (cursor_nil, false)
  end.

(* v, exist := m[k] *)
Definition cur_lookup (c : cursor) (k : N) : vref * bool :=
  match aget k (cu_m c) with
  | Some t => ({| v_val := Some t; v_at := Some k |}, true)
  | None => ({| v_val := None; v_at := None |}, false)
  end.

(* _, terminal := v.(struct{}) *)
Definition v_is_terminal (v : vref) : bool := match v_val v with Some Term => true | _ => false end.

(* v = make(map[string]any) *)
Definition v_make : vref := {| v_val := Some (Node []); v_at := None |}.

(* m[k] = v  (v a variable).  [None]: a write into the nil map panics; storing a nil interface value
   (v after a failed lookup) is outside what the trie represents *)
Definition cur_store_var (c : cursor) (k : N) (v : vref) : option (cursor * vref) :=
  if cu_nil c then None else
  match v_val v with
  | Some t => Some ({| cu_m := ains k t (cu_m c); cu_up := cu_up c; cu_detached := cu_detached c; cu_nil := false |},
                    {| v_val := Some t; v_at := Some k |})
  | None => None
  end.

(* m[k] = struct{}{} *)
Definition cur_store_term (c : cursor) (k : N) : option cursor :=
  if cu_nil c then None else
  Some {| cu_m := ains k Term (cu_m c); cu_up := cu_up c; cu_detached := cu_detached c; cu_nil := false |}.

(* what the variable v refers to after m[k] = struct{}{}: the map it held is no longer in m under k *)
Definition v_overwritten (v : vref) (k : N) : vref :=
  match v_at v with
  | Some k' => if N.eqb k k' then {| v_val := v_val v; v_at := None |} else v
  | None => v
  end.

(* m = v.(map[string]any): the type assertion panics unless v holds a map ([None]) *)
Definition cur_descend (c : cursor) (v : vref) : option cursor :=
  match v_val v with
  | Some (Node cs) =>
      Some (match v_at v with
            | Some k => {| cu_m := cs; cu_up := (k, cu_m c) :: cu_up c; cu_detached := cu_detached c; cu_nil := false |}
            | None => {| cu_m := cs; cu_up := []; cu_detached := true; cu_nil := false |}
            end)
  | _ => None
  end.

(* len(m) > 0 *)
Definition cur_nonempty (c : cursor) : bool := match cu_m c with [] => false | _ => true end.

(* n.mappedFieldPath[""] = x while m points into the old value: what is written through m from now on
   is not seen from the root *)
Definition cur_detach (c : cursor) : cursor :=
  {| cu_m := cu_m c; cu_up := cu_up c; cu_detached := true; cu_nil := cu_nil c |}.

(* the content of the root map after the writes through the cursor *)
Fixpoint zip_up (m : list (N * trie)) (up : list (N * list (N * trie))) : list (N * trie) :=
  match up with
  | [] => m
  | (k, parent) :: up' => zip_up (ains k (Node m) parent) up'
  end.

(* n.mappedFieldPath[""] as it is when control leaves the scope of m: Go's writes through m were
   visible at once; the translation brings the root up to date here *)
Definition cur_commit (r : root_state) (c : cursor) : root_state :=
  if cu_detached c then r else Some (Node (zip_up (cu_m c) (cu_up c))).

(* len(paths) == 0 , len(targetPath) == 0 *)
Definition list_is_empty {A} (l : list A) : bool := match l with [] => true | _ => false end.

(* ------------------------------------------------------------------ canonicalTargetPath *)

(* typ == nil: the node's input type is unknown to the graph; the model's nodes always have a type *)
Definition oty_is_nil (t : option ty) : bool := match t with None => true | Some _ => false end.

(* t.FieldByName(name) with promotion, as canonicalTargetPath sees it: the names of the embedded
   fields t.FieldByIndex(f.Index[:j]).Name, 1 <= j < len(f.Index), and f.Type — from the promotion
   table [penv] (generated from the Go declarations by reflection, Model/FieldMapPromote.v) *)
Record pfield : Type := { pf_type : ty; pf_chain_names : list N }.

Definition rt_field_by_name_p (env : senv) (pe : penv) (t : ty) (f : N) : option (option pfield) :=
  match t with
  | TStruct n =>
      Some (let c := promoted pe n f in
            match chain_ty env (TStruct n) (c ++ [f]) with
            | Some ft => Some {| pf_type := ft; pf_chain_names := c |}
            | None => None
            end)
  | _ => None
  end.

(* ------------------------------------------------------------------ validateFieldMapping *)

(* fieldCheckers: joined target path -> handlerPair; the closure stored as its invoke function (by number) and the
   successor field type that closure captured.  A Go map: an assignment to a key that is there replaces the entry *)
Definition fcheckers : Type := list (path * (nat * ty)).

Fixpoint fc_set (k : path) (c : nat * ty) (l : fcheckers) : fcheckers :=
  match l with
  | [] => [(k, c)]
  | (k', c') :: l' => if path_eqb k k' then (k, c) :: l' else (k', c') :: fc_set k c l'
  end.

(* at == assignableTypeX ; checkAssignable itself is Model/FieldMap.v's check_assignable on this universe
   (property C07 ties compose/utils.go:checkAssignable to its own model) *)
Definition assn_is (name : string) (a : assn) : bool :=
  match a with
  | MustNot => String.eqb name "MustNot"
  | Must => String.eqb name "Must"
  | May => String.eqb name "May"
  end.

(* t = t.Elem() under `case reflect.Ptr` *)
Definition rt_elem_ptr (t : ty) : ty := match t with TPtr u => u | _ => t end.

(* reflect.TypeOf(a).AssignableTo(t) for a non-nil dynamic type *)
Definition rt_assignable_to (d : option ty) (t : ty) : bool :=
  match d with Some d' => assignable d' t | None => false end.

(* for k, v := range fieldCheckers { … }: the body threads the map of mapped values and may return an error;
   Go's iteration order is arbitrary — the list order stands for one of them *)
Fixpoint fc_for_each (l : fcheckers) (f : path -> nat * ty -> fmap -> res fmap) (acc : fmap) : res fmap :=
  match l with
  | [] => Ok acc
  | (k, c) :: l' => match f k c acc with Ok acc' => fc_for_each l' f acc' | e => e end
  end.

(* for key := range mValue { … } over the keys the map has when the loop starts *)
Fixpoint keys_for_each (ks : list path) (f : path -> fmap -> res fmap) (acc : fmap) : res fmap :=
  match ks with
  | [] => Ok acc
  | k :: ks' => match f k acc with Ok acc' => keys_for_each ks' f acc' | e => e end
  end.
Definition fm_for_each_key (m : fmap) (f : path -> fmap -> res fmap) : res fmap :=
  keys_for_each (map fst m) f m.

(* mValue[key], err = v.invoke(mValue[key]); if err != nil { return nil, err } — the closures hand their
   argument back unchanged when they accept it *)
Definition fc_apply (chk : nat -> ty -> val -> bool) (v : nat * ty) (key : path) (m : fmap) : res fmap :=
  let x := match fm_get key m with Some x => x | None => VNil end in
  if chk (fst v) (snd v) x then Ok (fm_set key x m) else Err ECheck.

(* ------------------------------------------------------------------ reflect.Value at request time (source side:
   takeOne, checkAndExtractFromField, checkAndExtractFromMapKey, fieldMap)

   A reflect.Value over the model's values: the zero Value ([None]), or a value together with
   "its Kind is Interface" (what MapIndex on a map[string]any, Field on a field of type any, Elem on a
   pointer to an interface give: a Value that still has to be unboxed) and CanInterface (exported). *)
Record rvalue : Type := { rv_iface : bool; rv_can : bool; rv_val : val }.
Definition rv : Type := option rvalue.

(* the errors the source walkers return, as fieldMap tells them apart with errors.As *)
Inductive gerr : Type := GErrKey | GErrIface | GErrOther.
Definition gerr_class (e : gerr) : N := match e with GErrKey => EKey | _ => ESrc end.
Inductive gres (A : Type) : Type := GOk (a : A) | GErr (e : gerr).
Arguments GOk {A} a.
Arguments GErr {A} e.

(* reflect.ValueOf(x) *)
Definition rv_of (x : val) : rv :=
  match x with VNil => None | _ => Some {| rv_iface := false; rv_can := true; rv_val := x |} end.

(* v.IsValid() *)
Definition rv_is_valid (r : rv) : bool := match r with Some _ => true | None => false end.

Definition val_kind_name (x : val) : string :=
  match x with
  | VNil => "Invalid" | VInt _ => "Int" | VStr _ => "String"
  | VStruct _ _ => "Struct" | VPtr _ _ => "Ptr" | VMap _ _ _ => "Map"
  end.

(* v.Kind() == reflect.K (the Kind of the zero Value is Invalid) *)
Definition rv_kind_is (k : string) (r : rv) : bool :=
  match r with
  | None => String.eqb k "Invalid"
  | Some a => if rv_iface a then String.eqb k "Interface" else String.eqb k (val_kind_name (rv_val a))
  end.

(* v.Elem(): pointers and interface-kinded Values (reflect panics otherwise) *)
Definition rv_elem (r : rv) : option rv :=
  match r with
  | Some a =>
      if rv_iface a then Some (rv_of (rv_val a))
      else match rv_val a with
           | VPtr u (Some w) => Some (Some {| rv_iface := is_any u; rv_can := rv_can a; rv_val := w |})
           | VPtr u None => Some None
           | _ => None
           end
  | None => None
  end.

(* v.Type() (panics on the zero Value); the type of an interface-kinded Value is the interface type *)
Definition rv_type (r : rv) : option (option ty) :=
  match r with
  | Some a => Some (if rv_iface a then Some TAny else dyn (rv_val a))
  | None => None
  end.

(* v.Interface() (panics on the zero Value and on a Value obtained through an unexported field) *)
Definition rv_interface (r : rv) : option val :=
  match r with
  | Some a => if rv_can a then Some (rv_val a) else None
  | None => None
  end.

(* v.CanInterface() *)
Definition rv_can_interface (r : rv) : bool := match r with Some a => rv_can a | None => false end.

(* reflect.TypeOf(key).AssignableTo(v.Type().Key()) for a string key: maps only *)
Definition rv_key_is_string (r : rv) : option bool :=
  match r with
  | Some a => if rv_iface a then None else match rv_val a with VMap ks _ _ => Some ks | _ => None end
  | None => None
  end.

(* v.MapIndex(reflect.ValueOf(key)) *)
Definition rv_map_index (r : rv) (k : N) : option rv :=
  match r with
  | Some a =>
      if rv_iface a then None else
      match rv_val a with
      | VMap _ e (Some es) =>
          Some (match aget k es with
                | Some x => Some {| rv_iface := is_any e; rv_can := true; rv_val := x |}
                | None => None
                end)
      | VMap _ _ None => Some None
      | _ => None
      end
  | None => None
  end.

(* fieldByName(v, name, false) of field_mapping.go on a struct Value, for DIRECT fields (a promoted name below
   an interface-typed slot is outside the model): the zero Value when the struct has no such field; the field —
   absent in the sparse value = the zero value of its type — otherwise. reflect panics on a non-struct. *)
Definition rv_field_by_name (env : senv) (r : rv) (name : N) : option (gres rv) :=
  match r with
  | Some a =>
      if rv_iface a then None else
      match rv_val a with
      | VStruct n fs =>
          Some (GOk (match lookup_field env n name with
                     | Some (ex, ft) =>
                         Some {| rv_iface := is_any ft; rv_can := ex && rv_can a;
                                 rv_val := match aget name fs with Some x => x | None => zero ft end |}
                     | None => None
                     end))
      | _ => None
      end
  | None => None
  end.

(* t.Kind() == reflect.K on a reflect.Type that may be nil (the call panics then) *)
Definition rt_okind_is (k : string) (t : option ty) : option bool :=
  match t with Some t' => Some (rt_kind_is k t') | None => None end.

(* how the loop of fieldMap over one source path ends: the value at the end of the path, `return nil, err`,
   or `continue loop` (the mapping is skipped) *)
Inductive path_outcome : Type := PDone (taken : val) | PReturn (e : gerr) | PContinueOuter.

(* errors.As(err, &v) with v of type *errT *)
Definition gerr_is (name : string) (e : gerr) : bool :=
  match e with
  | GErrKey => String.eqb name "errMapKeyNotFound"
  | GErrIface => String.eqb name "errInterfaceNotValidForFieldMapping"
  | GErrOther => false
  end.
