(* Model/CheckpointStreamLib.v — property C05: the vocabulary of the translation of the stream <-> value conversion
   of checkpointed data (tools/go2v, extractor "cpstream" -> Gen/CheckpointStream.v).

   An entry of checkpoint.Inputs / of a channel's Values is an `any`. What it can hold:
       DNil            plain nil
       DNilChunk       the marker nilChunk{}
       DVal v          a non-nil value of the node's type
       DStream items   a stream, given by the list of its chunks; a chunk of an INTERFACE chunk type may itself be
                       the nil value of that type: chunk = option V, None = nil
   Definitions only. *)
From Eino Require Import Base.Util.
Open Scope N_scope.

Inductive dyn (V : Type) : Type :=
| DNil | DNilChunk | DVal (v : V) | DStream (items : list (option V)).
Arguments DNil {V}. Arguments DNilChunk {V}. Arguments DVal {V}. Arguments DStream {V}.

(* (T, error) of concatStreamReader, the error emptyStreamConcatErr told apart *)
Inductive cres (V : Type) : Type := CEmpty | COk (c : option V) | CErr (e : N).
Arguments CEmpty {V}. Arguments COk {V}. Arguments CErr {V}.

Definition eDynType : N := 40.      (* a type assertion on the entry failed *)
Definition eConcatPanic : N := 41.

Section Lib.
  Context {V : Type}.
  Definition dyn_is_nil (v : dyn V) : bool := match v with DNil => true | _ => false end.            (* v == nil *)
  Definition dyn_is_nilchunk (v : dyn V) : bool := match v with DNilChunk => true | _ => false end.  (* _, ok := v.(nilChunk) *)
  Definition dyn_value (v : dyn V) : option V := match v with DVal x => Some x | _ => None end.      (* value, ok := a.(T) *)
  Definition chunk_is_nil (c : option V) : bool := match c with None => true | Some _ => false end.  (* any(value) == nil *)
  (* `return value, nil` as an any: the nil value of an interface type IS the plain nil *)
  Definition dyn_of_chunk (c : option V) : dyn V := match c with Some x => DVal x | None => DNil end.
  (* `var t T` of an interface chunk type (the only chunk types for which nilChunk is ever written) *)
  Definition zero_chunk : option V := None.
  Definition nth_chunk (n : nat) (items : list (option V)) : option V := nth n items None.
  Definition cres_of (r : res (option V)) : cres V :=
    match r with Ok c => COk c | Err e => CErr e | Panic => CErr eConcatPanic end.
End Lib.
